(** Proofs about the interleaving model of the supervision tree (TreeConc.v):
    the safety invariant (descendants first, for all interleavings with
    third-party pills and crashes) and the absence of hangs. *)
From Coq Require Import List Arith Lia Bool.
Import ListNotations.
From HV Require Import Tree TreeProofs TreeConc.

Lemma pill_eqb_spec a b : pill_eqb a b = true <-> a = b.
Proof.
  destruct a, b; cbn; try (split; [discriminate|congruence]).
  - rewrite Nat.eqb_eq. split; congruence.
  - rewrite andb_true_iff, !Nat.eqb_eq. split; [intros [-> ->]; reflexivity|intros [= -> ->]; auto].
Qed.
Lemma pill_eqb_refl a : pill_eqb a a = true.
Proof. apply pill_eqb_spec. reflexivity. Qed.

Lemma updp_eq {A} (f : pill -> A) k v : updp f k v k = v.
Proof. unfold updp. rewrite pill_eqb_refl. reflexivity. Qed.
Lemma updp_true f k j : updp f k true j = true <-> j = k \/ f j = true.
Proof.
  unfold updp. destruct (pill_eqb j k) eqn:E.
  - apply pill_eqb_spec in E. tauto.
  - split; [tauto|]. intros [->|H]; [rewrite pill_eqb_refl in E; discriminate|exact H].
Qed.
Lemma cancel_all_true f ks j : cancel_all f ks j = true <-> In j ks \/ f j = true.
Proof.
  unfold cancel_all. revert f. induction ks as [|k ks IH]; intros f; cbn; [tauto|].
  rewrite IH, updp_true. intuition.
Qed.

Lemma upd_eq {A} (f : nat -> A) k v : upd f k v k = v.
Proof. unfold upd. rewrite Nat.eqb_refl. reflexivity. Qed.
Lemma upd_neq {A} (f : nat -> A) k v x : x <> k -> upd f k v x = f x.
Proof. unfold upd. intros H. destruct (Nat.eqb_spec x k); [contradiction|reflexivity]. Qed.

(** * Safety *)

Definition own_pill (p : npc) : option pill :=
  match p with
  | NIdle | NDead => None
  | NSnap k | NLoop k _ | NSend k _ _ _ | NAwait k _ _ | NX k | NUnreg k | NDel k | NFlush k | NCancel k => k
  end.

(* 0: before Stopped; 1: Stopped handled, still registered; 2: unregistered *)
Definition grp (p : npc) : nat :=
  match p with
  | NIdle | NSnap _ | NLoop _ _ | NSend _ _ _ _ | NAwait _ _ _ | NX _ => 0
  | NUnreg _ => 1
  | NDel _ | NFlush _ | NCancel _ | NDead => 2
  end.

Definition pc_ok (s : state) (n : nat) : Prop :=
  match grp (pcs s n) with
  | 0 => reg s n = true /\ xdone s n = false
  | 1 => reg s n = true /\ xdone s n = true
  | _ => reg s n = false /\ xdone s n = true
  end.

(* where a cleanup stands with respect to child c: still to be stopped by it *)
Definition pend (cf : cfg) (km : list nat) (p : npc) (c : nat) : Prop :=
  match p with
  | NIdle | NSnap _ => In c km
  | NLoop _ todo => In c todo
  | NSend _ c' _ todo => c = c' \/ In c todo
  | NAwait _ c' todo => c = c' \/ In c todo
  | _ => False
  end.
Definition kid_pending (cf : cfg) (s : state) (p c : nat) : Prop := pend cf (kmap s p) (pcs s p) c.

Record inv (cf : cfg) (s : state) : Prop := {
  i_pc : forall n, pc_ok s n;
  i_kids : forall p c, In c (kids0 cf p) -> stopped s c \/ kid_pending cf s p c;
  i_cancel : forall j, cancelled s j = true -> stopped s (tgt cf j);
  i_que : forall n j, In j (que s n) -> tgt cf j = n;
  i_own : forall n k, own_pill (pcs s n) = Some k -> tgt cf k = n }.

Lemma inv_init cf : inv cf (init cf).
Proof.
  constructor; cbn; unfold pc_ok, kid_pending; cbn; auto; try discriminate; try tauto.
Qed.

Lemma inv_ext cf s s' :
  (forall m, reg s' m = reg s m) -> (forall m, xdone s' m = xdone s m) -> (forall m, kmap s' m = kmap s m) ->
  (forall m, que s' m = que s m) -> (forall m, pcs s' m = pcs s m) -> (forall j, cancelled s' j = cancelled s j) ->
  inv cf s -> inv cf s'.
Proof.
  intros H1 H2 H3 H4 H5 H6 [I1 I2 I3 I4 I5]. constructor.
  - intros n. unfold pc_ok. rewrite H1, H2, H5. apply I1.
  - intros p c Hc. unfold stopped, kid_pending. rewrite H1, H2, H3, H5. apply I2; exact Hc.
  - intros j. unfold stopped. rewrite H1, H2, H6. apply I3.
  - intros n j. rewrite H4. apply I4.
  - intros n k. rewrite H5. apply I5.
Qed.

Lemma unreg_stopped s n : (forall m, pc_ok s m) -> reg s n = false -> stopped s n.
Proof.
  intros H E. specialize (H n). unfold pc_ok in H. unfold stopped.
  destruct (grp (pcs s n)) as [|[|?]]; destruct H; split; congruence.
Qed.

Lemma xdone_kids_stopped cf s p : inv cf s -> xdone s p = true -> forall c, In c (kids0 cf p) -> stopped s c.
Proof.
  intros I Hx c Hc. destruct (i_kids _ _ I p c Hc) as [H|H]; [exact H|].
  pose proof (i_pc _ _ I p) as Hp. unfold pc_ok in Hp. unfold kid_pending, pend in H.
  destruct (pcs s p); try contradiction; cbn in Hp; destruct Hp; congruence.
Qed.

(* a sendPoisonPill step keeps the invariant, whoever runs it *)
Lemma inv_cancel_unreg cf s j :
  inv cf s -> reg s (tgt cf j) = false ->
  inv cf {| reg := reg s; xdone := xdone s; kmap := kmap s; que := que s; pcs := pcs s;
            thr := thr s; cancelled := updp (cancelled s) j true; created := created s |}.
Proof.
  intros [I1 I2 I3 I4 I5] Hr. constructor; auto.
  intros j'. cbn. rewrite updp_true. intros [->|H]; [|apply I3; exact H].
  apply (unreg_stopped s); auto.
Qed.

Lemma inv_push cf s j :
  inv cf s ->
  inv cf {| reg := reg s; xdone := xdone s; kmap := kmap s;
            que := upd (que s) (tgt cf j) (que s (tgt cf j) ++ [j]);
            pcs := pcs s; thr := thr s; cancelled := cancelled s; created := created s |}.
Proof.
  intros [I1 I2 I3 I4 I5]. constructor; auto.
  intros n j'. cbn. unfold upd. destruct (Nat.eqb_spec n (tgt cf j)); [|apply I4].
  subst. rewrite in_app_iff. cbn. intros [H|[<-|[]]]; [apply I4; exact H|reflexivity].
Qed.

Lemma inv_send_step cf s j sp p' s' :
  inv cf s -> send_step cf s j sp = (p', s') ->
  inv cf s' /\ pcs s' = pcs s /\ kmap s' = kmap s /\ reg s' = reg s /\ xdone s' = xdone s /\ thr s' = thr s.
Proof.
  intros I E. unfold send_step in E.
  destruct sp; destruct (reg s (tgt cf j)) eqn:Er; inversion E; subst; clear E;
    (split; [|repeat split; reflexivity]);
    first [exact I | apply inv_cancel_unreg; assumption | apply inv_push; assumption].
Qed.

(* a step of n that changes its pc inside its group, drops queued pills and
   cancels pills of stopped actors *)
Lemma inv_update cf s n p' q' canc' :
  inv cf s ->
  grp p' = grp (pcs s n) ->
  (forall c, In c (kids0 cf n) -> stopped s c \/ pend cf (kmap s n) (pcs s n) c ->
                                  stopped s c \/ pend cf (kmap s n) p' c) ->
  (forall k, own_pill p' = Some k -> tgt cf k = n) ->
  (forall j, In j q' -> In j (que s n)) ->
  (forall j, canc' j = true -> cancelled s j = true \/ stopped s (tgt cf j)) ->
  inv cf {| reg := reg s; xdone := xdone s; kmap := kmap s; que := upd (que s) n q';
            pcs := upd (pcs s) n p'; thr := thr s; cancelled := canc'; created := created s |}.
Proof.
  intros [I1 I2 I3 I4 I5] Hg Hk Ho Hq Hcn. constructor.
  - intros m. unfold pc_ok. cbn. unfold upd. destruct (Nat.eqb_spec m n); subst.
    + rewrite Hg. apply I1.
    + apply I1.
  - intros p c Hc. unfold kid_pending, stopped. cbn. unfold upd. destruct (Nat.eqb_spec p n); subst.
    + apply Hk; [exact Hc|]. apply I2; exact Hc.
    + apply I2; exact Hc.
  - intros j Hj. unfold stopped. cbn. apply Hcn in Hj as [Hj|Hj]; [apply I3; exact Hj|exact Hj].
  - intros m j. cbn. unfold upd. destruct (Nat.eqb_spec m n); subst; [|apply I4].
    intros H. apply I4. apply Hq; exact H.
  - intros m k. cbn. unfold upd. destruct (Nat.eqb_spec m n); subst; [apply Ho|apply I5].
Qed.

Lemma inv_pc cf s n p' :
  inv cf s ->
  grp p' = grp (pcs s n) ->
  (forall c, In c (kids0 cf n) -> stopped s c \/ pend cf (kmap s n) (pcs s n) c ->
                                  stopped s c \/ pend cf (kmap s n) p' c) ->
  (forall k, own_pill p' = Some k -> tgt cf k = n) ->
  inv cf (set_pc s n p').
Proof.
  intros I Hg Hk Ho.
  eapply inv_ext; [..|apply (inv_update cf s n p' (que s n) (cancelled s) I Hg Hk Ho); auto]; cbn; auto.
  intros m. unfold upd. destruct (Nat.eqb_spec m n); subst; reflexivity.
Qed.

Lemma stopped_mono s s' c :
  (forall m, xdone s m = true -> xdone s' m = true) -> (forall m, reg s m = false -> reg s' m = false) ->
  stopped s c -> stopped s' c.
Proof. unfold stopped. intros H1 H2 [Hx Hr]. auto. Qed.

Lemma inv_x cf s n k :
  inv cf s -> pcs s n = NX k ->
  inv cf {| reg := reg s; xdone := upd (xdone s) n true; kmap := kmap s; que := que s;
            pcs := upd (pcs s) n (NUnreg k); thr := thr s; cancelled := cancelled s; created := created s |}.
Proof.
  intros [I1 I2 I3 I4 I5] E.
  set (s' := {| reg := reg s; xdone := upd (xdone s) n true; kmap := kmap s; que := que s;
                pcs := upd (pcs s) n (NUnreg k); thr := thr s; cancelled := cancelled s; created := created s |}).
  assert (Hm : forall c, stopped s c -> stopped s' c).
  { intros c. apply stopped_mono; cbn; auto. intros m. unfold upd. destruct (Nat.eqb_spec m n); auto. }
  constructor.
  - intros m. unfold pc_ok. cbn. unfold upd. destruct (Nat.eqb_spec m n); subst; [|apply I1].
    cbn. specialize (I1 n). unfold pc_ok in I1. rewrite E in I1. cbn in I1. tauto.
  - intros p c Hc. destruct (I2 p c Hc) as [H|H]; [left; auto|].
    unfold kid_pending in *. cbn. unfold upd. destruct (Nat.eqb_spec p n); subst.
    + rewrite E in H. contradiction.
    + right. exact H.
  - intros j Hj. apply Hm, I3, Hj.
  - exact I4.
  - intros m k'. cbn. unfold upd. destruct (Nat.eqb_spec m n); subst; [|apply I5].
    cbn. intros ->. apply I5. rewrite E. reflexivity.
Qed.

Lemma inv_unreg cf s n k :
  inv cf s -> pcs s n = NUnreg k ->
  inv cf {| reg := upd (reg s) n false; xdone := xdone s; kmap := kmap s; que := que s;
            pcs := upd (pcs s) n (NDel k); thr := thr s; cancelled := cancelled s; created := created s |}.
Proof.
  intros [I1 I2 I3 I4 I5] E.
  set (s' := {| reg := upd (reg s) n false; xdone := xdone s; kmap := kmap s; que := que s;
                pcs := upd (pcs s) n (NDel k); thr := thr s; cancelled := cancelled s; created := created s |}).
  assert (Hm : forall c, stopped s c -> stopped s' c).
  { intros c. apply stopped_mono; cbn; auto. intros m. unfold upd. destruct (Nat.eqb_spec m n); auto. }
  constructor.
  - intros m. unfold pc_ok. cbn. unfold upd. destruct (Nat.eqb_spec m n); subst; [|apply I1].
    cbn. specialize (I1 n). unfold pc_ok in I1. rewrite E in I1. cbn in I1. tauto.
  - intros p c Hc. destruct (I2 p c Hc) as [H|H]; [left; auto|].
    unfold kid_pending in *. cbn. unfold upd. destruct (Nat.eqb_spec p n); subst.
    + rewrite E in H. contradiction.
    + right. exact H.
  - intros j Hj. apply Hm, I3, Hj.
  - exact I4.
  - intros m k'. cbn. unfold upd. destruct (Nat.eqb_spec m n); subst; [|apply I5].
    cbn. intros ->. apply I5. rewrite E. reflexivity.
Qed.

Lemma inv_del cf s n k :
  inv cf s -> pcs s n = NDel k ->
  inv cf {| reg := reg s; xdone := xdone s;
            kmap := match par cf n with
                    | Some p => upd (kmap s) p (set_del n (kmap s p))
                    | None => kmap s end;
            que := que s; pcs := upd (pcs s) n (NFlush k); thr := thr s; cancelled := cancelled s;
            created := created s |}.
Proof.
  intros [I1 I2 I3 I4 I5] E.
  assert (Hn : stopped s n).
  { specialize (I1 n). unfold pc_ok in I1. rewrite E in I1. cbn in I1. unfold stopped. tauto. }
  constructor.
  - intros m. unfold pc_ok. cbn. unfold upd. destruct (Nat.eqb_spec m n); subst; [|apply I1].
    cbn. specialize (I1 n). unfold pc_ok in I1. rewrite E in I1. cbn in I1. tauto.
  - intros p c Hc. unfold stopped. cbn. fold (stopped s c). destruct (I2 p c Hc) as [H|H]; [left; auto|].
    unfold kid_pending in *. cbn. unfold upd at 2. destruct (Nat.eqb_spec p n); subst.
    + rewrite E in H. contradiction.
    + destruct (Nat.eq_dec c n) as [->|Hcn]; [left; exact Hn|]. right.
      destruct (par cf n) as [q|]; [|exact H]. unfold upd. destruct (Nat.eqb_spec p q); subst; [|exact H].
      unfold pend in *. destruct (pcs s q); auto; apply set_del_In; auto.
  - exact I3.
  - exact I4.
  - intros m k'. cbn. unfold upd. destruct (Nat.eqb_spec m n); subst; [|apply I5].
    cbn. intros ->. apply I5. rewrite E. reflexivity.
Qed.

Lemma inv_node_step cf s n s' : inv cf s -> node_step cf s n = Some s' -> inv cf s'.
Proof.
  intros I E. unfold node_step in E. destruct (pcs s n) as [|k|k todo|k c sp todo|k c todo|k|k|k|k|k|] eqn:Epc.
  - (* pop *)
    destruct (que s n) as [|j rest] eqn:Eq; [discriminate|]. inversion E; subst; clear E.
    apply inv_update; [exact I|rewrite Epc; reflexivity|rewrite Epc; cbn; tauto| | |auto].
    + cbn. intros k [= <-]. apply (i_que _ _ I n). rewrite Eq. left; reflexivity.
    + rewrite Eq. intros j' H. right; exact H.
  - inversion E; subst; clear E.
    apply inv_pc; [exact I|rewrite Epc; reflexivity|rewrite Epc; cbn; tauto|].
    cbn. intros k' ->. apply (i_own _ _ I n). rewrite Epc. reflexivity.
  - destruct todo as [|c todo]; inversion E; subst; clear E.
    + apply inv_pc; [exact I|rewrite Epc; reflexivity|rewrite Epc; cbn; tauto|].
      cbn. intros k' ->. apply (i_own _ _ I n). rewrite Epc. reflexivity.
    + eapply inv_ext; [..|apply (inv_pc cf s n (NSend k c SGet1 todo) I)];
        try (cbn; reflexivity).
      * rewrite Epc. reflexivity.
      * rewrite Epc. cbn. intros c' _ [H|[->|H]]; auto.
      * cbn. intros k' ->. apply (i_own _ _ I n). rewrite Epc. reflexivity.
  - destruct (send_step cf s (PKid n c) sp) as [p' s1] eqn:Es. inversion E; subst; clear E.
    destruct (inv_send_step cf s _ sp p' s1 I Es) as (I' & E1 & E2 & E3 & E4 & E5).
    apply inv_pc; [exact I'|rewrite E1, Epc; destruct p'; reflexivity| |].
    + rewrite E1, E2, Epc. unfold stopped. rewrite E3, E4. destruct p'; cbn; auto.
    + destruct p'; cbn; intros k' ->; apply (i_own _ _ I n); rewrite Epc; reflexivity.
  - destruct (cancelled s (PKid n c)) eqn:Ec; [|discriminate]. inversion E; subst; clear E.
    apply inv_pc; [exact I|rewrite Epc; reflexivity| |].
    + rewrite Epc. cbn. intros c' _ [H|[->|H]]; auto. left. apply (i_cancel _ _ I _ Ec).
    + cbn. intros k' ->. apply (i_own _ _ I n). rewrite Epc. reflexivity.
  - inversion E; subst; clear E. apply inv_x; assumption.
  - inversion E; subst; clear E. apply inv_unreg; assumption.
  - inversion E; subst; clear E. apply inv_del; assumption.
  - (* flush *)
    inversion E; subst; clear E.
    assert (Hn : stopped s n).
    { pose proof (i_pc _ _ I n) as H. unfold pc_ok in H. rewrite Epc in H. cbn in H. unfold stopped. tauto. }
    apply inv_update; [exact I| | | | |].
    + rewrite Epc. destruct (que s n); reflexivity.
    + rewrite Epc. destruct (que s n); cbn; auto.
    + destruct (que s n); cbn; intros k' ->; apply (i_own _ _ I n); rewrite Epc; reflexivity.
    + intros j [].
    + intros j Hj. apply cancel_all_true in Hj as [Hj|Hj]; [|auto]. right.
      rewrite (i_que _ _ I n j Hj). exact Hn.
  - (* the deferred cancel *)
    inversion E; subst; clear E.
    assert (Hn : stopped s n).
    { pose proof (i_pc _ _ I n) as H. unfold pc_ok in H. rewrite Epc in H. cbn in H. unfold stopped. tauto. }
    eapply inv_ext; [..|apply (inv_update cf s n NDead (que s n)
        (match k with Some j => updp (cancelled s) j true | None => cancelled s end) I)]; try (cbn; reflexivity).
    + intros m. cbn. unfold upd. destruct (Nat.eqb_spec m n); subst; reflexivity.
    + rewrite Epc. reflexivity.
    + rewrite Epc. cbn. auto.
    + discriminate.
    + auto.
    + intros j. destruct k as [k|]; [|auto]. rewrite updp_true. intros [->|H]; [|auto]. right.
      rewrite (i_own _ _ I n k); [exact Hn|]. rewrite Epc. reflexivity.
  - discriminate.
Qed.

Lemma inv_set_thr cf s i sp : inv cf s -> inv cf (set_thr s i sp).
Proof. apply inv_ext; reflexivity. Qed.

Lemma inv_step cf s l s' : inv cf s -> step cf s l = Some s' -> inv cf s'.
Proof.
  intros I E. destruct l as [n|n|i]; unfold step in E.
  - destruct (memb n (nodes cf)); [|discriminate]. eapply inv_node_step; eassumption.
  - destruct (memb n (nodes cf)); [|discriminate]. destruct (pcs s n) eqn:Epc; try discriminate.
    inversion E; subst; clear E.
    apply inv_pc; [exact I|rewrite Epc; reflexivity|rewrite Epc; cbn; tauto|discriminate].
  - destruct (thr s i) eqn:Et; try discriminate;
      match type of E with context [send_step cf s ?j ?sp] =>
        destruct (send_step cf s j sp) as [p' s1] eqn:Es;
        destruct (inv_send_step cf s j sp p' s1 I Es) as (I' & _) end;
      inversion E; subst; apply inv_set_thr; exact I'.
Qed.

Lemma inv_reachable cf s : reachable cf s -> inv cf s.
Proof. induction 1; [apply inv_init|eapply inv_step; eassumption]. Qed.

(** ** [C08_children_first_conc]: in every reachable state — whatever the
    interleaving with third-party Stop/Poison threads and crashes, whatever
    the tree — an actor that has handled Stopped has all its descendants
    through Stopped and unregistered *)
Theorem children_first_conc cf s p d :
  reachable cf s -> xdone s p = true -> descendant cf d p -> stopped s d.
Proof.
  intros R Hx Hd. apply inv_reachable in R. induction Hd as [p c Hc|p c d Hc Hd IH].
  - eapply xdone_kids_stopped; eassumption.
  - apply IH. eapply xdone_kids_stopped; eassumption.
Qed.

(* and a stop context is done only after its target and the whole subtree below it *)
Theorem signal_after_subtree_conc cf s j :
  reachable cf s -> cancelled s j = true ->
  stopped s (tgt cf j) /\ forall d, descendant cf d (tgt cf j) -> stopped s d.
Proof.
  intros R Hc. pose proof (inv_reachable _ _ R) as I. pose proof (i_cancel _ _ I j Hc) as Hs.
  split; [exact Hs|]. intros d Hd. eapply children_first_conc; [exact R|apply Hs|exact Hd].
Qed.

(* Stopped is handled while the actor is still registered *)
Lemma unregistered_after_stopped cf s n : reachable cf s -> reg s n = false -> xdone s n = true.
Proof. intros R H. apply inv_reachable in R. apply (unreg_stopped s n (i_pc _ _ R) H). Qed.

(** * No hang *)

Lemma pill_eq_dec (a b : pill) : {a = b} + {a <> b}.
Proof. decide equality; apply Nat.eq_dec. Qed.

(* where the sendPoisonPill of pill j stands (None: not being sent) *)
Definition live (sp : spc) : option spc := match sp with SSent => None | _ => Some sp end.
Definition hs (s : state) (j : pill) : option spc :=
  match j with
  | PThr i => live (thr s i)
  | PKid n c => match pcs s n with
                | NSend _ c' sp _ => if Nat.eqb c' c then live sp else None
                | _ => None end
  end.

Lemma live_some sp sp' : live sp = Some sp' -> sp' = sp /\ sp <> SSent.
Proof. destruct sp; cbn; intros [= <-]; split; auto; discriminate. Qed.
Lemma hs_some s j sp : hs s j = Some sp -> sp <> SSent.
Proof.
  destruct j as [i|n c]; cbn.
  - intros H. apply live_some in H as [-> H]. exact H.
  - destruct (pcs s n); try discriminate. destruct (c0 =? c); [|discriminate].
    intros H. apply live_some in H as [-> H]. exact H.
Qed.

Definition flushed (p : npc) : Prop := match p with NCancel _ | NDead => True | _ => False end.
Definition queued_live (cf : cfg) (s : state) (j : pill) : Prop :=
  In j (que s (tgt cf j)) /\ ~ flushed (pcs s (tgt cf j)).
Definition own_live (cf : cfg) (s : state) (j : pill) : Prop := own_pill (pcs s (tgt cf j)) = Some j.
Definition acct (cf : cfg) (s : state) (j : pill) : Prop :=
  cancelled s j = true \/ hs s j <> None \/ queued_live cf s j \/ own_live cf s j.

Definition todo_ok (cf : cfg) (n : nat) (p : npc) : Prop :=
  match p with
  | NLoop _ todo => incl todo (kids0 cf n)
  | NSend _ c sp todo => sp <> SSent /\ In c (kids0 cf n) /\ incl todo (kids0 cf n)
  | NAwait _ c todo => In c (kids0 cf n) /\ incl todo (kids0 cf n)
  | _ => True
  end.

Record linv (cf : cfg) (s : state) : Prop := {
  l_acct : forall j, created s j = true -> acct cf s j;
  l_get2 : forall j, hs s j = Some SGet2 ->
             reg s (tgt cf j) = false \/ cancelled s j = true \/ In j (que s (tgt cf j)) \/ own_live cf s j;
  l_created : forall j, hs s j <> None -> created s j = true;
  l_await : forall n k c todo, pcs s n = NAwait k c todo -> created s (PKid n c) = true;
  l_idle : forall n, ~ In n (nodes cf) -> pcs s n = NIdle;
  l_kmap : forall n, incl (kmap s n) (kids0 cf n);
  l_todo : forall n, todo_ok cf n (pcs s n) }.

Lemma linv_init cf : linv cf (init cf).
Proof.
  constructor.
  - intros [i|p c]; cbn; [|discriminate]. intros H. right. left. cbn. rewrite H. discriminate.
  - intros [i|p c]; unfold hs, init; cbn [thr pcs]; [|discriminate].
    destruct (i <? length (targets cf)); cbn; discriminate.
  - intros [i|p c]; unfold hs, init; cbn [thr pcs created]; [|congruence].
    destruct (i <? length (targets cf)); cbn; congruence.
  - cbn. discriminate.
  - reflexivity.
  - intros n. apply incl_refl.
  - intros n. exact I.
Qed.

(* a registered actor has not finished its flush *)
Lemma reg_not_flushed cf s n : inv cf s -> reg s n = true -> ~ flushed (pcs s n).
Proof.
  intros I Hr Hf. pose proof (i_pc _ _ I n) as H. unfold pc_ok in H.
  destruct (pcs s n); try contradiction; cbn in H; destruct H; congruence.
Qed.

(* steps that touch neither queues nor cancellations nor senders *)
Lemma acct_frame cf s s' :
  (forall j, hs s' j = hs s j) -> (forall m, que s' m = que s m) ->
  (forall j, cancelled s' j = cancelled s j) ->
  (forall m, own_pill (pcs s' m) = own_pill (pcs s m)) -> (forall m, flushed (pcs s' m) <-> flushed (pcs s m)) ->
  (forall m, reg s m = false -> reg s' m = false) ->
  (forall j, acct cf s j -> acct cf s' j) /\
  ((forall j, hs s j = Some SGet2 ->
       reg s (tgt cf j) = false \/ cancelled s j = true \/ In j (que s (tgt cf j)) \/ own_live cf s j) ->
   (forall j, hs s' j = Some SGet2 ->
       reg s' (tgt cf j) = false \/ cancelled s' j = true \/ In j (que s' (tgt cf j)) \/ own_live cf s' j)).
Proof.
  intros Hh Hq Hc Ho Hf Hr. split.
  - intros j. unfold acct, queued_live, own_live. rewrite Hh, Hq, Hc, Ho, Hf. tauto.
  - intros H j. unfold own_live. rewrite Hh, Hq, Hc, Ho. intros Hj. destruct (H j Hj) as [H1|H1]; auto.
Qed.

Lemma send_step_mono cf s j0 sp p' s1 :
  send_step cf s j0 sp = (p', s1) ->
  (forall j, cancelled s j = true -> cancelled s1 j = true) /\
  (forall m j, In j (que s m) -> In j (que s1 m)).
Proof.
  unfold send_step. intros E.
  destruct sp; destruct (reg s (tgt cf j0)); inversion E; subst; clear E; cbn; split; auto;
    try (intros j H; apply updp_true; auto).
  all: intros m j H; unfold upd; destruct (Nat.eqb_spec m (tgt cf j0)); subst; auto; apply in_app_iff; auto.
Qed.

Lemma send_step_outcome cf s j0 sp p' s1 :
  send_step cf s j0 sp = (p', s1) -> sp <> SSent ->
  (p' <> SSent \/ cancelled s1 j0 = true \/ (sp = SGet2 /\ reg s (tgt cf j0) = true /\ s1 = s)) /\
  (p' = SGet2 -> reg s (tgt cf j0) = false \/ In j0 (que s1 (tgt cf j0))).
Proof.
  unfold send_step. intros E Hs.
  destruct sp; destruct (reg s (tgt cf j0)) eqn:Er; inversion E; subst; clear E; cbn; split;
    try (left; discriminate); try discriminate; try contradiction; auto;
    try (right; left; apply updp_eq); try (intros _; right; rewrite upd_eq; apply in_app_iff; cbn; auto).
Qed.

(* the step of a sendPoisonPill, by a thread or by a cleaning-up parent *)
Lemma linv_send cf s j0 sp p' s1 s' :
  inv cf s -> linv cf s ->
  hs s j0 = Some sp -> send_step cf s j0 sp = (p', s1) ->
  (forall j, j <> j0 -> hs s' j = hs s j) ->
  hs s' j0 = live p' ->
  (forall m, que s' m = que s1 m) -> (forall j, cancelled s' j = cancelled s1 j) ->
  (forall m, reg s' m = reg s m) ->
  (forall m, own_pill (pcs s' m) = own_pill (pcs s m)) -> (forall m, flushed (pcs s' m) <-> flushed (pcs s m)) ->
  (forall j, created s' j = created s j) ->
  (forall j, created s' j = true -> acct cf s' j) /\
  (forall j, hs s' j = Some SGet2 ->
     reg s' (tgt cf j) = false \/ cancelled s' j = true \/ In j (que s' (tgt cf j)) \/ own_live cf s' j) /\
  (forall j, hs s' j <> None -> created s' j = true).
Proof.
  intros I L Hh Es Hother Hj0 Hq Hc Hr Ho Hf Hcr.
  pose proof (hs_some _ _ _ Hh) as Hsp.
  destruct (send_step_mono _ _ _ _ _ _ Es) as [Mc Mq].
  destruct (send_step_outcome _ _ _ _ _ _ Es Hsp) as [O1 O2].
  split; [|split].
  - intros j Hcj. rewrite Hcr in Hcj. pose proof (l_acct _ _ L j Hcj) as A.
    destruct (pill_eq_dec j j0) as [->|Hne].
    + (* the pill being sent *)
      destruct O1 as [O1|[O1|(-> & Hreg & ->)]].
      * right. left. rewrite Hj0. destruct p'; cbn; congruence.
      * left. rewrite Hc. exact O1.
      * destruct (l_get2 _ _ L j0 Hh) as [H|[H|[H|H]]].
        -- congruence.
        -- left. rewrite Hc. exact H.
        -- right. right. left. split; [rewrite Hq; exact H|]. rewrite Hf. apply (reg_not_flushed cf); assumption.
        -- right. right. right. unfold own_live in *. rewrite Ho. exact H.
    + destruct A as [A|[A|[[A1 A2]|A]]].
      * left. rewrite Hc. auto.
      * right. left. rewrite Hother by exact Hne. exact A.
      * right. right. left. split; [rewrite Hq; auto|rewrite Hf; exact A2].
      * right. right. right. unfold own_live in *. rewrite Ho. exact A.
  - intros j Hj. unfold own_live. rewrite Hr, Hc, Hq, Ho. destruct (pill_eq_dec j j0) as [->|Hne].
    + rewrite Hj0 in Hj. apply live_some in Hj as [Hj _]. symmetry in Hj. destruct (O2 Hj) as [H|H]; auto.
    + rewrite Hother in Hj by exact Hne. destruct (l_get2 _ _ L j Hj) as [H|[H|[H|H]]]; auto.
  - intros j Hj. rewrite Hcr. destruct (pill_eq_dec j j0) as [->|Hne].
    + apply (l_created _ _ L). congruence.
    + apply (l_created _ _ L). rewrite <- Hother by exact Hne. exact Hj.
Qed.

Lemma send_step_frame cf s j sp p' s1 :
  send_step cf s j sp = (p', s1) ->
  pcs s1 = pcs s /\ kmap s1 = kmap s /\ reg s1 = reg s /\ xdone s1 = xdone s /\ thr s1 = thr s /\ created s1 = created s.
Proof.
  unfold send_step. intros E.
  destruct sp; destruct (reg s (tgt cf j)); inversion E; subst; clear E; cbn; repeat split; reflexivity.
Qed.

(* a step of actor n that sends nothing: its queue may lose pills, pills of n may get
   cancelled, a new pill may be created (its sender then stands at SGet1) *)
Lemma linv_local cf s s' n :
  linv cf s ->
  (forall j, hs s' j = hs s j \/ (hs s' j = Some SGet1 /\ created s' j = true)) ->
  (forall j, created s' j = true -> created s j = true \/ hs s' j = Some SGet1) ->
  (forall j, created s j = true -> created s' j = true) ->
  (forall m, m <> n -> que s' m = que s m) -> (forall m, m <> n -> pcs s' m = pcs s m) ->
  (forall j, cancelled s j = true -> cancelled s' j = true) ->
  (forall m, reg s m = false -> reg s' m = false) ->
  (forall j, tgt cf j = n -> In j (que s n) -> ~ flushed (pcs s n) ->
     (In j (que s' n) /\ ~ flushed (pcs s' n)) \/ cancelled s' j = true \/ own_pill (pcs s' n) = Some j) ->
  (forall j, tgt cf j = n -> own_pill (pcs s n) = Some j ->
     own_pill (pcs s' n) = Some j \/ cancelled s' j = true) ->
  (forall j, tgt cf j = n -> In j (que s n) ->
     In j (que s' n) \/ cancelled s' j = true \/ own_pill (pcs s' n) = Some j \/ reg s' n = false) ->
  (forall j, created s' j = true -> acct cf s' j) /\
  (forall j, hs s' j = Some SGet2 ->
     reg s' (tgt cf j) = false \/ cancelled s' j = true \/ In j (que s' (tgt cf j)) \/ own_live cf s' j) /\
  (forall j, hs s' j <> None -> created s' j = true).
Proof.
  intros L Hh Hcr Hcr' Hq Hp Hc Hr Hql Hown Hget.
  split; [|split].
  - intros j Hj. destruct (Hcr j Hj) as [Hj'|Hj']; [|right; left; congruence].
    destruct (l_acct _ _ L j Hj') as [A|[A|[[A1 A2]|A]]].
    + left. auto.
    + right. left. destruct (Hh j) as [->|[-> _]]; [exact A|discriminate].
    + destruct (Nat.eq_dec (tgt cf j) n) as [E|E].
      * rewrite E in A1, A2. destruct (Hql j E A1 A2) as [[B1 B2]|[B|B]].
        -- right. right. left. unfold queued_live. rewrite E. auto.
        -- left. exact B.
        -- right. right. right. unfold own_live. rewrite E. exact B.
      * right. right. left. unfold queued_live. rewrite Hq, Hp by exact E. auto.
    + unfold own_live in A. destruct (Nat.eq_dec (tgt cf j) n) as [E|E].
      * rewrite E in A. destruct (Hown j E A) as [B|B].
        -- right. right. right. unfold own_live. rewrite E. exact B.
        -- left. exact B.
      * right. right. right. unfold own_live. rewrite Hp by exact E. exact A.
  - intros j Hj. destruct (Hh j) as [Hhj|[Hhj _]]; [|congruence]. rewrite Hhj in Hj.
    destruct (l_get2 _ _ L j Hj) as [A|[A|[A|A]]].
    + left. auto.
    + right. left. auto.
    + destruct (Nat.eq_dec (tgt cf j) n) as [E|E].
      * rewrite E in A. destruct (Hget j E A) as [B|[B|[B|B]]].
        -- right. right. left. rewrite E. exact B.
        -- right. left. exact B.
        -- right. right. right. unfold own_live. rewrite E. exact B.
        -- left. rewrite E. exact B.
      * right. right. left. rewrite Hq by exact E. exact A.
    + unfold own_live in A. destruct (Nat.eq_dec (tgt cf j) n) as [E|E].
      * rewrite E in A. destruct (Hown j E A) as [B|B].
        -- right. right. right. unfold own_live. rewrite E. exact B.
        -- right. left. exact B.
      * right. right. right. unfold own_live. rewrite Hp by exact E. exact A.
  - intros j Hj. destruct (Hh j) as [Hhj|[_ Hhj]]; [|exact Hhj].
    apply Hcr', (l_created _ _ L). rewrite <- Hhj. exact Hj.
Qed.

Definition is_send (p : npc) : Prop := match p with NSend _ _ _ _ => True | _ => False end.
Definition is_await (p : npc) : Prop := match p with NAwait _ _ _ => True | _ => False end.

Lemma hs_local s s' n :
  (forall i, thr s' i = thr s i) -> (forall m, m <> n -> pcs s' m = pcs s m) ->
  (forall c, hs s' (PKid n c) = hs s (PKid n c)) -> forall j, hs s' j = hs s j.
Proof.
  intros Ht Hp Hn [i|m c]; cbn.
  - rewrite Ht. reflexivity.
  - destruct (Nat.eq_dec m n) as [->|Hm]; [apply Hn|]. rewrite Hp by exact Hm. reflexivity.
Qed.

(* steps that only move the pc of n (and possibly unregister, mark Stopped, shrink a children map) *)
Lemma linv_pc_only cf s s' n p' :
  linv cf s -> In n (nodes cf) ->
  (forall m, pcs s' m = upd (pcs s) n p' m) ->
  (forall m, que s' m = que s m) -> (forall j, cancelled s' j = cancelled s j) ->
  (forall i, thr s' i = thr s i) -> (forall j, created s' j = created s j) ->
  (forall m, reg s m = false -> reg s' m = false) ->
  (forall m, incl (kmap s' m) (kmap s m)) ->
  ~ is_send (pcs s n) -> ~ is_send p' -> ~ is_await p' ->
  own_pill p' = own_pill (pcs s n) -> ~ flushed p' -> ~ flushed (pcs s n) -> todo_ok cf n p' ->
  linv cf s'.
Proof.
  intros L Hn Hp Hq Hc Ht Hcr Hr Hk Hs1 Hs2 Ha Ho Hf Hf0 Htd.
  assert (Hpn : pcs s' n = p') by (rewrite Hp; apply upd_eq).
  assert (Hpo : forall m, m <> n -> pcs s' m = pcs s m) by (intros m Hm; rewrite Hp; apply upd_neq; exact Hm).
  assert (Hh : forall j, hs s' j = hs s j).
  { apply (hs_local s s' n); auto. intros c. cbn. rewrite Hpn.
    destruct p'; destruct (pcs s n); cbn in *; try reflexivity; tauto. }
  destruct (linv_local cf s s' n L) as (A & B & C); auto.
  - intros j Hj. left. rewrite <- Hcr. exact Hj.
  - intros j Hj. rewrite Hcr. exact Hj.
  - intros j Hj. rewrite Hc. auto.
  - intros j _ Hj _. left. rewrite Hq, Hpn. auto.
  - intros j _ Hj. left. rewrite Hpn, Ho. exact Hj.
  - intros j _ Hj. left. rewrite Hq. exact Hj.
  - constructor; auto.
    + intros m k c todo Hm. rewrite Hcr. destruct (Nat.eq_dec m n) as [->|Hne].
      * rewrite Hpn in Hm. rewrite Hm in Ha. exfalso. apply Ha. exact I.
      * rewrite Hpo in Hm by exact Hne. apply (l_await _ _ L m k c todo Hm).
    + intros m Hm. rewrite Hpo; [apply (l_idle _ _ L m Hm)|]. intros ->. contradiction.
    + intros m. eapply incl_tran; [apply Hk|apply (l_kmap _ _ L)].
    + intros m. destruct (Nat.eq_dec m n) as [->|Hne].
      * rewrite Hpn. exact Htd.
      * rewrite Hpo by exact Hne. apply (l_todo _ _ L m).
Qed.

Lemma set_del_incl c l : incl (set_del c l) l.
Proof. intros x H. apply set_del_In in H. tauto. Qed.

Lemma linv_node_step cf s n s' :
  inv cf s -> linv cf s -> In n (nodes cf) -> node_step cf s n = Some s' -> linv cf s'.
Proof.
  intros I L Hn E. unfold node_step in E.
  pose proof (l_todo _ _ L n) as Htd.
  destruct (pcs s n) as [|k|k todo|k c sp todo|k c todo|k|k|k|k|k|] eqn:Epc.
  - (* pop *)
    destruct (que s n) as [|j rest] eqn:Eq; [discriminate|]. inversion E; subst; clear E.
    set (s' := {| reg := reg s; xdone := xdone s; kmap := kmap s; que := upd (que s) n rest;
                  pcs := upd (pcs s) n (NSnap (Some j)); thr := thr s; cancelled := cancelled s; created := created s |}).
    assert (Hpn : pcs s' n = NSnap (Some j)) by apply upd_eq.
    assert (Hqn : que s' n = rest) by apply upd_eq.
    assert (Hpo : forall m, m <> n -> pcs s' m = pcs s m) by (intros m Hm; apply upd_neq; exact Hm).
    assert (Hh : forall j, hs s' j = hs s j).
    { apply (hs_local s s' n); auto. intros c. cbn. rewrite upd_eq, Epc. reflexivity. }
    destruct (linv_local cf s s' n L) as (A & B & C); auto.
    + intros m Hm. apply upd_neq; exact Hm.
    + intros j' _ Hj _. rewrite Eq in Hj. destruct Hj as [<-|Hj].
      * right. right. rewrite Hpn. reflexivity.
      * left. rewrite Hqn, Hpn. auto.
    + intros j' _. rewrite Epc. discriminate.
    + intros j' _ Hj. rewrite Eq in Hj. destruct Hj as [<-|Hj].
      * right. right. left. rewrite Hpn. reflexivity.
      * left. rewrite Hqn. exact Hj.
    + constructor; auto.
      * intros m k c todo Hm. destruct (Nat.eq_dec m n) as [->|Hne]; [rewrite Hpn in Hm; discriminate|].
        rewrite Hpo in Hm by exact Hne. apply (l_await _ _ L m k c todo Hm).
      * intros m Hm. rewrite Hpo; [apply (l_idle _ _ L m Hm)|]. intros ->. contradiction.
      * apply (l_kmap _ _ L).
      * intros m. destruct (Nat.eq_dec m n) as [->|Hne]; [rewrite Hpn; exact Logic.I|].
        rewrite Hpo by exact Hne. apply (l_todo _ _ L m).
  - (* snapshot *)
    inversion E; subst; clear E.
    apply (linv_pc_only cf s _ n (NLoop k (kmap s n))); auto; try (rewrite Epc); cbn; auto using incl_refl.
    apply (l_kmap _ _ L).
  - destruct todo as [|c todo]; inversion E; subst; clear E.
    + apply (linv_pc_only cf s _ n (NX k)); auto; try (rewrite Epc); cbn; auto using incl_refl.
    + (* the pill for child c is created *)
      set (s' := {| reg := reg s; xdone := xdone s; kmap := kmap s; que := que s;
                    pcs := upd (pcs s) n (NSend k c SGet1 todo); thr := thr s; cancelled := cancelled s;
                    created := updp (created s) (PKid n c) true |}).
      assert (Hpn : pcs s' n = NSend k c SGet1 todo) by apply upd_eq.
      assert (Hpo : forall m, m <> n -> pcs s' m = pcs s m) by (intros m Hm; apply upd_neq; exact Hm).
      assert (Hh : forall j, j <> PKid n c -> hs s' j = hs s j).
      { intros [i|m c'] Hj; cbn; [reflexivity|]. destruct (Nat.eq_dec m n) as [->|Hm].
        - rewrite upd_eq, Epc. destruct (Nat.eqb_spec c c'); [congruence|reflexivity].
        - rewrite upd_neq by exact Hm. reflexivity. }
      assert (Hhn : hs s' (PKid n c) = Some SGet1).
      { cbn. rewrite upd_eq, Nat.eqb_refl. reflexivity. }
      destruct (linv_local cf s s' n L) as (A & B & C); auto.
      * intros j. destruct (pill_eq_dec j (PKid n c)) as [->|Hj]; [right|left; auto].
        split; [exact Hhn|apply updp_eq].
      * intros j Hj. cbn in Hj. apply updp_true in Hj as [->|Hj]; auto.
      * intros j Hj. cbn. apply updp_true. auto.
      * intros j _ Hj _. left. rewrite Hpn. auto.
      * intros j _ Hj. left. rewrite Hpn. rewrite Epc in Hj. exact Hj.
      * constructor; auto.
        -- intros m k' c' todo' Hm. cbn. apply updp_true. right.
           destruct (Nat.eq_dec m n) as [->|Hne]; [rewrite Hpn in Hm; discriminate|].
           rewrite Hpo in Hm by exact Hne. apply (l_await _ _ L m k' c' todo' Hm).
        -- intros m Hm. rewrite Hpo; [apply (l_idle _ _ L m Hm)|]. intros ->. contradiction.
        -- apply (l_kmap _ _ L).
        -- intros m. destruct (Nat.eq_dec m n) as [->|Hne].
           ++ rewrite Hpn. cbn in Htd. cbn. split; [discriminate|]. split; [apply Htd; left; reflexivity|].
              intros x Hx. apply Htd. right. exact Hx.
           ++ rewrite Hpo by exact Hne. apply (l_todo _ _ L m).
  - (* a step of the sendPoisonPill for child c *)
    destruct (send_step cf s (PKid n c) sp) as [p' s1] eqn:Es. inversion E; subst; clear E.
    destruct (send_step_frame _ _ _ _ _ _ Es) as (F1 & F2 & F3 & F4 & F5 & F6).
    cbn in Htd. destruct Htd as (Hsp & Hc & Htodo).
    set (pn := match p' with SSent => NAwait k c todo | _ => NSend k c p' todo end).
    assert (Hh0 : hs s (PKid n c) = Some sp).
    { cbn. rewrite Epc, Nat.eqb_refl. destruct sp; try reflexivity. contradiction. }
    assert (Hpn : pcs (set_pc s1 n pn) n = pn) by apply upd_eq.
    assert (Hpo : forall m, m <> n -> pcs (set_pc s1 n pn) m = pcs s m).
    { intros m Hm. cbn. rewrite upd_neq by exact Hm. rewrite F1. reflexivity. }
    destruct (linv_send cf s (PKid n c) sp p' s1 (set_pc s1 n pn) I L Hh0 Es) as (A & B & C).
    + intros [i|m c'] Hj; cbn; [rewrite F5; reflexivity|]. destruct (Nat.eq_dec m n) as [->|Hm].
      * rewrite upd_eq, Epc. destruct (Nat.eqb_spec c c'); [congruence|].
        subst pn. destruct p'; cbn; try reflexivity; destruct (Nat.eqb_spec c c'); congruence.
      * rewrite upd_neq by exact Hm. rewrite F1. reflexivity.
    + cbn. rewrite upd_eq. subst pn. destruct p'; cbn; rewrite ?Nat.eqb_refl; reflexivity.
    + reflexivity.
    + reflexivity.
    + intros m. cbn. rewrite F3. reflexivity.
    + intros m. destruct (Nat.eq_dec m n) as [->|Hm].
      * rewrite Hpn, Epc. subst pn. destruct p'; reflexivity.
      * rewrite Hpo by exact Hm. reflexivity.
    + intros m. destruct (Nat.eq_dec m n) as [->|Hm].
      * rewrite Hpn, Epc. subst pn. destruct p'; cbn; tauto.
      * rewrite Hpo by exact Hm. tauto.
    + intros j. cbn. rewrite F6. reflexivity.
    + constructor; auto.
      * intros m k' c' todo' Hm. cbn. rewrite F6. destruct (Nat.eq_dec m n) as [->|Hne].
        -- rewrite Hpn in Hm. subst pn. destruct p'; try discriminate. injection Hm as <- <- <-.
           apply (l_created _ _ L). congruence.
        -- rewrite Hpo in Hm by exact Hne. apply (l_await _ _ L m k' c' todo' Hm).
      * intros m Hm. rewrite Hpo; [apply (l_idle _ _ L m Hm)|]. intros ->. contradiction.
      * intros m. cbn. rewrite F2. apply (l_kmap _ _ L).
      * intros m. destruct (Nat.eq_dec m n) as [->|Hne].
        -- rewrite Hpn. subst pn. destruct (send_step_outcome _ _ _ _ _ _ Es Hsp) as [_ _].
           destruct p'; cbn; repeat split; auto; discriminate.
        -- rewrite Hpo by exact Hne. apply (l_todo _ _ L m).
  - (* the child's context is done *)
    destruct (cancelled s (PKid n c)) eqn:Ec; [|discriminate]. inversion E; subst; clear E.
    cbn in Htd. destruct Htd as [Hc Htodo].
    apply (linv_pc_only cf s _ n (NLoop k todo)); auto; try (rewrite Epc); cbn; auto using incl_refl.
  - inversion E; subst; clear E.
    apply (linv_pc_only cf s _ n (NUnreg k)); auto; try (rewrite Epc); cbn; auto using incl_refl.
  - inversion E; subst; clear E.
    apply (linv_pc_only cf s _ n (NDel k)); auto; try (rewrite Epc); cbn; auto using incl_refl.
    intros m Hm. unfold upd. destruct (Nat.eqb_spec m n); auto.
  - inversion E; subst; clear E.
    apply (linv_pc_only cf s _ n (NFlush k)); auto; try (rewrite Epc); cbn; auto using incl_refl.
    intros m. destruct (par cf n) as [q|]; [|apply incl_refl]. unfold upd.
    destruct (Nat.eqb_spec m q); subst; [apply set_del_incl|apply incl_refl].
  - (* flush *)
    inversion E; subst; clear E.
    set (pn := match que s n with [] => NCancel k | _ => NFlush k end).
    set (s' := {| reg := reg s; xdone := xdone s; kmap := kmap s; que := upd (que s) n [];
                  pcs := upd (pcs s) n pn; thr := thr s; cancelled := cancel_all (cancelled s) (que s n);
                  created := created s |}).
    assert (Hpn : pcs s' n = pn) by apply upd_eq.
    assert (Hpo : forall m, m <> n -> pcs s' m = pcs s m) by (intros m Hm; apply upd_neq; exact Hm).
    assert (Hh : forall j, hs s' j = hs s j).
    { apply (hs_local s s' n); auto. intros c. cbn. rewrite upd_eq, Epc. subst pn. destruct (que s n); reflexivity. }
    destruct (linv_local cf s s' n L) as (A & B & C); auto.
    + intros m Hm. apply upd_neq; exact Hm.
    + intros j Hj. cbn. apply cancel_all_true. auto.
    + intros j _ Hj _. right. left. cbn. apply cancel_all_true. auto.
    + intros j _ Hj. left. rewrite Hpn. rewrite Epc in Hj. subst pn. destruct (que s n); exact Hj.
    + intros j _ Hj. right. left. cbn. apply cancel_all_true. auto.
    + constructor; auto.
      * intros m k' c' todo' Hm. destruct (Nat.eq_dec m n) as [->|Hne].
        -- rewrite Hpn in Hm. subst pn. destruct (que s n); discriminate.
        -- rewrite Hpo in Hm by exact Hne. apply (l_await _ _ L m k' c' todo' Hm).
      * intros m Hm. rewrite Hpo; [apply (l_idle _ _ L m Hm)|]. intros ->. contradiction.
      * apply (l_kmap _ _ L).
      * intros m. destruct (Nat.eq_dec m n) as [->|Hne].
        -- rewrite Hpn. subst pn. destruct (que s n); exact Logic.I.
        -- rewrite Hpo by exact Hne. apply (l_todo _ _ L m).
  - (* the deferred cancel *)
    inversion E; subst; clear E.
    set (s' := {| reg := reg s; xdone := xdone s; kmap := kmap s; que := que s;
                  pcs := upd (pcs s) n NDead; thr := thr s;
                  cancelled := match k with Some j => updp (cancelled s) j true | None => cancelled s end;
                  created := created s |}).
    assert (Hpn : pcs s' n = NDead) by apply upd_eq.
    assert (Hpo : forall m, m <> n -> pcs s' m = pcs s m) by (intros m Hm; apply upd_neq; exact Hm).
    assert (Hh : forall j, hs s' j = hs s j).
    { apply (hs_local s s' n); auto. intros c. cbn. rewrite upd_eq, Epc. reflexivity. }
    assert (Hcm : forall j, cancelled s j = true -> cancelled s' j = true).
    { intros j Hj. cbn. destruct k; [apply updp_true|]; auto. }
    destruct (linv_local cf s s' n L) as (A & B & C); auto.
    + intros j _ _ Hf. exfalso. apply Hf. rewrite Epc. exact Logic.I.
    + intros j _ Hj. right. rewrite Epc in Hj. cbn in Hj. subst k. cbn. apply updp_eq.
    + constructor; auto.
      * intros m k' c' todo' Hm. destruct (Nat.eq_dec m n) as [->|Hne]; [rewrite Hpn in Hm; discriminate|].
        rewrite Hpo in Hm by exact Hne. apply (l_await _ _ L m k' c' todo' Hm).
      * intros m Hm. rewrite Hpo; [apply (l_idle _ _ L m Hm)|]. intros ->. contradiction.
      * apply (l_kmap _ _ L).
      * intros m. destruct (Nat.eq_dec m n) as [->|Hne]; [rewrite Hpn; exact Logic.I|].
        rewrite Hpo by exact Hne. apply (l_todo _ _ L m).
  - discriminate.
Qed.

Lemma linv_step cf s l s' : inv cf s -> linv cf s -> step cf s l = Some s' -> linv cf s'.
Proof.
  intros I L E. destruct l as [n|n|i]; unfold step in E.
  - destruct (memb n (nodes cf)) eqn:Em; [|discriminate]. apply memb_In in Em.
    eapply linv_node_step; eassumption.
  - destruct (memb n (nodes cf)) eqn:Em; [|discriminate]. apply memb_In in Em.
    destruct (pcs s n) eqn:Epc; try discriminate. inversion E; subst; clear E.
    apply (linv_pc_only cf s _ n (NSnap None)); auto; try (rewrite Epc); cbn; auto using incl_refl.
  - destruct (thr s i) eqn:Et; try discriminate;
      match type of E with context [send_step cf s ?j ?sp] =>
        destruct (send_step cf s j sp) as [p' s1] eqn:Es end;
      inversion E; subst; clear E;
      destruct (send_step_frame _ _ _ _ _ _ Es) as (F1 & F2 & F3 & F4 & F5 & F6);
      (assert (Hh0 : hs s (PThr i) = Some (thr s i)) by (cbn; rewrite Et; reflexivity));
      rewrite Et in Hh0;
      (destruct (linv_send cf s (PThr i) _ p' s1 (set_thr s1 i p') I L Hh0 Es) as (A & B & C);
       [ intros [i'|m c] Hj; cbn; [rewrite upd_neq by congruence; rewrite F5; reflexivity|rewrite F1; reflexivity]
       | cbn; rewrite upd_eq; reflexivity
       | reflexivity | reflexivity
       | intros m; cbn; rewrite F3; reflexivity
       | intros m; cbn; rewrite F1; reflexivity
       | intros m; cbn; rewrite F1; tauto
       | intros j; cbn; rewrite F6; reflexivity
       | constructor; auto; cbn; rewrite ?F1, ?F2, ?F6;
         [ apply (l_await _ _ L) | apply (l_idle _ _ L) | apply (l_kmap _ _ L) | apply (l_todo _ _ L) ] ]).
Qed.

Lemma linv_reachable cf s : reachable cf s -> linv cf s.
Proof.
  induction 1 as [|s l s' R IH E]; [apply linv_init|].
  eapply linv_step; [apply inv_reachable; exact R|exact IH|exact E].
Qed.

(* which pills exist *)
Lemma created_kid cf s n c : reachable cf s -> created s (PKid n c) = true -> In n (nodes cf) /\ In c (kids0 cf n).
Proof.
  induction 1 as [|s l s' R IH E]; [discriminate|]. intros H.
  assert (Hsame : created s' (PKid n c) = created s (PKid n c) -> In n (nodes cf) /\ In c (kids0 cf n))
    by (intros Hs; apply IH; congruence).
  pose proof (linv_reachable _ _ R) as L.
  destruct l as [m|m|i]; unfold step in E.
  - destruct (memb m (nodes cf)) eqn:Em; [|discriminate]. apply memb_In in Em. unfold node_step in E.
    pose proof (l_todo _ _ L m) as Htd.
    destruct (pcs s m) as [|k|k todo|k c' sp todo|k c' todo|k|k|k|k|k|] eqn:Epc;
      try (inversion E; subst; apply Hsame; reflexivity).
    + destruct (que s m); [discriminate|]. inversion E; subst. apply Hsame; reflexivity.
    + destruct todo as [|c' todo]; inversion E; subst; [apply Hsame; reflexivity|].
      cbn in H. apply updp_true in H as [[= -> ->]|H]; [|apply IH; exact H].
      split; [exact Em|]. apply Htd. left; reflexivity.
    + destruct (send_step cf s (PKid m c') sp) as [p' s1] eqn:Es. inversion E; subst.
      destruct (send_step_frame _ _ _ _ _ _ Es) as (F1 & F2 & F3 & F4 & F5 & F6).
      apply Hsame. cbn. rewrite F6. reflexivity.
    + destruct (cancelled s (PKid m c')); [|discriminate]. inversion E; subst. apply Hsame; reflexivity.
  - destruct (memb m (nodes cf)); [|discriminate]. destruct (pcs s m); try discriminate.
    inversion E; subst. apply Hsame; reflexivity.
  - destruct (thr s i) eqn:Et; try discriminate;
      match type of E with context [send_step cf s ?j ?sp] =>
        destruct (send_step cf s j sp) as [p' s1] eqn:Es end;
      inversion E; subst; destruct (send_step_frame _ _ _ _ _ _ Es) as (F1 & F2 & F3 & F4 & F5 & F6);
      apply Hsame; cbn; rewrite F6; reflexivity.
Qed.

Lemma created_thr cf s i : reachable cf s -> created s (PThr i) = true -> i < length (targets cf).
Proof.
  induction 1 as [|s l s' R IH E]; [cbn; intros H; apply Nat.ltb_lt; exact H|]. intros H. apply IH.
  destruct l as [m|m|i']; unfold step in E.
  - destruct (memb m (nodes cf)); [|discriminate]. unfold node_step in E.
    destruct (pcs s m) as [|k|k todo|k c' sp todo|k c' todo|k|k|k|k|k|] eqn:Epc;
      try (inversion E; subst; exact H).
    + destruct (que s m); [discriminate|]. inversion E; subst. exact H.
    + destruct todo as [|c' todo]; inversion E; subst; [exact H|].
      cbn in H. exact H.
    + destruct (send_step cf s (PKid m c') sp) as [p' s1] eqn:Es. inversion E; subst.
      destruct (send_step_frame _ _ _ _ _ _ Es) as (F1 & F2 & F3 & F4 & F5 & F6).
      cbn in H. rewrite F6 in H. exact H.
    + destruct (cancelled s (PKid m c')); [|discriminate]. inversion E; subst. exact H.
  - destruct (memb m (nodes cf)); [|discriminate]. destruct (pcs s m); try discriminate.
    inversion E; subst. exact H.
  - destruct (thr s i') eqn:Et; try discriminate;
      match type of E with context [send_step cf s ?j ?sp] =>
        destruct (send_step cf s j sp) as [p' s1] eqn:Es end;
      inversion E; subst; destruct (send_step_frame _ _ _ _ _ _ Es) as (F1 & F2 & F3 & F4 & F5 & F6);
      cbn in H; rewrite F6 in H; exact H.
Qed.

(* when an actor cannot move *)
Lemma node_stuck cf s n :
  node_step cf s n = None ->
  (pcs s n = NIdle /\ que s n = []) \/
  (exists k c todo, pcs s n = NAwait k c todo /\ cancelled s (PKid n c) = false) \/
  pcs s n = NDead.
Proof.
  unfold node_step. destruct (pcs s n) as [|k|k todo|k c sp todo|k c todo|k|k|k|k|k|] eqn:Epc; try discriminate; auto.
  - destruct (que s n); [auto|discriminate].
  - destruct todo; discriminate.
  - destruct (send_step cf s (PKid n c) sp). discriminate.
  - destruct (cancelled s (PKid n c)) eqn:Ec; [discriminate|]. intros _. right. left. eauto.
Qed.

Section NoHang.
  Variable cf : cfg.
  (* the configuration is a finite tree: every child is an actor, a child is lower than its parent,
     third parties aim at actors *)
  Variable ht : nat -> nat.
  Hypothesis kids_lower : forall p c, In c (kids0 cf p) -> ht c < ht p.
  Hypothesis kids_nodes : forall p c, In c (kids0 cf p) -> In c (nodes cf).
  Hypothesis targets_nodes : forall t, In t (targets cf) -> In t (nodes cf).

  Lemma tgt_node s j : reachable cf s -> created s j = true -> In (tgt cf j) (nodes cf).
  Proof.
    intros R H. destruct j as [i|n c]; cbn.
    - apply targets_nodes, nth_In. eapply created_thr; eassumption.
    - eapply kids_nodes. eapply created_kid; eassumption.
  Qed.

  Lemma node_of_terminal s n :
    terminal cf s -> In n (nodes cf) ->
    (pcs s n = NIdle /\ que s n = []) \/
    (exists k c todo, pcs s n = NAwait k c todo /\ cancelled s (PKid n c) = false) \/
    pcs s n = NDead.
  Proof.
    intros T Hn. apply (node_stuck cf). specialize (T (LNode n)). unfold step in T.
    apply memb_In in Hn. rewrite Hn in T. exact T.
  Qed.

  (* in a terminal state nobody is left waiting for a child *)
  Lemma nobody_waits s : reachable cf s -> terminal cf s -> forall h n, ht n < h -> ~ is_await (pcs s n).
  Proof.
    intros R T. pose proof (linv_reachable _ _ R) as L.
    induction h as [|h IH]; intros n Hh Ha; [lia|].
    destruct (pcs s n) as [|k|k todo|k c sp todo|k c todo|k|k|k|k|k|] eqn:Epc; try contradiction. clear Ha.
    assert (Hn : In n (nodes cf)).
    { destruct (in_dec Nat.eq_dec n (nodes cf)) as [H|H]; [exact H|]. rewrite (l_idle _ _ L n H) in Epc. discriminate. }
    destruct (node_of_terminal s n T Hn) as [[H _]|[(k' & c' & todo' & H & Hnc)|H]]; try congruence.
    rewrite Epc in H. injection H as <- <- <-.
    pose proof (l_todo _ _ L n) as Htd. rewrite Epc in Htd. destruct Htd as [Hc _].
    pose proof (l_await _ _ L n k c todo Epc) as Hcr.
    assert (Hcn : In c (nodes cf)) by (eapply kids_nodes; exact Hc).
    assert (Hlow : ht c < h) by (specialize (kids_lower n c Hc); lia).
    assert (Hc_state : pcs s c = NIdle /\ que s c = [] \/ pcs s c = NDead).
    { destruct (node_of_terminal s c T Hcn) as [H|[(k' & c' & todo' & H & _)|H]]; auto.
      exfalso. apply (IH c Hlow). rewrite H. exact Logic.I. }
    destruct (l_acct _ _ L _ Hcr) as [A|[A|[[A1 A2]|A]]].
    - congruence.
    - cbn in A. rewrite Epc in A. congruence.
    - cbn in A1, A2. destruct Hc_state as [[_ Hq]|Hd].
      + rewrite Hq in A1. contradiction.
      + apply A2. rewrite Hd. exact Logic.I.
    - unfold own_live in A. cbn in A. destruct Hc_state as [[Hi _]|Hd]; [rewrite Hi in A|rewrite Hd in A]; discriminate.
  Qed.

  (** ** [C08_no_hang], first half: a run that cannot go on has cancelled every
      pill that was ever created — by a third party or by a stopping parent —
      and every actor is either untouched or completely stopped *)
  Theorem terminal_all_cancelled s :
    reachable cf s -> terminal cf s ->
    (forall j, created s j = true -> cancelled s j = true) /\
    (forall n, (pcs s n = NIdle /\ que s n = []) \/ pcs s n = NDead \/ ~ In n (nodes cf)).
  Proof.
    intros R T. pose proof (linv_reachable _ _ R) as L.
    assert (Hnode : forall n, In n (nodes cf) -> (pcs s n = NIdle /\ que s n = []) \/ pcs s n = NDead).
    { intros n Hn. destruct (node_of_terminal s n T Hn) as [H|[(k & c & todo & H & _)|H]]; auto.
      exfalso. apply (nobody_waits s R T (S (ht n)) n); [lia|]. rewrite H. exact Logic.I. }
    split.
    - intros j Hj. destruct (cancelled s j) eqn:Ec; [reflexivity|]. exfalso.
      pose proof (tgt_node s j R Hj) as Htn.
      destruct (l_acct _ _ L j Hj) as [A|[A|[[A1 A2]|A]]].
      + congruence.
      + destruct j as [i|n c]; cbn in A.
        * specialize (T (LThr i)). unfold step in T. destruct (thr s i); cbn in A; try congruence;
            match type of T with context [send_step cf s ?j ?sp] => destruct (send_step cf s j sp) end; discriminate.
        * destruct (pcs s n) as [|k|k todo|k c' sp todo|k c' todo|k|k|k|k|k|] eqn:Epc; try congruence.
          assert (Hn : In n (nodes cf)).
          { destruct (in_dec Nat.eq_dec n (nodes cf)) as [H|H]; [exact H|]. rewrite (l_idle _ _ L n H) in Epc. discriminate. }
          destruct (Hnode n Hn) as [[H _]|H]; congruence.
      + destruct (Hnode _ Htn) as [[_ Hq]|Hd].
        * rewrite Hq in A1. contradiction.
        * apply A2. rewrite Hd. exact Logic.I.
      + unfold own_live in A. destruct (Hnode _ Htn) as [[Hi _]|Hd]; [rewrite Hi in A|rewrite Hd in A]; discriminate.
    - intros n. destruct (in_dec Nat.eq_dec n (nodes cf)) as [H|H]; [|auto].
      destruct (Hnode n H); auto.
  Qed.
End NoHang.

(** * The configuration of a tree *)

Lemma flat_map_NoDup_unique {A B} (f : A -> list B) (l : list A) a b x :
  NoDup (flat_map f l) -> In a l -> In b l -> In x (f a) -> In x (f b) -> a = b.
Proof.
  induction l as [|y l IH]; cbn; [tauto|]. intros Hnd Ha Hb Hxa Hxb.
  apply NoDup_app_elim in Hnd as (H1 & H2 & H3).
  destruct Ha as [->|Ha], Hb as [->|Hb]; auto.
  - exfalso. apply (H3 x Hxa). apply in_flat_map. eauto.
  - exfalso. apply (H3 x Hxb). apply in_flat_map. eauto.
Qed.

Lemma flat_map_NoDup_each {A B} (f : A -> list B) (l : list A) a :
  NoDup (flat_map f l) -> In a l -> NoDup (f a).
Proof.
  induction l as [|y l IH]; cbn; [tauto|]. intros Hnd [->|Ha];
    apply NoDup_app_elim in Hnd as (H1 & H2 & H3); auto.
Qed.

Lemma subtree_root_in s t : subtree s t -> In (root s) (ids t).
Proof. intros H. apply (subtree_ids s t H). apply root_in_ids. Qed.

Lemma subtree_unique t : NoDup (ids t) -> forall a b, subtree a t -> subtree b t -> root a = root b -> a = b.
Proof.
  induction t as [i ks IH] using tree_ind'. rewrite ids_eq. intros Hnd a b Ha Hb Hr.
  inversion Hnd as [|? ? Hi Hks]; subst. rewrite Forall_forall in IH.
  inversion Ha as [|? ? ? ka Hka Hsa]; inversion Hb as [|? ? ? kb Hkb Hsb]; subst; auto.
  - exfalso. apply Hi. cbn in Hr. rewrite Hr. apply in_flat_map. exists kb. split; [exact Hkb|]. apply subtree_root_in; exact Hsb.
  - exfalso. apply Hi. cbn in Hr. rewrite <- Hr. apply in_flat_map. exists ka. split; [exact Hka|]. apply subtree_root_in; exact Hsa.
  - assert (ka = kb) as ->.
    { apply (flat_map_NoDup_unique ids ks ka kb (root a)); auto.
      - apply subtree_root_in; exact Hsa.
      - rewrite Hr. apply subtree_root_in; exact Hsb. }
    apply (IH kb Hkb); auto. eapply flat_map_NoDup_each; eassumption.
Qed.

Lemma find_sub_some t p s : find_sub t p = Some s -> subtree s t /\ root s = p.
Proof.
  unfold find_sub. intros H. apply find_some in H as [H1 H2]. apply Nat.eqb_eq in H2.
  split; [apply subtrees_subtree; exact H1|exact H2].
Qed.

Lemma find_sub_subtree t s : NoDup (ids t) -> subtree s t -> find_sub t (root s) = Some s.
Proof.
  intros Hnd Hs. unfold find_sub.
  destruct (find (fun s0 => root s0 =? root s) (subtrees t)) as [s'|] eqn:E.
  - apply find_some in E as [H1 H2]. apply Nat.eqb_eq in H2. apply subtrees_subtree in H1.
    f_equal. apply (subtree_unique t Hnd); auto.
  - exfalso. apply subtrees_subtree in Hs. eapply find_none in E; [|exact Hs]. rewrite Nat.eqb_refl in E. discriminate.
Qed.

Lemma depth_kid i ks k : In k ks -> depth k < depth (Node i ks).
Proof.
  intros H. cbn. apply Nat.lt_succ_r. induction ks as [|y ks IH]; [destruct H|].
  cbn. destruct H as [->|H]; [apply Nat.le_max_l|]. etransitivity; [apply IH; exact H|apply Nat.le_max_r].
Qed.

Definition height (t : tree) (n : nat) : nat := match find_sub t n with Some s => depth s | None => 0 end.

Lemma kids_of_inv t p c :
  In c (kids_of t p) -> exists s k, find_sub t p = Some s /\ In k (subs s) /\ root k = c.
Proof.
  unfold kids_of. destruct (find_sub t p) as [s|]; [|intros []]. unfold child_ids. rewrite in_map_iff.
  intros (k & <- & Hk). eauto.
Qed.

Lemma subtree_kid s k : In k (subs s) -> subtree k s.
Proof. destruct s as [i ks]. cbn. intros H. eapply sub_kid; [exact H|constructor]. Qed.

Lemma tree_kids_lower t : NoDup (ids t) -> forall p c, In c (kids_of t p) -> height t c < height t p.
Proof.
  intros Hnd p c Hc. apply kids_of_inv in Hc as (s & k & Hs & Hk & <-).
  destruct (find_sub_some _ _ _ Hs) as [Hst _]. unfold height. rewrite Hs.
  rewrite (find_sub_subtree t k Hnd).
  - destruct s as [i ks]. apply depth_kid. exact Hk.
  - eapply subtree_trans; [apply subtree_kid; exact Hk|exact Hst].
Qed.

Lemma tree_kids_nodes t p c : In c (kids_of t p) -> In c (ids t).
Proof.
  intros Hc. apply kids_of_inv in Hc as (s & k & Hs & Hk & <-).
  destruct (find_sub_some _ _ _ Hs) as [Hst _]. apply subtree_root_in.
  eapply subtree_trans; [apply subtree_kid; exact Hk|exact Hst].
Qed.

(* the descendants of the tree are the descendants of its configuration *)
Lemma tree_descendant t tgts p d :
  NoDup (ids t) -> In d (desc_of t p) -> descendant (cfg_of t tgts) d p.
Proof.
  intros Hnd. unfold desc_of. destruct (find_sub t p) as [s|] eqn:Es; [|intros []].
  destruct (find_sub_some _ _ _ Es) as [Hst <-]. clear Es. revert Hst.
  induction s as [i ks IH] using tree_ind'. intros Hst. unfold desc. cbn [subs root].
  rewrite in_flat_map. intros (k & Hk & Hd). rewrite Forall_forall in IH.
  assert (Hkt : subtree k t) by (eapply subtree_trans; [apply (subtree_kid (Node i ks)); exact Hk|exact Hst]).
  assert (Hkid : In (root k) (kids0 (cfg_of t tgts) i)).
  { cbn. unfold kids_of. pose proof (find_sub_subtree t (Node i ks) Hnd Hst) as Hf. cbn [root] in Hf.
    rewrite Hf. unfold child_ids. cbn. apply in_map. exact Hk. }
  destruct k as [j js] eqn:Ek. rewrite ids_eq in Hd. destruct Hd as [<-|Hd].
  - apply desc_kid. exact Hkid.
  - eapply desc_trans; [exact Hkid|]. cbn [root]. apply (IH (Node j js) Hk Hkt). exact Hd.
Qed.

(** * Termination: every step decreases [measure] *)

Lemma thr_range cf s i : reachable cf s -> length (targets cf) <= i -> thr s i = SSent.
Proof.
  induction 1 as [|s l s' R IH E]; intros Hi.
  - unfold init; cbn [thr]. destruct (Nat.ltb_spec i (length (targets cf))); [lia|reflexivity].
  - specialize (IH Hi). destruct l as [m|m|i']; unfold step in E.
    + destruct (memb m (nodes cf)); [|discriminate]. unfold node_step in E.
      destruct (pcs s m) as [|k|k todo|k c' sp todo|k c' todo|k|k|k|k|k|] eqn:Epc;
        try (inversion E; subst; exact IH).
      * destruct (que s m); [discriminate|]. inversion E; subst. exact IH.
      * destruct todo as [|c' todo]; inversion E; subst; exact IH.
      * destruct (send_step cf s (PKid m c') sp) as [p' s1] eqn:Es. inversion E; subst.
        destruct (send_step_frame _ _ _ _ _ _ Es) as (F1 & F2 & F3 & F4 & F5 & F6). cbn. rewrite F5. exact IH.
      * destruct (cancelled s (PKid m c')); [|discriminate]. inversion E; subst. exact IH.
    + destruct (memb m (nodes cf)); [|discriminate]. destruct (pcs s m); try discriminate.
      inversion E; subst. exact IH.
    + destruct (Nat.eq_dec i' i) as [->|Hne]; [rewrite IH in E; discriminate|].
      destruct (thr s i') eqn:Et; try discriminate;
        match type of E with context [send_step cf s ?j ?sp] =>
          destruct (send_step cf s j sp) as [p' s1] eqn:Es end;
        inversion E; subst; destruct (send_step_frame _ _ _ _ _ _ Es) as (F1 & F2 & F3 & F4 & F5 & F6);
        cbn; rewrite upd_neq by congruence; rewrite F5; exact IH.
Qed.

Fixpoint nsum (f : nat -> nat) (l : list nat) : nat :=
  match l with [] => 0 | x :: l' => f x + nsum f l' end.

Lemma nsum_list_sum f l : list_sum (map f l) = nsum f l.
Proof. induction l as [|y l IH]; [reflexivity|]. cbn [map nsum]. rewrite <- IH. reflexivity. Qed.

Lemma nsum_le f g l : (forall x, In x l -> g x <= f x) -> nsum g l <= nsum f l.
Proof.
  induction l as [|y l IH]; cbn [nsum]; intros H; [lia|].
  assert (g y <= f y) by (apply H; left; reflexivity).
  assert (nsum g l <= nsum f l) by (apply IH; intros x Hx; apply H; right; exact Hx). lia.
Qed.

Lemma nsum_lt f g l n d :
  In n l -> (forall x, In x l -> x <> n -> g x <= f x) -> g n + d <= f n -> nsum g l + d <= nsum f l.
Proof.
  induction l as [|y l IH]; cbn [nsum]; intros Hn H Hd; [destruct Hn|].
  destruct (Nat.eq_dec y n) as [->|Hy].
  - assert (nsum g l <= nsum f l).
    { apply (nsum_le f g l). intros x Hx. destruct (Nat.eq_dec x n) as [->|Hx']; [lia|].
      apply H; [right; exact Hx|exact Hx']. }
    lia.
  - destruct Hn as [Hn|Hn]; [congruence|].
    assert (g y <= f y) by (apply H; [left; reflexivity|exact Hy]).
    assert (nsum g l + d <= nsum f l) by (apply IH; auto; intros x Hx; apply H; right; exact Hx). lia.
Qed.

Lemma nsum_bump g c l : NoDup l -> nsum g l <= nsum (fun x => if x =? c then g x - 1 else g x) l + 1.
Proof.
  induction l as [|y l IH]; cbn [nsum]; intros Hnd; [lia|]. inversion Hnd; subst.
  destruct (Nat.eqb_spec y c) as [->|Hy].
  - assert (nsum g l <= nsum (fun x => if x =? c then g x - 1 else g x) l).
    { apply (nsum_le _ g l). intros x Hx. destruct (Nat.eqb_spec x c); [subst; contradiction|lia]. }
    lia.
  - specialize (IH H2). lia.
Qed.

Lemma spc_eq_dec (a b : spc) : {a = b} + {a <> b}.
Proof. decide equality. Qed.

Definition fm (s : state) (x : nat) : nat := wn s x + length (que s x).

Lemma send_step_weight cf s j sp p' s1 :
  send_step cf s j sp = (p', s1) -> sp <> SSent ->
  (forall x, length (que s1 x) <= length (que s x) + (if x =? tgt cf j then match sp with SPush => 1 | _ => 0 end else 0)) /\
  ws p' + match sp with SPush => 2 | _ => 1 end <= ws sp.
Proof.
  unfold send_step. intros E Hs.
  destruct sp; destruct (reg s (tgt cf j)); inversion E; subst; clear E; cbn; try contradiction;
    split; try lia; intros x; try (destruct (x =? tgt cf j); lia).
  all: unfold upd; destruct (Nat.eqb_spec x (tgt cf j)); subst; rewrite ?app_length; cbn; lia.
Qed.

Lemma length_set_del c l : length (set_del c l) <= length l.
Proof. unfold set_del. induction l as [|y l IH]; cbn; [lia|]. destruct (negb (y =? c)); cbn; lia. Qed.

(* the steps of an actor that is not in the middle of a sendPoisonPill *)
Lemma node_step_weight cf s n s' :
  node_step cf s n = Some s' -> ~ is_send (pcs s n) ->
  (forall x, x <> n -> fm s' x <= fm s x) /\ fm s' n + 1 <= fm s n.
Proof.
  unfold node_step. intros E Hns.
  destruct (pcs s n) as [|k|k todo|k c sp todo|k c todo|k|k|k|k|k|] eqn:Epc; try (exfalso; apply Hns; exact Logic.I).
  - destruct (que s n) as [|j rest] eqn:Eq; [discriminate|]. inversion E; subst; clear E. split.
    + intros x Hx. unfold fm, wn. cbn. rewrite !upd_neq by exact Hx. lia.
    + unfold fm, wn. cbn. rewrite !upd_eq, Epc, Eq. cbn. lia.
  - inversion E; subst; clear E. split.
    + intros x Hx. unfold fm, wn. cbn. rewrite !upd_neq by exact Hx. lia.
    + unfold fm, wn. cbn. rewrite !upd_eq, Epc. lia.
  - destruct todo as [|c todo]; inversion E; subst; clear E; split;
      try (intros x Hx; unfold fm, wn; cbn; rewrite !upd_neq by exact Hx; lia);
      unfold fm, wn; cbn; rewrite !upd_eq, Epc; cbn; lia.
  - destruct (cancelled s (PKid n c)); [|discriminate]. inversion E; subst; clear E. split.
    + intros x Hx. unfold fm, wn. cbn. rewrite !upd_neq by exact Hx. lia.
    + unfold fm, wn. cbn. rewrite !upd_eq, Epc. lia.
  - inversion E; subst; clear E. split.
    + intros x Hx. unfold fm, wn. cbn. rewrite !upd_neq by exact Hx. lia.
    + unfold fm, wn. cbn. rewrite !upd_eq, Epc. lia.
  - inversion E; subst; clear E. split.
    + intros x Hx. unfold fm, wn. cbn. rewrite !upd_neq by exact Hx. lia.
    + unfold fm, wn. cbn. rewrite !upd_eq, Epc. lia.
  - inversion E; subst; clear E. split.
    + intros x Hx. unfold fm, wn. cbn. rewrite !upd_neq by exact Hx.
      assert (length (match par cf n with Some p => upd (kmap s) p (set_del n (kmap s p)) | None => kmap s end x)
              <= length (kmap s x)).
      { destruct (par cf n) as [p|]; [|lia]. unfold upd. destruct (Nat.eqb_spec x p); [subst; apply length_set_del|lia]. }
      destruct (pcs s x); lia.
    + unfold fm, wn. cbn. rewrite !upd_eq, Epc. lia.
  - inversion E; subst; clear E. split.
    + intros x Hx. unfold fm, wn. cbn. rewrite !upd_neq by exact Hx. lia.
    + unfold fm, wn. cbn. rewrite !upd_eq, Epc. destruct (que s n); cbn; lia.
  - inversion E; subst; clear E. split.
    + intros x Hx. unfold fm, wn. cbn. rewrite !upd_neq by exact Hx. lia.
    + unfold fm, wn. cbn. rewrite !upd_eq, Epc. lia.
  - discriminate.
Qed.

Lemma measure_eq cf s :
  measure cf s = nsum (fm s) (nodes cf) + nsum (fun i => ws (thr s i)) (seq 0 (length (targets cf))).
Proof. unfold measure. rewrite !nsum_list_sum. reflexivity. Qed.

Theorem step_decreases cf s l s' :
  NoDup (nodes cf) -> reachable cf s -> step cf s l = Some s' -> measure cf s' < measure cf s.
Proof.
  intros Hnd R E. rewrite !measure_eq. pose proof (linv_reachable _ _ R) as L.
  destruct l as [n|n|i]; unfold step in E.
  - destruct (memb n (nodes cf)) eqn:Em; [|discriminate]. apply memb_In in Em.
    destruct (pcs s n) as [|k|k todo|k c sp todo|k c todo|k|k|k|k|k|] eqn:Epc.
    4: { (* inside a sendPoisonPill *)
      unfold node_step in E. rewrite Epc in E.
      destruct (send_step cf s (PKid n c) sp) as [p' s1] eqn:Es. inversion E; subst; clear E.
      destruct (send_step_frame _ _ _ _ _ _ Es) as (F1 & F2 & F3 & F4 & F5 & F6).
      pose proof (l_todo _ _ L n) as Htd. rewrite Epc in Htd. destruct Htd as (Hsp & _).
      destruct (send_step_weight _ _ _ _ _ _ Es Hsp) as [Hq Hw]. cbn [tgt] in Hq.
      set (pn := match p' with SSent => NAwait k c todo | _ => NSend k c p' todo end).
      assert (Hthr : nsum (fun i => ws (thr (set_pc s1 n pn) i)) (seq 0 (length (targets cf)))
                     = nsum (fun i => ws (thr s i)) (seq 0 (length (targets cf)))).
      { cbn. rewrite F5. reflexivity. }
      rewrite Hthr.
      assert (Hx : forall x, x <> n -> fm (set_pc s1 n pn) x <= fm s x + (if x =? c then match sp with SPush => 1 | _ => 0 end else 0)).
      { intros x Hx. unfold fm, wn. cbn. rewrite upd_neq by exact Hx. rewrite F1, F2. specialize (Hq x). lia. }
      assert (Hn : fm (set_pc s1 n pn) n + match sp with SPush => 2 | _ => 1 end
                   <= fm s n + (if n =? c then match sp with SPush => 1 | _ => 0 end else 0)).
      { unfold fm, wn. cbn. rewrite upd_eq, Epc. specialize (Hq n). subst pn. destruct p'; cbn in *; destruct sp; cbn in *; lia. }
      assert (Hnopush : sp <> SPush -> nsum (fm (set_pc s1 n pn)) (nodes cf) + 1 <= nsum (fm s) (nodes cf)).
      { intros Hnp. apply (nsum_lt _ _ _ n); [exact Em| |].
        - intros x _ Hxn. specialize (Hx x Hxn). destruct (x =? c); destruct sp; try lia; congruence.
        - destruct (n =? c); destruct sp; try lia; congruence. }
      destruct (spc_eq_dec sp SPush) as [->|Hnp]; [|specialize (Hnopush Hnp); lia].
      (* the push: the child's queue grows by one, the sender advances by two *)
      cbn in Hn.
      assert (Hpos : 1 <= fm (set_pc s1 n pn) n).
      { unfold fm, wn. cbn. rewrite upd_eq. subst pn. destruct p'; cbn; lia. }
      pose proof (nsum_bump (fm (set_pc s1 n pn)) c (nodes cf) Hnd) as Hb.
      assert (nsum (fun x => if x =? c then fm (set_pc s1 n pn) x - 1 else fm (set_pc s1 n pn) x) (nodes cf) + 2
              <= nsum (fm s) (nodes cf)).
      { apply (nsum_lt _ _ _ n); [exact Em| |].
        - intros x _ Hxn. specialize (Hx x Hxn). cbn in Hx. destruct (x =? c); lia.
        - destruct (n =? c); lia. }
      lia. }
    all: assert (Hns : ~ is_send (pcs s n)) by (rewrite Epc; auto).
    all: destruct (node_step_weight cf s n s' E Hns) as [Hx Hn].
    all: assert (Hthr : forall i, thr s' i = thr s i)
           by (unfold node_step in E; rewrite Epc in E;
               first [ destruct (que s n); [discriminate|]; inversion E; reflexivity
                     | destruct todo; inversion E; reflexivity
                     | destruct (cancelled s (PKid n c)); [|discriminate]; inversion E; reflexivity
                     | inversion E; reflexivity ]).
    all: assert (nsum (fm s') (nodes cf) + 1 <= nsum (fm s) (nodes cf))
           by (apply (nsum_lt _ _ _ n); [exact Em|intros x _ Hxn; apply Hx; exact Hxn|exact Hn]).
    all: assert (nsum (fun i => ws (thr s' i)) (seq 0 (length (targets cf)))
                 <= nsum (fun i => ws (thr s i)) (seq 0 (length (targets cf))))
           by (apply nsum_le; intros x _; rewrite Hthr; lia).
    all: lia.
  - destruct (memb n (nodes cf)) eqn:Em; [|discriminate]. apply memb_In in Em.
    destruct (pcs s n) eqn:Epc; try discriminate. inversion E; subst; clear E.
    assert (nsum (fm (set_pc s n (NSnap None))) (nodes cf) + 1 <= nsum (fm s) (nodes cf)).
    { apply (nsum_lt _ _ _ n); [exact Em| |].
      - intros x _ Hx. unfold fm, wn. cbn. rewrite upd_neq by exact Hx. lia.
      - unfold fm, wn. cbn. rewrite upd_eq, Epc. lia. }
    cbn [thr set_pc]. lia.
  - assert (Hi : i < length (targets cf)).
    { destruct (Nat.lt_ge_cases i (length (targets cf))) as [H|H]; [exact H|].
      rewrite (thr_range cf s i R H) in E. discriminate. }
    assert (Hsp : thr s i <> SSent) by (intros H; rewrite H in E; discriminate).
    destruct (send_step cf s (PThr i) (thr s i)) as [p' s1] eqn:Es.
    assert (E' : s' = set_thr s1 i p').
    { destruct (thr s i); try contradiction; rewrite Es in E; inversion E; reflexivity. }
    subst s'. clear E.
    destruct (send_step_frame _ _ _ _ _ _ Es) as (F1 & F2 & F3 & F4 & F5 & F6).
    destruct (send_step_weight _ _ _ _ _ _ Es Hsp) as [Hq Hw].
    set (c := tgt cf (PThr i)) in *.
    assert (Hx : forall x, fm (set_thr s1 i p') x <= fm s x + (if x =? c then match thr s i with SPush => 1 | _ => 0 end else 0)).
    { intros x. unfold fm, wn, set_thr. cbn [pcs kmap que]. rewrite F1, F2. specialize (Hq x). lia. }
    assert (Ht : nsum (fun i0 => ws (thr (set_thr s1 i p') i0)) (seq 0 (length (targets cf)))
                 + match thr s i with SPush => 2 | _ => 1 end
                 <= nsum (fun i0 => ws (thr s i0)) (seq 0 (length (targets cf)))).
    { apply (nsum_lt _ _ _ i).
      - apply in_seq. lia.
      - intros x _ Hxi. cbn. rewrite upd_neq by exact Hxi. rewrite F5. lia.
      - cbn. rewrite upd_eq. exact Hw. }
    pose proof (nsum_bump (fm (set_thr s1 i p')) c (nodes cf) Hnd) as Hb.
    assert (nsum (fun x => if x =? c then fm (set_thr s1 i p') x - match thr s i with SPush => 1 | _ => 0 end
                           else fm (set_thr s1 i p') x) (nodes cf) <= nsum (fm s) (nodes cf)).
    { apply nsum_le. intros x _. specialize (Hx x). destruct (x =? c); lia. }
    destruct (spc_eq_dec (thr s i) SPush) as [Ep|Hnp].
    + rewrite Ep in Ht, H. cbv iota in Ht, H. lia.
    + assert (nsum (fm (set_thr s1 i p')) (nodes cf) <= nsum (fm s) (nodes cf)).
      { apply nsum_le. intros x _. specialize (Hx x). destruct (x =? c); destruct (thr s i); try lia; congruence. }
      destruct (thr s i); try lia; congruence.
Qed.

(** * Trees *)

Theorem children_first_conc_tree t tgts s p d :
  NoDup (ids t) -> reachable (cfg_of t tgts) s -> xdone s p = true -> In d (desc_of t p) -> stopped s d.
Proof.
  intros Hnd R Hx Hd. eapply children_first_conc; [exact R|exact Hx|]. apply tree_descendant; assumption.
Qed.

Theorem signal_after_subtree_conc_tree t tgts s j :
  NoDup (ids t) -> reachable (cfg_of t tgts) s -> cancelled s j = true ->
  forall d, In d (closure t (tgt (cfg_of t tgts) j)) -> stopped s d.
Proof.
  intros Hnd R Hc d Hd. destruct (signal_after_subtree_conc _ _ _ R Hc) as [H1 H2].
  unfold closure in Hd. destruct (find_sub t (tgt (cfg_of t tgts) j)) as [s0|] eqn:Es; [|destruct Hd].
  destruct (find_sub_some _ _ _ Es) as [Hst Hr]. destruct s0 as [i ks]. rewrite ids_eq in Hd. cbn in Hr. subst i.
  destruct Hd as [<-|Hd]; [exact H1|]. apply H2. apply tree_descendant; [exact Hnd|].
  unfold desc_of. rewrite Es. exact Hd.
Qed.

Theorem no_hang_tree t tgts :
  NoDup (ids t) -> (forall x, In x tgts -> In x (ids t)) ->
  forall s, reachable (cfg_of t tgts) s ->
    (forall l s', step (cfg_of t tgts) s l = Some s' -> measure (cfg_of t tgts) s' < measure (cfg_of t tgts) s) /\
    (terminal (cfg_of t tgts) s ->
       (forall j, created s j = true -> cancelled s j = true) /\
       (forall n, In n (ids t) -> (pcs s n = NIdle /\ que s n = []) \/ pcs s n = NDead)).
Proof.
  intros Hnd Htg s R. split.
  - intros l s' E. eapply step_decreases; eauto.
  - intros T.
    destruct (terminal_all_cancelled (cfg_of t tgts) (height t) (tree_kids_lower t Hnd)
                (tree_kids_nodes t) Htg s R T) as [H1 H2].
    split; [exact H1|]. intros n Hn. destruct (H2 n) as [H|[H|H]]; auto. contradiction.
Qed.

(* runs are reachable *)
Lemma run_reachable cf ls : forall s s', reachable cf s -> run cf s ls = Some s' -> reachable cf s'.
Proof.
  induction ls as [|l ls IH]; cbn; intros s s' R E; [inversion E; subst; exact R|].
  destruct (step cf s l) as [s1|] eqn:Es; [|discriminate]. eapply IH; [|exact E]. eapply reach_step; eassumption.
Qed.

Lemma quietb_terminal_but_crash cf s :
  reachable cf s -> quietb cf s = true -> forall l, (forall n, l <> LCrash n) -> step cf s l = None.
Proof.
  intros R Q l Hl. unfold quietb in Q. rewrite forallb_forall in Q.
  destruct l as [n|n|i]; [| exfalso; eapply Hl; reflexivity |].
  - destruct (in_dec Nat.eq_dec n (nodes cf)) as [Hn|Hn].
    + specialize (Q (LNode n)). unfold enabledb in Q. destruct (step cf s (LNode n)); [|reflexivity].
      discriminate Q. apply in_app_iff. left. apply in_map. exact Hn.
    + unfold step. destruct (memb n (nodes cf)) eqn:E; [apply memb_In in E; contradiction|reflexivity].
  - destruct (Nat.lt_ge_cases i (length (targets cf))) as [Hi|Hi].
    + specialize (Q (LThr i)). unfold enabledb in Q. destruct (step cf s (LThr i)); [|reflexivity].
      discriminate Q. apply in_app_iff. right. apply in_map. apply in_seq. lia.
    + unfold step. rewrite (thr_range cf s i R Hi). reflexivity.
Qed.

(** * Examples: grandparent 0 - child 1 - grandchild 2; thread 0 poisons the child, thread 1 the parent *)
Definition chain3 : tree := Node 0 [Node 1 [Node 2 []]].
Definition cf3 : cfg := cfg_of chain3 [1; 0].

(* the window of D11: the child is shutting down (it waits for the grandchild, which has not moved yet)
   when the parent is poisoned; the parent runs as far as it can *)
Definition d11_window : list label :=
  [LThr 0; LThr 0; LThr 0; LThr 0;                                   (* Poison(child) *)
   LNode 1; LNode 1; LNode 1; LNode 1; LNode 1; LNode 1; LNode 1;    (* child: pop, snapshot, pill for 2, send it, await *)
   LThr 1; LThr 1; LThr 1; LThr 1;                                   (* Poison(parent) *)
   LNode 0; LNode 0; LNode 0; LNode 0; LNode 0; LNode 0; LNode 0].   (* parent: pop, snapshot, pill for 1, send it, await *)

(* repaired order: the parent is blocked on the child's pill, nobody has handled Stopped *)
Example repaired_parent_waits :
  exists s, run cf3 (init cf3) d11_window = Some s /\
            step cf3 s (LNode 0) = None /\ step cf3 s (LNode 1) = None /\
            pcs s 0 = NAwait (Some (PThr 1)) 1 [] /\ xdone s 0 = false /\ xdone s 1 = false /\
            que s 1 = [PKid 0 1].
Proof. eexists. split; [vm_compute; reflexivity|]. vm_compute. repeat split; reflexivity. Qed.

(* ... and from there every pill gets cancelled and everybody stops, grandchild first *)
Example repaired_completes :
  let ls := d11_window ++ greedy cf3 100 (match run cf3 (init cf3) d11_window with Some s => s | None => init cf3 end) in
  exists s, run cf3 (init cf3) ls = Some s /\ quietb cf3 s = true /\
            map (xdone s) [0; 1; 2] = [true; true; true] /\ map (reg s) [0; 1; 2] = [false; false; false] /\
            map (cancelled s) [PThr 0; PThr 1; PKid 0 1; PKid 1 2] = [true; true; true; true] /\
            map (pcs s) [0; 1; 2] = [NDead; NDead; NDead].
Proof. eexists. split; [vm_compute; reflexivity|]. vm_compute. repeat split; reflexivity. Qed.

(** [C08_pinned_refuted]: with the pinned order of steps (delete self from the
    parent's map first; unregister before Stopped; no flush; no re-check) the
    same window lets the parent handle Stopped — and signal its caller — while
    the child is still registered and has not handled Stopped (D11) *)
Definition d11_pinned : list label :=
  [LThr 0; LThr 0; LThr 0;
   LNode 1; LNode 1; LNode 1; LNode 1; LNode 1; LNode 1;
   LThr 1; LThr 1; LThr 1;
   LNode 0; LNode 0; LNode 0; LNode 0; LNode 0; LNode 0].
Example pinned_refuted :
  exists s, run_pinned cf3 (init cf3) d11_pinned = Some s /\
            xdone s 0 = true /\ cancelled s (PThr 1) = true /\
            xdone s 1 = false /\ reg s 1 = true /\ xdone s 2 = false.
Proof. eexists. split; [vm_compute; reflexivity|]. vm_compute. repeat split; reflexivity. Qed.

(* the hypotheses of the theorems are met by the example *)
Example chain3_wf : NoDup (ids chain3) /\ (forall x, In x [1; 0] -> In x (ids chain3)).
Proof. split; [repeat constructor; cbn; intuition congruence|]. cbn. intuition. Qed.
