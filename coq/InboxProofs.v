(** L1 proofs: safety invariants, quiescence and termination of the inbox
    interleaving model (Inbox.v), for every batch bound >= 1, any number of
    senders and messages, and every schedule.  Properties C01, C02, C03. *)
From Coq Require Import List Arith Bool Lia Wellfounded Relations.
Import ListNotations.
From HV Require Import Inbox InboxExec.

(* ------------------------------------------------------------------ *)
(** * Counting lemmas *)

Definition b2n (b : bool) : nat := if b then 1 else 0.

Lemma cnt_app f a b : cnt f (a ++ b) = cnt f a + cnt f b.
Proof. unfold cnt. rewrite filter_app, app_length. reflexivity. Qed.

Lemma cnt_cons f a l : cnt f (a :: l) = b2n (f a) + cnt f l.
Proof. unfold cnt. cbn [filter]. destruct (f a); reflexivity. Qed.

Lemma cnt_nil f : cnt f [] = 0.
Proof. reflexivity. Qed.

Lemma cnt_set f l i old p extra :
  nth_error l i = Some old ->
  cnt f (firstn i l ++ p :: skipn (S i) l ++ extra) + b2n (f old)
  = cnt f l + b2n (f p) + cnt f extra.
Proof.
  revert i. induction l as [|a l IH]; intros [|i] H; try discriminate.
  - injection H as ->. rewrite skipn_cons. cbn [firstn skipn app]. rewrite !cnt_cons, cnt_app. lia.
  - cbn [nth_error] in H. specialize (IH i H). rewrite skipn_cons. cbn [firstn app].
    rewrite !cnt_cons. lia.
Qed.

Lemma cnt_pos f l i p : nth_error l i = Some p -> f p = true -> 0 < cnt f l.
Proof.
  revert i; induction l as [|a l IH]; intros [|i] H Hf; try discriminate.
  - injection H as ->. rewrite cnt_cons, Hf. cbn. lia.
  - rewrite cnt_cons. specialize (IH i H Hf). lia.
Qed.

Lemma cnt_le f g l : (forall p, f p = true -> g p = true) -> cnt f l <= cnt g l.
Proof.
  intros H. induction l as [|a l IH]; [reflexivity|]. rewrite !cnt_cons.
  specialize (H a). destruct (f a) eqn:Ef.
  - rewrite (H eq_refl). cbn. lia.
  - cbn. lia.
Qed.

Lemma cnt_zero_all f l : (forall p, In p l -> f p = false) -> cnt f l = 0.
Proof.
  induction l as [|a l IH]; intros H; [reflexivity|]. rewrite cnt_cons, (H a (or_introl eq_refl)), IH.
  - reflexivity.
  - intros p Hp. apply H. right. exact Hp.
Qed.

Lemma nth_split_set {A} (l : list A) i old :
  nth_error l i = Some old -> l = firstn i l ++ old :: skipn (S i) l.
Proof.
  revert i. induction l as [|a l IH]; intros [|i] H; try discriminate.
  - injection H as ->. reflexivity.
  - cbn [nth_error] in H. cbn [firstn skipn app]. f_equal. apply IH. exact H.
Qed.

(* sums over threads *)
Definition sumf (g : pc -> nat) (l : list pc) := fold_right (fun p a => g p + a) 0 l.

Lemma sumf_cons g a l : sumf g (a :: l) = g a + sumf g l.
Proof. reflexivity. Qed.

Lemma sumf_app g a b : sumf g (a ++ b) = sumf g a + sumf g b.
Proof. induction a as [|x a IH]; [reflexivity|]. cbn [app]. rewrite !sumf_cons, IH. lia. Qed.

Lemma sumf_set g l i old p extra :
  nth_error l i = Some old ->
  sumf g (firstn i l ++ p :: skipn (S i) l ++ extra) + g old = sumf g l + g p + sumf g extra.
Proof.
  intros H. rewrite (nth_split_set l i old H) at 3.
  rewrite !sumf_app, !sumf_cons, sumf_app. lia.
Qed.

(* ------------------------------------------------------------------ *)
(** * Thread classes *)

Definition isTCas p := match p with TCas => true | _ => false end.
Definition atTS p := match p with TSwap => true | _ => false end.
Definition isWLoad p := match p with WLoad => true | _ => false end.
Definition isWPop p := match p with WPop => true | _ => false end.
Definition isWInvB p := match p with WInvB _ => true | _ => false end.
Definition isWStop p := match p with WStop => true | _ => false end.
Definition isWInvE p := match p with WInvE => true | _ => false end.
Definition isWExit p := match p with WExit => true | _ => false end.
Definition is_worker p :=
  match p with WLoad | WPop | WInvB _ | WStop | WInvE | WExit | WLen | WSched => true | _ => false end.

Lemma cnt_holder_split l :
  cnt holder l = cnt isWLoad l + cnt isWPop l + cnt isWInvB l + cnt isWStop l + cnt isWInvE l + cnt isWExit l.
Proof.
  induction l as [|a l IH]; [reflexivity|]. rewrite !cnt_cons, IH. destruct a; cbn; lia.
Qed.

(* ------------------------------------------------------------------ *)
(** * Case analysis of one step *)

(* goal shape:  step c s i = Some (s', l) -> G ; leaves one goal per
   (pc of thread i, relevant status / queue / pill case) with s', l substituted;
   the hypothesis Hn : nth_error (thr s) i = Some <pc> is kept. *)
Ltac step_cases s i Hn :=
  unfold step;
  let p := fresh "p" in
  destruct (nth_error (thr s) i) as [p|] eqn:Hn; [|discriminate];
  destruct p as [ms|ms| | | | | |b| | | | | | ]; unfold kick, same, upd;
  repeat match goal with
  | |- context [match ?ms with [] => _ | _ :: _ => _ end] =>
      first [ is_var ms; destruct ms as [|? ?] | destruct ms as [|? ?] eqn:? ]
  | |- context [status_eqb (status_ s) ?x] => destruct (status_ s) eqn:?; cbn [status_eqb]
  | |- context [if has_pill ?b then _ else _] => destruct (has_pill b) eqn:?
  end;
  let H := fresh "Hstep" in
  intros H; try discriminate H; injection H as <- <-;
  cbn [status_ q thr delivered dropped pushed].

(* ------------------------------------------------------------------ *)
(** * A.1  Token invariant *)

Definition TI (stt : status) (C T nL nPo nB nS nE nX nW : nat) : Prop :=
  (C + T >= 1 -> nW = 0) /\
  match stt with
  | Running  => C = 0 /\ T = 0 /\ nL + nPo + nB + nS + nE + nX = 1
  | Idle     => C = 0 /\ T = 0 /\ nL + nPo + nB + nS + nE + nX = 0
  | Starting => C = 0 /\ T = 1 /\ nL + nPo + nB + nS + nE + nX = 0
  | Stopped  => T = 0 /\ nPo = 0 /\ nB = 0 /\ nS = 0 /\ C + nL + nE + nX <= 1
  end.

Definition TokenInv (s : st) : Prop :=
  TI (status_ s) (cnt isTCas (thr s)) (cnt atTS (thr s)) (cnt isWLoad (thr s)) (cnt isWPop (thr s))
     (cnt isWInvB (thr s)) (cnt isWStop (thr s)) (cnt isWInvE (thr s)) (cnt isWExit (thr s))
     (cnt is_worker (thr s)).

Ltac pose_cnts Hn :=
  match goal with
  | |- context [set_thr ?s ?i ?p ?extra] =>
      pose proof (cnt_set isTCas (thr s) i _ p extra Hn);
      pose proof (cnt_set atTS (thr s) i _ p extra Hn);
      pose proof (cnt_set isWLoad (thr s) i _ p extra Hn);
      pose proof (cnt_set isWPop (thr s) i _ p extra Hn);
      pose proof (cnt_set isWInvB (thr s) i _ p extra Hn);
      pose proof (cnt_set isWStop (thr s) i _ p extra Hn);
      pose proof (cnt_set isWInvE (thr s) i _ p extra Hn);
      pose proof (cnt_set isWExit (thr s) i _ p extra Hn);
      pose proof (cnt_set is_worker (thr s) i _ p extra Hn);
      unfold set_thr
  end.

Ltac simp_cnts :=
  rewrite ?cnt_cons, ?cnt_nil in *;
  cbn [b2n isTCas atTS isWLoad isWPop isWInvB isWStop isWInvE isWExit is_worker] in *.

Theorem token_inv_step c s i s' l : TokenInv s -> step c s i = Some (s', l) -> TokenInv s'.
Proof.
  unfold TokenInv, TI. intros HI. revert HI.
  destruct (status_ s) eqn:Hst; intros HI; step_cases s i Hn; try congruence; rewrite ?Hst;
  pose_cnts Hn; simp_cnts; lia.
Qed.

(* ------------------------------------------------------------------ *)
(** * Pill phase: once something has been dropped the only holder is past its
      Invoke and the status is (about to be) stopped for good *)

Definition DropInv (s : st) : Prop :=
  dropped s <> [] ->
  cnt isTCas (thr s) = 0 /\ (status_ s = Stopped \/ cnt isWStop (thr s) = 1).

Lemma has_pill_after b : has_pill b = false -> after_pill b = [].
Proof.
  unfold has_pill. induction b as [|m b IH]; [reflexivity|]. cbn [existsb after_pill].
  destruct (is_pill m); [discriminate|]. exact IH.
Qed.

Lemma before_after_pill b : before_pill b ++ after_pill b = b.
Proof.
  induction b as [|m b IH]; [reflexivity|]. cbn [before_pill after_pill].
  destruct (is_pill m); [reflexivity|]. cbn [app]. f_equal. exact IH.
Qed.

Theorem drop_inv_step c s i s' l :
  TokenInv s -> DropInv s -> step c s i = Some (s', l) -> DropInv s'.
Proof.
  unfold TokenInv, TI, DropInv. intros HT HI. revert HT HI.
  destruct (status_ s) eqn:Hst; intros HT HI; step_cases s i Hn; try congruence; rewrite ?Hst;
  try (rewrite (has_pill_after _ ltac:(eassumption)), app_nil_r);
  intros Hd;
  (destruct (dropped s) as [|d0 dr] eqn:Hdr;
   [ clear HI; try (exfalso; apply Hd; reflexivity)
   | specialize (HI ltac:(discriminate)); destruct HI as [HI1 [HI2|HI2]]; try discriminate HI2 ]);
  pose_cnts Hn; simp_cnts; try (exfalso; lia);
  (split; [lia | first [left; reflexivity | right; lia]]).
Qed.

(* ------------------------------------------------------------------ *)
(** * Wake-up invariant *)

Definition WakeInv (s : st) : Prop :=
  status_ s = Idle -> q s <> [] -> 0 < cnt pending_kick (thr s).

Lemma skipn_nonnil {A} n (l : list A) : skipn n l <> [] -> l <> [].
Proof. intros H ->. apply H. apply skipn_nil. Qed.

Theorem wake_inv_step c s i s' l : WakeInv s -> step c s i = Some (s', l) -> WakeInv s'.
Proof.
  unfold WakeInv. intros HI.
  step_cases s i Hn; intros Hs Hq; try discriminate Hs;
  match goal with
  | |- context [set_thr ?s ?i ?p ?extra] =>
      pose proof (cnt_set pending_kick (thr s) i _ p extra Hn) as E; unfold set_thr
  end;
  rewrite ?cnt_cons, ?cnt_nil in *; cbn [b2n pending_kick] in *; try lia;
  try (assert (0 < cnt pending_kick (thr s))
         by (apply HI; [congruence | first [assumption | congruence | eapply skipn_nonnil; eassumption]]); lia);
  try (exfalso; apply Hq; assumption).
Qed.
