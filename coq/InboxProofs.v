(** L1 proofs: safety invariants, quiescence and termination of the inbox
    interleaving model (Inbox.v), for every batch bound >= 1, any number of
    senders and messages, and every schedule.  Properties C01, C02, C03. *)
From Coq Require Import List Arith Bool Lia Wellfounded Relations Permutation.
Import ListNotations.
From HV Require Import Inbox InboxExec.

(* ------------------------------------------------------------------ *)
(** * Counting lemmas *)

Definition b2n (b : bool) : nat := if b then 1 else 0.

Lemma cnt_app f a b : cnt f (a ++ b) = cnt f a + cnt f b.
Proof. unfold cnt. rewrite filter_app, app_length. reflexivity. Qed.

Lemma cnt_cons f a l : cnt f (a :: l) = b2n (f a) + cnt f l.
Proof. unfold cnt. cbn [filter]. destruct (f a); reflexivity. Qed.

Lemma cnt_nil f : cnt f [] = 0.
Proof. reflexivity. Qed.

Lemma cnt_set f l i old p extra :
  nth_error l i = Some old ->
  cnt f (firstn i l ++ p :: skipn (S i) l ++ extra) + b2n (f old)
  = cnt f l + b2n (f p) + cnt f extra.
Proof.
  revert i. induction l as [|a l IH]; intros [|i] H; try discriminate.
  - injection H as ->. rewrite skipn_cons. cbn [firstn skipn app]. rewrite !cnt_cons, cnt_app. lia.
  - cbn [nth_error] in H. specialize (IH i H). rewrite skipn_cons. cbn [firstn app].
    rewrite !cnt_cons. lia.
Qed.

Lemma cnt_pos f l i p : nth_error l i = Some p -> f p = true -> 0 < cnt f l.
Proof.
  revert i; induction l as [|a l IH]; intros [|i] H Hf; try discriminate.
  - injection H as ->. rewrite cnt_cons, Hf. cbn. lia.
  - rewrite cnt_cons. specialize (IH i H Hf). lia.
Qed.

Lemma cnt_le f g l : (forall p, f p = true -> g p = true) -> cnt f l <= cnt g l.
Proof.
  intros H. induction l as [|a l IH]; [reflexivity|]. rewrite !cnt_cons.
  specialize (H a). destruct (f a) eqn:Ef.
  - rewrite (H eq_refl). cbn. lia.
  - cbn. lia.
Qed.

Lemma cnt_zero_all f l : (forall p, In p l -> f p = false) -> cnt f l = 0.
Proof.
  induction l as [|a l IH]; intros H; [reflexivity|]. rewrite cnt_cons, (H a (or_introl eq_refl)), IH.
  - reflexivity.
  - intros p Hp. apply H. right. exact Hp.
Qed.

Lemma nth_split_set {A} (l : list A) i old :
  nth_error l i = Some old -> l = firstn i l ++ old :: skipn (S i) l.
Proof.
  revert i. induction l as [|a l IH]; intros [|i] H; try discriminate.
  - injection H as ->. reflexivity.
  - cbn [nth_error] in H. cbn [firstn skipn app]. f_equal. apply IH. exact H.
Qed.

(* sums over threads *)
Definition sumf (g : pc -> nat) (l : list pc) := fold_right (fun p a => g p + a) 0 l.

Lemma sumf_cons g a l : sumf g (a :: l) = g a + sumf g l.
Proof. reflexivity. Qed.

Lemma sumf_app g a b : sumf g (a ++ b) = sumf g a + sumf g b.
Proof. induction a as [|x a IH]; [reflexivity|]. cbn [app]. rewrite !sumf_cons, IH. lia. Qed.

Lemma sumf_set g l i old p extra :
  nth_error l i = Some old ->
  sumf g (firstn i l ++ p :: skipn (S i) l ++ extra) + g old = sumf g l + g p + sumf g extra.
Proof.
  intros H. rewrite (nth_split_set l i old H) at 3.
  rewrite !sumf_app, !sumf_cons, sumf_app. lia.
Qed.

(* ------------------------------------------------------------------ *)
(** * Thread classes *)

Definition isTCas p := match p with TCas => true | _ => false end.
Definition atTS p := match p with TSwap => true | _ => false end.
Definition isWLoad p := match p with WLoad => true | _ => false end.
Definition isWPop p := match p with WPop => true | _ => false end.
Definition isWInvB p := match p with WInvB _ => true | _ => false end.
Definition isWStop p := match p with WStop => true | _ => false end.
Definition isWInvE p := match p with WInvE => true | _ => false end.
Definition isWExit p := match p with WExit => true | _ => false end.
Definition is_worker p :=
  match p with WLoad | WPop | WInvB _ | WStop | WInvE | WExit | WLen | WSched => true | _ => false end.

Lemma cnt_holder_split l :
  cnt holder l = cnt isWLoad l + cnt isWPop l + cnt isWInvB l + cnt isWStop l + cnt isWInvE l + cnt isWExit l.
Proof.
  induction l as [|a l IH]; [reflexivity|]. rewrite !cnt_cons, IH. destruct a; cbn; lia.
Qed.

(* ------------------------------------------------------------------ *)
(** * Case analysis of one step *)

(* goal shape:  step c s i = Some (s', l) -> G ; leaves one goal per
   (pc of thread i, relevant status / queue / pill case) with s', l substituted;
   the hypothesis Hn : nth_error (thr s) i = Some <pc> is kept. *)
Ltac step_cases s i Hn :=
  unfold step;
  let p := fresh "p" in
  destruct (nth_error (thr s) i) as [p|] eqn:Hn; [|discriminate];
  destruct p as [ms|ms| | | | | |b| | | | | | ]; unfold kick, same, upd;
  repeat match goal with
  | |- context [match ?ms with [] => _ | _ :: _ => _ end] =>
      first [ is_var ms; destruct ms as [|? ?] | destruct ms as [|? ?] eqn:? ]
  | |- context [status_eqb (status_ s) ?x] => destruct (status_ s) eqn:?; cbn [status_eqb]
  | |- context [if has_pill ?b then _ else _] => destruct (has_pill b) eqn:?
  end;
  let H := fresh "Hstep" in
  intros H; try discriminate H; injection H as <- <-;
  cbn [status_ q thr delivered dropped pushed].

(* ------------------------------------------------------------------ *)
(** * A.1  Token invariant *)

Definition TI (stt : status) (C T nL nPo nB nS nE nX nW : nat) : Prop :=
  (C + T >= 1 -> nW = 0) /\
  match stt with
  | Running  => C = 0 /\ T = 0 /\ nL + nPo + nB + nS + nE + nX = 1
  | Idle     => C = 0 /\ T = 0 /\ nL + nPo + nB + nS + nE + nX = 0
  | Starting => C = 0 /\ T = 1 /\ nL + nPo + nB + nS + nE + nX = 0
  | Stopped  => T = 0 /\ nPo = 0 /\ nB = 0 /\ nS = 0 /\ C + nL + nE + nX <= 1
  end.

Definition TokenInv (s : st) : Prop :=
  TI (status_ s) (cnt isTCas (thr s)) (cnt atTS (thr s)) (cnt isWLoad (thr s)) (cnt isWPop (thr s))
     (cnt isWInvB (thr s)) (cnt isWStop (thr s)) (cnt isWInvE (thr s)) (cnt isWExit (thr s))
     (cnt is_worker (thr s)).

Ltac pose_cnts Hn :=
  match goal with
  | |- context [set_thr ?s ?i ?p ?extra] =>
      pose proof (cnt_set isTCas (thr s) i _ p extra Hn);
      pose proof (cnt_set atTS (thr s) i _ p extra Hn);
      pose proof (cnt_set isWLoad (thr s) i _ p extra Hn);
      pose proof (cnt_set isWPop (thr s) i _ p extra Hn);
      pose proof (cnt_set isWInvB (thr s) i _ p extra Hn);
      pose proof (cnt_set isWStop (thr s) i _ p extra Hn);
      pose proof (cnt_set isWInvE (thr s) i _ p extra Hn);
      pose proof (cnt_set isWExit (thr s) i _ p extra Hn);
      pose proof (cnt_set is_worker (thr s) i _ p extra Hn);
      unfold set_thr
  end.

Ltac simp_cnts :=
  rewrite ?cnt_cons, ?cnt_nil in *;
  cbn [b2n isTCas atTS isWLoad isWPop isWInvB isWStop isWInvE isWExit is_worker] in *.

Theorem token_inv_step c s i s' l : TokenInv s -> step c s i = Some (s', l) -> TokenInv s'.
Proof.
  unfold TokenInv, TI. intros HI. revert HI.
  destruct (status_ s) eqn:Hst; intros HI; step_cases s i Hn; try congruence; rewrite ?Hst;
  pose_cnts Hn; simp_cnts; lia.
Qed.

(* ------------------------------------------------------------------ *)
(** * Pill phase: once something has been dropped the only holder is past its
      Invoke and the status is (about to be) stopped for good *)

Definition DropInv (s : st) : Prop :=
  dropped s <> [] ->
  cnt isTCas (thr s) = 0 /\ (status_ s = Stopped \/ cnt isWStop (thr s) = 1).

Lemma has_pill_after b : has_pill b = false -> after_pill b = [].
Proof.
  unfold has_pill. induction b as [|m b IH]; [reflexivity|]. cbn [existsb after_pill].
  destruct (is_pill m); [discriminate|]. exact IH.
Qed.

Lemma before_after_pill b : before_pill b ++ after_pill b = b.
Proof.
  induction b as [|m b IH]; [reflexivity|]. cbn [before_pill after_pill].
  destruct (is_pill m); [reflexivity|]. cbn [app]. f_equal. exact IH.
Qed.

Theorem drop_inv_step c s i s' l :
  TokenInv s -> DropInv s -> step c s i = Some (s', l) -> DropInv s'.
Proof.
  unfold TokenInv, TI, DropInv. intros HT HI. revert HT HI.
  destruct (status_ s) eqn:Hst; intros HT HI; step_cases s i Hn; try congruence; rewrite ?Hst;
  try (rewrite (has_pill_after _ ltac:(eassumption)), app_nil_r);
  intros Hd;
  (destruct (dropped s) as [|d0 dr] eqn:Hdr;
   [ clear HI; try (exfalso; apply Hd; reflexivity)
   | specialize (HI ltac:(discriminate)); destruct HI as [HI1 [HI2|HI2]]; try discriminate HI2 ]);
  pose_cnts Hn; simp_cnts; try (exfalso; lia);
  (split; [lia | first [left; reflexivity | right; lia]]).
Qed.

(* ------------------------------------------------------------------ *)
(** * Wake-up invariant *)

Definition WakeInv (s : st) : Prop :=
  status_ s = Idle -> q s <> [] -> 0 < cnt pending_kick (thr s).

Lemma skipn_nonnil {A} n (l : list A) : skipn n l <> [] -> l <> [].
Proof. intros H ->. apply H. apply skipn_nil. Qed.

Theorem wake_inv_step c s i s' l : WakeInv s -> step c s i = Some (s', l) -> WakeInv s'.
Proof.
  unfold WakeInv. intros HI.
  step_cases s i Hn; intros Hs Hq; try discriminate Hs;
  match goal with
  | |- context [set_thr ?s ?i ?p ?extra] =>
      pose proof (cnt_set pending_kick (thr s) i _ p extra Hn) as E; unfold set_thr
  end;
  rewrite ?cnt_cons, ?cnt_nil in *; cbn [b2n pending_kick] in *; try lia;
  try (assert (0 < cnt pending_kick (thr s))
         by (apply HI; [congruence | first [assumption | congruence | eapply skipn_nonnil; eassumption]]); lia);
  try (exfalso; apply Hq; first [assumption | reflexivity]).
Qed.

(* ------------------------------------------------------------------ *)
(** * Conservation: delivered ++ dropped ++ inflight ++ q = pushed *)

Definition fI (p : pc) : list msg := match p with WInvB b => b | _ => [] end.

Lemma inflight_eq s : inflight s = flat_map fI (thr s).
Proof. reflexivity. Qed.

Lemma flat_map_set {B} (f : pc -> list B) l i old p extra :
  nth_error l i = Some old ->
  flat_map f l = flat_map f (firstn i l) ++ f old ++ flat_map f (skipn (S i) l) /\
  flat_map f (firstn i l ++ p :: skipn (S i) l ++ extra)
  = flat_map f (firstn i l) ++ f p ++ flat_map f (skipn (S i) l) ++ flat_map f extra.
Proof.
  intros H. split.
  - rewrite (nth_split_set l i old H) at 1. rewrite flat_map_app. cbn [flat_map]. reflexivity.
  - rewrite flat_map_app. cbn [flat_map]. rewrite flat_map_app. reflexivity.
Qed.

Lemma cnt_split3 f l i old :
  nth_error l i = Some old -> cnt f l = cnt f (firstn i l) + b2n (f old) + cnt f (skipn (S i) l).
Proof.
  intros H. rewrite (nth_split_set l i old H) at 1. rewrite cnt_app, cnt_cons. lia.
Qed.

Lemma noB_flat l : cnt isWInvB l = 0 -> flat_map fI l = [].
Proof.
  induction l as [|a l IH]; [reflexivity|]. rewrite cnt_cons. intros H.
  cbn [flat_map]. rewrite IH by lia. destruct a; cbn in *; try reflexivity. lia.
Qed.

(* the stepping thread is the only one that can be at WInvB *)
Lemma inflight_only l i old p extra :
  nth_error l i = Some old -> cnt isWInvB l <= b2n (isWInvB old) ->
  flat_map fI l = fI old /\
  flat_map fI (firstn i l ++ p :: skipn (S i) l ++ extra) = fI p ++ flat_map fI extra.
Proof.
  intros H Hc. pose proof (cnt_split3 isWInvB l i old H) as E.
  destruct (flat_map_set fI l i old p extra H) as [E1 E2]. rewrite E1, E2.
  rewrite !noB_flat by lia. cbn [app]. rewrite app_nil_r. split; reflexivity.
Qed.

Lemma inflight_same l i old p extra :
  nth_error l i = Some old -> fI old = [] -> fI p = [] -> flat_map fI extra = [] ->
  flat_map fI (firstn i l ++ p :: skipn (S i) l ++ extra) = flat_map fI l.
Proof.
  intros H H1 H2 H3. destruct (flat_map_set fI l i old p extra H) as [E1 E2].
  rewrite E1, E2, H1, H2, H3. cbn [app]. rewrite app_nil_r. reflexivity.
Qed.

Definition ConsInv (s : st) : Prop :=
  delivered s ++ dropped s ++ inflight s ++ q s = pushed s.

Lemma TokenInv_B_le1 s : TokenInv s -> cnt isWInvB (thr s) <= 1.
Proof. unfold TokenInv, TI. destruct (status_ s); lia. Qed.

Lemma TokenInv_PoB_le1 s : TokenInv s -> cnt isWPop (thr s) + cnt isWInvB (thr s) <= 1.
Proof. unfold TokenInv, TI. destruct (status_ s); lia. Qed.

Lemma DropInv_noB s : TokenInv s -> DropInv s -> 0 < cnt isWInvB (thr s) -> dropped s = [].
Proof.
  unfold TokenInv, TI, DropInv. intros HT HD HB.
  destruct (dropped s) as [|d dr]; [reflexivity|]. exfalso.
  specialize (HD ltac:(discriminate)). destruct HD as [_ [HD|HD]].
  - rewrite HD in HT. lia.
  - destruct (status_ s); lia.
Qed.

Theorem cons_inv_step c s i s' l :
  TokenInv s -> DropInv s -> ConsInv s -> step c s i = Some (s', l) -> ConsInv s'.
Proof.
  unfold ConsInv. rewrite !inflight_eq. intros HT HD HI.
  step_cases s i Hn; unfold set_thr.
  (* every step except push, pop, invoke-begin leaves all five lists alone *)
  all: try (rewrite (inflight_same _ _ _ _ _ Hn) by reflexivity; exact HI).
  - (* push *)
    rewrite (inflight_same _ _ _ _ _ Hn) by reflexivity.
    rewrite <- HI. rewrite <- !app_assoc. reflexivity.
  - (* pop *)
    pose proof (TokenInv_PoB_le1 s HT) as Hle.
    pose proof (cnt_pos isWPop _ _ _ Hn eq_refl) as Hpos.
    match goal with |- context [WInvB ?bb :: _] =>
      destruct (inflight_only (thr s) i WPop (WInvB bb) [] Hn) as [E1 E2]; [cbn; lia|] end.
    rewrite E2. rewrite E1 in HI. cbn [fI flat_map app] in *. rewrite app_nil_r.
    rewrite firstn_skipn. exact HI.
  - (* invoke, pill *)
    pose proof (TokenInv_B_le1 s HT) as Hle.
    pose proof (cnt_pos isWInvB _ _ _ Hn eq_refl) as Hpos.
    rewrite (DropInv_noB s HT HD Hpos) in *.
    destruct (inflight_only (thr s) i (WInvB b) WStop [] Hn) as [E1 E2]; [cbn; lia|].
    rewrite E2. rewrite E1 in HI. cbn [fI flat_map app] in *.
    rewrite <- HI. rewrite <- (before_after_pill b) at 3. rewrite <- !app_assoc. reflexivity.
  - (* invoke, no pill *)
    pose proof (TokenInv_B_le1 s HT) as Hle.
    pose proof (cnt_pos isWInvB _ _ _ Hn eq_refl) as Hpos.
    rewrite (DropInv_noB s HT HD Hpos) in *.
    destruct (inflight_only (thr s) i (WInvB b) WInvE [] Hn) as [E1 E2]; [cbn; lia|].
    rewrite E2. rewrite E1 in HI. cbn [fI flat_map app] in *.
    rewrite <- HI. rewrite <- (before_after_pill b) at 3. rewrite <- !app_assoc. reflexivity.
Qed.

(* ------------------------------------------------------------------ *)
(** * What one step does to the thread list and to [pushed] *)

Definition remaining (p : pc) : list msg :=
  match p with SPush ms => ms | SCas ms => ms | _ => [] end.

Lemma program_msgs_eq clients : program_msgs clients = flat_map remaining clients.
Proof. reflexivity. Qed.

Lemma step_summary c s i s' l :
  step c s i = Some (s', l) ->
  exists old p extra,
    nth_error (thr s) i = Some old /\
    thr s' = firstn i (thr s) ++ p :: skipn (S i) (thr s) ++ extra /\
    (extra = [] \/ extra = [WLoad]) /\
    ((pushed s' = pushed s /\ remaining p = remaining old) \/
     (exists m, pushed s' = pushed s ++ [m] /\ remaining old = m :: remaining p /\ l = LPush m)).
Proof.
  step_cases s i Hn; unfold set_thr; do 3 eexists;
  (split; [reflexivity|]); (split; [reflexivity|]);
  (split; [first [left; reflexivity | right; reflexivity]|]);
  first [left; split; reflexivity | right; eexists; repeat split; reflexivity].
Qed.

Lemma set_length {A} (l : list A) i old p extra :
  nth_error l i = Some old ->
  length (firstn i l ++ p :: skipn (S i) l ++ extra) = length l + length extra.
Proof.
  revert i. induction l as [|a l IH]; intros [|i] H; try discriminate.
  - cbn [firstn skipn app length]. rewrite app_length. reflexivity.
  - cbn [nth_error] in H. rewrite skipn_cons. cbn [firstn app length]. rewrite (IH i H). reflexivity.
Qed.

Lemma nth_error_set_cases {A} (l : list A) i old p extra j x :
  nth_error l i = Some old ->
  nth_error (firstn i l ++ p :: skipn (S i) l ++ extra) j = Some x ->
  (j = i /\ x = p) \/ (j <> i /\ nth_error l j = Some x) \/ (length l <= j /\ In x extra).
Proof.
  revert i j. induction l as [|a l IH]; intros [|i] [|j] H Hj; try discriminate.
  - cbn in Hj. injection Hj as <-. left. split; reflexivity.
  - cbn [firstn skipn app nth_error] in Hj. right.
    destruct (Nat.lt_ge_cases j (length l)) as [Hlt|Hge].
    + left. split; [discriminate|]. rewrite nth_error_app1 in Hj by exact Hlt. exact Hj.
    + right. rewrite nth_error_app2 in Hj by exact Hge. split; [cbn; lia|].
      eapply nth_error_In. exact Hj.
  - cbn in Hj. injection Hj as <-. right. left. split; [discriminate|reflexivity].
  - cbn [nth_error] in H. cbn [firstn skipn app nth_error] in Hj.
    destruct (IH i j H Hj) as [[-> ->]|[[Hne Hx]|[Hge Hin]]].
    + left. split; reflexivity.
    + right. left. split; [congruence|exact Hx].
    + right. right. split; [cbn; lia|exact Hin].
Qed.

Lemma step_length c s i s' l :
  step c s i = Some (s', l) -> length (thr s) <= length (thr s').
Proof.
  intros H. destruct (step_summary _ _ _ _ _ H) as (old & p & extra & Hn & Hthr & _).
  rewrite Hthr, (set_length _ _ _ _ _ Hn). lia.
Qed.

(* ------------------------------------------------------------------ *)
(** * Program order *)

(* program of thread j of the initial thread list T0 *)
Definition prog (T0 : list pc) (j : nat) : list msg :=
  match nth_error T0 j with Some p0 => remaining p0 | None => [] end.

Definition ProgInv (T0 : list pc) (s : st) : Prop :=
  length T0 <= length (thr s) /\
  forall j p, nth_error (thr s) j = Some p ->
    sub_of (prog T0 j) (pushed s) ++ remaining p = prog T0 j.

Lemma existsb_eqb_In m l : existsb (Nat.eqb m) l = true <-> In m l.
Proof.
  rewrite existsb_exists. split.
  - intros (x & Hx & E). apply Nat.eqb_eq in E. subst. exact Hx.
  - intros H. exists m. split; [exact H|apply Nat.eqb_refl].
Qed.

Lemma sub_of_snoc P l m :
  sub_of P (l ++ [m]) = sub_of P l ++ (if existsb (Nat.eqb m) P then [m] else []).
Proof. unfold sub_of. rewrite filter_app. reflexivity. Qed.

Lemma sub_of_nil l : sub_of [] l = [].
Proof. unfold sub_of. induction l as [|a l IH]; [reflexivity|exact IH]. Qed.

Lemma NoDup_app_disj {A} (a b : list A) x : NoDup (a ++ b) -> In x a -> In x b -> False.
Proof.
  induction a as [|y a IH]; intros H Ha Hb; [exact Ha|].
  cbn [app] in H. apply NoDup_cons_iff in H. destruct H as [Hy H]. destruct Ha as [->|Ha].
  - apply Hy. apply in_or_app. right. exact Hb.
  - exact (IH H Ha Hb).
Qed.

Lemma NoDup_app_r {A} (a b : list A) : NoDup (a ++ b) -> NoDup b.
Proof.
  induction a as [|y a IH]; intros H; [exact H|].
  cbn [app] in H. apply NoDup_cons_iff in H. apply IH. apply H.
Qed.

Lemma prog_in_all T0 j m : In m (prog T0 j) -> In m (flat_map remaining T0).
Proof.
  unfold prog. destruct (nth_error T0 j) as [p0|] eqn:E; [|intros []].
  intros H. apply in_flat_map. exists p0. split; [eapply nth_error_In; exact E|exact H].
Qed.

Lemma prog_disjoint T0 i j m :
  NoDup (flat_map remaining T0) -> i <> j -> In m (prog T0 i) -> In m (prog T0 j) -> False.
Proof.
  revert i j. induction T0 as [|a T0 IH]; intros i j ND Hne Hi Hj.
  - unfold prog in Hi. destruct i; exact Hi.
  - cbn [flat_map] in ND. destruct i as [|i], j as [|j].
    + congruence.
    + unfold prog in Hi, Hj. cbn [nth_error] in Hi, Hj.
      eapply NoDup_app_disj; [exact ND|exact Hi|]. apply (prog_in_all T0 j). exact Hj.
    + unfold prog in Hi, Hj. cbn [nth_error] in Hi, Hj.
      eapply NoDup_app_disj; [exact ND|exact Hj|]. apply (prog_in_all T0 i). exact Hi.
    + apply (IH i j); [eapply NoDup_app_r; exact ND|congruence|exact Hi|exact Hj].
Qed.

Lemma prog_inv_init T0 stt : ProgInv T0 {| status_ := stt; q := []; thr := T0; delivered := []; dropped := []; pushed := [] |}.
Proof.
  split; [reflexivity|]. cbn [thr pushed]. intros j p H. unfold prog. rewrite H. reflexivity.
Qed.

Theorem prog_inv_step T0 c s i s' l :
  NoDup (flat_map remaining T0) ->
  ProgInv T0 s -> step c s i = Some (s', l) -> ProgInv T0 s'.
Proof.
  intros ND [HL HI] Hstep.
  destruct (step_summary _ _ _ _ _ Hstep) as (old & p & extra & Hn & Hthr & Hex & Hpush).
  split.
  - pose proof (step_length _ _ _ _ _ Hstep). lia.
  - intros j x Hj. rewrite Hthr in Hj.
    pose proof (HI i old Hn) as Hi.
    destruct (nth_error_set_cases _ _ _ _ _ _ _ Hn Hj) as [[-> ->]|[[Hne Hx]|[Hge Hin]]].
    + destruct Hpush as [[Hp Hr]|(m & Hp & Hr & _)].
      * rewrite Hp, Hr. exact Hi.
      * rewrite Hp, sub_of_snoc. rewrite Hr in Hi.
        assert (Hm : existsb (Nat.eqb m) (prog T0 i) = true).
        { apply existsb_eqb_In. rewrite <- Hi. apply in_or_app. right. left. reflexivity. }
        rewrite Hm, <- app_assoc. exact Hi.
    + specialize (HI j x Hx). destruct Hpush as [[Hp Hr]|(m & Hp & Hr & _)].
      * rewrite Hp. exact HI.
      * rewrite Hp, sub_of_snoc. rewrite Hr in Hi.
        destruct (existsb (Nat.eqb m) (prog T0 j)) eqn:Hm.
        -- exfalso. apply existsb_eqb_In in Hm.
           apply (prog_disjoint T0 i j m ND); [congruence| |exact Hm].
           rewrite <- Hi. apply in_or_app. right. left. reflexivity.
        -- rewrite app_nil_r. exact HI.
    + assert (Hnone : prog T0 j = []).
      { unfold prog. destruct (nth_error T0 j) eqn:E; [|reflexivity].
        exfalso. assert (j < length T0) by (apply nth_error_Some; congruence). lia. }
      rewrite Hnone, sub_of_nil.
      destruct Hex as [->| ->]; [destruct Hin|]. destruct Hin as [<-|[]]. reflexivity.
Qed.

(* ------------------------------------------------------------------ *)
(** * Counting messages: nothing is invented or lost by the senders *)

Definition cntm (f : msg -> bool) (l : list msg) : nat := length (filter f l).

Definition CountInv (f : msg -> bool) (T0 : list pc) (s : st) : Prop :=
  cntm f (pushed s) + sumf (fun p => cntm f (remaining p)) (thr s) = cntm f (flat_map remaining T0).

Lemma cntm_app f a b : cntm f (a ++ b) = cntm f a + cntm f b.
Proof. unfold cntm. rewrite filter_app, app_length. reflexivity. Qed.

Lemma cntm_cons f m l : cntm f (m :: l) = b2n (f m) + cntm f l.
Proof. unfold cntm. cbn [filter]. destruct (f m); reflexivity. Qed.

Lemma cntm_flat_map f l : cntm f (flat_map remaining l) = sumf (fun p => cntm f (remaining p)) l.
Proof.
  induction l as [|a l IH]; [reflexivity|]. cbn [flat_map]. rewrite cntm_app, sumf_cons, IH. reflexivity.
Qed.

Lemma count_inv_init f T0 stt :
  CountInv f T0 {| status_ := stt; q := []; thr := T0; delivered := []; dropped := []; pushed := [] |}.
Proof. unfold CountInv. cbn [pushed thr]. rewrite cntm_flat_map. reflexivity. Qed.

Theorem count_inv_step f T0 c s i s' l :
  CountInv f T0 s -> step c s i = Some (s', l) -> CountInv f T0 s'.
Proof.
  unfold CountInv. intros HI Hstep.
  destruct (step_summary _ _ _ _ _ Hstep) as (old & p & extra & Hn & Hthr & Hex & Hpush).
  rewrite Hthr.
  pose proof (sumf_set (fun p => cntm f (remaining p)) _ _ _ p extra Hn) as E. cbv beta in E.
  assert (Hx : sumf (fun p => cntm f (remaining p)) extra = 0) by (destruct Hex as [->| ->]; reflexivity).
  destruct Hpush as [[Hp Hr]|(m & Hp & Hr & _)].
  - rewrite Hp. rewrite Hr in E. lia.
  - rewrite Hp, cntm_app, (cntm_cons f m []). rewrite Hr, cntm_cons in E.
    change (cntm f []) with 0. lia.
Qed.

Lemma cntm_true l : cntm (fun _ => true) l = length l.
Proof. unfold cntm. induction l as [|a l IH]; [reflexivity|]. cbn. rewrite IH. reflexivity. Qed.

Lemma cntm_zero_existsb f l : cntm f l = 0 <-> existsb f l = false.
Proof.
  unfold cntm. induction l as [|a l IH]; [split; reflexivity|]. cbn [filter existsb].
  destruct (f a); cbn [length orb]; [split; discriminate|exact IH].
Qed.

(* ------------------------------------------------------------------ *)
(** * Pill-free programs: nothing is dropped, the inbox is never stopped again *)

Definition NP1 (s : st) : Prop := cnt isWStop (thr s) = 0 /\ dropped s = [].
(* a started inbox is stopped only while its starter has not yet run *)
Definition NP2 (s : st) : Prop := status_ s = Stopped -> cnt isTCas (thr s) = 1.

Lemma existsb_app_false {A} (f : A -> bool) a b :
  existsb f (a ++ b) = false -> existsb f a = false /\ existsb f b = false.
Proof. rewrite existsb_app. apply orb_false_elim. Qed.

Lemma batch_pill_free s i b :
  ConsInv s -> pills_in (pushed s) = false -> nth_error (thr s) i = Some (WInvB b) -> has_pill b = false.
Proof.
  unfold ConsInv, pills_in, has_pill. intros HC HP Hn. rewrite <- HC in HP.
  apply existsb_app_false in HP. destruct HP as [_ HP].
  apply existsb_app_false in HP. destruct HP as [_ HP].
  apply existsb_app_false in HP. destruct HP as [HP _].
  rewrite inflight_eq in HP. destruct (flat_map_set fI (thr s) i _ Done [] Hn) as [E _].
  rewrite E in HP. apply existsb_app_false in HP. destruct HP as [_ HP].
  apply existsb_app_false in HP. destruct HP as [HP _]. exact HP.
Qed.

Theorem np1_step c s i s' l :
  ConsInv s -> pills_in (pushed s) = false -> NP1 s -> step c s i = Some (s', l) -> NP1 s'.
Proof.
  unfold NP1. intros HC HP [HS HD].
  pose proof (batch_pill_free s i) as Hb. specialize (fun b => Hb b HC HP).
  step_cases s i Hn; try (rewrite (Hb _ eq_refl) in *; discriminate);
  try (rewrite (has_pill_after _ ltac:(eassumption)), app_nil_r);
  (split; [|exact HD]);
  match goal with
  | |- context [set_thr ?s ?i ?p ?extra] =>
      pose proof (cnt_set isWStop (thr s) i _ p extra Hn) as E; unfold set_thr
  end;
  rewrite ?cnt_cons, ?cnt_nil in *; cbn [b2n isWStop] in *; lia.
Qed.

Theorem np2_step c s i s' l :
  ConsInv s -> pills_in (pushed s) = false -> NP1 s -> NP2 s -> step c s i = Some (s', l) -> NP2 s'.
Proof.
  unfold NP1, NP2. intros HC HP [HS HD] HI.
  pose proof (batch_pill_free s i) as Hb. specialize (fun b => Hb b HC HP).
  step_cases s i Hn; try (rewrite (Hb _ eq_refl) in *; discriminate);
  intros Hst; try discriminate Hst; try specialize (HI Hst); try specialize (HI eq_refl);
  match goal with
  | |- context [set_thr ?s ?i ?p ?extra] =>
      pose proof (cnt_set isWStop (thr s) i _ p extra Hn) as E;
      pose proof (cnt_set isTCas (thr s) i _ p extra Hn) as E2; unfold set_thr
  end;
  rewrite ?cnt_cons, ?cnt_nil in *; cbn [b2n isWStop isTCas] in *; try lia; congruence.
Qed.

(* ------------------------------------------------------------------ *)
(** * Initial states *)

Definition valid_start (clients : list pc) (s0 : st) : Prop :=
  forallb client_ok clients = true /\
  ((s0 = init clients /\ cnt is_starter clients <= 1) \/
   (s0 = init_started clients /\ cnt is_starter clients = 0)).

(* the inbox gets started: exactly one starter, or started already *)
Definition started_start (clients : list pc) (s0 : st) : Prop :=
  forallb client_ok clients = true /\
  ((s0 = init clients /\ cnt is_starter clients = 1) \/
   (s0 = init_started clients /\ cnt is_starter clients = 0)).

Lemma started_valid clients s0 : started_start clients s0 -> valid_start clients s0.
Proof. intros [H [[-> E]|[-> E]]]; (split; [exact H|]); [left|right]; split; try reflexivity; lia. Qed.

Lemma cnt_clients f l :
  forallb client_ok l = true -> (forall p, client_ok p = true -> f p = false) -> cnt f l = 0.
Proof.
  intros H Hf. apply cnt_zero_all. intros p Hp. apply Hf.
  rewrite forallb_forall in H. apply H. exact Hp.
Qed.

Lemma cnt_clients_ext f g l :
  forallb client_ok l = true -> (forall p, client_ok p = true -> f p = g p) -> cnt f l = cnt g l.
Proof.
  induction l as [|a l IH]; intros H Hf; [reflexivity|]. cbn [forallb] in H.
  apply andb_prop in H. destruct H as [Ha H]. rewrite !cnt_cons, (Hf a Ha), (IH H Hf). reflexivity.
Qed.

Ltac client_cases := let p := fresh "p" in intros p; destruct p; cbn; intros; congruence.

Lemma start_thr_msgs clients s0 :
  valid_start clients s0 -> flat_map remaining (thr s0) = program_msgs clients.
Proof. intros [_ [[-> _]|[-> _]]]; reflexivity. Qed.

Lemma inv_init clients s0 :
  valid_start clients s0 -> TokenInv s0 /\ DropInv s0 /\ WakeInv s0 /\ ConsInv s0.
Proof.
  intros [Hok Hs].
  assert (HC : cnt isTCas clients = cnt is_starter clients) by (apply cnt_clients_ext; [exact Hok|client_cases]).
  assert (H1 : cnt atTS clients = 0) by (apply cnt_clients; [exact Hok|client_cases]).
  assert (H2 : cnt isWLoad clients = 0) by (apply cnt_clients; [exact Hok|client_cases]).
  assert (H3 : cnt isWPop clients = 0) by (apply cnt_clients; [exact Hok|client_cases]).
  assert (H4 : cnt isWInvB clients = 0) by (apply cnt_clients; [exact Hok|client_cases]).
  assert (H5 : cnt isWStop clients = 0) by (apply cnt_clients; [exact Hok|client_cases]).
  assert (H6 : cnt isWInvE clients = 0) by (apply cnt_clients; [exact Hok|client_cases]).
  assert (H7 : cnt isWExit clients = 0) by (apply cnt_clients; [exact Hok|client_cases]).
  assert (H8 : cnt is_worker clients = 0) by (apply cnt_clients; [exact Hok|client_cases]).
  destruct Hs as [[-> Hc]|[-> Hc]]; unfold TokenInv, TI, DropInv, WakeInv, ConsInv, init, init_started;
  cbn [status_ thr q delivered dropped pushed app];
  rewrite ?cnt_cons; cbn [b2n isTCas atTS isWLoad isWPop isWInvB isWStop isWInvE isWExit is_worker].
  - repeat split; try lia; try congruence.
    rewrite inflight_eq; cbn [thr]. rewrite noB_flat by exact H4. reflexivity.
  - repeat split; try lia; try congruence.
    rewrite inflight_eq; cbn [thr flat_map fI app]. rewrite noB_flat by exact H4. reflexivity.
Qed.

Theorem reach_inv c clients s0 s :
  valid_start clients s0 -> reach c s0 s ->
  TokenInv s /\ DropInv s /\ WakeInv s /\ ConsInv s.
Proof.
  intros Hv Hr. induction Hr as [|s i s' l Hr IH Hstep]; [exact (inv_init _ _ Hv)|].
  destruct IH as (HT & HD & HW & HC). split; [|split; [|split]].
  - exact (token_inv_step _ _ _ _ _ HT Hstep).
  - exact (drop_inv_step _ _ _ _ _ HT HD Hstep).
  - exact (wake_inv_step _ _ _ _ _ HW Hstep).
  - exact (cons_inv_step _ _ _ _ _ HT HD HC Hstep).
Qed.

Lemma start_is_T0 clients s0 :
  valid_start clients s0 ->
  s0 = {| status_ := status_ s0; q := []; thr := thr s0; delivered := []; dropped := []; pushed := [] |}.
Proof. intros [_ [[-> _]|[-> _]]]; reflexivity. Qed.

Theorem reach_prog c clients s0 s :
  valid_start clients s0 -> NoDup (program_msgs clients) -> reach c s0 s -> ProgInv (thr s0) s.
Proof.
  intros Hv ND Hr. induction Hr as [|s i s' l Hr IH Hstep].
  - rewrite (start_is_T0 _ _ Hv) at 2. apply prog_inv_init.
  - eapply prog_inv_step; [|exact IH|exact Hstep]. rewrite (start_thr_msgs _ _ Hv). exact ND.
Qed.

Theorem reach_count c clients s0 s f :
  valid_start clients s0 -> reach c s0 s ->
  cntm f (pushed s) + sumf (fun p => cntm f (remaining p)) (thr s) = cntm f (program_msgs clients).
Proof.
  intros Hv Hr. rewrite <- (start_thr_msgs _ _ Hv). change (CountInv f (thr s0) s).
  induction Hr as [|s i s' l Hr IH Hstep].
  - rewrite (start_is_T0 _ _ Hv) at 2. apply count_inv_init.
  - eapply count_inv_step; [exact IH|exact Hstep].
Qed.

Lemma pushed_pill_free c clients s0 s :
  valid_start clients s0 -> pills_in (program_msgs clients) = false -> reach c s0 s ->
  pills_in (pushed s) = false.
Proof.
  intros Hv HP Hr. pose proof (reach_count c clients s0 s is_pill Hv Hr) as E.
  apply cntm_zero_existsb in HP. apply cntm_zero_existsb. unfold pills_in in *. lia.
Qed.

Theorem reach_np1 c clients s0 s :
  valid_start clients s0 -> pills_in (program_msgs clients) = false -> reach c s0 s -> NP1 s.
Proof.
  intros Hv HP Hr. induction Hr as [|s i s' l Hr IH Hstep].
  - destruct (inv_init _ _ Hv) as (HT & _). destruct Hv as [_ [[-> _]|[-> _]]];
    (split; [|reflexivity]); unfold TokenInv, TI in HT; cbn [status_ thr init init_started] in *; simp_cnts; lia.
  - destruct (reach_inv c _ _ _ Hv Hr) as (_ & _ & _ & HC).
    exact (np1_step _ _ _ _ _ HC (pushed_pill_free _ _ _ _ Hv HP Hr) IH Hstep).
Qed.

Theorem reach_np2 c clients s0 s :
  started_start clients s0 -> pills_in (program_msgs clients) = false -> reach c s0 s -> NP2 s.
Proof.
  intros Hs HP Hr. pose proof (started_valid _ _ Hs) as Hv. induction Hr as [|s i s' l Hr IH Hstep].
  - destruct Hs as [Hok [[-> Hc]|[-> Hc]]]; unfold NP2, init, init_started; cbn [status_ thr]; intros Hst; [|discriminate].
    rewrite <- Hc. apply cnt_clients_ext; [exact Hok|client_cases].
  - destruct (reach_inv c _ _ _ Hv Hr) as (_ & _ & _ & HC).
    exact (np2_step _ _ _ _ _ HC (pushed_pill_free _ _ _ _ Hv HP Hr) (reach_np1 _ _ _ _ Hv HP Hr) IH Hstep).
Qed.

(* ------------------------------------------------------------------ *)
(** * A. Safety theorems over reachable states *)

Theorem token_invariant c clients s0 s :
  valid_start clients s0 -> reach c s0 s ->
  (status_ s = Running -> cnt holder (thr s) = 1) /\
  (status_ s = Idle \/ status_ s = Starting -> cnt holder (thr s) = 0) /\
  (status_ s = Stopped -> cnt holder (thr s) <= 1) /\
  (status_ s = Starting <-> cnt atTS (thr s) = 1) /\
  (cnt isTCas (thr s) + cnt atTS (thr s) >= 1 -> cnt is_worker (thr s) = 0).
Proof.
  intros Hv Hr. destruct (reach_inv c _ _ _ Hv Hr) as (HT & _).
  unfold TokenInv, TI in HT. rewrite cnt_holder_split.
  destruct (status_ s); (split; [|split; [|split; [|split; [split|]]]]);
  try (intros [E|E]; try discriminate E); try (intros E; try discriminate E); try reflexivity; lia.
Qed.

Lemma holder_le1 s : TokenInv s -> cnt holder (thr s) <= 1.
Proof. unfold TokenInv, TI. rewrite cnt_holder_split. destruct (status_ s); lia. Qed.

Theorem C02_receive_mutex_thm c clients s0 s :
  valid_start clients s0 -> reach c s0 s -> cnt in_region (thr s) <= 1.
Proof.
  intros Hv Hr. destruct (reach_inv c _ _ _ Hv Hr) as (HT & _).
  pose proof (holder_le1 s HT).
  assert (cnt in_region (thr s) <= cnt holder (thr s)); [|lia].
  apply cnt_le. intros p; destruct p; cbn; congruence.
Qed.

(* a thread is created only by a successful CAS idle->running, and it is a
   fresh worker about to Load *)
Theorem C02_handoff_thm c s i s' l :
  step c s i = Some (s', l) ->
  (l = LCas Idle Running true /\ status_ s = Idle /\ status_ s' = Running /\
   exists p, thr s' = firstn i (thr s) ++ p :: skipn (S i) (thr s) ++ [WLoad]) \/
  (l <> LCas Idle Running true /\ length (thr s') = length (thr s)).
Proof.
  step_cases s i Hn; unfold set_thr;
  first [ left; split; [reflexivity|]; split; [reflexivity|]; split; [reflexivity|]; eexists; reflexivity
        | right; split; [discriminate|]; rewrite (set_length _ _ _ _ _ Hn); cbn [length]; lia ].
Qed.

Definition prefix {A} (a b : list A) : Prop := exists r, b = a ++ r.

Lemma prefix_trans {A} (a b c : list A) : prefix a b -> prefix b c -> prefix a c.
Proof. intros [r ->] [r' ->]. exists (r ++ r'). rewrite app_assoc. reflexivity. Qed.

Lemma prefix_firstn {A} (a b : list A) : prefix a b -> firstn (length a) b = a.
Proof.
  intros [r ->]. rewrite firstn_app, firstn_all, Nat.sub_diag. cbn [firstn]. apply app_nil_r.
Qed.

Theorem conservation c clients s0 s :
  valid_start clients s0 -> reach c s0 s ->
  delivered s ++ dropped s ++ inflight s ++ q s = pushed s.
Proof. intros Hv Hr. exact (proj2 (proj2 (proj2 (reach_inv c _ _ _ Hv Hr)))). Qed.

Theorem delivered_prefix_pushed c clients s0 s :
  valid_start clients s0 -> reach c s0 s -> prefix (delivered s) (pushed s).
Proof. intros Hv Hr. eexists. symmetry. exact (conservation c _ _ _ Hv Hr). Qed.

Theorem conservation_lengths c clients s0 s :
  valid_start clients s0 -> reach c s0 s ->
  length (delivered s) + length (dropped s) + length (inflight s) + length (q s) = length (pushed s).
Proof. intros Hv Hr. rewrite <- (conservation c _ _ _ Hv Hr), !app_length. lia. Qed.

Theorem conservation_pill_free c clients s0 s :
  valid_start clients s0 -> pills_in (program_msgs clients) = false -> reach c s0 s ->
  dropped s = [] /\ delivered s ++ inflight s ++ q s = pushed s.
Proof.
  intros Hv HP Hr. destruct (reach_np1 c _ _ _ Hv HP Hr) as [_ HD]. split; [exact HD|].
  rewrite <- (conservation c _ _ _ Hv Hr), HD. reflexivity.
Qed.

(* per sender: what it has pushed so far, followed by what it still has to
   send, is its program *)
Theorem program_order c clients s0 s :
  valid_start clients s0 -> NoDup (program_msgs clients) -> reach c s0 s ->
  forall j ms, nth_error (thr s0) j = Some (SPush ms) ->
    exists p, nth_error (thr s) j = Some p /\ sub_of ms (pushed s) ++ remaining p = ms.
Proof.
  intros Hv ND Hr j ms Hj. destruct (reach_prog c _ _ _ Hv ND Hr) as [HL HI].
  destruct (nth_error (thr s) j) as [p|] eqn:E.
  - exists p. split; [reflexivity|]. specialize (HI j p E). unfold prog in HI. rewrite Hj in HI. exact HI.
  - exfalso. apply nth_error_None in E. assert (j < length (thr s0)) by (apply nth_error_Some; congruence). lia.
Qed.

Lemma client_in_start clients s0 p : valid_start clients s0 -> In p clients -> In p (thr s0).
Proof. intros [_ [[-> _]|[-> _]]] H; [exact H|right; exact H]. Qed.

Theorem program_order_pushed c clients s0 s :
  valid_start clients s0 -> NoDup (program_msgs clients) -> reach c s0 s ->
  forall ms, In (SPush ms) clients -> prefix (sub_of ms (pushed s)) ms.
Proof.
  intros Hv ND Hr ms Hin. apply (client_in_start _ _ _ Hv) in Hin.
  apply In_nth_error in Hin. destruct Hin as [j Hj].
  destruct (program_order c _ _ _ Hv ND Hr j ms Hj) as (p & _ & E). exists (remaining p). symmetry. exact E.
Qed.

Lemma sub_of_prefix ms a b : prefix a b -> prefix (sub_of ms a) (sub_of ms b).
Proof. intros [r ->]. exists (sub_of ms r). unfold sub_of. apply filter_app. Qed.

Theorem program_order_delivered c clients s0 s :
  valid_start clients s0 -> NoDup (program_msgs clients) -> reach c s0 s ->
  forall ms, In (SPush ms) clients -> prefix (sub_of ms (delivered s)) ms.
Proof.
  intros Hv ND Hr ms Hin. eapply prefix_trans; [|exact (program_order_pushed c _ _ _ Hv ND Hr ms Hin)].
  apply sub_of_prefix. exact (delivered_prefix_pushed c _ _ _ Hv Hr).
Qed.

Theorem wakeup_invariant c clients s0 s :
  valid_start clients s0 -> reach c s0 s ->
  status_ s = Idle -> q s <> [] -> 0 < cnt pending_kick (thr s).
Proof. intros Hv Hr. exact (proj1 (proj2 (proj2 (reach_inv c _ _ _ Hv Hr)))). Qed.

(* ------------------------------------------------------------------ *)
(** * B. Quiescent states *)

Lemma quiescent_all_done s p : quiescent s = true -> In p (thr s) -> p = Done.
Proof.
  unfold quiescent. rewrite forallb_forall. intros H Hp. specialize (H p Hp). destruct p; try discriminate H. reflexivity.
Qed.

Lemma quiescent_cnt s f : quiescent s = true -> f Done = false -> cnt f (thr s) = 0.
Proof. intros H Hf. apply cnt_zero_all. intros p Hp. rewrite (quiescent_all_done s p H Hp). exact Hf. Qed.

Lemma sumf_zero_all g l : (forall p, In p l -> g p = 0) -> sumf g l = 0.
Proof.
  induction l as [|a l IH]; intros H; [reflexivity|]. rewrite sumf_cons, (H a (or_introl eq_refl)), IH.
  - reflexivity.
  - intros p Hp. apply H. right. exact Hp.
Qed.

Lemma quiescent_sumf s g : quiescent s = true -> g Done = 0 -> sumf g (thr s) = 0.
Proof. intros H Hg. apply sumf_zero_all. intros p Hp. rewrite (quiescent_all_done s p H Hp). exact Hg. Qed.

Lemma quiescent_inflight s : quiescent s = true -> inflight s = [].
Proof. intros H. rewrite inflight_eq. apply noB_flat. apply quiescent_cnt; [exact H|reflexivity]. Qed.

Theorem quiescent_counts c clients s0 s f :
  valid_start clients s0 -> reach c s0 s -> quiescent s = true ->
  cntm f (pushed s) = cntm f (program_msgs clients).
Proof.
  intros Hv Hr Hq. rewrite <- (reach_count c _ _ _ f Hv Hr).
  rewrite (quiescent_sumf s _ Hq) by reflexivity. lia.
Qed.

Theorem C03_quiescent_is_drained_thm c clients s0 s :
  started_start clients s0 -> pills_in (program_msgs clients) = false ->
  reach c s0 s -> quiescent s = true ->
  status_ s = Idle /\ q s = [] /\ delivered s = pushed s /\
  length (pushed s) = length (program_msgs clients).
Proof.
  intros Hs HP Hr Hq. pose proof (started_valid _ _ Hs) as Hv.
  destruct (reach_inv c _ _ _ Hv Hr) as (HT & _ & HW & HC).
  destruct (reach_np1 c _ _ _ Hv HP Hr) as [_ HD].
  pose proof (reach_np2 c _ _ _ Hs HP Hr) as H2.
  assert (Hst : status_ s = Idle).
  { unfold TokenInv, TI in HT. unfold NP2 in H2.
    rewrite (quiescent_cnt s isTCas Hq), (quiescent_cnt s atTS Hq), (quiescent_cnt s isWLoad Hq),
      (quiescent_cnt s isWPop Hq), (quiescent_cnt s isWInvB Hq), (quiescent_cnt s isWStop Hq),
      (quiescent_cnt s isWInvE Hq), (quiescent_cnt s isWExit Hq) in * by reflexivity.
    destruct (status_ s); try reflexivity; try lia. specialize (H2 eq_refl). lia. }
  assert (Hqe : q s = []).
  { destruct (q s) as [|m r] eqn:E; [reflexivity|]. exfalso.
    unfold WakeInv in HW. rewrite E in HW. specialize (HW Hst ltac:(discriminate)).
    rewrite (quiescent_cnt s pending_kick Hq) in HW by reflexivity. lia. }
  split; [exact Hst|]. split; [exact Hqe|]. split.
  - unfold ConsInv in HC. rewrite HD, (quiescent_inflight s Hq), Hqe in HC. cbn [app] in HC.
    rewrite app_nil_r in HC. exact HC.
  - pose proof (quiescent_counts c _ _ _ (fun _ => true) Hv Hr Hq) as E. rewrite !cntm_true in E. exact E.
Qed.

Theorem C01_exactly_once_in_order_thm c clients s0 s :
  started_start clients s0 -> pills_in (program_msgs clients) = false ->
  NoDup (program_msgs clients) ->
  reach c s0 s -> quiescent s = true ->
  delivered s = pushed s /\
  (forall ms, In (SPush ms) clients -> sub_of ms (delivered s) = ms) /\
  (forall m, cntm (Nat.eqb m) (delivered s) = cntm (Nat.eqb m) (program_msgs clients)).
Proof.
  intros Hs HP ND Hr Hq. pose proof (started_valid _ _ Hs) as Hv.
  destruct (C03_quiescent_is_drained_thm c _ _ _ Hs HP Hr Hq) as (_ & _ & Hd & _).
  split; [exact Hd|]. rewrite Hd. split.
  - intros ms Hin. apply (client_in_start _ _ _ Hv) in Hin.
    apply In_nth_error in Hin. destruct Hin as [j Hj].
    destruct (program_order c _ _ _ Hv ND Hr j ms Hj) as (p & Hp & E).
    rewrite (quiescent_all_done s p Hq (nth_error_In _ _ Hp)) in E. cbn [remaining] in E.
    rewrite app_nil_r in E. exact E.
  - intros m. exact (quiescent_counts c _ _ _ _ Hv Hr Hq).
Qed.

(* ------------------------------------------------------------------ *)
(** * C. Termination without fairness: a lexicographic measure *)

Definition gU (p : pc) : nat := length (remaining p).
Definition gA (p : pc) : nat := match p with SCas _ | TCas | TSwap | TSched | WSched => 1 | _ => 0 end.
Definition gLen (p : pc) : nat := match p with WLen => 1 | _ => 0 end.
Definition gExit (p : pc) : nat := b2n (isWExit p).
Definition gL (p : pc) : nat :=
  match p with
  | WLen => 1 | WExit => 2 | WPop => 3 | WLoad => 4 | WInvE => 5 | WStop => 6 | WInvB _ => 7
  | TCas => 2 | TSwap => 1 | SPush [] => 1 | _ => 0
  end.
Definition qne (l : list msg) : bool := match l with [] => false | _ => true end.

(* messages not yet pushed *)
Definition mU (s : st) : nat := sumf gU (thr s).
(* kicks still to come; an exited worker counts only while the queue is
   non-empty, and one that is still to do its exit CAS only while that CAS can
   succeed *)
Definition mK (s : st) : nat :=
  sumf gA (thr s) +
  (if qne (q s) then sumf gLen (thr s) + (if status_eqb (status_ s) Stopped then 0 else sumf gExit (thr s)) else 0).
(* local progress *)
Definition mL (s : st) : nat := 8 * length (q s) + sumf gL (thr s).

Definition lexlt3 (a b : nat * nat * nat) : Prop :=
  let '(a1, a2, a3) := a in let '(b1, b2, b3) := b in
  a1 < b1 \/ (a1 = b1 /\ (a2 < b2 \/ (a2 = b2 /\ a3 < b3))).
Definition meas (s : st) : nat * nat * nat := (mU s, mK s, mL s).

Lemma sumf_b2n f l : sumf (fun p => b2n (f p)) l = cnt f l.
Proof. induction l as [|a l IH]; [reflexivity|]. rewrite sumf_cons, cnt_cons, IH. reflexivity. Qed.

Lemma skipn_shorter {A} n (l : list A) : 1 <= n -> l <> [] -> length (skipn n l) < length l.
Proof. intros Hn Hl. rewrite skipn_length. destruct l; [congruence|]. cbn [length]. lia. Qed.

Ltac pose_sums Hn :=
  match goal with
  | |- context [set_thr ?s ?i ?p ?extra] =>
      pose proof (sumf_set gU (thr s) i _ p extra Hn);
      pose proof (sumf_set gA (thr s) i _ p extra Hn);
      pose proof (sumf_set gLen (thr s) i _ p extra Hn);
      pose proof (sumf_set gExit (thr s) i _ p extra Hn);
      pose proof (sumf_set gL (thr s) i _ p extra Hn);
      unfold set_thr
  end.

Theorem measure_decreases c s i s' l :
  1 <= bound c -> TokenInv s -> step c s i = Some (s', l) -> lexlt3 (meas s') (meas s).
Proof.
  intros Hb HT. unfold meas, lexlt3, mU, mK, mL.
  (* the only uses of the token invariant: when the starter's CAS succeeds no
     worker is waiting to do its exit CAS; a starter is at its Swap only in
     status Starting *)
  assert (HX : status_ s = Stopped -> 0 < cnt isTCas (thr s) -> sumf gExit (thr s) = 0).
  { intros Hst HC. unfold gExit. rewrite sumf_b2n. unfold TokenInv, TI in HT. rewrite Hst in HT. lia. }
  pose proof (skipn_shorter (bound c) (q s) Hb) as Hsk.
  assert (Hln : forall m, length (q s ++ [m]) = S (length (q s))) by (intros m; rewrite app_length; cbn; lia).
  assert (Hqn : forall m, qne (q s ++ [m]) = true) by (intros m; destruct (q s); reflexivity).
  destruct (status_ s) eqn:Hst; step_cases s i Hn; try congruence; rewrite ?Hst; cbn [status_eqb];
  try (pose proof (HX eq_refl (cnt_pos isTCas _ _ _ Hn eq_refl)));
  try (exfalso; pose proof (cnt_pos atTS _ _ _ Hn eq_refl); unfold TokenInv, TI in HT; rewrite Hst in HT; lia);
  pose_sums Hn; rewrite ?Hln, ?Hqn;
  cbn [sumf fold_right gU gA gLen gExit gL remaining b2n isWExit length qne] in *;
  try match goal with H : q s = _ |- _ => rewrite H in * end; cbn [qne length] in *;
  try specialize (Hsk ltac:(discriminate));
  try match goal with |- context [skipn (bound c) ?l] => destruct (skipn (bound c) l) eqn:?; cbn [qne length] in * end;
  try (destruct (q s); cbn [qne]);
  lia.
Qed.

Lemma lexlt3_wf : well_founded lexlt3.
Proof.
  intros [[a b] c]. revert b c.
  induction a as [a IHa] using lt_wf_ind. intros b.
  induction b as [b IHb] using lt_wf_ind. intros c.
  induction c as [c IHc] using lt_wf_ind.
  constructor. intros [[a' b'] c'] H. cbn in H.
  destruct H as [H|[-> [H|[-> H]]]].
  - apply IHa. exact H.
  - apply IHb. exact H.
  - apply IHc. exact H.
Qed.

(* one step of a reachable state *)
Definition Rstep (c : config) (s0 : st) : st -> st -> Prop :=
  fun s2 s1 => exists i l, step c s1 i = Some (s2, l) /\ reach c s0 s1.

Theorem C03_terminates_thm c clients s0 :
  valid_start clients s0 -> 1 <= bound c -> well_founded (Rstep c s0).
Proof.
  intros Hv Hb s.
  apply (Acc_incl _ (Rstep c s0) (fun x y => lexlt3 (meas x) (meas y))).
  - intros s2 s1 (i & l & Hstep & Hr).
    destruct (reach_inv c _ _ _ Hv Hr) as (HT & _).
    exact (measure_decreases c s1 i s2 l Hb HT Hstep).
  - apply (Acc_inverse_image _ _ lexlt3 meas). apply lexlt3_wf.
Qed.

(* no infinite schedule *)
Theorem C03_no_infinite_run_thm c clients s0 (f : nat -> st) :
  valid_start clients s0 -> 1 <= bound c ->
  reach c s0 (f 0) -> (forall n, exists i l, step c (f n) i = Some (f (S n), l)) -> False.
Proof.
  intros Hv Hb H0 Hf.
  assert (Hr : forall n, reach c s0 (f n)).
  { induction n as [|n IH]; [exact H0|]. destruct (Hf n) as (i & l & Hs). exact (reach_step c s0 _ _ _ _ IH Hs). }
  assert (G : forall x, Acc (Rstep c s0) x -> forall n, f n = x -> False).
  { intros x Hacc. induction Hacc as [x _ IH]. intros n <-.
    destruct (Hf n) as (i & l & Hs).
    apply (IH (f (S n))) with (n := S n); [|reflexivity]. exists i, l. split; [exact Hs|apply Hr]. }
  exact (G (f 0) (C03_terminates_thm c clients s0 Hv Hb (f 0)) 0 eq_refl).
Qed.

(* every unfinished thread can step: a state with no enabled thread is quiescent *)
Lemma step_enabled c s i p :
  nth_error (thr s) i = Some p -> is_done p = false -> step c s i <> None.
Proof.
  intros H Hd. unfold step. rewrite H.
  destruct p as [[|? ?]|ms| | | | | |b| | | | | | ]; try discriminate Hd;
  try (destruct (status_eqb (status_ s) _)); try (destruct (q s)); unfold kick;
  try (destruct (status_eqb (status_ s) _)); discriminate.
Qed.

Lemma forallb_false_ex {A} (f : A -> bool) l : forallb f l = false -> exists x, In x l /\ f x = false.
Proof.
  induction l as [|a l IH]; [discriminate|]. cbn [forallb]. destruct (f a) eqn:E.
  - intros H. destruct (IH H) as (x & Hx & Hf). exists x. split; [right; exact Hx|exact Hf].
  - intros _. exists a. split; [left; reflexivity|exact E].
Qed.

Theorem no_deadlock c s :
  quiescent s = false -> exists i, i < length (thr s) /\ step c s i <> None.
Proof.
  intros H. apply forallb_false_ex in H. destruct H as (p & Hp & Hd).
  apply In_nth_error in Hp. destruct Hp as [i Hi]. exists i. split.
  - apply nth_error_Some. congruence.
  - exact (step_enabled c s i p Hi Hd).
Qed.

(* P is reached on every maximal run from s, and every such run is finite *)
Inductive inev (c : config) (P : st -> Prop) : st -> Prop :=
| inev_now s : P s -> inev c P s
| inev_step s : (exists i, step c s i <> None) ->
                (forall i s' l, step c s i = Some (s', l) -> inev c P s') -> inev c P s.

Lemma inev_reach_gen c clients s0 (P Q : st -> Prop) :
  valid_start clients s0 -> 1 <= bound c ->
  (forall t i t' l, Q t -> step c t i = Some (t', l) -> Q t') ->
  (forall t, reach c s0 t -> Q t -> quiescent t = true -> P t) ->
  forall s, reach c s0 s -> Q s -> inev c P s.
Proof.
  intros Hv Hb HQ HP s.
  induction (C03_terminates_thm c clients s0 Hv Hb s) as [s _ IH]. intros Hr Hq.
  destruct (quiescent s) eqn:E.
  - apply inev_now. exact (HP s Hr Hq E).
  - apply inev_step.
    + destruct (no_deadlock c s E) as (i & _ & Hi). exists i. exact Hi.
    + intros i s' l Hs. apply IH.
      * exists i, l. split; [exact Hs|exact Hr].
      * exact (reach_step c s0 _ _ _ _ Hr Hs).
      * exact (HQ _ _ _ _ Hq Hs).
Qed.

Definition drained (clients : list pc) (t : st) : Prop :=
  quiescent t = true /\ status_ t = Idle /\ q t = [] /\ delivered t = pushed t /\
  length (pushed t) = length (program_msgs clients).

(* every maximal execution from a reachable state is finite and ends quiescent *)
Theorem C03_every_run_quiesces_thm c clients s0 s :
  valid_start clients s0 -> 1 <= bound c -> reach c s0 s ->
  inev c (fun t => quiescent t = true /\ reach c s0 t) s.
Proof.
  intros Hv Hb Hr.
  apply (inev_reach_gen c clients s0 _ (fun _ => True) Hv Hb); auto.
Qed.

(* ... and, for a started inbox and pill-free programs, drained *)
Theorem C03_every_run_drains_thm c clients s0 s :
  started_start clients s0 -> pills_in (program_msgs clients) = false -> 1 <= bound c ->
  reach c s0 s -> inev c (drained clients) s.
Proof.
  intros Hs HP Hb Hr.
  apply (inev_reach_gen c clients s0 _ (fun _ => True) (started_valid _ _ Hs) Hb); auto.
  intros t Ht _ Hq. split; [exact Hq|]. exact (C03_quiescent_is_drained_thm c _ _ _ Hs HP Ht Hq).
Qed.

Lemma reach_trans c s0 s1 s2 : reach c s0 s1 -> reach c s1 s2 -> reach c s0 s2.
Proof.
  intros H1 H2. induction H2 as [|s i s' l H2 IH Hs]; [exact H1|]. exact (reach_step c s0 _ _ _ _ IH Hs).
Qed.

Lemma step_pushed_mono c s i s' l : step c s i = Some (s', l) -> prefix (pushed s) (pushed s').
Proof.
  intros H. destruct (step_summary _ _ _ _ _ H) as (old & p & extra & _ & _ & _ & [[Hp _]|(m & Hp & _)]);
  rewrite Hp; [exists []; rewrite app_nil_r; reflexivity|exists [m]; reflexivity].
Qed.

Lemma reach_pushed_mono c s1 s2 : reach c s1 s2 -> prefix (pushed s1) (pushed s2).
Proof.
  intros H. induction H as [|s i s' l H IH Hs]; [exists []; rewrite app_nil_r; reflexivity|].
  exact (prefix_trans _ _ _ IH (step_pushed_mono _ _ _ _ _ Hs)).
Qed.

(* whatever was pushed by the time of s1 -- in particular before Start has
   completed -- has been delivered, in that order, in every quiescent state
   reached afterwards *)
Theorem C03_start_picks_up_backlog_thm c clients s0 s1 s2 :
  started_start clients s0 -> pills_in (program_msgs clients) = false ->
  reach c s0 s1 -> reach c s1 s2 -> quiescent s2 = true ->
  prefix (pushed s1) (delivered s2).
Proof.
  intros Hs HP H1 H2 Hq.
  destruct (C03_quiescent_is_drained_thm c _ _ _ Hs HP (reach_trans _ _ _ _ H1 H2) Hq) as (_ & _ & -> & _).
  exact (reach_pushed_mono c s1 s2 H2).
Qed.

(* ... and such a state is reached on every run from s1, with no further stimulus *)
Theorem C03_backlog_is_delivered_thm c clients s0 s1 :
  started_start clients s0 -> pills_in (program_msgs clients) = false -> 1 <= bound c ->
  reach c s0 s1 ->
  inev c (fun t => drained clients t /\ prefix (pushed s1) (delivered t)) s1.
Proof.
  intros Hs HP Hb H1.
  apply (inev_reach_gen c clients s0 _ (fun t => reach c s1 t) (started_valid _ _ Hs) Hb).
  - intros t i t' l Ht Hstep. exact (reach_step c s1 _ _ _ _ Ht Hstep).
  - intros t Ht H2 Hq. split.
    + split; [exact Hq|]. exact (C03_quiescent_is_drained_thm c _ _ _ Hs HP Ht Hq).
    + exact (C03_start_picks_up_backlog_thm c clients s0 s1 t Hs HP H1 H2 Hq).
  - exact H1.
  - apply reach_refl.
Qed.

(* ------------------------------------------------------------------ *)
(** * The oracle of InboxExec holds of every model run *)

Lemma run_sched_reach c s0 sched : forall s s' ls,
  reach c s0 s -> run_sched c s sched = Some (s', ls) -> reach c s0 s'.
Proof.
  induction sched as [|i r IH]; intros s s' ls Hr H; cbn [run_sched] in H.
  - injection H as <- _. exact Hr.
  - destruct (step c s i) as [[s1 l]|] eqn:E; [|discriminate].
    destruct (run_sched c s1 r) as [[s2 ls2]|] eqn:E2; [|discriminate]. injection H as <- _.
    exact (IH s1 s2 ls2 (reach_step c s0 _ _ _ _ Hr E) E2).
Qed.

(* model-side observation flags *)
Definition deadlocked (c : config) (s : st) : bool :=
  negb (quiescent s) &&
  forallb (fun i => match step c s i with None => true | Some _ => false end) (seq 0 (length (thr s))).

Fixpoint overlap_along (c : config) (s : st) (sched : list nat) : bool :=
  Nat.ltb 1 (region_count s) ||
  match sched with
  | [] => false
  | i :: r => match step c s i with Some (s', _) => overlap_along c s' r | None => false end
  end.

Lemma not_deadlocked c s : deadlocked c s = false.
Proof.
  unfold deadlocked. destruct (quiescent s) eqn:E; [reflexivity|]. cbn [negb andb].
  destruct (no_deadlock c s E) as (i & Hi & Hs).
  match goal with |- ?b = false => destruct b eqn:F; [|reflexivity] end.
  exfalso. rewrite forallb_forall in F. specialize (F i). rewrite in_seq in F. specialize (F ltac:(lia)).
  destruct (step c s i); [discriminate|]. apply Hs. reflexivity.
Qed.

Lemma no_overlap_along c clients s0 sched : forall s,
  valid_start clients s0 -> reach c s0 s -> overlap_along c s sched = false.
Proof.
  induction sched as [|i r IH]; intros s Hv Hr; cbn [overlap_along];
  pose proof (C02_receive_mutex_thm c _ _ _ Hv Hr) as Hm;
  (replace (Nat.ltb 1 (region_count s)) with false by (symmetry; apply Nat.ltb_ge; exact Hm)); cbn [orb].
  - reflexivity.
  - destruct (step c s i) as [[s1 l]|] eqn:E; [|reflexivity].
    exact (IH s1 Hv (reach_step c s0 _ _ _ _ Hr E)).
Qed.

Definition model_obs (c : config) (s0 : st) (sched : list nat) (s : st) : obs :=
  {| o_status := status_ s; o_qlen := length (q s); o_delivered := delivered s; o_dropped := dropped s;
     o_pushed := pushed s; o_overlap := overlap_along c s0 sched; o_deadlock := deadlocked c s;
     o_terminal := quiescent s |}.

Definition model_case (prop bnd : nat) (started : bool) (clients : list pc) (sched : list nat)
           (ls : list label) (s : st) : case :=
  {| c_prop := prop; c_bound := bnd; c_started := started; c_clients := clients; c_sched := sched;
     c_labels := ls; c_replay := true;
     c_obs := model_obs {| bound := bnd |} (if started then init_started clients else init clients) sched s |}.

Lemma list_eqb_refl {A} (f : A -> A -> bool) (l : list A) : (forall a, f a a = true) -> list_eqb f l l = true.
Proof. intros Hf. induction l as [|a l IH]; [reflexivity|]. cbn. rewrite Hf, IH. reflexivity. Qed.

Lemma nat_list_eqb_refl (l : list nat) : list_eqb Nat.eqb l l = true.
Proof. apply list_eqb_refl. apply Nat.eqb_refl. Qed.

Lemma status_eqb_refl a : status_eqb a a = true.
Proof. destruct a; reflexivity. Qed.

Lemma label_eqb_refl a : label_eqb a a = true.
Proof.
  destruct a; cbn; rewrite ?Nat.eqb_refl, ?status_eqb_refl, ?nat_list_eqb_refl, ?Bool.eqb_reflx; reflexivity.
Qed.

Lemma is_prefix_true a b : prefix a b -> is_prefix a b = true.
Proof. intros H. unfold is_prefix. rewrite (prefix_firstn _ _ H). apply nat_list_eqb_refl. Qed.

Lemma existsb_cnt_pos f l : existsb f l = true -> 0 < cnt f l.
Proof.
  induction l as [|a l IH]; [discriminate|]. cbn [existsb]. rewrite cnt_cons.
  destruct (f a); cbn; [lia|]. intros H. specialize (IH H). lia.
Qed.

Definition start_of (started : bool) (clients : list pc) : st :=
  if started then init_started clients else init clients.
Definition clients_valid (started : bool) (clients : list pc) : Prop :=
  forallb client_ok clients = true /\
  (if started then cnt is_starter clients = 0 else cnt is_starter clients <= 1).

Lemma clients_valid_start started clients :
  clients_valid started clients -> valid_start clients (start_of started clients).
Proof. intros [H1 H2]. split; [exact H1|]. destruct started; [right|left]; split; auto. Qed.

Lemma clients_started_start started clients :
  clients_valid started clients -> started || has_starter clients = true ->
  started_start clients (start_of started clients).
Proof.
  intros [H1 H2] H3. split; [exact H1|]. destruct started; [right; split; auto|left].
  split; [reflexivity|]. cbn [orb] in H3. apply existsb_cnt_pos in H3. lia.
Qed.

(* C01 projection: holds in every reachable state *)
Theorem oracle_c01_model c started clients s :
  clients_valid started clients -> NoDup (program_msgs clients) ->
  reach c (start_of started clients) s ->
  is_prefix (delivered s) (pushed s) && sender_order_ok clients (pushed s) &&
  (if quiescent s
   then Nat.eqb (length (delivered s) + length (dropped s) + length (q s)) (length (pushed s))
   else true) = true.
Proof.
  intros Hc ND Hr. pose proof (clients_valid_start _ _ Hc) as Hv.
  rewrite (is_prefix_true _ _ (delivered_prefix_pushed c _ _ _ Hv Hr)). cbn [andb].
  apply andb_true_intro. split.
  - unfold sender_order_ok. apply forallb_forall. intros p Hp. destruct p; try reflexivity.
    rewrite (prefix_firstn _ _ (program_order_pushed c _ _ _ Hv ND Hr ms Hp)). apply nat_list_eqb_refl.
  - destruct (quiescent s) eqn:E; [|reflexivity]. apply Nat.eqb_eq.
    pose proof (conservation_lengths c _ _ _ Hv Hr) as L. rewrite (quiescent_inflight s E) in L. cbn [length] in L. lia.
Qed.

(* C02 projection *)
Theorem oracle_c02_model c started clients s :
  clients_valid started clients -> reach c (start_of started clients) s ->
  Nat.leb (region_count s) 1 = true.
Proof.
  intros Hc Hr. apply Nat.leb_le. exact (C02_receive_mutex_thm c _ _ _ (clients_valid_start _ _ Hc) Hr).
Qed.

(* C03 projection *)
Theorem oracle_c03_model c started clients s :
  clients_valid started clients -> reach c (start_of started clients) s ->
  negb (deadlocked c s) &&
  (if quiescent s && (started || has_starter clients) && negb (pills_in (program_msgs clients))
   then status_eqb (status_ s) Idle && Nat.eqb (length (q s)) 0 &&
        Nat.eqb (length (pushed s)) (length (program_msgs clients)) &&
        Nat.eqb (length (delivered s)) (length (pushed s))
   else true) = true.
Proof.
  intros Hc Hr. rewrite not_deadlocked. cbn [negb andb].
  destruct (quiescent s) eqn:Hq; [|reflexivity].
  destruct (started || has_starter clients) eqn:Hs; [|reflexivity].
  destruct (pills_in (program_msgs clients)) eqn:HP; [reflexivity|]. cbn [andb negb].
  destruct (C03_quiescent_is_drained_thm c _ _ _ (clients_started_start _ _ Hc Hs) HP Hr Hq) as (E1 & E2 & E3 & E4).
  rewrite E1, E2, E3, E4. cbn [status_eqb length andb]. rewrite !Nat.eqb_refl. reflexivity.
Qed.

(* the case built from any model run passes the oracle, whatever projection
   is selected, and corresponds to itself *)
Theorem oracle_sound prop bnd started clients sched s ls :
  clients_valid started clients -> NoDup (program_msgs clients) ->
  run_sched {| bound := bnd |} (start_of started clients) sched = Some (s, ls) ->
  oracle (model_case prop bnd started clients sched ls s) = true /\
  corr (model_case prop bnd started clients sched ls s) = true.
Proof.
  intros Hc ND Hrun. set (c := {| bound := bnd |}) in *.
  pose proof (clients_valid_start _ _ Hc) as Hv.
  assert (Hr : reach c (start_of started clients) s) by (eapply run_sched_reach; [apply reach_refl|exact Hrun]).
  assert (O1 : oracle_c01 (model_case prop bnd started clients sched ls s) = true)
    by exact (oracle_c01_model c started clients s Hc ND Hr).
  assert (O2 : oracle_c02 (model_case prop bnd started clients sched ls s) = true).
  { unfold oracle_c02, model_case, model_obs. cbn [c_obs o_overlap]. fold c. fold (start_of started clients).
    rewrite (no_overlap_along c clients _ sched _ Hv (reach_refl c _)). reflexivity. }
  assert (O3 : oracle_c03 (model_case prop bnd started clients sched ls s) = true)
    by exact (oracle_c03_model c started clients s Hc Hr).
  split.
  - unfold oracle. change (c_prop (model_case prop bnd started clients sched ls s)) with prop.
    destruct prop as [|[|[|[|n]]]]; rewrite ?O1, ?O2, ?O3; reflexivity.
  - assert (E : corr_exact (model_case prop bnd started clients sched ls s) = true).
    { unfold corr_exact, obs_matches, model_case, model_obs, start_state.
      cbn [c_replay c_started c_clients c_bound c_sched c_labels c_obs negb
           o_status o_qlen o_delivered o_dropped o_pushed o_terminal].
      fold c. fold (start_of started clients). rewrite Hrun.
      rewrite (list_eqb_refl label_eqb ls label_eqb_refl), status_eqb_refl, Nat.eqb_refl,
        !nat_list_eqb_refl, Bool.eqb_reflx. reflexivity. }
    unfold corr. rewrite E. destruct (negb _); reflexivity.
Qed.

(* ------------------------------------------------------------------ *)
(** * Exactly once, as a permutation *)

Lemma cntm_count_occ m l : cntm (Nat.eqb m) l = count_occ Nat.eq_dec l m.
Proof.
  induction l as [|a l IH]; [reflexivity|]. rewrite cntm_cons. cbn [count_occ].
  destruct (Nat.eq_dec a m) as [->|Hne].
  - rewrite Nat.eqb_refl, IH. reflexivity.
  - replace (m =? a) with false by (symmetry; apply Nat.eqb_neq; congruence). rewrite IH. reflexivity.
Qed.

(* at quiescence the receiver got exactly the multiset of messages of all
   programs (no NoDup needed: multiplicities are preserved) *)
Theorem C01_delivered_permutation_thm c clients s0 s :
  started_start clients s0 -> pills_in (program_msgs clients) = false ->
  reach c s0 s -> quiescent s = true ->
  Permutation (delivered s) (program_msgs clients).
Proof.
  intros Hs HP Hr Hq. apply (Permutation_count_occ Nat.eq_dec). intros m.
  destruct (C03_quiescent_is_drained_thm c _ _ _ Hs HP Hr Hq) as (_ & _ & -> & _).
  rewrite <- !cntm_count_occ. exact (quiescent_counts c _ _ _ _ (started_valid _ _ Hs) Hr Hq).
Qed.

(* ------------------------------------------------------------------ *)
(** * D. Non-vacuity *)

Definition ex_c : config := {| bound := 2 |}.
Definition ex_clients : list pc := [SPush [1; 2]; SPush [3]; TCas].
(* sender 0 pushes 1 before Start has even begun; Start's own kick finds the
   worker token taken by sender 0's second kick; batches [1;2] and [3] *)
Definition ex_sched : list nat := [0; 2; 0; 2; 0; 2; 0; 3; 1; 3; 1; 3; 3; 3; 3; 3; 3; 3; 3; 3; 3].

Ltac nodup_nat := repeat (constructor; [cbn; intuition discriminate|]); constructor.

Example ex_hypotheses :
  started_start ex_clients (init ex_clients) /\ valid_start ex_clients (init ex_clients) /\
  clients_valid false ex_clients /\
  pills_in (program_msgs ex_clients) = false /\ NoDup (program_msgs ex_clients) /\ 1 <= bound ex_c.
Proof.
  repeat split; try reflexivity; try (left; split; [reflexivity|cbn; lia]); try (cbn; lia).
  cbn. nodup_nat.
Qed.

Example ex_quiescent_run :
  exists s ls, run_sched ex_c (init ex_clients) ex_sched = Some (s, ls) /\
    reach ex_c (init ex_clients) s /\ quiescent s = true /\
    status_ s = Idle /\ q s = [] /\ delivered s = [1; 2; 3] /\ pushed s = [1; 2; 3] /\
    In (LCas Stopped Starting true) ls /\ In (LPopN [1; 2] true) ls.
Proof.
  eexists. eexists. split; [vm_compute; reflexivity|]. split.
  - eapply (run_sched_reach ex_c (init ex_clients) ex_sched (init ex_clients)); [apply reach_refl|].
    vm_compute; reflexivity.
  - vm_compute. intuition.
Qed.

(* the backlog case: 1 is pushed while the inbox is still Stopped *)
Example ex_backlog :
  exists s1 ls, run_sched ex_c (init ex_clients) [0] = Some (s1, ls) /\
    status_ s1 = Stopped /\ pushed s1 = [1].
Proof. eexists. eexists. split; [vm_compute; reflexivity|]. split; reflexivity. Qed.

(* the premise of the wake-up invariant is satisfiable: idle, non-empty queue,
   and two threads still to kick *)
Example ex_wakeup_premise :
  exists s ls, run_sched ex_c (init [SPush [1]; TCas]) [0; 1; 1] = Some (s, ls) /\
    status_ s = Idle /\ q s = [1] /\ cnt pending_kick (thr s) = 2.
Proof. eexists. eexists. split; [vm_compute; reflexivity|]. repeat split; reflexivity. Qed.

(* a poison pill: the rest of its batch is dropped, the inbox ends stopped,
   and nothing is lost from the account *)
Definition ex_pill_clients : list pc := [SPush [1; 1000; 2]].
Definition ex_pill_sched : list nat := [0; 1; 0; 1; 0; 1; 0; 1; 0; 1; 0; 1; 0; 0; 0; 0; 0].

Example ex_pill_run :
  exists s ls, run_sched ex_c (init_started ex_pill_clients) ex_pill_sched = Some (s, ls) /\
    quiescent s = true /\ status_ s = Stopped /\ delivered s = [1] /\ dropped s = [1000; 2] /\
    q s = [] /\ pushed s = [1; 1000; 2] /\ In (LStore Stopped) ls /\
    oracle (model_case 0 2 true ex_pill_clients ex_pill_sched ls s) = true.
Proof. eexists. eexists. split; [vm_compute; reflexivity|]. vm_compute. intuition. Qed.

Example ex_oracle_run :
  exists s ls, run_sched ex_c (init ex_clients) ex_sched = Some (s, ls) /\
    oracle (model_case 0 2 false ex_clients ex_sched ls s) = true /\
    corr (model_case 0 2 false ex_clients ex_sched ls s) = true.
Proof. eexists. eexists. split; [vm_compute; reflexivity|]. split; vm_compute; reflexivity. Qed.

(* why a started inbox must not have a further starter among its clients (and
   why [init] allows at most one): after a pill has stopped the inbox with its
   worker still inside Invoke, a Start re-opens it and a second worker enters a
   receive region -- the L1 shadow of finding D4 *)
Example two_workers_if_restarted :
  exists s ls, run_sched {| bound := 1 |} (init_started [SPush [1000; 1]; TCas])
                 [1;1;1;1;0;0;0;0;2;2;2;3;3;3] = Some (s, ls) /\ cnt in_region (thr s) = 2.
Proof. eexists. eexists. split; [vm_compute; reflexivity|]. reflexivity. Qed.

(* the measure on the example: it starts at (3, 1, _) *)
Example ex_measure : meas (init ex_clients) = (3, 1, 2).
Proof. vm_compute. reflexivity. Qed.

(* ------------------------------------------------------------------ *)
(** * C01, happens-before clause: delivery order is the real-time order of the pushes *)

Definition pushes (ls : list label) : list msg :=
  flat_map (fun l => match l with LPush m => [m] | _ => [] end) ls.

Lemma step_pushed_label c s i s' l :
  step c s i = Some (s', l) -> pushed s' = pushed s ++ pushes [l].
Proof. step_cases s i Hn; cbn [pushes flat_map app]; rewrite ?app_nil_r; reflexivity. Qed.

Lemma pushes_app a b : pushes (a ++ b) = pushes a ++ pushes b.
Proof. apply flat_map_app. Qed.

Lemma run_sched_pushed c sched : forall s s' ls,
  run_sched c s sched = Some (s', ls) -> pushed s' = pushed s ++ pushes ls.
Proof.
  induction sched as [|i r IH]; intros s s' ls H; cbn [run_sched] in H.
  - injection H as <- <-. cbn. rewrite app_nil_r. reflexivity.
  - destruct (step c s i) as [[s1 l]|] eqn:E; [|discriminate].
    destruct (run_sched c s1 r) as [[s2 ls2]|] eqn:E2; [|discriminate]. injection H as <- <-.
    rewrite (IH _ _ _ E2), (step_pushed_label _ _ _ _ _ E).
    change (l :: ls2) with ([l] ++ ls2). rewrite pushes_app, app_assoc. reflexivity.
Qed.

(* the push order of a run is the order of its LPush labels *)
Theorem pushed_is_push_order c started clients sched s ls :
  run_sched c (start_of started clients) sched = Some (s, ls) -> pushed s = pushes ls.
Proof. intros H. rewrite (run_sched_pushed _ _ _ _ _ H). destruct started; reflexivity. Qed.

(* if the Push of m1 (by whichever thread) comes before the Push of m2 in the
   schedule -- which is what any happens-before between the two sends implies --
   then, once all threads have finished, m1 was handed to the receiver before
   m2; more precisely the receiver saw exactly the pushes, in schedule order *)
Theorem C01_happens_before_order_thm bnd started clients sched s ls :
  clients_valid started clients -> started || has_starter clients = true ->
  pills_in (program_msgs clients) = false ->
  run_sched {| bound := bnd |} (start_of started clients) sched = Some (s, ls) ->
  quiescent s = true ->
  delivered s = pushes ls /\
  forall l1 m1 l2 m2 l3, ls = l1 ++ LPush m1 :: l2 ++ LPush m2 :: l3 ->
    delivered s = pushes l1 ++ m1 :: pushes l2 ++ m2 :: pushes l3.
Proof.
  intros Hc Hs HP Hrun Hq.
  assert (Hr : reach {| bound := bnd |} (start_of started clients) s)
    by (eapply run_sched_reach; [apply reach_refl|exact Hrun]).
  destruct (C03_quiescent_is_drained_thm _ _ _ _ (clients_started_start _ _ Hc Hs) HP Hr Hq) as (_ & _ & E & _).
  rewrite E, (pushed_is_push_order _ _ _ _ _ _ Hrun). split; [reflexivity|].
  intros l1 m1 l2 m2 l3 ->.
  change (LPush m1 :: l2 ++ LPush m2 :: l3) with ([LPush m1] ++ l2 ++ [LPush m2] ++ l3).
  rewrite !pushes_app. reflexivity.
Qed.

Example ex_happens_before :
  exists s ls, run_sched ex_c (init ex_clients) ex_sched = Some (s, ls) /\
    pushes ls = [1; 2; 3] /\ delivered s = [1; 2; 3].
Proof. eexists. eexists. split; [vm_compute; reflexivity|]. split; reflexivity. Qed.
