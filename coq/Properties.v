(** All property theorems.  The theorems themselves are in the Props*.v files,
    one per model layer, which contain nothing but [Theorem … exact …] and
    [Print Assumptions]. *)
From HV Require Export PropsRing.
From HV Require Export PropsRingConc.
From HV Require Export PropsInbox.
From HV Require Export PropsInboxRing.
From HV Require Export PropsProc.
From HV Require Export PropsActor.
From HV Require Export PropsWire.
From HV Require Export PropsCluster.
From HV Require Export PropsEvents.
From HV Require Export PropsTree.
From HV Require Export PropsClusterNet.
From HV Require Export PropsRegistry.
From HV Require Export PropsRemote.
From HV Require Export PropsClusterCompose.
