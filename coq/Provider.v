(** L5 — model of cluster/selfmanaged.go (the self-managed provider's message
    handling; mDNS discovery and the ping timer are left out), with the D10
    repair applied (memberLeave for an address that is not a member changes
    nothing).  [pstep_pinned] keeps the un-repaired behaviour for the
    refutation witness.

    Definitions only.  Proofs are in ProviderProofs.v. *)
From stdpp Require Import gmap list sorting.
From HV Require Export Agent.

(* messages handled by SelfManaged.Receive *)
Inductive pmsg :=
  | Handshake (m : member) (from : nat)   (* *Handshake{Member}, c.Sender() = from *)
  | MembersMsg (l : list member)          (* *Members{Members} *)
  | LeaveAddr (addr : nat).               (* memberLeave{ListenAddr}: made by the
                                             provider's event child from a RemoteUnreachableEvent *)

(* what the provider emits: Members to the local agent, Members to the
   sender of a handshake; a panic of Receive (actor restarted with a fresh
   receiver) *)
Inductive out :=
  | ToAgent (l : list member)
  | Reply (to : nat) (l : list member)
  | Panic.

Global Instance out_eq_dec : EqDecision out.
Proof. solve_decision. Defined.

(* SelfManaged.members *)
Notation pstate := (gmap nat member).

(* addMembers: for each, if !Contains(member) { Add(member) } — the first
   value seen for an id is kept *)
Definition add_members (s : pstate) (l : list member) : pstate :=
  foldl (λ s m, if decide (is_Some (s !! mid m)) then s else <[mid m := m]> s) s l.

(* MemberSet.GetByHost: the last member in iteration order whose Host matches *)
Definition get_by_host (s : pstate) (addr : nat) : option member :=
  last (filter (λ m, mhost m = addr) (slice s)).

(* removeMember: if Contains(member) { Remove(member) } *)
Definition remove_member (s : pstate) (m : member) : pstate :=
  if decide (is_Some (s !! mid m)) then delete (mid m) s else s.

(* Receive, repaired *)
Definition pstep (s : pstate) (msg : pmsg) : pstate * list out :=
  match msg with
  | Handshake m from =>
      let s' := add_members s [m] in (s', [ToAgent (slice s'); Reply from (slice s')])
  | MembersMsg l =>
      let s' := add_members s l in (s', [ToAgent (slice s')])
  | LeaveAddr a =>
      match get_by_host s a with
      | Some m => let s' := remove_member s m in (s', [ToAgent (slice s')])
      | None => (s, [])
      end
  end.

(* Started: members.Add(cluster.Member()); sendMembersToAgent() *)
Definition pinit (self : member) : pstate := {[ mid self := self ]}.
Definition pstart (self : member) : pstate * list out := (pinit self, [ToAgent (slice (pinit self))]).

(* Receive of the pinned tree: GetByHost returns nil, removeMember(nil)
   dereferences it; the engine restarts the actor with a fresh receiver whose
   Started handler runs again *)
Definition pstep_pinned (self : member) (s : pstate) (msg : pmsg) : pstate * list out :=
  match msg with
  | LeaveAddr a =>
      match get_by_host s a with
      | Some _ => pstep s msg
      | None => (pinit self, Panic :: (pstart self).2)
      end
  | _ => pstep s msg
  end.

(* histories *)
Definition pafter (self : member) (hist : list pmsg) : pstate :=
  foldl (λ s msg, (pstep s msg).1) (pinit self) hist.

Fixpoint prun (s : pstate) (hist : list pmsg) : list (pstate * list out) :=
  match hist with
  | [] => []
  | msg :: hist' => let r := pstep s msg in r :: prun r.1 hist'
  end.

(* every member named by a message *)
Definition mentioned (msg : pmsg) : list member :=
  match msg with Handshake m _ => [m] | MembersMsg l => l | LeaveAddr _ => [] end.
Definition directory (self : member) (hist : list pmsg) : list member :=
  self :: concat (mentioned <$> hist).

(* an address belongs to one node (the same id may show up under a second address) *)
Definition host_inj (dir : list member) : Prop :=
  ∀ x y, x ∈ dir → y ∈ dir → mhost x = mhost y → mid x = mid y.
(* ids and addresses correspond one to one *)
Definition host_consistent (dir : list member) : Prop :=
  ∀ x y, x ∈ dir → y ∈ dir → (mhost x = mhost y ↔ mid x = mid y).
(* no two members of the list share an address *)
Definition hosts_distinct (s : pstate) : Prop :=
  ∀ i j x y, s !! i = Some x → s !! j = Some y → mhost x = mhost y → i = j.

(** * Specification *)

(* (1) by ids: the member list is self plus everything handshaked or listed,
   minus what was reported unreachable since *)
Definition spec_step (dir : list member) (S : gset nat) (msg : pmsg) : gset nat :=
  match msg with
  | Handshake m _ => {[mid m]} ∪ S
  | MembersMsg l => list_to_set (mid <$> l) ∪ S
  | LeaveAddr a => S ∖ list_to_set (mid <$> filter (λ m, mhost m = a) dir)
  end.
Definition spec_ids (self : member) (hist : list pmsg) : gset nat :=
  foldl (spec_step (directory self hist)) {[mid self]} hist.

(* (2) id ↦ address, with the outputs: the reference the oracle evaluates *)
Notation hstate := (gmap nat nat).
Definition hadd (S : hstate) (l : list member) : hstate :=
  foldl (λ S m, if decide (is_Some (S !! mid m)) then S else <[mid m := mhost m]> S) S l.
Definition hids (S : hstate) : list nat := nsort (elements (dom S)).

(* the observation of one message: the member lists the agent was sent, the
   list the handshaking peer got back, the provider's member list afterwards,
   whether Receive panicked *)
Record pobs := { p_agent : list (list nat); p_reply : option (list nat);
                 p_list : list nat; p_panic : bool }.

Definition hstep (S : hstate) (msg : pmsg) : hstate * pobs :=
  match msg with
  | Handshake m _ =>
      let S' := hadd S [m] in
      (S', {| p_agent := [hids S']; p_reply := Some (hids S'); p_list := hids S'; p_panic := false |})
  | MembersMsg l =>
      let S' := hadd S l in
      (S', {| p_agent := [hids S']; p_reply := None; p_list := hids S'; p_panic := false |})
  | LeaveAddr a =>
      (* a member at that address is removed and the agent told; nobody at
         that address: nothing happens *)
      let S' := filter (λ kv, kv.2 ≠ a) S in
      (S', {| p_agent := if decide (S' = S) then [] else [hids S']; p_reply := None;
              p_list := hids S'; p_panic := false |})
  end.
Fixpoint hrun (S : hstate) (hist : list pmsg) : list pobs :=
  match hist with
  | [] => []
  | msg :: hist' => let r := hstep S msg in r.2 :: hrun r.1 hist'
  end.
Definition hinit (self : member) : hstate := {[ mid self := mhost self ]}.
Definition spec_prun (self : member) (hist : list pmsg) : list pobs :=
  {| p_agent := [hids (hinit self)]; p_reply := None; p_list := hids (hinit self); p_panic := false |}
  :: hrun (hinit self) hist.

(* the model's observations *)
Definition ids_of (l : list member) : list nat := nsort (mid <$> l).
Definition sids (s : pstate) : list nat := nsort (elements (dom s)).
Definition out_obs (s' : pstate) (outs : list out) : pobs :=
  {| p_agent := omap (λ o, match o with ToAgent l => Some (ids_of l) | _ => None end) outs;
     p_reply := last (omap (λ o, match o with Reply _ l => Some (ids_of l) | _ => None end) outs);
     p_list := sids s';
     p_panic := bool_decide (Panic ∈ outs) |}.

Definition model_prun (self : member) (hist : list pmsg) : list pobs :=
  out_obs (pstart self).1 (pstart self).2 :: ((λ r, out_obs r.1 r.2) <$> prun (pinit self) hist).
(* the same with the pinned tree's Receive *)
Fixpoint prun_pinned (self : member) (s : pstate) (hist : list pmsg) : list (pstate * list out) :=
  match hist with
  | [] => []
  | msg :: hist' => let r := pstep_pinned self s msg in r :: prun_pinned self r.1 hist'
  end.

Definition pobs_eqb (a b : pobs) : bool :=
  bool_decide (p_agent a = p_agent b) && bool_decide (p_reply a = p_reply b) &&
  bool_decide (p_list a = p_list b) && bool_decide (p_panic a = p_panic b).

Definition host_injb (dir : list member) : bool :=
  bool_decide (Forall (λ x, Forall (λ y, mhost x = mhost y → mid x = mid y) dir) dir).

(** * Shared addresses: the choice made by GetByHost

   When several members sit behind one address, which of them GetByHost
   returns depends on Go's map iteration order.  The step is therefore also
   given with the choice as a parameter: [Some i] names the member that goes
   (used when i is a member at that address; otherwise, and for [None], the
   canonical choice of [get_by_host]).  In the correspondence check the
   choice is read off the implementation's own observation (the id that
   disappeared from the member list), so the comparison stays exact without
   depending on the iteration order. *)
Definition get_by_host_ch (ch : option nat) (s : pstate) (a : nat) : option member :=
  match ch with
  | Some i =>
      match s !! i with
      | Some m => if decide (mhost m = a) then Some m else get_by_host s a
      | None => get_by_host s a
      end
  | None => get_by_host s a
  end.

Definition pstep_ch (ch : option nat) (s : pstate) (msg : pmsg) : pstate * list out :=
  match msg with
  | LeaveAddr a =>
      match get_by_host_ch ch s a with
      | Some m => let s' := remove_member s m in (s', [ToAgent (slice s')])
      | None => (s, [])
      end
  | _ => pstep s msg
  end.

Definition hd_choice (chs : list (option nat)) : option nat :=
  match chs with ch :: _ => ch | [] => None end.

Fixpoint prun_ch (s : pstate) (hist : list pmsg) (chs : list (option nat)) : list (pstate * list out) :=
  match hist with
  | [] => []
  | msg :: hist' => let r := pstep_ch (hd_choice chs) s msg in r :: prun_ch r.1 hist' (tail chs)
  end.
Fixpoint pafter_ch_from (s : pstate) (hist : list pmsg) (chs : list (option nat)) : pstate :=
  match hist with
  | [] => s
  | msg :: hist' => pafter_ch_from (pstep_ch (hd_choice chs) s msg).1 hist' (tail chs)
  end.
Definition pafter_ch (self : member) (hist : list pmsg) (chs : list (option nat)) : pstate :=
  pafter_ch_from (pinit self) hist chs.
Definition model_prun_ch (self : member) (hist : list pmsg) (chs : list (option nat)) : list pobs :=
  out_obs (pstart self).1 (pstart self).2 :: ((λ r, out_obs r.1 r.2) <$> prun_ch (pinit self) hist chs).

(* k reports for one address, with any choices *)
Definition behind (a : nat) (s : pstate) : pstate := filter (λ kv, mhost kv.2 = a) s.
Definition elsewhere (a : nat) (s : pstate) : pstate := filter (λ kv, mhost kv.2 ≠ a) s.
Fixpoint leaves_ch (s : pstate) (a : nat) (chs : list (option nat)) : pstate * list (list out) :=
  match chs with
  | [] => (s, [])
  | ch :: chs' =>
      let r := pstep_ch ch s (LeaveAddr a) in
      let r' := leaves_ch r.1 a chs' in (r'.1, r.2 :: r'.2)
  end.

(* the id that disappeared: the one element of [ids] missing from the
   observed member list, if there is exactly one *)
Definition choice_of (ids : list nat) (o : pobs) : option nat :=
  match filter (λ i, i ∉ p_list o) ids with [i] => Some i | _ => None end.
Definition hd_choice_of (ids : list nat) (os : list pobs) : option nat :=
  match os with o :: _ => choice_of ids o | [] => None end.

(* the model driven by the choices visible in a sequence of observations *)
Fixpoint prun_driven (s : pstate) (hist : list pmsg) (os : list pobs) : list pobs :=
  match hist with
  | [] => []
  | msg :: hist' =>
      let r := pstep_ch (hd_choice_of (sids s) os) s msg in
      out_obs r.1 r.2 :: prun_driven r.1 hist' (tail os)
  end.
Definition model_prun_driven (self : member) (hist : list pmsg) (os : list pobs) : list pobs :=
  out_obs (pstart self).1 (pstart self).2 :: prun_driven (pinit self) hist (tail os).

(* the id ↦ address reference with the same parameter: the chosen id goes if
   it is at that address; otherwise everybody at that address goes (there is
   at most one when addresses are not shared) *)
Definition hstep_ch (ch : option nat) (S : hstate) (msg : pmsg) : hstate * pobs :=
  match msg with
  | LeaveAddr a =>
      let S' := match ch with
                | Some i => if decide (S !! i = Some a) then delete i S
                            else filter (λ kv, kv.2 ≠ a) S
                | None => filter (λ kv, kv.2 ≠ a) S
                end in
      (S', {| p_agent := if decide (S' = S) then [] else [hids S']; p_reply := None;
              p_list := hids S'; p_panic := false |})
  | _ => hstep S msg
  end.
Fixpoint hrun_driven (S : hstate) (hist : list pmsg) (os : list pobs) : list pobs :=
  match hist with
  | [] => []
  | msg :: hist' =>
      let r := hstep_ch (hd_choice_of (hids S) os) S msg in
      r.2 :: hrun_driven r.1 hist' (tail os)
  end.
Definition spec_prun_driven (self : member) (hist : list pmsg) (os : list pobs) : list pobs :=
  {| p_agent := [hids (hinit self)]; p_reply := None; p_list := hids (hinit self); p_panic := false |}
  :: hrun_driven (hinit self) hist (tail os).

(* the C20 predicate on a sequence of observations: they are what the
   id ↦ address reference produces when, at each unreachable report, the
   member that the observation shows disappearing is the one chosen (it must
   be at the reported address, else the reference removes everybody there
   and the comparison fails; with nobody or one member there the choice is
   forced) *)
Definition poracle_on (self : member) (hist : list pmsg) (os : list pobs) : bool :=
  all2 pobs_eqb (spec_prun_driven self hist os) os.
