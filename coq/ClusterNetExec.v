(** Executable side of the C19 correspondence check: a case is the kinds each
    node registered, a history of operations and what the implementation
    showed after each one (on every member node). *)
From stdpp Require Import gmap list sorting.
From Coq Require Import Bool.
From HV Require Export ClusterNet.

Record case := { c_kinds : list (list nat); c_ops : list op; c_obs : list oobs }.

(* the harness's naming: node i has address h<i>:1 (hosts pairwise distinct);
   kinds 0..2 are spelled "k0".."k2", kind 3 is spelled "k0/x" (outside the
   premise of C19: exercises the boundary of GetActiveByKind's split) *)
Definition spelling (k : nat) : list nat :=
  match k with
  | 3 => [107; 48; 47; 120]
  | _ => [107; 48 + k]
  end.
Definition cfg_of (kinds : list (list nat)) : config :=
  {| host := λ i, i; nkinds := λ i, default [] (kinds !! i); spell := spelling |}.

(* the model is run under two delivery orders: always the first message in
   flight, and a fixed scrambled choice list; C19_views_agree_after_delivery
   says all orders give the same observations *)
Definition scramble : list nat := [3; 1; 4; 1; 5; 9; 2; 6; 5; 3; 5; 8; 9; 7; 9; 3; 2; 3; 8; 4; 6; 2; 6; 4].

(* correspondence: the transcription of the agents computes what the
   implementation showed *)
Definition corr (c : case) : bool :=
  let cfg := cfg_of (c_kinds c) in
  bool_decide (cmodel_run cfg ((λ o, (o, [])) <$> c_ops c) = c_obs c) &&
  bool_decide (cmodel_run cfg ((λ o, (o, scramble)) <$> c_ops c) = c_obs c).

(* oracle: on the histories C19 speaks about, the implementation's
   observations are those of the one-map specification
   ([oracle_holds_of_model] in ClusterNetProofs: true of every model run) *)
Definition oracle (c : case) : bool := coracle_on (cfg_of (c_kinds c)) (c_ops c) (c_obs c).

(* proof-relevant situations reached, for the evidence histogram:
   1 activation on the activating node itself, 2 activation on another node,
   3 refused: id known, 4 refused: no member offers the kind, 5 select
   returned nil, 6 deactivation of a known actor, 7 deactivation of nothing,
   8 a joiner is sent a non-empty topology, 9 a leave purges activations,
   10 a leave purges nothing, 11 cluster-Spawn, 12 an id activated again after
   it was deactivated or purged, 13 a node number joins again after it left,
   14 history outside the premises (oracle not applied), 15 a kind name with
   '/' is used, 16 deactivation with an address other than the view's,
   17 activation from a node that does not host the kind itself *)
Definition uses_kind3 (o : op) : bool :=
  match o with
  | Activate _ k _ _ | Deactivate _ _ k _ | Spawn _ k _ => bool_decide (k = 3)
  | Snap _ => false
  end.

Definition branches_step (cfg : config) (st : sstate) (gone : gset nat) (once : gset key) (o : op) : list nat :=
  let r := spec_step cfg st o in
  match o with
  | Activate a kind id sel =>
      let k := akey cfg kind id in
      match so_res r with
      | RPid h _ => (if decide (h = host cfg a) then [1] else [2]) ++
                    (if decide (k ∈ once) then [12] else []) ++
                    (if decide (kind ∈ nkinds cfg a) then [] else [17])
      | _ => match sG st !! k with
             | Some _ => [3]
             | None => if decide (offered_ids cfg (sM st) kind = []) then [4] else [5]
             end
      end
  | Deactivate a ph kind id =>
      let k := akey cfg kind id in
      (match sG st !! k with Some _ => [6] | None => [7] end) ++
      (match ph, sG st !! k with Some h, Some h' => if decide (h = h') then [] else [16] | Some _, None => [16] | _, _ => [] end)
  | Spawn _ _ _ => [11]
  | Snap ids =>
      let new := filter (λ i, i ∉ sM st) ids in
      (if decide (new ≠ [] ∧ sG st ≠ ∅) then [8] else []) ++
      (if decide (size (sM st) ≤ size (list_to_set ids : gset nat)) then []
       else if decide (sG (so_st r) = sG st) then [10] else [9]) ++
      (if decide (Exists (λ i, i ∈ gone) new) then [13] else [])
  end.

Fixpoint branches_run (cfg : config) (st : sstate) (gone : gset nat) (once : gset key) (ops : list op) : list nat :=
  match ops with
  | [] => []
  | o :: ops' =>
      let r := spec_step cfg st o in
      branches_step cfg st gone once o ++
      branches_run cfg (so_st r) (gone ∪ (sM st ∖ sM (so_st r))) (once ∪ dom (sG st)) ops'
  end.

Definition branches (c : case) : list nat :=
  let cfg := cfg_of (c_kinds c) in
  remove_dups (branches_run cfg sinit ∅ ∅ (c_ops c) ++
               (if wf_hist cfg sinit (c_ops c) then [] else [14]) ++
               (if existsb uses_kind3 (c_ops c) then [15] else [])).

Fixpoint failing {A} (f : A → bool) (i : nat) (l : list A) : list nat :=
  match l with [] => [] | a :: l' => (if f a then [] else [i]) ++ failing f (S i) l' end.

Definition report (cs : list case) : list nat * list nat * list (list nat) :=
  (failing corr 0 cs, failing oracle 0 cs, map branches cs).

(* smoke test of the executable definitions (observations taken from the harness) *)
Example report_smoke :
  let k17 := [107; 49; 47; 55] in
  let n0 b := {| no_n := 0; no_byid := [None]; no_bykind := [[]; []; []; []]; no_haskind := [true; b; false; false];
                 no_reg := [false]; no_events := [] |} in
  report [ {| c_kinds := [[0]; [1]];
              c_ops := [Snap [0]; Snap [0; 1]; Activate 0 1 [55] 0; Snap [0]];
              c_obs := [ {| oo_res := RNil; oo_started := []; oo_stopped := []; oo_nodes := [n0 false] |};
                         {| oo_res := RNil; oo_started := []; oo_stopped := [];
                            oo_nodes := [n0 true;
                                         {| no_n := 1; no_byid := [None]; no_bykind := [[]; []; []; []];
                                            no_haskind := [true; true; false; false]; no_reg := [false]; no_events := [] |}] |};
                         {| oo_res := RPid 1 k17; oo_started := [(1, k17)]; oo_stopped := [];
                            oo_nodes := [{| no_n := 0; no_byid := [Some 1]; no_bykind := [[]; [(k17, 1)]; []; []];
                                            no_haskind := [true; true; false; false]; no_reg := [false];
                                            no_events := [EvA k17 1] |};
                                         {| no_n := 1; no_byid := [Some 1]; no_bykind := [[]; [(k17, 1)]; []; []];
                                            no_haskind := [true; true; false; false]; no_reg := [true];
                                            no_events := [EvA k17 1] |}] |};
                         {| oo_res := RNil; oo_started := []; oo_stopped := []; oo_nodes := [n0 false] |} ] |} ]
  = ([], [], [[2; 17; 9]]).
Proof. by vm_compute. Qed.
