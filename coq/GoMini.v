(** GoMini — a deep embedding of the fragment of Go that ringbuffer/ringbuffer.go is
    written in, with a total, executable, sequential interpreter.

    The terms of this language are PRODUCED BY A PROGRAM (tools/ringtrans, from the Go
    source, on every run of the C14 check); this file gives them their meaning.  Both are
    part of the trusted base of the "translation tie" of C14 (DESIGN.md 0.8).

    Choices (and why):
    - int64 is [Z], `%` is [Z.rem] (Go's remainder truncates towards zero, like Z.rem and
      unlike Z.modulo), `-e` is [Z.opp]: the source adds negative numbers
      (atomic.AddInt64(&rb.len, -n)), so the integers must be signed.  No overflow: Z is
      unbounded, exactly the idealisation Ring.v makes with nat.  The proofs
      (RingSrcProofs.v) convert between the two on the states that can arise.
    - memory is a heap of objects (structs and arrays) addressed by allocation order;
      pointers and slices are references into it.  ringbuffer.go aliases:
      `content := rb.content` in PopN writes through the alias.  The translator does not
      resolve any of that, the semantics does.  A slice is a reference to its array: the
      fragment has make, index read and index write only (no append, no re-slicing), so
      length and capacity never differ from the array's.
    - panics of Go are the outcome [Panicked]: index out of range, nil dereference,
      remainder by zero, make with a negative length.  [Stuck] is "not Go" (ill-typed
      operands, unknown variable or field) or "outside the fragment" (see [SFor]).
    - atomic.AddInt64/LoadInt64 are plain arithmetic and sync.Mutex Lock/Unlock are no-ops
      for the interpreter: this is the semantics of ONE caller.  That the one caller never
      blocks on its own mutex is a static check ([lock_balanced], part of [call]).
      Interleavings are RingConc.v's business; [lock_disciplined] checks the premise of its
      atomic-section model (every shared access happens under the mutex).
    - a function body has one flat environment of locals.  That is Go's block scoping
      provided no declaration shadows a live outer variable, which the translator checks
      (it refuses such a declaration). *)
From stdpp Require Import list.
From Coq Require Import ZArith.
From Coq Require String.
Notation string := String.string.

(** * Syntax (no type parameter: programs do not contain values of the element type) *)
Inductive ty := TInt | TElem.          (* int64; the type parameter T *)

Inductive binop := Add | Sub | Mul | Rem | Eq | Ne | Lt | Le | Gt | Ge.

Inductive expr :=
| EInt (z : Z)
| EBool (b : bool)
| ENil
| EVar (x : string)
| EField (e : expr) (f : string)                  (* e.f, e a pointer to a struct *)
| EIndex (e i : expr)                             (* e[i] *)
| EBin (op : binop) (e1 e2 : expr)
| ENeg (e : expr)                                 (* -e *)
| EConv (e : expr)                                (* int64(e) *)
| EAtomicLoad (e : expr)                          (* atomic.LoadInt64(&e) *)
| EMake (t : ty) (n : expr)                       (* make([]t, n) *)
| ENew (tyname : string) (fs : list (string * expr)).   (* &tyname[T]{f: e, ...} *)

Inductive lval :=
| LVar (x : string)
| LField (e : expr) (f : string)
| LIndex (e i : expr).

Inductive stmt :=
| SSkip
| SLock | SUnlock                                 (* rb.mu.Lock() / rb.mu.Unlock() *)
| SSeq (s1 s2 : stmt)
| SDefine (x : string) (e : expr)                 (* x := e *)
| SVarZero (x : string) (t : ty)                  (* var x t *)
| SAssign (l : lval) (e : expr)                   (* l = e *)
| SAtomicAdd (l : lval) (e : expr)                (* atomic.AddInt64(&l, e), result unused *)
| SIf (c : expr) (s1 s2 : stmt)
| SFor (i : string) (e0 bound : expr) (body : stmt)   (* for i := e0; i < bound; i++ { body } *)
| SReturn (es : list expr).

Definition block (l : list stmt) : stmt := foldr SSeq SSkip l.

Record method := { m_name : string; m_params : list string; m_body : stmt }.

(** * The mutex

    [exec] (below) runs Lock and Unlock as no-ops.  What one sequential caller needs from
    them is checked on the program text instead: on every path through a function the
    mutex is locked only when free, unlocked only when held, and free at every return and
    at the end — otherwise this call or the next one would block forever or crash, and
    [call] declares such a function stuck.  The check is conservative (the lock state must
    not depend on data). *)
Inductive flow := Bad | Returned | Cont (held : bool).

Fixpoint lock_flow (s : stmt) (held : bool) : flow :=
  match s with
  | SLock => if held then Bad else Cont true
  | SUnlock => if held then Cont false else Bad
  | SSeq s1 s2 => match lock_flow s1 held with Cont b => lock_flow s2 b | r => r end
  | SIf _ s1 s2 =>
      match lock_flow s1 held, lock_flow s2 held with
      | Bad, _ | _, Bad => Bad
      | Returned, r | r, Returned => r
      | Cont a, Cont b => if Bool.eqb a b then Cont a else Bad
      end
  | SFor _ _ _ body =>
      match lock_flow body held with
      | Bad => Bad
      | Returned => Cont held                       (* no iteration at all *)
      | Cont b => if Bool.eqb b held then Cont held else Bad
      end
  | SReturn _ => if held then Bad else Returned
  | _ => Cont held
  end.

Definition lock_balanced (m : method) : bool :=
  match lock_flow (m_body m) false with Returned | Cont false => true | _ => false end.

(** Beyond one caller: every access to memory that other goroutines can reach (a field or
    an element, i.e. anything but a local variable) happens while the mutex is held, except
    atomic.LoadInt64 / atomic.AddInt64 on a field of a local pointer.  This is the premise
    under which RingConc.v may model Push/Pop/PopN as atomic sections and Len as one atomic
    read.  It is not part of [call]; RingSrcProofs.v checks it on the generated terms. *)
Fixpoint shared_expr (e : expr) : bool :=
  match e with
  | EInt _ | EBool _ | ENil | EVar _ => false
  | EField _ _ | EIndex _ _ => true
  | EBin _ e1 e2 => shared_expr e1 || shared_expr e2
  | ENeg e | EConv e | EMake _ e => shared_expr e
  | EAtomicLoad (EField (EVar _) _) => false
  | EAtomicLoad _ => true
  | ENew _ fs => existsb (λ fe, shared_expr fe.2) fs
  end.

Definition shared_lval (l : lval) : bool :=
  match l with LVar _ => false | LField _ _ | LIndex _ _ => true end.

Fixpoint lock_access (s : stmt) (held : bool) : bool :=
  match s with
  | SSkip | SLock | SUnlock | SVarZero _ _ => true
  | SSeq s1 s2 => lock_access s1 held && match lock_flow s1 held with Cont b => lock_access s2 b | _ => true end
  | SDefine _ e => held || negb (shared_expr e)
  | SAssign l e => held || negb (shared_lval l || shared_expr e)
  | SAtomicAdd (LField (EVar _) _) e => held || negb (shared_expr e)
  | SAtomicAdd _ _ => held
  | SIf c s1 s2 => (held || negb (shared_expr c)) && lock_access s1 held && lock_access s2 held
  | SFor _ e0 bound body => (held || negb (shared_expr e0 || shared_expr bound)) && lock_access body held
  | SReturn es => held || negb (existsb shared_expr es)
  end.

Definition lock_disciplined (m : method) : bool := lock_balanced m && lock_access (m_body m) false.

(** * Semantics *)
Inductive outcome (A : Type) := Done (a : A) | Panicked | Stuck.
Arguments Done {A} a.
Arguments Panicked {A}.
Arguments Stuck {A}.

Fixpoint assoc {A} (x : string) (l : list (string * A)) : option A :=
  match l with
  | [] => None
  | (y, v) :: l' => if String.eqb x y then Some v else assoc x l'
  end.

(* replace the value of an existing key *)
Fixpoint assoc_set {A} (x : string) (v : A) (l : list (string * A)) : option (list (string * A)) :=
  match l with
  | [] => None
  | (y, w) :: l' => if String.eqb x y then Some ((y, v) :: l')
                    else match assoc_set x v l' with Some l'' => Some ((y, w) :: l'') | None => None end
  end.

Section sem.
Context {T : Type} (dflt : T).                    (* the element type and its zero value *)

Inductive value := VInt (z : Z) | VBool (b : bool) | VElem (t : T) | VRef (a : nat) | VNil.

Inductive obj := OStruct (fs : list (string * value)) | OArr (l : list value).

Definition heap := list obj.
Definition env := list (string * value).

Definition hget (h : heap) (a : nat) : option obj := h !! a.
Definition hset (h : heap) (a : nat) (o : obj) : heap := <[a := o]> h.
Definition hpush (h : heap) (o : obj) : heap := h ++ [o].      (* the new address is [length h] *)

Definition zero (t : ty) : value := match t with TInt => VInt 0 | TElem => VElem dflt end.

Definition index_ok (l : list value) (z : Z) : bool := ((0 <=? z) && (z <? Z.of_nat (length l)))%Z.

Definition eval_bin (op : binop) (v1 v2 : value) : outcome value :=
  match v1, v2 with
  | VInt a, VInt b =>
      match op with
      | Add => Done (VInt (a + b))
      | Sub => Done (VInt (a - b))
      | Mul => Done (VInt (a * b))
      | Rem => if (b =? 0)%Z then Panicked else Done (VInt (Z.rem a b))
      | Eq => Done (VBool (a =? b)%Z)
      | Ne => Done (VBool (negb (a =? b)%Z))
      | Lt => Done (VBool (a <? b)%Z)
      | Le => Done (VBool (a <=? b)%Z)
      | Gt => Done (VBool (b <? a)%Z)
      | Ge => Done (VBool (b <=? a)%Z)
      end
  | _, _ => Stuck
  end.

Definition load_field (h : heap) (v : value) (f : string) : outcome value :=
  match v with
  | VRef a => match hget h a with
              | Some (OStruct fs) => match assoc f fs with Some w => Done w | None => Stuck end
              | _ => Stuck
              end
  | VNil => Panicked
  | _ => Stuck
  end.

Definition load_index (h : heap) (s i : value) : outcome value :=
  match i with
  | VInt z =>
      match s with
      | VRef a => match hget h a with
                  | Some (OArr l) => if index_ok l z then
                                       match l !! Z.to_nat z with Some w => Done w | None => Stuck end
                                     else Panicked
                  | _ => Stuck
                  end
      | VNil => Panicked                           (* a nil slice has length 0 *)
      | _ => Stuck
      end
  | _ => Stuck
  end.

Definition store_field (h : heap) (v : value) (f : string) (w : value) : outcome heap :=
  match v with
  | VRef a => match hget h a with
              | Some (OStruct fs) => match assoc_set f w fs with
                                     | Some fs' => Done (hset h a (OStruct fs'))
                                     | None => Stuck
                                     end
              | _ => Stuck
              end
  | VNil => Panicked
  | _ => Stuck
  end.

Definition store_index (h : heap) (s i : value) (w : value) : outcome heap :=
  match i with
  | VInt z =>
      match s with
      | VRef a => match hget h a with
                  | Some (OArr l) => if index_ok l z then Done (hset h a (OArr (<[Z.to_nat z := w]> l)))
                                     else Panicked
                  | _ => Stuck
                  end
      | VNil => Panicked
      | _ => Stuck
      end
  | _ => Stuck
  end.

(* expressions: left to right; [make] and [&T{...}] allocate, so the heap is threaded *)
Fixpoint eval (e : expr) (ρ : env) (h : heap) {struct e} : outcome (value * heap) :=
  match e with
  | EInt z => Done (VInt z, h)
  | EBool b => Done (VBool b, h)
  | ENil => Done (VNil, h)
  | EVar x => match assoc x ρ with Some v => Done (v, h) | None => Stuck end
  | EField e f =>
      match eval e ρ h with
      | Done (v, h1) => match load_field h1 v f with Done w => Done (w, h1) | Panicked => Panicked | Stuck => Stuck end
      | Panicked => Panicked | Stuck => Stuck
      end
  | EIndex e i =>
      match eval e ρ h with
      | Done (s, h1) =>
          match eval i ρ h1 with
          | Done (z, h2) => match load_index h2 s z with Done w => Done (w, h2) | Panicked => Panicked | Stuck => Stuck end
          | Panicked => Panicked | Stuck => Stuck
          end
      | Panicked => Panicked | Stuck => Stuck
      end
  | EBin op e1 e2 =>
      match eval e1 ρ h with
      | Done (v1, h1) =>
          match eval e2 ρ h1 with
          | Done (v2, h2) => match eval_bin op v1 v2 with Done w => Done (w, h2) | Panicked => Panicked | Stuck => Stuck end
          | Panicked => Panicked | Stuck => Stuck
          end
      | Panicked => Panicked | Stuck => Stuck
      end
  | ENeg e =>
      match eval e ρ h with
      | Done (VInt z, h1) => Done (VInt (- z), h1)
      | Done _ => Stuck | Panicked => Panicked | Stuck => Stuck
      end
  | EConv e =>
      match eval e ρ h with
      | Done (VInt z, h1) => Done (VInt z, h1)
      | Done _ => Stuck | Panicked => Panicked | Stuck => Stuck
      end
  | EAtomicLoad e =>
      match eval e ρ h with
      | Done (VInt z, h1) => Done (VInt z, h1)
      | Done _ => Stuck | Panicked => Panicked | Stuck => Stuck
      end
  | EMake t n =>
      match eval n ρ h with
      | Done (VInt z, h1) => if (z <? 0)%Z then Panicked
                             else Done (VRef (length h1), hpush h1 (OArr (replicate (Z.to_nat z) (zero t))))
      | Done _ => Stuck | Panicked => Panicked | Stuck => Stuck
      end
  | ENew _ fs =>
      let fix fields (fs : list (string * expr)) (h : heap) : outcome (list (string * value) * heap) :=
        match fs with
        | [] => Done ([], h)
        | (f, e) :: fs' =>
            match eval e ρ h with
            | Done (v, h1) => match fields fs' h1 with
                              | Done (vs, h2) => Done ((f, v) :: vs, h2)
                              | Panicked => Panicked | Stuck => Stuck
                              end
            | Panicked => Panicked | Stuck => Stuck
            end
        end in
      match fields fs h with
      | Done (vs, h1) => Done (VRef (length h1), hpush h1 (OStruct vs))
      | Panicked => Panicked | Stuck => Stuck
      end
  end.

Fixpoint eval_list (es : list expr) (ρ : env) (h : heap) : outcome (list value * heap) :=
  match es with
  | [] => Done ([], h)
  | e :: es' =>
      match eval e ρ h with
      | Done (v, h1) => match eval_list es' ρ h1 with
                        | Done (vs, h2) => Done (v :: vs, h2)
                        | Panicked => Panicked | Stuck => Stuck
                        end
      | Panicked => Panicked | Stuck => Stuck
      end
  end.

(* l = w.  Go evaluates the operands of the left side, then the right side, then stores;
   [assign] gets the right side already evaluated, which differs only in WHICH panic
   is raised when both sides panic *)
Definition assign (l : lval) (w : value) (ρ : env) (h : heap) : outcome (env * heap) :=
  match l with
  | LVar x => Done ((x, w) :: ρ, h)
  | LField e f =>
      match eval e ρ h with
      | Done (v, h1) => match store_field h1 v f w with Done h2 => Done (ρ, h2) | Panicked => Panicked | Stuck => Stuck end
      | Panicked => Panicked | Stuck => Stuck
      end
  | LIndex e i =>
      match eval e ρ h with
      | Done (s, h1) =>
          match eval i ρ h1 with
          | Done (z, h2) => match store_index h2 s z w with Done h3 => Done (ρ, h3) | Panicked => Panicked | Stuck => Stuck end
          | Panicked => Panicked | Stuck => Stuck
          end
      | Panicked => Panicked | Stuck => Stuck
      end
  end.

Definition lval_expr (l : lval) : expr :=
  match l with LVar x => EVar x | LField e f => EField e f | LIndex e i => EIndex e i end.

(* the result of a statement *)
Inductive sres := SNext (ρ : env) (h : heap) | SRet (vs : list value) (h : heap) | SPanic | SStuck.

(* [for i := e0; i < bound; i++ { body }].  Go re-evaluates the condition before every
   iteration, and so does [for_loop]; what makes the interpreter total is the budget: the
   number of iterations a COUNTED loop makes, computed from the bound at loop entry.  If
   the condition still holds when the budget is used up (the body changed i or the bound)
   the loop is outside the fragment and the outcome is [SStuck] — never a wrong answer. *)
Fixpoint exec (s : stmt) (ρ : env) (h : heap) {struct s} : sres :=
  match s with
  | SSkip | SLock | SUnlock => SNext ρ h
  | SSeq s1 s2 =>
      match exec s1 ρ h with
      | SNext ρ1 h1 => exec s2 ρ1 h1
      | r => r
      end
  | SDefine x e =>
      match eval e ρ h with
      | Done (v, h1) => SNext ((x, v) :: ρ) h1
      | Panicked => SPanic | Stuck => SStuck
      end
  | SVarZero x t => SNext ((x, zero t) :: ρ) h
  | SAssign l e =>
      match eval e ρ h with
      | Done (w, h1) => match assign l w ρ h1 with Done (ρ2, h2) => SNext ρ2 h2 | Panicked => SPanic | Stuck => SStuck end
      | Panicked => SPanic | Stuck => SStuck
      end
  | SAtomicAdd l e =>
      match eval (EBin Add (lval_expr l) e) ρ h with
      | Done (w, h1) => match assign l w ρ h1 with Done (ρ2, h2) => SNext ρ2 h2 | Panicked => SPanic | Stuck => SStuck end
      | Panicked => SPanic | Stuck => SStuck
      end
  | SIf c s1 s2 =>
      match eval c ρ h with
      | Done (VBool true, h1) => exec s1 ρ h1
      | Done (VBool false, h1) => exec s2 ρ h1
      | Done _ => SStuck | Panicked => SPanic | Stuck => SStuck
      end
  | SFor i e0 bound body =>
      let fix for_loop (budget : nat) (ρ : env) (h : heap) {struct budget} : sres :=
        match eval (EBin Lt (EVar i) bound) ρ h with
        | Done (VBool false, h1) => SNext ρ h1
        | Done (VBool true, h1) =>
            match budget with
            | O => SStuck
            | S budget' =>
                match exec body ρ h1 with
                | SNext ρ2 h2 =>
                    match assoc i ρ2 with
                    | Some (VInt k) => for_loop budget' ((i, VInt (k + 1)) :: ρ2) h2
                    | _ => SStuck
                    end
                | r => r
                end
            end
        | Done _ => SStuck | Panicked => SPanic | Stuck => SStuck
        end in
      match eval e0 ρ h with
      | Done (VInt z0, h1) =>
          let ρ1 := (i, VInt z0) :: ρ in
          match eval bound ρ1 h1 with
          | Done (VInt b, _) => for_loop (Z.to_nat (b - z0)) ρ1 h1
          | Done _ => SStuck | Panicked => SPanic | Stuck => SStuck
          end
      | Done _ => SStuck | Panicked => SPanic | Stuck => SStuck
      end
  | SReturn es =>
      match eval_list es ρ h with
      | Done (vs, h1) => SRet vs h1
      | Panicked => SPanic | Stuck => SStuck
      end
  end.

(* the loop of [SFor], as a function of its own (definitionally the local fix above) *)
Fixpoint for_loop (i : string) (bound : expr) (body : stmt) (budget : nat) (ρ : env) (h : heap) : sres :=
  match eval (EBin Lt (EVar i) bound) ρ h with
  | Done (VBool false, h1) => SNext ρ h1
  | Done (VBool true, h1) =>
      match budget with
      | O => SStuck
      | S budget' =>
          match exec body ρ h1 with
          | SNext ρ2 h2 =>
              match assoc i ρ2 with
              | Some (VInt k) => for_loop i bound body budget' ((i, VInt (k + 1)) :: ρ2) h2
              | _ => SStuck
              end
          | r => r
          end
      end
  | Done _ => SStuck | Panicked => SPanic | Stuck => SStuck
  end.

Lemma exec_for i e0 bound body ρ h :
  exec (SFor i e0 bound body) ρ h =
  match eval e0 ρ h with
  | Done (VInt z0, h1) =>
      let ρ1 := (i, VInt z0) :: ρ in
      match eval bound ρ1 h1 with
      | Done (VInt b, _) => for_loop i bound body (Z.to_nat (b - z0)) ρ1 h1
      | Done _ => SStuck | Panicked => SPanic | Stuck => SStuck
      end
  | Done _ => SStuck | Panicked => SPanic | Stuck => SStuck
  end.
Proof.
  cbn [exec]. destruct (eval e0 ρ h) as [[[z0| | | |] h1]| |]; try reflexivity.
  cbv zeta. destruct (eval bound _ h1) as [[[b| | | |] h2]| |]; try reflexivity.
  generalize (Z.to_nat (b - z0)) ((i, VInt z0) :: ρ) h1. clear.
  induction n as [|n IH]; intros ρ h; cbn [for_loop]; [reflexivity|].
  destruct (eval _ ρ h) as [[[| [|] | | |] h1]| |]; try reflexivity.
  destruct (exec body ρ h1); try reflexivity.
  destruct (assoc i ρ0) as [[k| | | |]|]; try reflexivity. apply IH.
Qed.

(* calling a function: bind the parameters, run the body; falling off the end returns
   nothing.  A function whose use of the mutex is not balanced (see [lock_balanced] below)
   is stuck: [exec] treats Lock/Unlock as no-ops, which is only right for a caller that
   never blocks *)
Inductive cres := CRet (vs : list value) (h : heap) | CPanic | CStuck.

Fixpoint bind_params (ps : list string) (args : list value) : option env :=
  match ps, args with
  | [], [] => Some []
  | p :: ps', a :: args' => match bind_params ps' args' with Some ρ => Some ((p, a) :: ρ) | None => None end
  | _, _ => None
  end.

Definition call (m : method) (args : list value) (h : heap) : cres :=
  if lock_balanced m then
    match bind_params (m_params m) args with
    | Some ρ => match exec (m_body m) ρ h with
                | SNext _ h1 => CRet [] h1
                | SRet vs h1 => CRet vs h1
                | SPanic => CPanic
                | SStuck => CStuck
                end
    | None => CStuck
    end
  else CStuck.

End sem.

Arguments value : clear implicits.
Arguments obj : clear implicits.
Arguments heap : clear implicits.
Arguments env : clear implicits.
Arguments sres : clear implicits.
Arguments cres : clear implicits.
