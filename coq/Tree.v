(** L3 — the supervision tree (C08), sequential part.

    (i)  [stop_tree]: the global order of events when an actor is poisoned and
         all of its descendants are idle.  It is the recursion of
         [process.cleanup] (actor/process.go, repaired order):

           dead := true
           for each child in Children():  <-Poison(child).Done()   -- the child's whole stop_tree
           inbox.Stop()                                             -- IStop
           deliver Stopped                                          -- X
           Registry.Remove(self)                                    -- Unreg
           parentCtx.children.Delete(self)                          -- DelParent
           ActorStoppedEvent; flush                                 -- (no pill of its own queue here)
           deferred cancel()                                        -- Cancel

    (ii) the [children] bookkeeping of actor/context.go as a state machine
         over SpawnChild / Spawn / "an actor finished stopping", with contexts
         as first-class objects (a re-spawned id gets a new Context), and the
         specification it is compared with.

    (iii) boolean checkers used by the executable side (TreeExec.v): they are
         evaluated on what the implementation did, and proved (TreeProofs.v)
         to hold of the model's own runs.

    Definitions only; the proofs are in TreeProofs.v. *)
From Coq Require Import List Arith Lia Bool.
Import ListNotations.

(** * (i) Trees and the stop order *)

Inductive tree := Node (id : nat) (kids : list tree).

Definition root (t : tree) : nat := match t with Node i _ => i end.
Definition subs (t : tree) : list tree := match t with Node _ ks => ks end.

Inductive tev :=
| IStop (i : nat)       (* inbox.Stop *)
| X (i : nat)           (* Stopped handled *)
| Unreg (i : nat)       (* Registry.Remove *)
| DelParent (i : nat)   (* deleted from the parent's children map *)
| Cancel (i : nat).     (* the context of the pill that stopped i is done *)

Definition own_events (i : nat) : list tev := [IStop i; X i; Unreg i; DelParent i; Cancel i].

Fixpoint stop_tree (t : tree) : list tev :=
  match t with Node i ks => flat_map stop_tree ks ++ own_events i end.

Fixpoint ids (t : tree) : list nat :=
  match t with Node i ks => i :: flat_map ids ks end.

(* all subtrees, the tree itself first (preorder) *)
Fixpoint subtrees (t : tree) : list tree :=
  match t with Node i ks => Node i ks :: flat_map subtrees ks end.

(* proper descendants of the root *)
Definition desc (t : tree) : list nat := flat_map ids (subs t).
Definition child_ids (t : tree) : list nat := map root (subs t).

Fixpoint depth (t : tree) : nat :=
  match t with Node _ ks => S (fold_right (fun k m => Nat.max (depth k) m) 0 ks) end.
Definition fanout (t : tree) : nat :=
  fold_right (fun s m => Nat.max (length (subs s)) m) 0 (subtrees t).

(* [s] occurs in [t] (reflexive) *)
Inductive subtree : tree -> tree -> Prop :=
| sub_refl t : subtree t t
| sub_kid s i ks k : In k ks -> subtree s k -> subtree s (Node i ks).

Definition find_sub (t : tree) (p : nat) : option tree :=
  find (fun s => Nat.eqb (root s) p) (subtrees t).

Definition parent_in (t : tree) (c : nat) : option nat :=
  option_map root (find (fun s => existsb (Nat.eqb c) (child_ids s)) (subtrees t)).

(* ids of the subtree rooted at p ([] when p is not in the tree) *)
Definition closure (t : tree) (p : nat) : list nat :=
  match find_sub t p with Some s => ids s | None => [] end.
Definition desc_of (t : tree) (p : nat) : list nat :=
  match find_sub t p with Some s => desc s | None => [] end.
Definition kids_of (t : tree) (p : nat) : list nat :=
  match find_sub t p with Some s => child_ids s | None => [] end.

(** [a] occurs before [b] *)
Definition before {A} (a b : A) (l : list A) : Prop :=
  exists l1 l2 l3, l = l1 ++ a :: l2 ++ b :: l3.

Definition tev_eqb (a b : tev) : bool :=
  match a, b with
  | IStop i, IStop j | X i, X j | Unreg i, Unreg j | DelParent i, DelParent j | Cancel i, Cancel j => Nat.eqb i j
  | _, _ => false
  end.

Fixpoint index_of {A} (eqb : A -> A -> bool) (a : A) (l : list A) : option nat :=
  match l with
  | [] => None
  | b :: l' => if eqb a b then Some 0 else option_map S (index_of eqb a l')
  end.

(* both occur, and the first occurrence of [a] is before the first of [b] *)
Definition precedes {A} (eqb : A -> A -> bool) (a b : A) (l : list A) : bool :=
  match index_of eqb a l, index_of eqb b l with
  | Some i, Some j => Nat.ltb i j
  | _, _ => false
  end.

Definition memb (x : nat) (l : list nat) : bool := existsb (Nat.eqb x) l.
Fixpoint nodupb (l : list nat) : bool :=
  match l with [] => true | x :: l' => negb (memb x l') && nodupb l' end.
Definition subsetb (a b : list nat) : bool := forallb (fun x => memb x b) a.
Definition seteqb (a b : list nat) : bool := subsetb a b && subsetb b a.

(** * (ii) The children map *)

(** Contexts are numbered in creation order.  [b_reg] is the registry (id to
    the context of the registered process), [b_kids cx] the keys of the
    [children] safemap of context [cx], [b_par cx] its [parentCtx]. *)
Record bstate := {
  b_next : nat;
  b_reg : nat -> option nat;
  b_pid : nat -> nat;
  b_par : nat -> option nat;
  b_kids : nat -> list nat }.

Inductive bop :=
| BSpawnTop (i : nat)          (* Engine.Spawn of id i *)
| BSpawnChild (p c : nat)      (* Context.SpawnChild in a Receive of the actor registered as p; c = the child's full id *)
| BStopped (c : nat).          (* the actor registered as c ran Registry.Remove and parentCtx.children.Delete *)

Definition upd {A} (f : nat -> A) (k : nat) (v : A) : nat -> A :=
  fun x => if Nat.eqb x k then v else f x.

Definition b_init : bstate :=
  {| b_next := 0; b_reg := fun _ => None; b_pid := fun _ => 0; b_par := fun _ => None; b_kids := fun _ => [] |}.

Definition set_add (c : nat) (l : list nat) : list nat := if memb c l then l else l ++ [c].
Definition set_del (c : nat) (l : list nat) : list nat := filter (fun x => negb (Nat.eqb x c)) l.

(* newProcess creates the context (with parentCtx) whether or not the id is
   free; Registry.insert keeps the incumbent; the child is recorded in the
   caller's map only when it was inserted (repair D21; [adopt] = true is the
   code before it, where children.Set was unconditional) *)
Definition bstep_gen (adopt : bool) (s : bstate) (o : bop) : bstate :=
  match o with
  | BSpawnTop i =>
      let n := b_next s in
      {| b_next := S n;
         b_reg := match b_reg s i with Some _ => b_reg s | None => upd (b_reg s) i (Some n) end;
         b_pid := upd (b_pid s) n i; b_par := upd (b_par s) n None; b_kids := upd (b_kids s) n [] |}
  | BSpawnChild p c =>
      match b_reg s p with
      | None => s      (* no Receive of an unregistered actor *)
      | Some pc =>
        let n := b_next s in
        {| b_next := S n;
           b_reg := match b_reg s c with Some _ => b_reg s | None => upd (b_reg s) c (Some n) end;
           b_pid := upd (b_pid s) n c; b_par := upd (b_par s) n (Some pc);
           b_kids := match b_reg s c with
                     | Some _ => if adopt then upd (upd (b_kids s) n []) pc (set_add c (b_kids s pc))
                                 else upd (b_kids s) n []
                     | None => upd (upd (b_kids s) n []) pc (set_add c (b_kids s pc))
                     end |}
      end
  | BStopped c =>
      match b_reg s c with
      | None => s
      | Some cx =>
        {| b_next := b_next s; b_reg := upd (b_reg s) c None; b_pid := b_pid s; b_par := b_par s;
           b_kids := match b_par s cx with
                     | Some pc => upd (b_kids s) pc (set_del c (b_kids s pc))
                     | None => b_kids s end |}
      end
  end.

Definition bstep := bstep_gen false.
Definition brun (h : list bop) : bstate := fold_left bstep h b_init.
Definition brun_pinned (h : list bop) : bstate := fold_left (bstep_gen true) h b_init.

(* Context.Children() / Context.Parent() inside a Receive of the actor registered as p *)
Definition children (s : bstate) (p : nat) : list nat :=
  match b_reg s p with Some cx => b_kids s cx | None => [] end.
Definition parent (s : bstate) (c : nat) : option nat :=
  match b_reg s c with Some cx => option_map (b_pid s) (b_par s cx) | None => None end.

(** Restarts.  A restart (process.tryRestart -> process.Start) replaces the
    receiver and keeps the process, its registration and its Context — so the
    children map and parentCtx of the actor are untouched: a restart is NOT an
    event of this machine.  Histories with restart markers are run by erasing
    the markers ([hrun]); TreeProofs.v states what that means for the listing
    theorem ([restart_keeps_children]). *)
Inductive hop := HOp (o : bop) | HRestart (n : nat).
Definition ops_of (h : list hop) : list bop :=
  flat_map (fun x => match x with HOp o => [o] | HRestart _ => [] end) h.
Definition hrun (h : list hop) : bstate := brun (ops_of h).

(** The specification: who is alive, and which (parent, child) spawns are in
    force.  A pair disappears when the child or the parent has stopped. *)
Record sstate := { s_alive : list nat; s_rel : list (nat * nat); s_par : list (nat * nat) (* child, spawner *) }.
Definition s_init : sstate := {| s_alive := []; s_rel := []; s_par := [] |}.

Definition sstep (s : sstate) (o : bop) : sstate :=
  match o with
  | BSpawnTop i => {| s_alive := s_alive s ++ [i]; s_rel := s_rel s; s_par := s_par s |}
  | BSpawnChild p c => {| s_alive := s_alive s ++ [c]; s_rel := s_rel s ++ [(p, c)]; s_par := s_par s ++ [(c, p)] |}
  | BStopped c =>
      {| s_alive := set_del c (s_alive s);
         s_rel := filter (fun pc => negb (Nat.eqb (fst pc) c) && negb (Nat.eqb (snd pc) c)) (s_rel s);
         s_par := filter (fun cp => negb (Nat.eqb (fst cp) c)) (s_par s) |}
  end.
Definition srun (h : list bop) : sstate := fold_left sstep h s_init.

Definition spec_children (s : sstate) (p : nat) : list nat :=
  map snd (filter (fun pc => Nat.eqb (fst pc) p) (s_rel s)).
Definition spec_parent (s : sstate) (c : nat) : option nat :=
  option_map snd (find (fun cp => Nat.eqb (fst cp) c) (s_par s)).

(* the premise of the listing theorem: ids are free when they are spawned,
   SpawnChild is called by a live actor, only live actors stop *)
Definition op_fresh (s : sstate) (o : bop) : Prop :=
  match o with
  | BSpawnTop i => ~ In i (s_alive s)
  | BSpawnChild p c => In p (s_alive s) /\ ~ In c (s_alive s)
  | BStopped c => In c (s_alive s)
  end.
Fixpoint hist_fresh (s : sstate) (h : list bop) : Prop :=
  match h with [] => True | o :: h' => op_fresh s o /\ hist_fresh (sstep s o) h' end.

Definition op_freshb (s : sstate) (o : bop) : bool :=
  match o with
  | BSpawnTop i => negb (memb i (s_alive s))
  | BSpawnChild p c => memb p (s_alive s) && negb (memb c (s_alive s))
  | BStopped c => memb c (s_alive s)
  end.
Fixpoint hist_freshb (s : sstate) (h : list bop) : bool :=
  match h with [] => true | o :: h' => op_freshb s o && hist_freshb (sstep s o) h' end.

(* the spawns that build a tree: every node spawns its children from its
   Started handler, which runs inside SpawnChild -> depth first, preorder *)
Fixpoint spawn_kids (p : nat) (t : tree) : list bop :=
  match t with Node i ks => BSpawnChild p i :: flat_map (spawn_kids i) ks end.
Definition spawn_ops (t : tree) : list bop :=
  match t with Node i ks => BSpawnTop i :: flat_map (spawn_kids i) ks end.

(* the bookkeeping steps of a stop *)
Fixpoint stopped_ops (evs : list tev) : list bop :=
  match evs with
  | [] => []
  | Unreg i :: evs' => BStopped i :: stopped_ops evs'
  | _ :: evs' => stopped_ops evs'
  end.

(** * (iii) What is observed of a run, and the predicates on it *)

Inductive oev :=
| EXB (i : nat)     (* i entered its Stopped handler *)
| EXE (i : nat)     (* i left its Stopped handler *)
| EDone (k : nat).  (* the context of stop handle k was seen done *)

Definition oev_eqb (a b : oev) : bool :=
  match a, b with
  | EXB i, EXB j | EXE i, EXE j | EDone i, EDone j => Nat.eqb i j
  | _, _ => false
  end.

(* the model's events as the harness would see them *)
Fixpoint xevents (evs : list tev) : list oev :=
  match evs with
  | [] => []
  | X i :: evs' => EXB i :: EXE i :: xevents evs'
  | _ :: evs' => xevents evs'
  end.

(* every proper descendant of every node that entered Stopped had left its
   own Stopped handler before *)
Definition order_ok (t : tree) (evs : list oev) : bool :=
  forallb (fun s =>
    negb (existsb (oev_eqb (EXB (root s))) evs) ||
    forallb (fun d => precedes oev_eqb (EXE d) (EXB (root s)) evs) (desc s))
  (subtrees t).

(* handle k stopped actor p: every actor of p's subtree (p included) had left
   Stopped before the context was seen done *)
Definition done_ok (t : tree) (p k : nat) (evs : list oev) : bool :=
  negb (existsb (oev_eqb (EDone k)) evs) ||
  forallb (fun d => precedes oev_eqb (EXE d) (EDone k) evs) (closure t p).

(* the X order of a stop with idle descendants: for every node the X's of its
   subtree are one contiguous block that ends with the node itself (children
   are stopped one after the other; their order is Go's map order) *)
Definition positions (xs : list nat) (l : list nat) : list nat :=
  flat_map (fun x => match index_of Nat.eqb x xs with Some i => [i] | None => [] end) l.
Definition block_ok (xs : list nat) (s : tree) : bool :=
  let ps := positions xs (ids s) in
  match index_of Nat.eqb (root s) xs with
  | None => false
  | Some r =>
      Nat.eqb (length ps) (length (ids s)) &&
      forallb (fun i => Nat.leb i r && Nat.ltb r (i + length ps)) ps
  end.
Definition postorder_ok (t : tree) (xs : list nat) : bool :=
  Nat.eqb (length xs) (length (ids t)) && nodupb xs && forallb (block_ok xs) (subtrees t).

Fixpoint xs_of (evs : list tev) : list nat :=
  match evs with [] => [] | X i :: evs' => i :: xs_of evs' | _ :: evs' => xs_of evs' end.
