(** L1 x L2 — the product: ONE actor on an engine, process.go's behaviour
    (Proc.v) running inside the interleaving of inbox.go, registry.go and the
    engine's send / poison paths.

    Threads
      spawner    Engine.Spawn: Registry.add (lock, insert, unlock) and then
                 process.Start on the spawner's own goroutine: Producer,
                 Initialized, Started (restarts caused by panics in them
                 included), finally Inbox.Start = CAS stopped->starting,
                 Swap idle, CAS idle->running [+ go worker]
      sender ms  Engine.Send for each m: Registry.get (rlock); miss => dead
                 letter; hit => Push ; CAS idle->running [+ go worker]
      poisoner   Engine.Poison / Stop = sendPoisonPill: Registry.get; miss =>
                 dead letter and cancel at once; hit => SendLocal (a second
                 Registry.get; hit => Push ; CAS) ; Registry.get again, cancel
                 if the process is gone
      worker     Inbox.process: run() = loop { Load ; PopN ; Invoke(batch) } ;
                 CAS running->idle ; Len ; CAS idle->running [+ go worker]

    One step = one scheduling point of the deterministic scheduler on the
    real code (tools/verifshim): every atomic operation on the inbox's
    procStatus, every operation on its ring, every acquisition of the
    registry's lock, and the two yields of the harness receiver inside each
    Receive (recv-begin, recv-mid) — followed by the thread's local code up to
    its next scheduling point, exactly as the scheduler runs a goroutine.

    process.go is not transcribed a second time.  When a thread enters
    process.Start (the spawner) or process.Invoke (a worker), the whole call
    is computed by [Proc.start] / [Proc.invoke] on the actor's private state
    (which is set to the call's final state at once: nobody else looks at it
    while the call runs),
    and the [event] trace it returns is compiled ([compile]) into the list of
    micro-operations the thread then performs one per step: the events that
    touch shared memory become visible operations (Enq = Push ; CAS,
    InboxStop = Store stopped, RegRemove = lock + delete, InboxStart = the
    three operations of Inbox.Start, Recv = the two yields of the receiver,
    Sent / pill events = the registry lookups of SendLocal / sendPoisonPill),
    all others are local and run together with the preceding visible
    operation.  Two things are NOT taken from the pre-computed trace but from
    the shared state at the moment the step is taken, because other threads
    interfere with them: the result of Inbox.Start's first CAS, and what the
    final flush pops from the ring ([strip] removes the flush that Proc
    computed from the actor's own sends; [MFlush] pops the real ring).  The
    registry entry and the stopped/open state of the inbox are only ever
    changed by the thread running the process's code, so what [Proc] computed
    from their values at the start of the call stays valid (this is part of
    what ActorProofs proves: at most one thread runs process code).

    Pills: the k-th poisoner thread's pill is [Pill g k]; the process's own
    counter starts at the number of poisoner threads.

    Definitions only; proofs are in ActorProofs.v. *)
From Coq Require Import List Arith Bool.
Import ListNotations.
From HV Require Import Inbox Proc.

(** ** Micro-operations of a thread inside process.Start / process.Invoke *)
Inductive mop :=
| MSilent (e : event)                               (* no scheduling point: runs with the preceding visible operation *)
| MRecvB (i : nat) (mw : bool) (m : lmsg) (sd : bool)  (* Receive entered (recv-begin) *)
| MRecvM                                            (* the yield inside Receive (recv-mid) *)
| MLook                                             (* Registry.get of the actor itself (rlock) *)
| MPush (e : env)                                   (* ring Push by the actor to itself *)
| MKick                                             (* schedule(): CAS idle->running [+ go worker] *)
| MStop                                             (* Inbox.Stop: Store stopped *)
| MRemove                                           (* Registry.Remove: lock + delete *)
| MFlush                                            (* flush: PopN on the stopped ring, until it comes back empty *)
| MStartCas | MStartSwap | MStartKick.              (* Inbox.Start *)

(* the flush Proc computed (from the actor's own sends of this call) is cut
   out: after EvStopped as many discard events (dead letter of a user
   message, cancel of a pill) as envelopes were enqueued since the beginning
   of the call (or the last flush) *)
Fixpoint strip (t : list event) (nenq skip : nat) : list event :=
  match t with
  | [] => []
  | e :: t' =>
    match skip, e with
    | S k, EvDeadLetter (User _) => strip t' nenq k
    | S k, Cancel _ => strip t' nenq k
    | _, Enq _ => e :: strip t' (S nenq) 0
    | _, EvStopped => e :: strip t' 0 nenq
    | _, _ => e :: strip t' nenq 0
    end
  end.

Definition compile1 (e : event) : list mop :=
  match e with
  | Recv i mw m sd => [MRecvB i mw m sd; MRecvM]
  | Sent _ => [MSilent e; MLook]                    (* SendLocal's lookup; Enq or EvDeadLetter follows *)
  | Enq en => match emsg en with
              | User _ => [MPush en; MKick]
              | Pill _ _ => [MLook; MLook; MPush en; MKick; MLook]   (* sendPoisonPill on itself, registered *)
              end
  | EvDeadLetter (Pill _ _) => [MLook; MSilent e]   (* sendPoisonPill on itself, gone: Cancel follows *)
  | InboxStop => [MStop]
  | RegRemove => [MRemove]
  | EvStopped => [MSilent e; MFlush]
  | InboxStart _ => [MStartCas; MStartSwap; MStartKick]
  | _ => [MSilent e]
  end.
Definition compile (t : list event) : list mop := flat_map compile1 t.

(** ** Threads *)
Inductive kont := KSpawn | KWork.     (* whose call it is: process.Start of the spawner / Invoke of a worker *)

Inductive apc :=
| PAdd                                              (* spawner about to Registry.add *)
| PRun (k : kont) (ops : list mop) (esc : bool)      (* inside the call: ops left (the head is a visible operation);
                                                       does a panic leave the call in the end *)
| SLook (m : nat) (ms : list nat) | SPush (m : nat) (ms : list nat) | SCas (ms : list nat)
| QLook1 (g : bool) (k : nat) | QLook2 (g : bool) (k : nat) | QPush (g : bool) (k : nat)
| QCas (k : nat) | QLook3 (k : nat)
| WLoad | WPop | WExit | WLen | WSched
| Done.

Inductive origin := OProc | OExt (i : nat).         (* who logged an event: process code / client thread i *)

Record acfg := { a_cfg : cfg; a_fuel : nat }.

Record ast := mkA {
  a_reg : bool;                 (* the PID is in the registry *)
  a_status : status;            (* procStatus of the inbox *)
  a_ring : list env;            (* the inbox's ring *)
  a_ps : pst;                   (* private state of the process: as the call in progress will leave it (nobody
                                   else looks at it meanwhile), else as the last call left it *)
  a_thr : list apc;
  a_log : list (origin * event);(* ghost: everything that happened, in order *)
  a_fl : bool;                  (* ghost: the final flush has seen the ring empty *)
  a_late : list env;            (* ghost: envelopes pushed after that *)
  a_oof : bool;                 (* ghost: some call ran out of fuel *)
  a_esc : bool }.               (* ghost: a panic left a goroutine *)

Definition set_thr_list (l : list apc) (i : nat) (p : apc) (extra : list apc) : list apc :=
  firstn i l ++ p :: skipn (S i) l ++ extra.

Definition with_thr (s : ast) (i : nat) (p : apc) (extra : list apc) : ast :=
  mkA (a_reg s) (a_status s) (a_ring s) (a_ps s) (set_thr_list (a_thr s) i p extra) (a_log s) (a_fl s) (a_late s) (a_oof s) (a_esc s).
Definition with_reg (s : ast) (r : bool) : ast :=
  mkA r (a_status s) (a_ring s) (a_ps s) (a_thr s) (a_log s) (a_fl s) (a_late s) (a_oof s) (a_esc s).
Definition with_status (s : ast) (x : status) : ast :=
  mkA (a_reg s) x (a_ring s) (a_ps s) (a_thr s) (a_log s) (a_fl s) (a_late s) (a_oof s) (a_esc s).
Definition with_ring (s : ast) (q : list env) : ast :=
  mkA (a_reg s) (a_status s) q (a_ps s) (a_thr s) (a_log s) (a_fl s) (a_late s) (a_oof s) (a_esc s).
Definition with_ps (s : ast) (p : pst) : ast :=
  mkA (a_reg s) (a_status s) (a_ring s) p (a_thr s) (a_log s) (a_fl s) (a_late s) (a_oof s) (a_esc s).
Definition add_log (s : ast) (o : origin) (evs : list event) : ast :=
  mkA (a_reg s) (a_status s) (a_ring s) (a_ps s) (a_thr s) (a_log s ++ map (fun e => (o, e)) evs) (a_fl s) (a_late s) (a_oof s) (a_esc s).
Definition with_fl (s : ast) (b : bool) : ast :=
  mkA (a_reg s) (a_status s) (a_ring s) (a_ps s) (a_thr s) (a_log s) b (a_late s) (a_oof s) (a_esc s).
Definition with_oof (s : ast) (b : bool) : ast :=
  mkA (a_reg s) (a_status s) (a_ring s) (a_ps s) (a_thr s) (a_log s) (a_fl s) (a_late s) b (a_esc s).
Definition with_esc (s : ast) (b : bool) : ast :=
  mkA (a_reg s) (a_status s) (a_ring s) (a_ps s) (a_thr s) (a_log s) (a_fl s) (a_late s) (a_oof s) b.
(* ring Push: the envelope is appended; after the final flush it is stranded *)
Definition push_ring (s : ast) (e : env) : ast :=
  mkA (a_reg s) (a_status s) (a_ring s ++ [e]) (a_ps s) (a_thr s) (a_log s) (a_fl s)
      (if a_fl s then a_late s ++ [e] else a_late s) (a_oof s) (a_esc s).

(** ** Labels: what the scheduler shims log for the same operation *)
Inductive alabel :=
| ALock                                   (* registry write lock: add / Remove *)
| ARLock                                  (* registry read lock: a lookup of the actor *)
| APush (p : payload)
| ACas (old new : status) (ok : bool)
| ALoad (v : status)
| ASwap (new old : status)
| AStore (v : status)
| APopN (b : list payload) (ok : bool)
| ALen (n : nat)
| ARecvB (i : nat) (m : lmsg)
| ARecvM.

(** ** Entering and leaving a call of process code *)

(* the process's state as the call sees it: private fields from the last
   completed call, registry entry and inbox state as they are now; the queue
   field only collects the call's own sends *)
Definition mk_pst (s : ast) : pst :=
  {| inc := inc (a_ps s); restarts := restarts (a_ps s); mbuf := mbuf (a_ps s); queue := [];
     csender := csender (a_ps s); dead := dead (a_ps s); registered := a_reg s;
     istatus_stopped := status_eqb (a_status s) Stopped; npill := npill (a_ps s) |}.

Fixpoint silent_prefix (ops : list mop) : list event * list mop :=
  match ops with
  | MSilent e :: ops' => let '(l, r) := silent_prefix ops' in (e :: l, r)
  | _ => ([], ops)
  end.

(* thread i has performed a visible operation inside its call and runs on to
   its next scheduling point: local events are logged; when nothing is left
   the call returns — the spawner's goroutine ends, a worker goes back to the
   loop of run(); a panic that leaves the call kills the goroutine *)
Definition settle_ops (ops : list mop) : list mop := snd (silent_prefix ops).
Definition park_pc (k : kont) (rest : list mop) (esc : bool) : apc :=
  match rest with
  | [] => if esc then Done else match k with KSpawn => Done | KWork => WLoad end
  | _ => PRun k rest esc
  end.
Definition park (s : ast) (i : nat) (k : kont) (ops : list mop) (esc : bool) (extra : list apc) : ast :=
  let s1 := add_log s OProc (fst (silent_prefix ops)) in
  let rest := settle_ops ops in
  let s2 := match rest with [] => if esc then with_esc s1 true else s1 | _ => s1 end in
  with_thr s2 i (park_pc k rest esc) extra.

Definition is_panicking (o : outcome) : bool := match o with Normal => false | Panicking _ => true end.

Definition begin_call (s : ast) (i : nat) (k : kont) (r : pst * list event * outcome) : ast :=
  let '(ps', t, o) := r in
  let s1 := with_ps (if out_of_fuel t then with_oof s true else s) ps' in
  park s1 i k (compile (strip t 0 0)) (is_panicking o) [].

(** ** One step *)

(* schedule(): CAS idle->running, go process() on success *)
Definition akick_status (s : ast) : ast * list apc * alabel :=
  if status_eqb (a_status s) Idle
  then (with_status s Running, [WLoad], ACas Idle Running true)
  else (s, [], ACas Idle Running false).

Definition next_send (ms : list nat) : apc := match ms with [] => Done | m :: ms' => SLook m ms' end.

Definition uenv1 (m : nat) : env := {| emsg := User m; esnd := false |}.
Definition penv (g : bool) (k : nat) : env := {| emsg := Pill g k; esnd := false |}.

Definition drop_start (ops : list mop) : list mop :=
  match ops with MStartSwap :: MStartKick :: r => r | _ => ops end.

(* the effect of one visible micro-operation of a thread inside process code:
   the state after it, what the thread has left to do, the threads it creates, the label *)
Definition op_effect (c : acfg) (s : ast) (op : mop) (rest : list mop) : option (ast * list mop * list apc * alabel) :=
  match op with
  | MSilent _ => None
  | MRecvB n mw m sd => Some (add_log s OProc [Recv n mw m sd], rest, [], ARecvB n m)
  | MRecvM => Some (s, rest, [], ARecvM)
  | MLook => Some (s, rest, [], ARLock)
  | MPush e => Some (add_log (push_ring s e) OProc [Enq e], rest, [], APush (emsg e))
  | MKick | MStartKick => let '(s1, extra, l) := akick_status s in Some (s1, rest, extra, l)
  | MStop => Some (add_log (with_status s Stopped) OProc [InboxStop], rest, [], AStore Stopped)
  | MRemove => Some (add_log (with_reg s false) OProc [RegRemove], rest, [], ALock)
  | MFlush =>
      match a_ring s with
      | [] => Some (with_fl s true, rest, [], APopN [] false)
      | q => let b := firstn (batch (a_cfg c)) q in
             Some (add_log (with_ring s (skipn (batch (a_cfg c)) q)) OProc (flat_map discard b), MFlush :: rest, [],
                   APopN (map emsg b) true)
      end
  | MStartCas =>
      if status_eqb (a_status s) Stopped
      then Some (add_log (with_status s Starting) OProc [InboxStart true], rest, [], ACas Stopped Starting true)
      else Some (add_log s OProc [InboxStart false], drop_start rest, [], ACas Stopped Starting false)
  | MStartSwap => Some (with_status s Idle, rest, [], ASwap Idle (a_status s))
  end.

Definition astep_pc (c : acfg) (s : ast) (i : nat) (p : apc) : option (ast * alabel) :=
    match p with
    | Done => None
    (* ---- spawner *)
    | PAdd =>
        let s1 := with_reg s true in
        Some (begin_call s1 i KSpawn (start (a_fuel c) (a_cfg c) (mk_pst s1)), ALock)
    (* ---- a thread inside process.Start / process.Invoke *)
    | PRun k ops esc =>
      match ops with
      | [] => None
      | op :: rest =>
        match op_effect c s op rest with
        | Some (s1, rest', extra, l) => Some (park s1 i k rest' esc extra, l)
        | None => None
        end
      end
    (* ---- sender *)
    | SLook m ms =>
        if a_reg s
        then Some (with_thr (add_log s (OExt i) [Sent m]) i (SPush m ms) [], ARLock)
        else Some (with_thr (add_log s (OExt i) [Sent m; EvDeadLetter (User m)]) i (next_send ms) [], ARLock)
    | SPush m ms =>
        Some (with_thr (add_log (push_ring s (uenv1 m)) (OExt i) [Enq (uenv1 m)]) i (SCas ms) [], APush (User m))
    | SCas ms => let '(s1, extra, l) := akick_status s in Some (with_thr s1 i (next_send ms) extra, l)
    (* ---- poisoner *)
    | QLook1 g k =>
        if a_reg s
        then Some (with_thr s i (QLook2 g k) [], ARLock)
        else Some (with_thr (add_log s (OExt i) [EvDeadLetter (Pill g k); Cancel k]) i Done [], ARLock)
    | QLook2 g k =>
        if a_reg s
        then Some (with_thr s i (QPush g k) [], ARLock)
        else Some (with_thr (add_log s (OExt i) [EvDeadLetter (Pill g k)]) i (QLook3 k) [], ARLock)
    | QPush g k =>
        Some (with_thr (add_log (push_ring s (penv g k)) (OExt i) [Enq (penv g k)]) i (QCas k) [], APush (Pill g k))
    | QCas k => let '(s1, extra, l) := akick_status s in Some (with_thr s1 i (QLook3 k) extra, l)
    | QLook3 k =>
        if a_reg s
        then Some (with_thr s i Done [], ARLock)
        else Some (with_thr (add_log s (OExt i) [Cancel k]) i Done [], ARLock)
    (* ---- worker *)
    | WLoad =>
        if status_eqb (a_status s) Stopped
        then Some (with_thr s i WExit [], ALoad (a_status s))
        else Some (with_thr s i WPop [], ALoad (a_status s))
    | WPop =>
        match a_ring s with
        | [] => Some (with_thr s i WExit [], APopN [] false)
        | q => let b := firstn (batch (a_cfg c)) q in
               let s1 := with_ring s (skipn (batch (a_cfg c)) q) in
               Some (begin_call s1 i KWork (invoke (a_fuel c) (a_cfg c) (mk_pst s1) b), APopN (map emsg b) true)
        end
    | WExit =>
        if status_eqb (a_status s) Running
        then Some (with_thr (with_status s Idle) i WLen [], ACas Running Idle true)
        else Some (with_thr s i Done [], ACas Running Idle false)
    | WLen =>
        match a_ring s with
        | [] => Some (with_thr s i Done [], ALen 0)
        | _ => Some (with_thr s i WSched [], ALen (length (a_ring s)))
        end
    | WSched => let '(s1, extra, l) := akick_status s in Some (with_thr s1 i Done extra, l)
    end.

Definition astep (c : acfg) (s : ast) (i : nat) : option (ast * alabel) :=
  match nth_error (a_thr s) i with
  | None => None
  | Some p => astep_pc c s i p
  end.

(** ** Initial state: nothing registered, a fresh (stopped, empty) inbox *)
Definition init_ps (np : nat) : pst :=
  {| inc := 0; restarts := 0; mbuf := []; queue := []; csender := false; dead := false;
     registered := false; istatus_stopped := true; npill := np |}.

Fixpoint poisoner_threads (gs : list bool) (k : nat) : list apc :=
  match gs with [] => [] | g :: gs' => QLook1 g k :: poisoner_threads gs' (S k) end.

Definition client_threads (senders : list (list nat)) (poisoners : list bool) : list apc :=
  map next_send senders ++ poisoner_threads poisoners 0.

Definition ainit (senders : list (list nat)) (poisoners : list bool) : ast :=
  mkA false Stopped [] (init_ps (length poisoners)) (PAdd :: client_threads senders poisoners) [] false [] false false.

Fixpoint arun_sched (c : acfg) (s : ast) (sched : list nat) : option (ast * list alabel) :=
  match sched with
  | [] => Some (s, [])
  | i :: rest =>
    match astep c s i with
    | None => None
    | Some (s', l) =>
      match arun_sched c s' rest with
      | None => None
      | Some (s'', ls) => Some (s'', l :: ls)
      end
    end
  end.

Inductive areach (c : acfg) (s0 : ast) : ast -> Prop :=
| areach_refl : areach c s0 s0
| areach_step s i s' l : areach c s0 s -> astep c s i = Some (s', l) -> areach c s0 s'.

Definition ais_done (p : apc) : bool := match p with Done => true | _ => false end.
Definition aquiescent (s : ast) : bool := forallb ais_done (a_thr s).

(** ** Thread classes *)
Definition acnt (f : apc -> bool) (l : list apc) : nat := length (filter f l).

Definition kick_only (ops : list mop) : bool := match ops with [MStartKick] => true | _ => false end.

(* runs code of process.go / of Inbox.run on the actor: the spawner from
   Registry.add until Inbox.Start has made the inbox idle, a worker from its
   creation until it has given up the running state *)
Definition holds (p : apc) : bool :=
  match p with
  | PAdd => true
  | PRun KSpawn ops _ => negb (kick_only ops)
  | PRun KWork _ _ | WLoad | WPop | WExit => true
  | _ => false
  end.

(* inside a Receive call of the actor's receiver: between recv-begin and the
   end of the handler (the micro-operations of a handler's own sends follow
   recv-mid and are part of the same call) *)
Definition in_receive (p : apc) : bool :=
  match p with PRun _ (MRecvM :: _) _ => true | _ => false end.

Definition is_worker_pc (p : apc) : bool :=
  match p with PRun KWork _ _ | WLoad | WPop | WExit | WLen | WSched => true | _ => false end.

(* projections of the log *)
Definition plog (s : ast) : list event :=
  flat_map (fun oe => match fst oe with OProc => [snd oe] | _ => [] end) (a_log s).
Definition elog (s : ast) : list event := map snd (a_log s).
