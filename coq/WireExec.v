(** Executable instance of the wire model used by the correspondence checks of
    C15 (harness family wire15) and C16 (harness family wire16).

    Values: [XMsg ty p ok] is a protobuf message of the type interned as [ty]
    whose content is identified by the integer [p]; [ok = false] makes
    proto.Marshal fail (invalid UTF-8 in a proto3 string field); [XOther] is a
    Go value that is not a proto.Message.  Registered types: 0 = actor.PID,
    1 = remote.TestMessage; every other type name is unknown to the receiving
    node's registry.
    Bytes: [dk] 0 = undecodable garbage, 1 / 2 = the encoding of a message of
    type 0 / 1 with content [dp], 3 = the empty byte string.  Decoding the
    bytes of one registered type under the other succeeds in protobuf (unknown
    fields are kept) and yields a message whose content the harness renders as
    -1; so does the empty string. *)
From Coq Require Import List Arith Bool ZArith.
From HV Require Export Wire.
Import ListNotations.

Inductive xvalue := XMsg (ty : nat) (p : Z) (ok : bool) | XOther.
Record xdata := { dk : nat; dp : Z }.

Definition known (t : tyname) : bool := t <? 2.

Definition x_tyname_of (v : xvalue) : option tyname :=
  match v with XMsg t _ _ => Some t | XOther => None end.
Definition x_ser (v : xvalue) : option xdata :=
  match v with
  | XMsg t p ok => if ok && known t then Some {| dk := S t; dp := p |} else None
  | XOther => None
  end.
Definition x_deser (t : tyname) (d : xdata) : option xvalue :=
  if negb (known t) then None else
  match dk d with
  | 0 => None
  | k => Some (XMsg t (if Nat.eqb k (S t) then dp d else (-1)%Z) true)
  end.
Definition x_empty : xdata := {| dk := 3; dp := 0 |}.

Notation xdeliver := (deliver xvalue).
Notation xwmsg := (wmsg xdata).
Notation xenvelope := (envelope xdata).
Notation xdelivery := (delivery xvalue).
Notation xresult := (result xvalue).

(* the models, instantiated *)
Definition x_encode : list xdeliver -> xenvelope := encode x_tyname_of x_ser.
Definition x_decode : xenvelope -> xresult := decode x_deser.
Definition x_roundtrip (b : list xdeliver) : xresult := x_decode (x_encode b).
Definition x_expected (b : list xdeliver) : xresult :=
  {| delivered := expected x_tyname_of x_ser b; out := Ok |}.
Definition x_decode_stream : list xenvelope -> xresult := decode_stream x_deser.
Definition x_spec_stream : list xenvelope -> xresult := spec_stream x_deser.
Definition x_roundtrip_pinned : list xdeliver -> xresult :=
  roundtrip_pinned x_tyname_of x_ser x_deser x_empty.
Definition x_decode_pinned : xenvelope -> xresult := decode_pinned x_deser.

(* strings are written as lists of Z character codes in the case files *)
Definition zs (l : list Z) : str := map Z.to_nat l.

(** equality tests on observations *)
Definition opid_eqb (a b : option pid) : bool :=
  match a, b with
  | None, None => true
  | Some x, Some y => pid_eqb x y
  | _, _ => false
  end.
Definition xvalue_eqb (a b : xvalue) : bool :=
  match a, b with
  | XMsg t p o, XMsg t' p' o' => Nat.eqb t t' && Z.eqb p p' && Bool.eqb o o'
  | XOther, XOther => true
  | _, _ => false
  end.
Definition xdelivery_eqb (a b : xdelivery) : bool :=
  pid_eqb (d_target a) (d_target b) && opid_eqb (d_sender a) (d_sender b) &&
  Nat.eqb (d_ty a) (d_ty b) && xvalue_eqb (d_msg a) (d_msg b).
Fixpoint all2 {A} (f : A -> A -> bool) (l1 l2 : list A) : bool :=
  match l1, l2 with
  | [], [] => true
  | a :: l1', b :: l2' => f a b && all2 f l1' l2'
  | _, _ => false
  end.
Definition xresult_eqb (a b : xresult) : bool :=
  all2 xdelivery_eqb (delivered a) (delivered b) && outcome_eqb (out a) (out b).

(** a case: the input and what the implementation was observed to do.
    - [Case15 batch obs]: the batch given to streamWriter.Invoke; the
      SendLocal effects seen on the receiving engine after the marshalled
      envelope went through streamReader.Receive, and how the pair ended;
    - [Case16 envelopes obs]: the envelopes fed to streamReader.Receive; the
      same observation. *)
Inductive case :=
| Case15 (batch : list xdeliver) (obs : xresult)
| Case16 (envs : list xenvelope) (obs : xresult).

(* correspondence: the model of the repaired code computes what the implementation did *)
Definition corr (c : case) : bool :=
  match c with
  | Case15 b obs => xresult_eqb (x_roundtrip b) obs
  | Case16 es obs => xresult_eqb (x_decode_stream es) obs
  end.

(* oracle: the predicate the theorems prove of every model run, evaluated on
   the implementation's observation: C15 — exactly the expected deliveries and
   a clean end; C16 — exactly the deliveries of the resolvable prefix, an
   error iff something was not resolvable, never a panic *)
Definition oracle_on (c : case) (r : xresult) : bool :=
  match c with
  | Case15 b _ => xresult_eqb (x_expected b) r
  | Case16 es _ => xresult_eqb (x_spec_stream es) r && negb (outcome_eqb (out r) Panic)
  end.
Definition obs_of (c : case) : xresult := match c with Case15 _ o | Case16 _ o => o end.
Definition model_of (c : case) : xresult :=
  match c with Case15 b _ => x_roundtrip b | Case16 es _ => x_decode_stream es end.
Definition oracle (c : case) : bool := oracle_on c (obs_of c).

(** proof-relevant situations reached by a case (evidence histogram):
    C15: 1 no-sender message while the sender table is non-empty, 2 two
    senders (or targets) that differ only in how address and id split,
    3 message dropped because Serialize fails, 4 non-proto message dropped,
    5 table hit (a target/sender/type seen before), 6 two type names in one
    envelope, 7 every message dropped (empty envelope), 8 no-sender message
    with an empty sender table;
    C16: 10 type index out of range, 11 target index out of range, 12 sender
    index out of range with a non-empty table, 13 negative sender index,
    14 sender index ignored because the table is empty, 15 unknown type name,
    16 undecodable payload, 17 a message after the first bad one is
    suppressed, 18 an envelope after the first bad one is suppressed,
    19 delivery with an in-range sender. *)
Definition has {A} (f : A -> bool) (l : list A) : bool := existsb f l.

Definition pids_of (b : list xdeliver) : list pid :=
  flat_map (fun d => s_target d :: match s_sender d with Some s => [s] | None => [] end) b.

Definition split_pair (l : list pid) : bool :=
  has (fun p => has (fun q => key_eqb p q && negb (pid_eqb p q)) l) l.

Fixpoint nil_after_sender (b : list xdeliver) (seen : bool) : bool :=
  match b with
  | [] => false
  | d :: b' =>
    if serialisable x_tyname_of x_ser (s_msg d) then
      match s_sender d with
      | None => seen || nil_after_sender b' seen
      | Some _ => nil_after_sender b' true
      end
    else nil_after_sender b' seen
  end.

Definition tag (b : bool) (n : nat) : list nat := if b then [n] else [].

Definition branches15 (b : list xdeliver) : list nat :=
  let e := x_encode b in
  let kept := filter (fun d => serialisable x_tyname_of x_ser (s_msg d)) b in
  tag (nil_after_sender b false || (has (fun d => match s_sender d with None => true | _ => false end) kept
                                    && negb (length (e_senders e) =? 0))) 1 ++
  tag (split_pair (pids_of kept)) 2 ++
  tag (has (fun d => match s_msg d with XMsg _ _ false => true | _ => false end) b) 3 ++
  tag (has (fun d => match s_msg d with XOther => true | _ => false end) b) 4 ++
  tag ((length (e_targets e) <? length kept) ||
       (length (e_senders e) <? length (filter (fun d => match s_sender d with Some _ => true | _ => false end) kept))) 5 ++
  tag (1 <? length (e_tnames e)) 6 ++
  tag ((0 <? length b) && (length kept =? 0)) 7 ++
  tag (has (fun d => match s_sender d with None => true | _ => false end) kept && (length (e_senders e) =? 0)) 8.

Definition branches_msg (e : xenvelope) (m : xwmsg) : list nat :=
  let ty_ok := in_range (m_tyi m) (length (e_tnames e)) in
  let tg_ok := in_range (m_ti m) (length (e_targets e)) in
  tag (negb ty_ok) 10 ++ tag (negb tg_ok) 11 ++
  tag ((0 <=? m_si m)%Z && negb (in_range (m_si m) (length (e_senders e))) && (0 <? length (e_senders e))) 12 ++
  tag (m_si m <? 0)%Z 13 ++
  tag ((0 <=? m_si m)%Z && (length (e_senders e) =? 0)) 14 ++
  match go_index (e_tnames e) (m_tyi m) with
  | Some t => tag (negb (known t)) 15 ++ tag (known t && (dk (m_data m) =? 0)) 16
  | None => []
  end ++
  tag (in_range (m_si m) (length (e_senders e))) 19.

Definition branches16 (es : list xenvelope) : list nat :=
  let r := x_spec_stream es in
  let total := length (flat_map (@e_msgs xdata) es) in
  flat_map (fun e => flat_map (branches_msg e) (e_msgs e)) es ++
  match out r with
  | Ok => []
  | _ => tag (S (length (delivered r)) <? total) 17 ++
         tag (negb (outcome_eqb (out (x_spec_stream (removelast es))) Ok)) 18
  end.

Fixpoint dedup (l : list nat) : list nat :=
  match l with
  | [] => []
  | x :: l' => if existsb (Nat.eqb x) l' then dedup l' else x :: dedup l'
  end.

Definition branches (c : case) : list nat :=
  dedup match c with Case15 b _ => branches15 b | Case16 es _ => branches16 es end.

Fixpoint failing {A} (f : A -> bool) (i : nat) (l : list A) : list nat :=
  match l with [] => [] | a :: l' => (if f a then [] else [i]) ++ failing f (S i) l' end.

(* report: indices where the correspondence fails, where the oracle fails,
   and the branch tags of every case *)
Definition report (cs : list case) : list nat * list nat * list (list nat) :=
  (failing corr 0 cs, failing oracle 0 cs, map branches cs).
