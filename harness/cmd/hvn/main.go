// hvn (plain build; only the hook files of C17 are overlaid) runs the implementation side of the correspondence checks.  It reads one
// JSON case per line on stdin and writes one JSON observation per line on
// stdout, for the family named by its first argument.
package main

import (
	"bufio"
	"encoding/json"
	"fmt"
	"os"
)

type family func(raw json.RawMessage) (any, error)

var families = map[string]family{}

func main() {
	if len(os.Args) < 2 {
		fmt.Fprintln(os.Stderr, "usage: hv <family>")
		os.Exit(2)
	}
	f, ok := families[os.Args[1]]
	if !ok {
		fmt.Fprintln(os.Stderr, "unknown family", os.Args[1])
		os.Exit(2)
	}
	in := bufio.NewReaderSize(os.Stdin, 1<<20)
	out := bufio.NewWriterSize(os.Stdout, 1<<20)
	defer out.Flush()
	dec := json.NewDecoder(in)
	enc := json.NewEncoder(out)
	for dec.More() {
		var raw json.RawMessage
		if err := dec.Decode(&raw); err != nil {
			fmt.Fprintln(os.Stderr, "bad input:", err)
			os.Exit(2)
		}
		obs, err := f(raw)
		if err != nil {
			fmt.Fprintln(os.Stderr, "case failed:", err)
			os.Exit(2)
		}
		if err := enc.Encode(obs); err != nil {
			fmt.Fprintln(os.Stderr, "encode:", err)
			os.Exit(2)
		}
	}
}
