package main

// Family remote17 (C17), binary hvn (its own binary so that only the hook
// files this family needs are overlaid): real engines in one process, connected by their real
// remotes over loopback TCP.  Every harness process uses loopback addresses
// of its own (127.a.b.c derived from its pid and a per-case counter) and
// ports below the ephemeral range, so that concurrent harness processes and
// the kernel's port allocation cannot collide with an address that a scenario
// needs to be absent.
//
//   "up":   k senders (goroutines, goroutines with a sender PID, actors) send
//           numbered messages to recording actors on one or more peers;
//           requests across nodes; per sender and target a fence message at
//           the end (FIFO: when the fence is there, everything before it is).
//   "down": messages for an address nobody listens on (observed at a monitor:
//           RemoteUnreachableEvent, DeadLetterEvents), then the peer is
//           started on that address and more messages are sent.
//   "stop": a sequence of Start / Stop calls on one Remote; after each call the
//           listener is probed with a TCP dial; optionally an engine-level
//           probe at the end (another node sends a message).

import (
	"crypto/ecdsa"
	"crypto/elliptic"
	"crypto/rand"
	"crypto/tls"
	"crypto/x509"
	"crypto/x509/pkix"
	"encoding/json"
	"fmt"
	"io"
	"log"
	"log/slog"
	"math/big"
	"net"
	"os"
	"runtime"
	"strconv"
	"strings"
	"sync"
	"sync/atomic"
	"time"

	"github.com/anthdm/hollywood/actor"
	"github.com/anthdm/hollywood/remote"
)

type r17Case struct {
	Kind string `json:"kind"`
	// up
	Peers    int      `json:"peers"`
	Targets  [][2]int `json:"targets"` // (peer 1.., actor id)
	Senders  []bool   `json:"senders"` // with a sender PID?
	Per      int      `json:"per"`
	Requests int      `json:"requests"`
	// down
	NTargets int `json:"ntargets"`
	M        int `json:"m"`
	N        int `json:"n"`
	// up: the goroutine senders with a PID (odd indices) all use the same id, every other one behind a foreign
	// address (messages forwarded on behalf of an actor of the same name on another node)
	Twins bool `json:"twins"`
	// down: both nodes speak TLS (self-signed certificate made for the run)
	Tls bool `json:"tls"`
	// stop: after the calls, Racers goroutines call Stop at the same moment on a fresh started remote, RaceRounds times
	Racers     int `json:"racers"`
	RaceRounds int `json:"race_rounds"`
	// stop
	Calls       []string `json:"calls"`
	EngineProbe bool     `json:"engine_probe"`
	// churn
	Cycles int `json:"cycles"`
	GapUs  int `json:"gap_us"`
	// up: the scenario is run Rounds times on fresh addresses; the first round that is not clean is reported
	Rounds int `json:"rounds"`
	// reconnect
	Bursts   int `json:"bursts"`
	Restarts int `json:"restarts"`
}

type r17Obs struct {
	Kind string `json:"kind"`
	Err  string `json:"err,omitempty"`
	Hang bool   `json:"hang"`
	// up / down phase 2
	Got [][][3]int `json:"-"`
	// what each recording actor received, projected per sender and run-length
	// encoded: per target a list of (sender, first seq, count, sender-ok) where
	// the sender's consecutive arrivals at that target step by the number of
	// targets (message j of sender i goes to target (i+j) mod T)
	Runs     [][][4]int `json:"runs"`
	Received []int      `json:"received"`
	// reconnect: per sender, over all incarnations of the peer in turn, the arrivals as (burst, first number, count)
	BRuns    [][][3]int `json:"bruns"`
	Requests int        `json:"requests"`
	Replies  int        `json:"replies"`
	// down
	Unreach1 int      `json:"unreach1"`
	Dead1    [][3]int `json:"dead1"` // (target, sender, seq)
	Got1     int      `json:"got1"`
	Unreach2 int      `json:"unreach2"`
	Dead2    int      `json:"dead2"`
	// stop
	Calls [][2]bool `json:"calls"` // (error, listening afterwards)
	Probe []bool    `json:"probe"` // engine-level probe: reachable?
	// churn: the sending node at the end
	Dups       int   `json:"dups"`       // ActorDuplicateIdEvent for the writer id
	Has        bool  `json:"has"`        // router.streams has the peer
	Registered bool  `json:"registered"` // a writer is registered for the peer
	WallMs     int64 `json:"wall_ms"`
}

var r17Counter int
var r17Twins bool

// r17Me: the PID that sender i (a goroutine calling SendWithSender) gives as its own
func r17Me(a *r17Node, i int, tag string) *actor.PID {
	if r17Twins {
		if i%4 == 3 {
			return actor.NewPID("elsewhere.invalid:9", "snd/twin"+tag)
		}
		return actor.NewPID(a.addr, "snd/twin"+tag)
	}
	return actor.NewPID(a.addr, "snd/"+strconv.Itoa(i)+tag)
}

func quiet() {
	// many harness processes run side by side: a few threads each are enough
	runtime.GOMAXPROCS(4)
	slog.SetDefault(slog.New(slog.NewTextHandler(io.Discard, nil)))
	log.SetOutput(io.Discard)
}

// r17Addr: a loopback address private to this process and case.
func r17Addr(node int) string {
	pid := os.Getpid()
	return fmt.Sprintf("127.%d.%d.%d:%d", 1+pid%250, 1+(pid/250)%250, 1+r17Counter%250, 21000+node)
}

const r17Wait = 60 * time.Second

// r17Rec is a recording actor: numbered messages are *actor.PID values with
// Address "m:<sender>" and ID "<seq>"; "fence:<sender>" closes a sender's
// stream; "req" is answered with "rep" and the same ID.
type r17Rec struct {
	mu      sync.Mutex
	bursts  [][3]int // (sender, burst, number)
	got     [][3]int
	fences  map[int]bool
	expect  func(sender int) *actor.PID
	selfAdr string
}

func (r *r17Rec) Receive(c *actor.Context) {
	m, ok := c.Message().(*actor.PID)
	if !ok {
		return
	}
	switch {
	case strings.HasPrefix(m.Address, "m:"):
		i, _ := strconv.Atoi(m.Address[2:])
		j, _ := strconv.Atoi(m.ID)
		okS := 0
		want := r.expect(i)
		s := c.Sender()
		if (want == nil && s == nil) || (want != nil && s != nil && s.Address == want.Address && s.ID == want.ID) {
			okS = 1
		}
		r.mu.Lock()
		r.got = append(r.got, [3]int{i, j, okS})
		r.mu.Unlock()
	case strings.HasPrefix(m.Address, "b:"):
		var i, b int
		fmt.Sscanf(m.Address, "b:%d:%d", &i, &b)
		j, _ := strconv.Atoi(m.ID)
		r.mu.Lock()
		r.bursts = append(r.bursts, [3]int{i, b, j})
		r.mu.Unlock()
	case strings.HasPrefix(m.Address, "fence:"):
		i, _ := strconv.Atoi(m.Address[6:])
		r.mu.Lock()
		r.fences[i] = true
		r.mu.Unlock()
	case m.Address == "req":
		c.Respond(&actor.PID{Address: "rep", ID: m.ID})
	}
}

func (r *r17Rec) snapshot() ([][3]int, int) {
	r.mu.Lock()
	defer r.mu.Unlock()
	return append([][3]int{}, r.got...), len(r.fences)
}

type r17Node struct {
	e    *actor.Engine
	r    *remote.Remote
	addr string
}

// r17TLS: one self-signed certificate per process, accepted by both sides
var r17TLSConf *tls.Config

func r17TLS() *tls.Config {
	if r17TLSConf != nil {
		return r17TLSConf
	}
	key, err := ecdsa.GenerateKey(elliptic.P256(), rand.Reader)
	if err != nil {
		panic(err)
	}
	tmpl := &x509.Certificate{SerialNumber: big.NewInt(1), Subject: pkix.Name{CommonName: "hv"},
		NotBefore: time.Now().Add(-time.Hour), NotAfter: time.Now().Add(24 * time.Hour),
		KeyUsage: x509.KeyUsageDigitalSignature | x509.KeyUsageCertSign, ExtKeyUsage: []x509.ExtKeyUsage{x509.ExtKeyUsageServerAuth, x509.ExtKeyUsageClientAuth},
		BasicConstraintsValid: true, IsCA: true}
	der, err := x509.CreateCertificate(rand.Reader, tmpl, tmpl, &key.PublicKey, key)
	if err != nil {
		panic(err)
	}
	r17TLSConf = &tls.Config{Certificates: []tls.Certificate{{Certificate: [][]byte{der}, PrivateKey: key}}, InsecureSkipVerify: true}
	return r17TLSConf
}

func r17StartTLS(addr string, useTLS bool) (*r17Node, error) {
	if !useTLS {
		return r17Start(addr)
	}
	r := remote.New(addr, remote.NewConfig().WithTLS(r17TLS()))
	e, err := actor.NewEngine(actor.NewEngineConfig().WithRemote(r))
	if err != nil {
		return nil, err
	}
	return &r17Node{e: e, r: r, addr: addr}, nil
}

func r17Start(addr string) (*r17Node, error) {
	r := remote.New(addr, remote.NewConfig())
	e, err := actor.NewEngine(actor.NewEngineConfig().WithRemote(r))
	if err != nil {
		return nil, err
	}
	return &r17Node{e: e, r: r, addr: addr}, nil
}

func (n *r17Node) stop() {
	if n == nil {
		return
	}
	done := make(chan struct{})
	go func() { n.r.Stop().Wait(); close(done) }()
	select {
	case <-done:
	case <-time.After(10 * time.Second):
	}
}

func r17Until(d time.Duration, f func() bool) bool {
	dl := time.Now().Add(d)
	for !f() {
		if time.Now().After(dl) {
			return false
		}
		time.Sleep(500 * time.Microsecond)
	}
	return true
}

type r17Trigger struct{}

// r17SenderActor sends its whole programme when triggered: ctx.Send puts its
// own PID in as the sender.
type r17SenderActor struct {
	run  func(send func(to *actor.PID, m any))
	done chan struct{}
}

func (a *r17SenderActor) Receive(c *actor.Context) {
	if _, ok := c.Message().(r17Trigger); ok {
		a.run(func(to *actor.PID, m any) { c.Send(to, m) })
		close(a.done)
	}
}

// r17Send runs the senders: sender i sends messages from..from+per-1, message
// j to target (i+j) mod T, then a fence to every target.  Senders without a
// PID are goroutines calling Engine.Send; with a PID, even ones are actors
// (ctx.Send), odd ones goroutines calling Engine.SendWithSender.
func r17Send(a *r17Node, senders []bool, targets []*actor.PID, from, per int, tag string) {
	var wg sync.WaitGroup
	for i, withPID := range senders {
		i, withPID := i, withPID
		prog := func(send func(to *actor.PID, m any)) {
			for j := from; j < from+per; j++ {
				send(targets[(i+j)%len(targets)], &actor.PID{Address: "m:" + strconv.Itoa(i), ID: strconv.Itoa(j)})
			}
			for _, t := range targets {
				send(t, &actor.PID{Address: "fence:" + strconv.Itoa(i), ID: tag})
			}
		}
		wg.Add(1)
		switch {
		case !withPID:
			go func() { defer wg.Done(); prog(func(to *actor.PID, m any) { a.e.Send(to, m) }) }()
		case i%2 == 0:
			sa := &r17SenderActor{run: prog, done: make(chan struct{})}
			pid := a.e.Spawn(func() actor.Receiver { return sa }, "snd", actor.WithID(strconv.Itoa(i)+tag))
			a.e.Send(pid, r17Trigger{})
			go func() { defer wg.Done(); <-sa.done }()
		default:
			me := r17Me(a, i, tag)
			go func() { defer wg.Done(); prog(func(to *actor.PID, m any) { a.e.SendWithSender(to, m, me) }) }()
		}
	}
	wg.Wait()
}

func r17Expect(a *r17Node, senders []bool, tag string) func(int) *actor.PID {
	return func(i int) *actor.PID {
		if i < 0 || i >= len(senders) || !senders[i] {
			return nil
		}
		if i%2 == 1 {
			return r17Me(a, i, tag)
		}
		return actor.NewPID(a.addr, "snd/"+strconv.Itoa(i)+tag)
	}
}

// r17UpRounds runs the "up" scenario c.Rounds times, each time on fresh
// addresses (so every round starts with senders racing the set-up of the
// connection), and reports the first round that is not clean: something
// missing, or some sender's arrivals at a target not one ascending run.
func r17UpRounds(c r17Case) (obs r17Obs) {
	n := c.Rounds
	if n < 1 {
		n = 1
	}
	for k := 0; k < n; k++ {
		if k > 0 {
			r17Counter++
		}
		obs = r17Up(c)
		runs, _ := r17Runs(obs.Got)
		clean := obs.Err == "" && !obs.Hang && obs.Replies == obs.Requests
		for _, rs := range runs {
			bySender := map[int]int{}
			for _, r := range rs {
				bySender[r[0]]++
				if bySender[r[0]] > 1 || r[3] != 1 {
					clean = false
				}
			}
		}
		if !clean {
			return
		}
	}
	return
}

func r17Up(c r17Case) (obs r17Obs) {
	obs.Kind = "up"
	a, err := r17Start(r17Addr(0))
	if err != nil {
		obs.Err = err.Error()
		return
	}
	defer a.stop()
	peers := map[int]*r17Node{}
	for p := 1; p <= c.Peers; p++ {
		n, err := r17Start(r17Addr(p))
		if err != nil {
			obs.Err = err.Error()
			return
		}
		defer n.stop()
		peers[p] = n
	}
	var recs []*r17Rec
	var targets []*actor.PID
	for _, t := range c.Targets {
		n := peers[t[0]]
		rec := &r17Rec{fences: map[int]bool{}, expect: r17Expect(a, c.Senders, "")}
		recs = append(recs, rec)
		targets = append(targets, n.e.Spawn(func() actor.Receiver { return rec }, "rec", actor.WithID(strconv.Itoa(t[1]))))
	}
	// requests across nodes, concurrently with the sends
	var rwg sync.WaitGroup
	var rmu sync.Mutex
	for k := 0; k < c.Requests; k++ {
		k := k
		rwg.Add(1)
		go func() {
			defer rwg.Done()
			res, err := a.e.Request(targets[k%len(targets)], &actor.PID{Address: "req", ID: strconv.Itoa(k)}, 30*time.Second).Result()
			if p, ok := res.(*actor.PID); err == nil && ok && p.Address == "rep" && p.ID == strconv.Itoa(k) {
				rmu.Lock()
				obs.Replies++
				rmu.Unlock()
			}
		}()
	}
	obs.Requests = c.Requests
	r17Send(a, c.Senders, targets, 0, c.Per, "")
	ok := r17Until(r17Wait, func() bool {
		for _, r := range recs {
			if _, f := r.snapshot(); f < len(c.Senders) {
				return false
			}
		}
		return true
	})
	obs.Hang = !ok
	rwg.Wait()
	for _, r := range recs {
		g, _ := r.snapshot()
		obs.Got = append(obs.Got, g)
	}
	return
}

type r17Sentinel struct{ n int }

// r17Monitor subscribes to the event stream of the sending node.
type r17Monitor struct {
	mu       sync.Mutex
	peer     string
	unreach  int
	dead     [][3]int
	sentinel int
	dups     int
}

func (m *r17Monitor) Receive(c *actor.Context) {
	switch ev := c.Message().(type) {
	case actor.RemoteUnreachableEvent:
		if ev.ListenAddr == m.peer {
			m.mu.Lock()
			m.unreach++
			m.mu.Unlock()
		}
	case actor.DeadLetterEvent:
		d, ok := remote.VerifDeliverOf(ev.Message)
		if !ok || d.Target == nil || d.Target.Address != m.peer {
			return
		}
		p, ok := d.Msg.(*actor.PID)
		if !ok || !strings.HasPrefix(p.Address, "m:") {
			return
		}
		i, _ := strconv.Atoi(p.Address[2:])
		j, _ := strconv.Atoi(p.ID)
		t, _ := strconv.Atoi(strings.TrimPrefix(d.Target.ID, "rec/"))
		m.mu.Lock()
		m.dead = append(m.dead, [3]int{t, i, j})
		m.mu.Unlock()
	case actor.ActorDuplicateIdEvent:
		if ev.PID != nil && ev.PID.ID == "stream/"+m.peer {
			m.mu.Lock()
			m.dups++
			m.mu.Unlock()
		}
	case r17Sentinel:
		m.mu.Lock()
		m.sentinel = ev.n
		m.mu.Unlock()
	}
}

func (m *r17Monitor) snap() (int, [][3]int, int) {
	m.mu.Lock()
	defer m.mu.Unlock()
	return m.unreach, append([][3]int{}, m.dead...), m.sentinel
}

func r17Down(c r17Case) (obs r17Obs) {
	obs.Kind = "down"
	a, err := r17StartTLS(r17Addr(0), c.Tls)
	if err != nil {
		obs.Err = err.Error()
		return
	}
	defer a.stop()
	peerAddr := r17Addr(1)
	mon := &r17Monitor{peer: peerAddr}
	mpid := a.e.Spawn(func() actor.Receiver { return mon }, "mon", actor.WithID("1"))
	a.e.Subscribe(mpid)
	flush := func(n int) bool {
		a.e.BroadcastEvent(r17Sentinel{n: n})
		return r17Until(r17Wait, func() bool { _, _, s := mon.snap(); return s == n })
	}
	if !flush(1) {
		obs.Err = "monitor not subscribed"
		return
	}
	var targets []*actor.PID
	for t := 0; t < c.NTargets; t++ {
		targets = append(targets, actor.NewPID(peerAddr, "rec/"+strconv.Itoa(t)))
	}
	router := remote.VerifRouterPID(a.r)
	// ---- phase 1: nobody listens on peerAddr
	total1 := len(c.Senders) * c.M
	if total1 > 0 {
		r17SendPlain(a, c.Senders, targets, 0, c.M, "")
		ok := r17Until(r17Wait, func() bool {
			u, d, _ := mon.snap()
			return u >= 1 && len(d) >= total1
		})
		obs.Hang = obs.Hang || !ok
	}
	// the router has handled everything, including the event addressed to itself
	r17Until(r17Wait, func() bool { return actor.VerifIdle(a.e, router) })
	flush(2)
	obs.Unreach1, obs.Dead1, _ = mon.snap()
	if obs.Dead1 == nil {
		obs.Dead1 = [][3]int{}
	}
	// ---- the peer comes up on that address
	b, err := r17StartTLS(peerAddr, c.Tls)
	if err != nil {
		obs.Err = "peer: " + err.Error()
		return
	}
	defer b.stop()
	var recs []*r17Rec
	for t := 0; t < c.NTargets; t++ {
		rec := &r17Rec{fences: map[int]bool{}, expect: r17Expect(a, c.Senders, "")}
		recs = append(recs, rec)
		b.e.Spawn(func() actor.Receiver { return rec }, "rec", actor.WithID(strconv.Itoa(t)))
	}
	for _, r := range recs {
		g, _ := r.snapshot()
		obs.Got1 += len(g)
	}
	// ---- phase 2
	total2 := len(c.Senders) * (c.N + len(targets)) // messages and fences
	r17Send(a, c.Senders, targets, c.M, c.N, "")
	ok := r17Until(r17Wait, func() bool {
		done := true
		for _, r := range recs {
			if _, f := r.snapshot(); f < len(c.Senders) {
				done = false
			}
		}
		if done {
			return true
		}
		// a tree in which the fresh attempt does not happen turns phase 2 into dead letters
		_, d, _ := mon.snap()
		return len(d)-len(obs.Dead1) >= total2-len(c.Senders)*len(targets) && actor.VerifIdle(a.e, router)
	})
	_ = ok
	flush(3)
	u2, d2, _ := mon.snap()
	obs.Unreach2 = u2 - obs.Unreach1
	obs.Dead2 = len(d2) - len(obs.Dead1)
	for _, r := range recs {
		g, _ := r.snapshot()
		obs.Got = append(obs.Got, g)
	}
	return
}

// r17SendPlain is r17Send without fences (phase 1 of "down": every message is
// expected back as a dead letter, fences would only add noise).
func r17SendPlain(a *r17Node, senders []bool, targets []*actor.PID, from, per int, tag string) {
	var wg sync.WaitGroup
	for i, withPID := range senders {
		i, withPID := i, withPID
		wg.Add(1)
		go func() {
			defer wg.Done()
			me := actor.NewPID(a.addr, "snd/"+strconv.Itoa(i)+tag)
			for j := from; j < from+per; j++ {
				m := &actor.PID{Address: "m:" + strconv.Itoa(i), ID: strconv.Itoa(j)}
				if withPID {
					a.e.SendWithSender(targets[(i+j)%len(targets)], m, me)
				} else {
					a.e.Send(targets[(i+j)%len(targets)], m)
				}
			}
		}()
	}
	wg.Wait()
}

// r17Churn: the peer is stopped and started again on its address several
// times while a goroutine keeps trickling messages at it (what happens to
// those is not looked at: they may be delivered, become dead letters or, when
// the connection is lost under them, vanish).  Then, with the peer up and the
// sending node at rest, Per numbered messages are sent: the fresh attempt must
// deliver them all, once and in order.  The observation has the shape of an
// "up" observation with one sender and one target.
func r17Churn(c r17Case) (obs r17Obs) {
	obs.Kind = "churn"
	a, err := r17Start(r17Addr(0))
	if err != nil {
		obs.Err = err.Error()
		return
	}
	defer a.stop()
	peerAddr := r17Addr(1)
	mon := &r17Monitor{peer: peerAddr}
	mpid := a.e.Spawn(func() actor.Receiver { return mon }, "mon", actor.WithID("1"))
	a.e.Subscribe(mpid)
	a.e.BroadcastEvent(r17Sentinel{n: 1})
	r17Until(r17Wait, func() bool { _, _, s := mon.snap(); return s == 1 })
	target := actor.NewPID(peerAddr, "rec/0")
	router := remote.VerifRouterPID(a.r)
	newPeer := func() (*r17Node, *r17Rec, error) {
		b, err := r17Start(peerAddr)
		if err != nil {
			return nil, nil, err
		}
		rec := &r17Rec{fences: map[int]bool{}, expect: func(int) *actor.PID { return nil }}
		b.e.Spawn(func() actor.Receiver { return rec }, "rec", actor.WithID("0"))
		return b, rec, nil
	}
	b, rec, err := newPeer()
	if err != nil {
		obs.Err = "peer: " + err.Error()
		return
	}
	stopTrickle := make(chan struct{})
	trickled := make(chan struct{})
	go func() {
		defer close(trickled)
		for k := 0; ; k++ {
			select {
			case <-stopTrickle:
				return
			default:
			}
			a.e.Send(target, &actor.PID{Address: "t:0", ID: strconv.Itoa(k)})
			time.Sleep(time.Duration(c.GapUs) * time.Microsecond)
		}
	}()
	for cyc := 0; cyc < c.Cycles; cyc++ {
		time.Sleep(time.Duration(2+cyc%5) * time.Millisecond)
		u0, _, _ := mon.snap()
		b.stop()
		// the sending node notices the loss of the connection (if it had one)
		r17Until(2*time.Second, func() bool { u, _, _ := mon.snap(); return u > u0 })
		for try := 0; ; try++ {
			b, rec, err = newPeer()
			if err == nil {
				break
			}
			if try > 200 {
				obs.Err = "peer restart: " + err.Error()
				close(stopTrickle)
				<-trickled
				return
			}
			time.Sleep(10 * time.Millisecond)
		}
	}
	defer func() { b.stop() }()
	close(stopTrickle)
	<-trickled
	// at rest: the router has handled everything (this includes dial back-off of a writer spawned while the peer was down)
	r17Until(r17Wait, func() bool { return actor.VerifIdle(a.e, router) })
	a.e.BroadcastEvent(r17Sentinel{n: 2})
	r17Until(r17Wait, func() bool { _, _, s := mon.snap(); return s == 2 })
	r17Until(r17Wait, func() bool { return actor.VerifIdle(a.e, router) })
	_, d0, _ := mon.snap()
	r17Send(a, []bool{false}, []*actor.PID{target}, 0, c.Per, "")
	r17Until(20*time.Second, func() bool {
		if _, f := rec.snapshot(); f >= 1 {
			return true
		}
		_, d, _ := mon.snap()
		return len(d)-len(d0) >= c.Per && actor.VerifIdle(a.e, router)
	})
	g, _ := rec.snapshot()
	obs.Got = [][][3]int{g}
	_, d1, _ := mon.snap()
	obs.Dead2 = len(d1) - len(d0)
	obs.Unreach1, _, _ = mon.snap()
	mon.mu.Lock()
	obs.Dups = mon.dups
	mon.mu.Unlock()
	r17Until(r17Wait, func() bool { return actor.VerifIdle(a.e, router) })
	if rcv := actor.VerifReceiver(a.e, router); rcv != nil {
		obs.Has, _ = remote.VerifRouterHas(rcv, peerAddr)
	}
	obs.Registered = actor.VerifProc(a.e, remote.VerifWriterPID(a.e, peerAddr)) != nil
	return
}

// r17Runs projects each target's arrivals per sender (in arrival order) and
// run-length encodes them with stride len(got).
func r17Runs(got [][][3]int) ([][][4]int, []int) {
	runs := [][][4]int{}
	recv := []int{}
	stride := len(got)
	for _, g := range got {
		recv = append(recv, len(g))
		per := map[int][][3]int{}
		var order []int
		for _, x := range g {
			if _, ok := per[x[0]]; !ok {
				order = append(order, x[0])
			}
			per[x[0]] = append(per[x[0]], x)
		}
		for a := 1; a < len(order); a++ {
			for b := a; b > 0 && order[b] < order[b-1]; b-- {
				order[b], order[b-1] = order[b-1], order[b]
			}
		}
		rs := [][4]int{}
		for _, i := range order {
			for _, x := range per[i] {
				if n := len(rs); n > 0 && rs[n-1][0] == i && rs[n-1][3] == x[2] && rs[n-1][1]+rs[n-1][2]*stride == x[1] {
					rs[n-1][2]++
				} else {
					rs = append(rs, [4]int{i, x[1], 1, x[2]})
				}
			}
		}
		runs = append(runs, rs)
	}
	return runs, recv
}

// r17Reconnect: sender goroutines send bursts of numbered messages at one actor
// of the peer, with a pause between bursts, while the peer is stopped and
// started again on its address c.Restarts times.  Which messages get through
// is a matter of timing; reported is, per sender, what arrived over all
// incarnations of the peer in turn, run-length encoded.
func r17Reconnect(c r17Case) (obs r17Obs) {
	obs.Kind = "reconnect"
	a, err := r17Start(r17Addr(0))
	if err != nil {
		obs.Err = err.Error()
		return
	}
	defer a.stop()
	peerAddr := r17Addr(1)
	mon := &r17Monitor{peer: peerAddr}
	mpid := a.e.Spawn(func() actor.Receiver { return mon }, "mon", actor.WithID("1"))
	a.e.Subscribe(mpid)
	a.e.BroadcastEvent(r17Sentinel{n: 1})
	r17Until(r17Wait, func() bool { _, _, s := mon.snap(); return s == 1 })
	target := actor.NewPID(peerAddr, "rec/0")
	router := remote.VerifRouterPID(a.r)
	var recs []*r17Rec
	newPeer := func() (*r17Node, error) {
		b, err := r17Start(peerAddr)
		if err != nil {
			return nil, err
		}
		rec := &r17Rec{fences: map[int]bool{}, expect: func(int) *actor.PID { return nil }}
		recs = append(recs, rec)
		b.e.Spawn(func() actor.Receiver { return rec }, "rec", actor.WithID("0"))
		return b, nil
	}
	b, err := newPeer()
	if err != nil {
		obs.Err = "peer: " + err.Error()
		return
	}
	var wg sync.WaitGroup
	for i := range c.Senders {
		i := i
		wg.Add(1)
		go func() {
			defer wg.Done()
			for bu := 0; bu < c.Bursts; bu++ {
				adr := fmt.Sprintf("b:%d:%d", i, bu)
				for j := 0; j < c.Per; j++ {
					a.e.Send(target, &actor.PID{Address: adr, ID: strconv.Itoa(j)})
				}
				time.Sleep(time.Duration(c.GapUs) * time.Microsecond)
			}
			a.e.Send(target, &actor.PID{Address: "fence:" + strconv.Itoa(i), ID: "end"})
		}()
	}
	for k := 0; k < c.Restarts; k++ {
		// messages are flowing to the current incarnation (or, at least, a while has passed)
		cur := recs[len(recs)-1]
		r17Until(3*time.Second, func() bool {
			cur.mu.Lock()
			defer cur.mu.Unlock()
			return len(cur.bursts) > 0
		})
		time.Sleep(time.Duration(c.GapUs*(2+k)) * time.Microsecond)
		u0, _, _ := mon.snap()
		b.stop()
		r17Until(2*time.Second, func() bool { u, _, _ := mon.snap(); return u > u0 })
		for try := 0; ; try++ {
			b, err = newPeer()
			if err == nil {
				break
			}
			if try > 200 {
				obs.Err = "peer restart: " + err.Error()
				wg.Wait()
				return
			}
			time.Sleep(10 * time.Millisecond)
		}
	}
	defer func() { b.stop() }()
	wg.Wait()
	// everything that will arrive has arrived: the sending node is at rest and the fences are in (or, when
	// the last connection attempt swallowed them, nothing has moved for a while)
	last := recs[len(recs)-1]
	r17Until(r17Wait, func() bool { return actor.VerifIdle(a.e, router) })
	quietSince, seen := time.Now(), -1
	r17Until(20*time.Second, func() bool {
		if _, f := last.snapshot(); f >= len(c.Senders) {
			return true
		}
		last.mu.Lock()
		n := len(last.bursts)
		last.mu.Unlock()
		if n != seen {
			seen, quietSince = n, time.Now()
		}
		return actor.VerifIdle(a.e, router) && time.Since(quietSince) > 1500*time.Millisecond
	})
	obs.Unreach1, _, _ = mon.snap()
	obs.BRuns = make([][][3]int, len(c.Senders))
	for i := range obs.BRuns {
		obs.BRuns[i] = [][3]int{}
	}
	for _, rec := range recs {
		rec.mu.Lock()
		for _, x := range rec.bursts {
			i := x[0]
			if i < 0 || i >= len(obs.BRuns) {
				obs.Err = "message of an unknown sender"
				continue
			}
			rs := obs.BRuns[i]
			if n := len(rs); n > 0 && rs[n-1][0] == x[1] && rs[n-1][1]+rs[n-1][2] == x[2] {
				rs[n-1][2]++
			} else {
				rs = append(rs, [3]int{x[1], x[2], 1})
			}
			obs.BRuns[i] = rs
		}
		rec.mu.Unlock()
	}
	return
}

func r17Listening(addr string) bool {
	conn, err := net.DialTimeout("tcp", addr, 2*time.Second)
	if err != nil {
		return false
	}
	conn.Close()
	return true
}

func r17Stop(c r17Case) (obs r17Obs) {
	obs.Kind = "stop"
	addr := r17Addr(0)
	r := remote.New(addr, remote.NewConfig())
	var e *actor.Engine
	obs.Calls = [][2]bool{}
	obs.Probe = []bool{}
	defer func() {
		done := make(chan struct{})
		go func() { r.Stop().Wait(); close(done) }()
		select {
		case <-done:
		case <-time.After(5 * time.Second):
		}
	}()
	for _, call := range c.Calls {
		failed := false
		switch call {
		case "start":
			if e == nil {
				var err error
				e, err = actor.NewEngine(actor.NewEngineConfig().WithRemote(r))
				failed = err != nil
			} else {
				failed = r.Start(e) != nil
			}
		case "stop":
			done := make(chan struct{})
			go func() { r.Stop().Wait(); close(done) }()
			select {
			case <-done:
			case <-time.After(20 * time.Second):
				failed, obs.Hang = true, true
			}
		}
		obs.Calls = append(obs.Calls, [2]bool{failed, r17Listening(addr)})
	}
	// several callers stop one running remote at the same moment: nobody may block (the observation of
	// the last "stop" call is overwritten with (blocked, listening) of the first round that is not clean)
	for round := 0; round < c.RaceRounds && !obs.Hang; round++ {
		r17Counter++
		raddr := r17Addr(2)
		rr := remote.New(raddr, remote.NewConfig())
		if _, err := actor.NewEngine(actor.NewEngineConfig().WithRemote(rr)); err != nil {
			obs.Err = "race round: " + err.Error()
			return
		}
		var ready, done sync.WaitGroup
		var gate atomic.Bool
		for g := 0; g < c.Racers; g++ {
			ready.Add(1)
			done.Add(1)
			go func() {
				defer done.Done()
				ready.Done()
				// a short spin (never longer than 50 ms) releases the callers within nanoseconds of each other
				for t0 := time.Now(); !gate.Load() && time.Since(t0) < 50*time.Millisecond; {
				}
				for !gate.Load() {
					runtime.Gosched()
				}
				rr.Stop().Wait()
			}()
		}
		ready.Wait()
		gate.Store(true)
		fin := make(chan struct{})
		go func() { done.Wait(); close(fin) }()
		select {
		case <-fin:
		case <-time.After(40 * time.Second): // a caller stuck on the stop channel stays stuck for ever
			obs.Hang = true
			obs.Calls = append(obs.Calls, [2]bool{true, r17Listening(raddr)})
		}
	}
	if c.EngineProbe {
		// another node sends a message to an actor of this one
		o, err := r17Start(r17Addr(1))
		if err != nil {
			obs.Err = err.Error()
			return
		}
		defer o.stop()
		mon := &r17Monitor{peer: addr}
		mpid := o.e.Spawn(func() actor.Receiver { return mon }, "mon", actor.WithID("1"))
		o.e.Subscribe(mpid)
		o.e.BroadcastEvent(r17Sentinel{n: 1})
		r17Until(r17Wait, func() bool { _, _, s := mon.snap(); return s == 1 })
		rec := &r17Rec{fences: map[int]bool{}, expect: func(int) *actor.PID { return nil }}
		if e != nil {
			e.Spawn(func() actor.Receiver { return rec }, "rec", actor.WithID("0"))
		}
		o.e.Send(actor.NewPID(addr, "rec/0"), &actor.PID{Address: "m:0", ID: "0"})
		reached := false
		r17Until(r17Wait, func() bool {
			g, _ := rec.snapshot()
			u, d, _ := mon.snap()
			reached = len(g) > 0
			return reached || (u >= 1 && len(d) >= 1)
		})
		obs.Probe = append(obs.Probe, reached)
	}
	return
}

func runRemote17(raw json.RawMessage) (res any, err error) {
	quiet()
	var c r17Case
	if err := json.Unmarshal(raw, &c); err != nil {
		return nil, err
	}
	r17Counter++
	r17Twins = c.Twins
	t0 := time.Now()
	var obs r17Obs
	func() {
		defer func() {
			if v := recover(); v != nil {
				obs.Err = fmt.Sprint("panic: ", v)
			}
		}()
		switch c.Kind {
		case "up":
			obs = r17UpRounds(c)
		case "reconnect":
			obs = r17Reconnect(c)
		case "down":
			obs = r17Down(c)
		case "stop":
			obs = r17Stop(c)
		case "churn":
			obs = r17Churn(c)
		default:
			obs.Err = "unknown kind " + c.Kind
		}
	}()
	obs.WallMs = time.Since(t0).Milliseconds()
	obs.Runs, obs.Received = r17Runs(obs.Got)
	if obs.Got == nil {
		obs.Got = [][][3]int{}
	}
	for i := range obs.Got {
		if obs.Got[i] == nil {
			obs.Got[i] = [][3]int{}
		}
	}
	return obs, nil
}

func init() { families["remote17"] = runRemote17 }
