package main

// Families of the event-stream layer:
//   events12  — C12: histories of Subscribe / Unsubscribe / BroadcastEvent over
//               PID values that are available through several distinct *PID
//               objects ("seq"), and concurrent broadcasters with a late
//               subscriber and a leaver ("conc"); per-actor logs.
//   undeliv09 — C09: sends to nil / never spawned / stopped / foreign / live
//               targets, broadcasts, subscriptions of live, stopped, unknown
//               and foreign PIDs, stops of subscribed actors, on an engine
//               without remote; per-actor logs of everything received, with
//               a divergence guard.
// Every step is performed by the harness goroutine and followed by
// quiescence (event stream and all recording actors idle with empty inboxes,
// actor.VerifIdle of tools/hooks/actor/hooks.go).

import (
	"encoding/json"
	"fmt"
	"os"
	"strconv"
	"strings"
	"sync"
	"sync/atomic"
	"time"

	"github.com/anthdm/hollywood/actor"
)

const foreignAddr = "other:4000"

// the engine of a "seq" case with a remote listens on node0:1; lookAddr followed by
// lookTail is that address
const (
	lookAddr = "node0:"
	lookTail = "1"
)

// evWorld: one engine and its recording actors.
type evWorld struct {
	e        *actor.Engine
	es       *actor.PID
	mu       sync.Mutex
	logs     map[int][]evEntry // by actor id
	pids     map[int]*actor.PID
	nrecv    atomic.Int64 // messages received by all recording actors
	diverged atomic.Bool
	limit    atomic.Int64
}

type evEntry struct {
	msg    any
	sender *actor.PID
}

func newEvWorld(limit int64, remote *memRemote) (*evWorld, error) {
	cfg := actor.NewEngineConfig()
	if remote != nil {
		cfg = cfg.WithRemote(remote)
	}
	e, err := actor.NewEngine(cfg)
	if err != nil {
		return nil, err
	}
	w := &evWorld{e: e, es: actor.VerifEventStream(e), logs: map[int][]evEntry{}, pids: map[int]*actor.PID{}}
	w.limit.Store(limit)
	return w, nil
}

// spawnRecorder spawns actor "a/<id>", which logs everything it receives
// except its own lifecycle messages.
func (w *evWorld) spawnRecorder(id int) *actor.PID {
	pid := w.e.SpawnFunc(func(c *actor.Context) {
		switch c.Message().(type) {
		case actor.Initialized, actor.Started, actor.Stopped:
			return
		}
		if w.nrecv.Add(1) > w.limit.Load() {
			w.diverged.Store(true)
			return
		}
		w.mu.Lock()
		w.logs[id] = append(w.logs[id], evEntry{c.Message(), c.Sender()})
		w.mu.Unlock()
	}, "a", actor.WithID(strconv.Itoa(id)))
	w.mu.Lock()
	w.pids[id] = pid
	w.mu.Unlock()
	return pid
}

// quiesce waits until the event stream and every recording actor are at rest.
// It gives up when the divergence guard trips or after the deadline.
func (w *evWorld) quiesce(deadline time.Duration) bool {
	end := time.Now().Add(deadline)
	stable := 0
	w.mu.Lock()
	pids := make([]*actor.PID, 0, len(w.pids))
	for _, p := range w.pids {
		pids = append(pids, p)
	}
	w.mu.Unlock()
	for time.Now().Before(end) {
		if w.diverged.Load() {
			return false
		}
		idle := actor.VerifIdle(w.e, w.es)
		for _, p := range pids {
			if !idle {
				break
			}
			idle = actor.VerifIdle(w.e, p)
		}
		if idle && actor.VerifIdle(w.e, w.es) {
			stable++
			if stable >= 3 {
				return true
			}
		} else {
			stable = 0
		}
		time.Sleep(50 * time.Microsecond)
	}
	return false
}

func (w *evWorld) idNum(p *actor.PID) int {
	if p.GetID() == w.es.GetID() {
		return 9
	}
	if s, ok := strings.CutPrefix(p.GetID(), "a/"); ok {
		if n, err := strconv.Atoi(s); err == nil && n >= 0 && n < 4999 {
			return n
		}
	}
	return 4999
}

func (w *evWorld) pidJSON(p *actor.PID) any {
	if p == nil {
		return nil
	}
	addr := 9
	switch p.GetAddress() {
	case w.e.Address():
		addr = 0
	case foreignAddr:
		addr = 1
	}
	return []int{addr, w.idNum(p)}
}

type userMsg09 struct{ N int }

// msgJSON renders a message / event as a term of the model's [msg] type.
func (w *evWorld) msgJSON(m any, depth int) any {
	if depth > 64 {
		return map[string]any{"k": "other", "type": "too deep"}
	}
	switch x := m.(type) {
	case userMsg09:
		return map[string]any{"k": "user", "n": x.N}
	case actor.ActorStoppedEvent:
		return map[string]any{"k": "stopped", "p": w.pidJSON(x.PID)}
	case actor.DeadLetterEvent:
		return map[string]any{"k": "dead", "t": w.pidJSON(x.Target), "m": w.msgJSON(x.Message, depth+1), "s": w.pidJSON(x.Sender)}
	case actor.EngineRemoteMissingEvent:
		return map[string]any{"k": "missing", "t": w.pidJSON(x.Target), "m": w.msgJSON(x.Message, depth+1), "s": w.pidJSON(x.Sender)}
	default:
		return map[string]any{"k": "other", "type": fmt.Sprintf("%T", m)}
	}
}

func (w *evWorld) logJSON(id int) []any {
	w.mu.Lock()
	defer w.mu.Unlock()
	out := make([]any, 0, len(w.logs[id]))
	for _, en := range w.logs[id] {
		out = append(out, []any{w.msgJSON(en.msg, 0), w.pidJSON(en.sender)})
	}
	return out
}

func (w *evWorld) numLog(id int) []int {
	w.mu.Lock()
	defer w.mu.Unlock()
	out := make([]int, 0, len(w.logs[id]))
	for _, en := range w.logs[id] {
		if n, ok := userNum(en.msg); ok {
			out = append(out, n)
		}
	}
	return out
}

// userNum: the number of a user event; the engine's own events (lifecycle
// events of actors stopped or spawned by a history, dead letters) are not
// logged by this family; anything else shows up as 4999.
func userNum(m any) (int, bool) {
	switch x := m.(type) {
	case userMsg09:
		return x.N, true
	case actor.ActorStoppedEvent, actor.ActorInitializedEvent, actor.ActorStartedEvent,
		actor.DeadLetterEvent, actor.EngineRemoteMissingEvent:
		return 0, false
	default:
		return 4999, true
	}
}

// ---------------------------------------------------------------- events12

type ev12Case struct {
	Kind string `json:"kind"` // "seq" | "conc"
	// seq: PID value p < 50 is the local recording actor a/p, p >= 50 is the
	// same id a/(p-50) behind a foreign address (only with remote: the engine
	// then has an in-memory Remoter that records what it is given)
	NPids  int  `json:"npids"`
	Remote bool `json:"remote"`
	// look: the foreign twin of a/k is not (foreignAddr, a/k) but a PID whose address
	// followed by its id spells the same string as the local one: different in both
	// fields, and still a different PID
	Look bool    `json:"look"`
	Hist [][]any `json:"hist"` // ["sub", pid, obj] | ["unsub", pid, obj] | ["ev", n] | ["stop", pid] | ["respawn", pid]
	// conc
	NSubs      int   `json:"nsubs"`
	Counts     []int `json:"counts"`
	Late       bool  `json:"late"`
	LateSrc    int   `json:"late_src"`
	LateAfter  int   `json:"late_after"`
	Leave      bool  `json:"leave"`
	LeaveSrc   int   `json:"leave_src"`
	LeaveAfter int   `json:"leave_after"`
}

type ev12Obs struct {
	Logs  [][]int `json:"logs"`
	RLogs [][]int `json:"rlogs"` // seq: per id, what the remote was given for (foreign, id)
	Late  []int   `json:"late"`
	Leave []int   `json:"leave"`
	Note  string  `json:"note,omitempty"`
}

func num(x any) int { return int(x.(float64)) }

func runEvents12(raw json.RawMessage) (any, error) {
	var c ev12Case
	if err := json.Unmarshal(raw, &c); err != nil {
		return nil, err
	}
	var remote *memRemote
	if c.Kind == "seq" && c.Remote {
		remote = &memRemote{addr: "node0:1"}
	}
	w, err := newEvWorld(1<<40, remote)
	if err != nil {
		return nil, err
	}
	obs := ev12Obs{Logs: [][]int{}, RLogs: [][]int{}}
	if c.Kind == "seq" {
		// object 0 of a PID value is the *PID Spawn returned, object k > 0 a
		// distinct *PID with the same address and id (one per (pid, k))
		objs := map[[2]int]*actor.PID{}
		for p := 0; p < c.NPids; p++ {
			objs[[2]int{p, 0}] = w.spawnRecorder(p)
		}
		obj := func(p, o int) *actor.PID {
			k := [2]int{p, o}
			if objs[k] == nil {
				if p < 50 {
					objs[k] = actor.NewPID(w.e.Address(), "a/"+strconv.Itoa(p))
				} else if c.Look {
					objs[k] = actor.NewPID(lookAddr, lookTail+"a/"+strconv.Itoa(p-50))
				} else {
					objs[k] = actor.NewPID(foreignAddr, "a/"+strconv.Itoa(p-50))
				}
			}
			return objs[k]
		}
		if !w.quiesce(10 * time.Second) {
			obs.Note = "no quiescence after spawn"
		}
		for _, h := range c.Hist {
			switch h[0].(string) {
			case "sub":
				w.e.Subscribe(obj(num(h[1]), num(h[2])))
			case "unsub":
				w.e.Unsubscribe(obj(num(h[1]), num(h[2])))
			case "ev":
				w.e.BroadcastEvent(userMsg09{num(h[1])})
			case "stop":
				// poison the recording actor and wait until it is gone
				w.mu.Lock()
				pid := w.pids[num(h[1])]
				w.mu.Unlock()
				select {
				case <-w.e.Poison(pid).Done():
				case <-time.After(10 * time.Second):
					obs.Note = "stop did not complete"
				}
			case "respawn":
				// a new recording actor under the same id (it logs into the same log:
				// the observation is per PID value)
				w.spawnRecorder(num(h[1]))
			}
			if !w.quiesce(10 * time.Second) {
				obs.Note = "no quiescence"
				break
			}
		}
		for p := 0; p < c.NPids; p++ {
			obs.Logs = append(obs.Logs, w.numLog(p))
			obs.RLogs = append(obs.RLogs, []int{})
		}
		if remote != nil {
			for _, sm := range remote.take() {
				n, ok := userNum(sm.msg)
				if !ok {
					continue
				}
				id := -1
				fa, fp := foreignAddr, "a/"
				if c.Look {
					fa, fp = lookAddr, lookTail+"a/"
				}
				if s, found := strings.CutPrefix(sm.to.GetID(), fp); found && sm.to.GetAddress() == fa {
					id, _ = strconv.Atoi(s)
				}
				if id >= 0 && id < c.NPids {
					obs.RLogs[id] = append(obs.RLogs[id], n)
				} else {
					obs.Note = "remote was given a message for " + sm.to.String()
				}
			}
		}
		return obs, nil
	}
	// conc: spawn everybody first (no lifecycle events later on), then subscribe
	for p := 0; p < c.NSubs; p++ {
		w.spawnRecorder(p)
	}
	var late, leaver *actor.PID
	if c.Late {
		late = w.spawnRecorder(50)
	}
	if c.Leave {
		leaver = w.spawnRecorder(51)
	}
	w.quiesce(10 * time.Second)
	for p := 0; p < c.NSubs; p++ {
		w.e.Subscribe(w.pids[p])
	}
	if c.Leave {
		w.e.Subscribe(leaver)
	}
	if !w.quiesce(10 * time.Second) {
		obs.Note = "no quiescence after setup"
	}
	// broadcaster LateSrc subscribes actor 50 after its LateAfter-th event,
	// broadcaster LeaveSrc unsubscribes actor 51 after its LeaveAfter-th event
	// (each through a fresh *PID object): in happens-before order these calls
	// lie between two broadcasts of that source and are concurrent with the
	// other sources
	var wg sync.WaitGroup
	start := make(chan struct{})
	for s, n := range c.Counts {
		wg.Add(1)
		go func(s, n int) {
			defer wg.Done()
			<-start
			for i := 0; i <= n; i++ {
				if c.Late && s == c.LateSrc && i == min(c.LateAfter, n) {
					w.e.Subscribe(actor.NewPID(late.Address, late.ID))
				}
				if c.Leave && s == c.LeaveSrc && i == min(c.LeaveAfter, n) {
					w.e.Unsubscribe(actor.NewPID(leaver.Address, leaver.ID))
				}
				if i < n {
					w.e.BroadcastEvent(userMsg09{100*s + i})
				}
			}
		}(s, n)
	}
	close(start)
	wg.Wait()
	if !w.quiesce(20 * time.Second) {
		obs.Note = "no quiescence"
	}
	for p := 0; p < c.NSubs; p++ {
		obs.Logs = append(obs.Logs, w.numLog(p))
	}
	if c.Late {
		obs.Late = w.numLog(50)
	}
	if c.Leave {
		obs.Leave = w.numLog(51)
	}
	return obs, nil
}

// --------------------------------------------------------------- undeliv09

type ud09Case struct {
	NMon int     `json:"nmon"`
	Ops  [][]any `json:"ops"` // ["sub",[a,i]] | ["unsub",[a,i]] | ["stop",i] | ["send",[a,i]|null,n,[a,i]|null] | ["bcast",n]
}

type ud09Obs struct {
	Logs     []any  `json:"logs"` // [[id, [[msg, sender], ...]], ...] for the monitors, 3, 4, 5
	Panicked bool   `json:"panicked"`
	Diverged bool   `json:"diverged"`
	Note     string `json:"note,omitempty"`
}

const ud09Limit = 10000

func runUndeliv09(raw json.RawMessage) (any, error) {
	var c ud09Case
	if err := json.Unmarshal(raw, &c); err != nil {
		return nil, err
	}
	w, err := newEvWorld(ud09Limit, nil)
	if err != nil {
		return nil, err
	}
	obs := ud09Obs{Logs: []any{}}
	recorders := []int{}
	for i := 0; i < c.NMon; i++ {
		recorders = append(recorders, i)
	}
	recorders = append(recorders, 3, 4, 5)
	for _, id := range recorders {
		w.spawnRecorder(id)
	}
	w.spawnRecorder(8)
	// the guard: a subscriber the model does not know about; it only counts, so
	// that a feedback loop is noticed even when no other live subscriber exists
	guard := w.e.SpawnFunc(func(c *actor.Context) {
		switch c.Message().(type) {
		case actor.Initialized, actor.Started, actor.Stopped:
			return
		}
		if w.nrecv.Add(1) > w.limit.Load() {
			w.diverged.Store(true)
		}
	}, "guard", actor.WithID("g"))
	w.mu.Lock()
	w.pids[-1] = guard
	w.mu.Unlock()
	gone := w.spawnRecorder(6)
	w.quiesce(10 * time.Second)
	select {
	case <-w.e.Poison(gone).Done():
	case <-time.After(10 * time.Second):
		obs.Note = "actor 6 did not stop"
	}
	w.quiesce(10 * time.Second)
	w.e.Subscribe(guard)
	for i := 0; i < c.NMon; i++ {
		w.e.Subscribe(w.pids[i])
	}
	w.quiesce(10 * time.Second)
	w.nrecv.Store(0)

	// PID objects: one per value, so that a recovery Unsubscribe removes the
	// subscription on the un-repaired (pointer-keyed) code too
	vals := map[[2]int]*actor.PID{}
	toPID := func(x any) *actor.PID {
		if x == nil {
			return nil
		}
		a := x.([]any)
		k := [2]int{num(a[0]), num(a[1])}
		if vals[k] != nil {
			return vals[k]
		}
		var p *actor.PID
		switch {
		case k[0] == 0 && k[1] == 9:
			p = w.es
		case k[0] == 0:
			p = actor.NewPID(w.e.Address(), "a/"+strconv.Itoa(k[1]))
		default:
			p = actor.NewPID(foreignAddr, "a/"+strconv.Itoa(k[1]))
		}
		vals[k] = p
		return p
	}
	subscribed := []*actor.PID{}
	bail := func(why string) (any, error) {
		// the engine does not come to rest: try to break the loop by removing
		// every subscription the scenario made; if that does not help, leave
		// the process (the driver records the crash observation for this case
		// and runs the remaining cases in a fresh process)
		obs.Diverged = true
		obs.Note = why
		for _, p := range subscribed {
			w.e.Unsubscribe(p)
		}
		w.limit.Store(1 << 40)
		w.diverged.Store(false)
		if !w.quiesce(10 * time.Second) {
			fmt.Fprintln(os.Stderr, "undeliv09: engine does not come to rest; leaving")
			os.Exit(3)
		}
		return obs, nil
	}
	for _, op := range c.Ops {
		func() {
			defer func() {
				if v := recover(); v != nil {
					obs.Panicked = true
					obs.Note = fmt.Sprint("panic: ", v)
				}
			}()
			switch op[0].(string) {
			case "sub":
				p := toPID(op[1])
				subscribed = append(subscribed, p)
				w.e.Subscribe(p)
			case "unsub":
				w.e.Unsubscribe(toPID(op[1]))
			case "stop":
				select {
				case <-w.e.Poison(w.pids[num(op[1])]).Done():
				case <-time.After(10 * time.Second):
					obs.Note = "stop did not complete"
				}
			case "send":
				w.e.SendWithSender(toPID(op[1]), userMsg09{num(op[2])}, toPID(op[3]))
			case "bcast":
				w.e.BroadcastEvent(userMsg09{num(op[1])})
			}
		}()
		if !w.quiesce(10 * time.Second) {
			if w.diverged.Load() {
				return bail(fmt.Sprintf("more than %d events", ud09Limit))
			}
			return bail("no quiescence within 10 s")
		}
	}
	for _, id := range recorders {
		obs.Logs = append(obs.Logs, []any{id, w.logJSON(id)})
	}
	return obs, nil
}

func init() {
	families["events12"] = runEvents12
	families["undeliv09"] = runUndeliv09
}
