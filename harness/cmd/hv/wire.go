package main

// Families wire15 and wire16: the implementation side of C15 / C16.
//
// wire15: a batch of outbound messages goes through the real
// streamWriter.Invoke; the envelope it sends is marshalled with the generated
// dRPC encoding, unmarshalled again and handed to the real
// streamReader.Receive of a reader attached to a real engine.  The
// observation is the list of SendLocal effects on that engine (deliveries to
// recording Processers registered under the target ids; dead letters for
// anything else) and how the run ended.
//
// wire16: arbitrary envelopes (tables and indices taken from the case) are
// marshalled and handed to streamReader.Receive; same observation.

import (
	"encoding/json"
	"fmt"
	"io"
	"log/slog"
	"strconv"
	"sync"
	"time"

	"github.com/anthdm/hollywood/actor"
	"github.com/anthdm/hollywood/remote"
	"google.golang.org/protobuf/proto"
)

type wirePID []string // [address, id]; null = no PID

func (p wirePID) pid() *actor.PID {
	if len(p) != 2 {
		return nil
	}
	return actor.NewPID(p[0], p[1])
}

func pidJSON(p *actor.PID) any {
	if p == nil {
		return nil
	}
	return []string{p.Address, p.ID}
}

// message kinds: "pid" = actor.PID{Address:"v", ID:<n>}, "test" =
// remote.TestMessage{Data:<n>}, "badutf8" = an actor.PID that proto.Marshal
// rejects (invalid UTF-8 in a proto3 string field), "nonproto" = a Go value
// that is not a proto.Message.
type notProto struct{ N int64 }

func makeMsg(kind string, n int64) (any, error) {
	switch kind {
	case "pid":
		return &actor.PID{Address: "v", ID: strconv.FormatInt(n, 10)}, nil
	case "test":
		return &remote.TestMessage{Data: []byte(strconv.FormatInt(n, 10))}, nil
	case "big": // the same message with a payload of 900 bytes
		return &remote.TestMessage{Data: []byte(fmt.Sprintf("%0900d", n))}, nil
	case "badutf8":
		return &actor.PID{Address: "v", ID: "\xff" + strconv.FormatInt(n, 10)}, nil
	case "nonproto":
		return notProto{N: n}, nil
	}
	return nil, fmt.Errorf("bad message kind %q", kind)
}

// payload bytes of wire16: "pid"/"test" = the encoding of the message above,
// "garbage" = bytes no protobuf decoder accepts, "empty" = no bytes.
func makeData(kind string, n int64) ([]byte, error) {
	switch kind {
	case "pid", "test":
		m, _ := makeMsg(kind, n)
		return proto.Marshal(m.(proto.Message))
	case "garbage":
		return []byte{0xff}, nil
	case "empty":
		return []byte{}, nil
	}
	return nil, fmt.Errorf("bad data kind %q", kind)
}

// what a delivered message is: its protobuf type name and the integer it
// carries (-1 when it carries none, e.g. bytes of one type decoded as another)
func renderMsg(msg any) (string, int64) {
	switch m := msg.(type) {
	case *actor.PID:
		if m.Address == "v" {
			if n, err := strconv.ParseInt(m.ID, 10, 64); err == nil {
				return "actor.PID", n
			}
		}
		return "actor.PID", -1
	case *remote.TestMessage:
		if n, err := strconv.ParseInt(string(m.Data), 10, 64); err == nil {
			return "remote.TestMessage", n
		}
		return "remote.TestMessage", -1
	case proto.Message:
		return string(proto.MessageName(m)), -1
	}
	return fmt.Sprintf("%T", msg), -1
}

type wireDelivery struct {
	Target  any    `json:"target"`
	Sender  any    `json:"sender"`
	Type    string `json:"type"`
	Payload int64  `json:"payload"`
	Via     string `json:"via"` // "proc": Processer.Send of the registered target; "dead": DeadLetterEvent
}

type wireObs struct {
	Deliveries []wireDelivery `json:"deliveries"`
	Outcome    string         `json:"outcome"` // ok | error | panic
	Detail     string         `json:"detail"`
}

// the receiving engine, shared by all cases of one harness process
type wireNode struct {
	e    *actor.Engine
	mu   sync.Mutex
	proc []wireDelivery
	dead []wireDelivery
}

type wireFlush struct{ done chan struct{} }

// recProc is a Processer that records what is sent to it, synchronously.
type recProc struct {
	pid  *actor.PID
	node *wireNode
	dl   bool // the dead-letter subscriber
}

func (p *recProc) Start()                    {}
func (p *recProc) PID() *actor.PID           { return p.pid }
func (p *recProc) Invoke(_ []actor.Envelope) {}
func (p *recProc) Shutdown()                 {}
func (p *recProc) Send(to *actor.PID, msg any, sender *actor.PID) {
	if !p.dl {
		t, n := renderMsg(msg)
		p.node.mu.Lock()
		p.node.proc = append(p.node.proc, wireDelivery{pidJSON(to), pidJSON(sender), t, n, "proc"})
		p.node.mu.Unlock()
		return
	}
	switch ev := msg.(type) {
	case actor.DeadLetterEvent:
		t, n := renderMsg(ev.Message)
		p.node.mu.Lock()
		p.node.dead = append(p.node.dead, wireDelivery{pidJSON(ev.Target), pidJSON(ev.Sender), t, n, "dead"})
		p.node.mu.Unlock()
	case wireFlush:
		close(ev.done)
	}
}

var (
	theNode     *wireNode
	theNodeOnce sync.Once
	theNodeErr  error
)

func getNode() (*wireNode, error) {
	theNodeOnce.Do(func() {
		slog.SetDefault(slog.New(slog.NewTextHandler(io.Discard, nil)))
		e, err := actor.NewEngine(actor.NewEngineConfig())
		if err != nil {
			theNodeErr = err
			return
		}
		n := &wireNode{e: e}
		dl := &recProc{pid: actor.NewPID(e.Address(), "verif-deadletters"), node: n, dl: true}
		e.SpawnProc(dl)
		e.Subscribe(dl.pid)
		theNode = n
		theNodeErr = n.flush()
	})
	return theNode, theNodeErr
}

// flush waits until every event broadcast so far has reached the dead-letter
// recorder (the event stream is one actor: FIFO).
func (n *wireNode) flush() error {
	f := wireFlush{done: make(chan struct{})}
	n.e.BroadcastEvent(f)
	select {
	case <-f.done:
		return nil
	case <-time.After(10 * time.Second):
		return fmt.Errorf("event stream did not drain within 10s")
	}
}

// run registers recording Processers under the given target ids, runs body,
// drains the event stream and returns the observation.
func (n *wireNode) run(targets []*actor.PID, registered bool, body func() (string, string)) (wireObs, error) {
	n.mu.Lock()
	n.proc, n.dead = nil, nil
	n.mu.Unlock()
	var regs []*actor.PID
	if registered {
		seen := map[string]bool{}
		for _, t := range targets {
			if t == nil || seen[t.ID] || t.ID == "verif-deadletters" || t.ID == "" {
				continue
			}
			seen[t.ID] = true
			p := &recProc{pid: actor.NewPID(n.e.Address(), t.ID), node: n}
			n.e.SpawnProc(p)
			regs = append(regs, p.pid)
		}
	}
	outcome, detail := body()
	err := n.flush()
	for _, p := range regs {
		n.e.Registry.Remove(p)
	}
	n.mu.Lock()
	defer n.mu.Unlock()
	ds := append(append([]wireDelivery{}, n.proc...), n.dead...)
	return wireObs{Deliveries: ds, Outcome: outcome, Detail: detail}, err
}

func receive(n *wireNode, wire [][]byte) (string, string) {
	err, pv := remote.VerifReaderReceive(n.e, wire)
	switch {
	case pv != nil:
		return "panic", "reader: " + fmt.Sprint(pv)
	case err != nil:
		return "error", "reader: " + err.Error()
	}
	return "ok", ""
}

// ---- wire15

type wire15Msg struct {
	Target wirePID `json:"target"`
	Sender wirePID `json:"sender"`
	Kind   string  `json:"kind"`
	N      int64   `json:"n"`
}

type wire15Case struct {
	Batch      []wire15Msg `json:"batch"`
	Registered *bool       `json:"registered"`
	BuffSize   int         `json:"buff_size"` // reader buffer size the writer is configured with (0 = default)
}

func runWire15(raw json.RawMessage) (any, error) {
	var c wire15Case
	if err := json.Unmarshal(raw, &c); err != nil {
		return nil, err
	}
	n, err := getNode()
	if err != nil {
		return nil, err
	}
	batch := make([]remote.VerifDeliver, len(c.Batch))
	targets := make([]*actor.PID, len(c.Batch))
	for i, m := range c.Batch {
		msg, err := makeMsg(m.Kind, m.N)
		if err != nil {
			return nil, err
		}
		batch[i] = remote.VerifDeliver{Target: m.Target.pid(), Sender: m.Sender.pid(), Msg: msg}
		targets[i] = batch[i].Target
	}
	return n.run(targets, c.Registered == nil || *c.Registered, func() (string, string) {
		wire, pv := remote.VerifWriterInvokeBuf(n.e, batch, c.BuffSize)
		if pv != nil {
			return "panic", "writer: " + fmt.Sprint(pv)
		}
		return receive(n, wire)
	})
}

// ---- wire16

type wire16Data struct {
	K string `json:"k"`
	N int64  `json:"n"`
}

type wire16Msg struct {
	Type   int32      `json:"type"`
	Target int32      `json:"target"`
	Sender int32      `json:"sender"`
	Data   wire16Data `json:"data"`
}

type wire16Env struct {
	TypeNames []string    `json:"typeNames"`
	Targets   []wirePID   `json:"targets"`
	Senders   []wirePID   `json:"senders"`
	Messages  []wire16Msg `json:"messages"`
}

type wire16Case struct {
	Envelopes  []wire16Env `json:"envelopes"`
	Registered *bool       `json:"registered"`
}

func runWire16(raw json.RawMessage) (any, error) {
	var c wire16Case
	if err := json.Unmarshal(raw, &c); err != nil {
		return nil, err
	}
	n, err := getNode()
	if err != nil {
		return nil, err
	}
	var wire [][]byte
	var targets []*actor.PID
	for _, ce := range c.Envelopes {
		env := &remote.Envelope{TypeNames: append([]string{}, ce.TypeNames...)}
		for _, p := range ce.Targets {
			env.Targets = append(env.Targets, p.pid())
			targets = append(targets, p.pid())
		}
		for _, p := range ce.Senders {
			env.Senders = append(env.Senders, p.pid())
		}
		for _, m := range ce.Messages {
			data, err := makeData(m.Data.K, m.Data.N)
			if err != nil {
				return nil, err
			}
			env.Messages = append(env.Messages, &remote.Message{
				Data: data, TypeNameIndex: m.Type, TargetIndex: m.Target, SenderIndex: m.Sender})
		}
		b, err := env.MarshalVT()
		if err != nil {
			return nil, err
		}
		wire = append(wire, b)
	}
	return n.run(targets, c.Registered == nil || *c.Registered, func() (string, string) {
		return receive(n, wire)
	})
}

func init() {
	families["wire15"] = runWire15
	families["wire16"] = runWire16
}
