package main

// Families of the cluster layer:
//   agent18    — C18: a real cluster.Cluster (agent actor) fed with membership
//                snapshots; provider replaced by a do-nothing actor.
//   provider20 — C20: the real SelfManaged receiver (mDNS switched off by the
//                hook tools/hooks/cluster/hooks.go) fed with handshakes,
//                member lists and unreachable reports.
//   node1820   — C18 ∘ C20: the real SelfManaged receiver (same hook) and the
//                real agent of one cluster.Cluster together, fed with the
//                provider messages; the agent's Members()/HasKind()/events
//                are observed after each one.
// All run on an engine whose actor.Remoter is an in-memory recorder.

import (
	"encoding/json"
	"fmt"
	"sort"
	"sync"
	"time"

	"github.com/anthdm/hollywood/actor"
	"github.com/anthdm/hollywood/cluster"
)

// ---------------------------------------------------------------- plumbing

type memberJSON struct {
	ID    int   `json:"id"`
	Host  int   `json:"host"`
	Kinds []int `json:"kinds"`
}

func toMember(m memberJSON) *cluster.Member {
	ks := make([]string, len(m.Kinds))
	for i, k := range m.Kinds {
		ks[i] = kindName(k)
	}
	return &cluster.Member{ID: idName(m.ID), Host: hostName(m.Host), Kinds: ks, Region: "default"}
}

func memberIDs(ms []*cluster.Member) []int {
	out := make([]int, 0, len(ms))
	for _, m := range ms {
		out = append(out, idNum(m.ID))
	}
	sort.Ints(out)
	return out
}

// memRemote is an actor.Remoter that records what would go over the wire.

// --------------------------------------------------------------- agent18

type agentCase struct {
	Self int            `json:"self"`
	Own  []int          `json:"own"`
	Hist [][]memberJSON `json:"hist"`
}

type agentObs struct {
	IDs    []int  `json:"ids"`
	Joins  []int  `json:"joins"`
	Leaves []int  `json:"leaves"`
	Kinds  []bool `json:"kinds"`
	Err    string `json:"err,omitempty"`
}

const kindUniverse = 3

func runAgent18(raw json.RawMessage) (res any, err error) {
	var c agentCase
	if err = json.Unmarshal(raw, &c); err != nil {
		return nil, err
	}
	quiet()
	out := make([]agentObs, 0, len(c.Hist))
	defer func() {
		if v := recover(); v != nil {
			out = append(out, agentObs{Err: "panic: " + fmt.Sprint(v)})
			res, err = out, nil
		}
	}()
	e, err := actor.NewEngine(actor.NewEngineConfig().WithRemote(&memRemote{addr: hostName(c.Self)}))
	if err != nil {
		return nil, err
	}
	cl, err := cluster.New(cluster.NewConfig().WithEngine(e).WithID(idName(c.Self)).
		WithProvider(noopProvider).WithRequestTimeout(waitLong))
	if err != nil {
		return nil, err
	}
	for _, k := range c.Own {
		cl.RegisterKind(kindName(k), func() actor.Receiver { return noopReceiver{} }, cluster.NewKindConfig())
	}
	// monitor: logs membership events, signals when it sees the sentinel
	var (
		mu     sync.Mutex
		joins  []int
		leaves []int
	)
	flushed := make(chan int, 16)
	monitor := e.SpawnFunc(func(ctx *actor.Context) {
		switch ev := ctx.Message().(type) {
		case cluster.MemberJoinEvent:
			mu.Lock()
			joins = append(joins, idNum(ev.Member.ID))
			mu.Unlock()
		case cluster.MemberLeaveEvent:
			mu.Lock()
			leaves = append(leaves, idNum(ev.Member.ID))
			mu.Unlock()
		case flushEvent:
			flushed <- ev.n
		}
	}, "monitor", actor.WithID("c18"))
	e.Subscribe(monitor)
	cl.Start()

	for n, snap := range c.Hist {
		ms := make([]*cluster.Member, len(snap))
		for i, m := range snap {
			ms[i] = toMember(m)
		}
		e.Send(cl.PID(), &cluster.Members{Members: ms})
		// Members() is a request to the agent: it is answered after the snapshot
		o := agentObs{IDs: memberIDs(cl.Members())}
		for k := 0; k < kindUniverse; k++ {
			o.Kinds = append(o.Kinds, cl.HasKind(kindName(k)))
		}
		// the agent published its events before it answered; push a sentinel
		// through the event stream behind them
		e.BroadcastEvent(flushEvent{n})
		select {
		case <-flushed:
		case <-time.After(waitLong):
			o.Err = "monitor flush timeout"
		}
		mu.Lock()
		o.Joins, o.Leaves = joins, leaves
		joins, leaves = nil, nil
		mu.Unlock()
		sort.Ints(o.Joins)
		sort.Ints(o.Leaves)
		if o.Joins == nil {
			o.Joins = []int{}
		}
		if o.Leaves == nil {
			o.Leaves = []int{}
		}
		out = append(out, o)
	}
	done := make(chan struct{})
	go func() { cl.Stop(); <-e.Poison(monitor).Done(); close(done) }()
	select {
	case <-done:
	case <-time.After(waitLong):
	}
	return out, nil
}

// ------------------------------------------------------------ provider20

// hist entries: ["hs", member, from] | ["ms", [member...]] | ["leave", addr]
type providerCase struct {
	Self memberJSON          `json:"self"`
	Hist [][]json.RawMessage `json:"hist"`
}

type providerObs struct {
	Agent     [][]int `json:"agent"`     // member lists the agent stub received, in order
	Reply     []int   `json:"reply"`     // list sent back to the handshaking peer (null: none)
	List      []int   `json:"list"`      // provider's member list after the message
	Panicked  bool    `json:"panicked"`  // Receive panicked
	Restarted bool    `json:"restarted"` // ActorRestartedEvent for the provider
	Err       string  `json:"err,omitempty"`
}

type recSync struct{}

func runProvider20(raw json.RawMessage) (res any, err error) {
	var c providerCase
	if err = json.Unmarshal(raw, &c); err != nil {
		return nil, err
	}
	quiet()
	out := make([]providerObs, 0, len(c.Hist)+1)
	defer func() {
		if v := recover(); v != nil {
			out = append(out, providerObs{Err: "panic: " + fmt.Sprint(v), Panicked: true})
			res, err = out, nil
		}
	}()
	remote := &memRemote{addr: hostName(c.Self.Host)}
	e, err := actor.NewEngine(actor.NewEngineConfig().WithRemote(remote))
	if err != nil {
		return nil, err
	}
	selfID := idName(c.Self.ID)
	cl, err := cluster.New(cluster.NewConfig().WithEngine(e).WithID(selfID).
		WithProvider(noopProvider).WithRequestTimeout(waitLong))
	if err != nil {
		return nil, err
	}
	for _, k := range c.Self.Kinds {
		cl.RegisterKind(kindName(k), func() actor.Receiver { return noopReceiver{} }, cluster.NewKindConfig())
	}
	// the agent's stand-in: records the Members messages it is sent
	var recLog [][]int
	recorder := e.SpawnFunc(func(ctx *actor.Context) {
		switch m := ctx.Message().(type) {
		case *cluster.Members:
			recLog = append(recLog, memberIDs(m.Members))
		case recSync:
			l := recLog
			recLog = nil
			ctx.Respond(l)
		}
	}, "cluster", actor.WithID(selfID))
	// monitor: restarts of the provider
	restarted := make(chan struct{}, 16)
	var provPID *actor.PID
	var provMu sync.Mutex
	monitor := e.SpawnFunc(func(ctx *actor.Context) {
		if ev, ok := ctx.Message().(actor.ActorRestartedEvent); ok {
			provMu.Lock()
			p := provPID
			provMu.Unlock()
			if p != nil && ev.PID.Equals(p) {
				restarted <- struct{}{}
			}
		}
	}, "monitor", actor.WithID("c20"))
	e.Subscribe(monitor)

	events := make(chan cluster.VerifProviderEvent, 4096)
	pid := cluster.VerifStartProvider(cl, recorder, cluster.NewSelfManagedConfig(),
		func(ev cluster.VerifProviderEvent) {
			select {
			case events <- ev:
			default:
			}
		})
	provMu.Lock()
	provPID = pid
	provMu.Unlock()

	// wait until the provider has handled a message of the given Go type
	await := func(typ string) (cluster.VerifProviderEvent, bool) {
		deadline := time.After(waitLong)
		for {
			select {
			case ev := <-events:
				if ev.Msg == typ {
					return ev, true
				}
			case <-deadline:
				return cluster.VerifProviderEvent{}, false
			}
		}
	}
	observe := func(ev cluster.VerifProviderEvent, ok bool, peer *actor.PID) (providerObs, bool) {
		o := providerObs{Agent: [][]int{}}
		if !ok {
			o.Err = "timeout waiting for the provider"
			return o, false
		}
		for _, m := range ev.Members {
			o.List = append(o.List, idNum(m[0]))
		}
		sort.Ints(o.List)
		o.Panicked = ev.Panicked
		if ev.Panicked {
			select {
			case <-restarted:
				o.Restarted = true
			case <-time.After(3 * time.Second):
			}
		}
		// round trip to the stub: everything the provider sent it is ahead of us
		r, rerr := e.Request(recorder, recSync{}, waitLong).Result()
		if rerr != nil {
			o.Err = "recorder: " + rerr.Error()
			return o, false
		}
		if l, _ := r.([][]int); l != nil {
			o.Agent = l
		}
		for _, s := range remote.take() {
			if ms, isMembers := s.msg.(*cluster.Members); isMembers && peer != nil && s.to.Equals(peer) {
				o.Reply = memberIDs(ms.Members)
			}
		}
		return o, !ev.Panicked
	}

	ev, ok := await("actor.Started")
	o, cont := observe(ev, ok, nil)
	out = append(out, o)
	for _, h := range c.Hist {
		if !cont {
			break
		}
		var op string
		if err = json.Unmarshal(h[0], &op); err != nil {
			return nil, err
		}
		var peer *actor.PID
		var typ string
		switch op {
		case "hs":
			var m memberJSON
			var from int
			if err = json.Unmarshal(h[1], &m); err != nil {
				return nil, err
			}
			if err = json.Unmarshal(h[2], &from); err != nil {
				return nil, err
			}
			peer = actor.NewPID(hostName(from), "provider/"+idName(from))
			e.SendWithSender(pid, &cluster.Handshake{Member: toMember(m)}, peer)
			typ = "*cluster.Handshake"
		case "ms":
			var l []memberJSON
			if err = json.Unmarshal(h[1], &l); err != nil {
				return nil, err
			}
			ms := make([]*cluster.Member, len(l))
			for i, m := range l {
				ms[i] = toMember(m)
			}
			e.Send(pid, &cluster.Members{Members: ms})
			typ = "*cluster.Members"
		case "leave":
			var addr int
			if err = json.Unmarshal(h[1], &addr); err != nil {
				return nil, err
			}
			// the real path: the provider's event child turns this into memberLeave
			e.BroadcastEvent(actor.RemoteUnreachableEvent{ListenAddr: hostName(addr)})
			typ = "cluster.memberLeave"
		default:
			return nil, fmt.Errorf("bad op %q", op)
		}
		ev, ok = await(typ)
		o, cont = observe(ev, ok, peer)
		out = append(out, o)
	}
	if !cont {
		// the provider is inside its restart delay (or stuck): leave the engine behind
		return out, nil
	}
	done := make(chan struct{})
	go func() {
		<-e.Poison(pid).Done()
		<-e.Poison(recorder).Done()
		<-e.Poison(monitor).Done()
		close(done)
	}()
	select {
	case <-done:
	case <-time.After(2 * time.Second):
	}
	return out, nil
}

// -------------------------------------------------------------- node1820

func runNode1820(raw json.RawMessage) (res any, err error) {
	var c providerCase
	if err = json.Unmarshal(raw, &c); err != nil {
		return nil, err
	}
	quiet()
	out := make([]agentObs, 0, len(c.Hist)+1)
	defer func() {
		if v := recover(); v != nil {
			out = append(out, agentObs{Err: "panic: " + fmt.Sprint(v)})
			res, err = out, nil
		}
	}()
	e, err := actor.NewEngine(actor.NewEngineConfig().WithRemote(&memRemote{addr: hostName(c.Self.Host)}))
	if err != nil {
		return nil, err
	}
	events := make(chan cluster.VerifProviderEvent, 4096)
	provider := cluster.VerifSelfManagedProvider(cluster.NewSelfManagedConfig(),
		func(ev cluster.VerifProviderEvent) {
			select {
			case events <- ev:
			default:
			}
		})
	selfID := idName(c.Self.ID)
	cl, err := cluster.New(cluster.NewConfig().WithEngine(e).WithID(selfID).
		WithProvider(provider).WithRequestTimeout(waitLong))
	if err != nil {
		return nil, err
	}
	for _, k := range c.Self.Kinds {
		cl.RegisterKind(kindName(k), func() actor.Receiver { return noopReceiver{} }, cluster.NewKindConfig())
	}
	var (
		mu     sync.Mutex
		joins  []int
		leaves []int
	)
	flushed := make(chan int, 16)
	monitor := e.SpawnFunc(func(ctx *actor.Context) {
		switch ev := ctx.Message().(type) {
		case cluster.MemberJoinEvent:
			mu.Lock()
			joins = append(joins, idNum(ev.Member.ID))
			mu.Unlock()
		case cluster.MemberLeaveEvent:
			mu.Lock()
			leaves = append(leaves, idNum(ev.Member.ID))
			mu.Unlock()
		case flushEvent:
			flushed <- ev.n
		}
	}, "monitor", actor.WithID("c1820"))
	e.Subscribe(monitor)
	cl.Start() // the real agent and the (hooked) real provider
	pid := actor.NewPID(e.Address(), "provider/"+selfID)

	await := func(typ string) (cluster.VerifProviderEvent, bool) {
		deadline := time.After(waitLong)
		for {
			select {
			case ev := <-events:
				if ev.Msg == typ {
					return ev, true
				}
			case <-deadline:
				return cluster.VerifProviderEvent{}, false
			}
		}
	}
	// the provider has handled the message: whatever it sent the agent is in
	// the agent's inbox ahead of our requests
	observe := func(n int, ev cluster.VerifProviderEvent, ok bool) (agentObs, bool) {
		if !ok {
			return agentObs{Err: "timeout waiting for the provider"}, false
		}
		if ev.Panicked {
			return agentObs{Err: "provider panicked"}, false
		}
		o := agentObs{IDs: memberIDs(cl.Members())}
		for k := 0; k < kindUniverse; k++ {
			o.Kinds = append(o.Kinds, cl.HasKind(kindName(k)))
		}
		e.BroadcastEvent(flushEvent{n})
		select {
		case <-flushed:
		case <-time.After(waitLong):
			o.Err = "monitor flush timeout"
		}
		mu.Lock()
		o.Joins, o.Leaves = joins, leaves
		joins, leaves = nil, nil
		mu.Unlock()
		sort.Ints(o.Joins)
		sort.Ints(o.Leaves)
		if o.Joins == nil {
			o.Joins = []int{}
		}
		if o.Leaves == nil {
			o.Leaves = []int{}
		}
		return o, o.Err == ""
	}

	ev, ok := await("actor.Started")
	o, cont := observe(0, ev, ok)
	out = append(out, o)
	for n, h := range c.Hist {
		if !cont {
			break
		}
		var op, typ string
		if err = json.Unmarshal(h[0], &op); err != nil {
			return nil, err
		}
		switch op {
		case "hs":
			var m memberJSON
			var from int
			if err = json.Unmarshal(h[1], &m); err != nil {
				return nil, err
			}
			if err = json.Unmarshal(h[2], &from); err != nil {
				return nil, err
			}
			peer := actor.NewPID(hostName(from), "provider/"+idName(from))
			e.SendWithSender(pid, &cluster.Handshake{Member: toMember(m)}, peer)
			typ = "*cluster.Handshake"
		case "ms":
			var l []memberJSON
			if err = json.Unmarshal(h[1], &l); err != nil {
				return nil, err
			}
			ms := make([]*cluster.Member, len(l))
			for i, m := range l {
				ms[i] = toMember(m)
			}
			e.Send(pid, &cluster.Members{Members: ms})
			typ = "*cluster.Members"
		case "leave":
			var addr int
			if err = json.Unmarshal(h[1], &addr); err != nil {
				return nil, err
			}
			e.BroadcastEvent(actor.RemoteUnreachableEvent{ListenAddr: hostName(addr)})
			typ = "cluster.memberLeave"
		default:
			return nil, fmt.Errorf("bad op %q", op)
		}
		ev, ok = await(typ)
		o, cont = observe(n+1, ev, ok)
		out = append(out, o)
	}
	if !cont {
		return out, nil
	}
	done := make(chan struct{})
	go func() { cl.Stop(); <-e.Poison(monitor).Done(); close(done) }()
	select {
	case <-done:
	case <-time.After(2 * time.Second):
	}
	return out, nil
}

func init() {
	families["node1820"] = runNode1820
	families["agent18"] = runAgent18
	families["provider20"] = runProvider20
}
