package main

// helpers shared by several harness families (no hook files needed)

import (
	"io"
	"log"
	"log/slog"
	"net"
	"runtime"
	"strconv"
	"strings"
	"sync"
	"time"

	"github.com/anthdm/hollywood/actor"
	"github.com/anthdm/hollywood/cluster"
)

const waitLong = 10 * time.Second

func idName(i int) string { return "n" + strconv.Itoa(i) }

// hostName: the address of abstract host h.  The first hosts get addresses that are pairwise distinct
// strings but look alike under the usual "normalisations" (loopback spellings, a port that is a prefix
// of another, a trailing dot, the same host behind two ports): an implementation that compares addresses
// by anything but string equality shows on them (round-4 seed C20-r4-2).
var hostTable = []string{
	"127.0.0.1:4000", "127.0.0.2:4000", "localhost:4000", "127.0.0.1:40000", "10.0.0.1:4000", "10.0.0.10:400",
	"10.0.0.1:400", "[::1]:4000", "example.org:4000", "127.0.0.9:4000", "example.org.:4000", "127.0.0.3:4000",
	"127.0.1.1:4000", "127.0.0.4:4000", "0.0.0.0:4000", "10.0.0.1:4001",
}

func hostName(h int) string {
	if h >= 0 && h < len(hostTable) {
		return hostTable[h]
	}
	return "h" + strconv.Itoa(h) + ":1"
}

// hostNum is the inverse of hostName (-1: not one of ours)
func hostNum(addr string) int {
	for i, a := range hostTable {
		if a == addr {
			return i
		}
	}
	if !strings.HasPrefix(addr, "h") || !strings.HasSuffix(addr, ":1") {
		return -1
	}
	n, err := strconv.Atoi(addr[1 : len(addr)-2])
	if err != nil || n < len(hostTable) {
		return -1
	}
	return n
}

func kindName(k int) string { return "k" + strconv.Itoa(k) }

func idNum(s string) int {
	n, err := strconv.Atoi(strings.TrimPrefix(s, "n"))
	if err != nil {
		return -1
	}
	return n
}

type sentMsg struct {
	to  *actor.PID
	msg any
}

type memRemote struct {
	addr string
	mu   sync.Mutex
	sent []sentMsg
}

func (r *memRemote) Address() string { return r.addr }

func (r *memRemote) Send(pid *actor.PID, msg any, _ *actor.PID) {
	r.mu.Lock()
	r.sent = append(r.sent, sentMsg{pid, msg})
	r.mu.Unlock()
}

func (r *memRemote) Start(*actor.Engine) error { return nil }

func (r *memRemote) Stop() *sync.WaitGroup { return &sync.WaitGroup{} }

func (r *memRemote) take() []sentMsg {
	r.mu.Lock()
	defer r.mu.Unlock()
	s := r.sent
	r.sent = nil
	return s
}

type noopReceiver struct{}

func (noopReceiver) Receive(*actor.Context) {}

func noopProvider(*cluster.Cluster) actor.Producer {
	return func() actor.Receiver { return noopReceiver{} }
}

func quiet() {
	// many harness processes run side by side: a few threads each are enough
	runtime.GOMAXPROCS(2)
	slog.SetDefault(slog.New(slog.NewTextHandler(io.Discard, nil)))
	log.SetOutput(io.Discard)
}

type flushEvent struct{ n int }

func freeAddr() string {
	l, err := net.Listen("tcp", "127.0.0.1:0")
	if err != nil {
		return "127.0.0.1:45999"
	}
	defer l.Close()
	return l.Addr().String()
}
