package main

// helpers shared by several harness families (no hook files needed)

import (
	"io"
	"log"
	"log/slog"
	"net"
	"runtime"
	"strconv"
	"strings"
	"sync"
	"time"

	"github.com/anthdm/hollywood/actor"
	"github.com/anthdm/hollywood/cluster"
)

const waitLong = 10 * time.Second

func idName(i int) string { return "n" + strconv.Itoa(i) }

func hostName(h int) string { return "h" + strconv.Itoa(h) + ":1" }

func kindName(k int) string { return "k" + strconv.Itoa(k) }

func idNum(s string) int {
	n, err := strconv.Atoi(strings.TrimPrefix(s, "n"))
	if err != nil {
		return -1
	}
	return n
}

type sentMsg struct {
	to  *actor.PID
	msg any
}

type memRemote struct {
	addr string
	mu   sync.Mutex
	sent []sentMsg
}

func (r *memRemote) Address() string { return r.addr }

func (r *memRemote) Send(pid *actor.PID, msg any, _ *actor.PID) {
	r.mu.Lock()
	r.sent = append(r.sent, sentMsg{pid, msg})
	r.mu.Unlock()
}

func (r *memRemote) Start(*actor.Engine) error { return nil }

func (r *memRemote) Stop() *sync.WaitGroup { return &sync.WaitGroup{} }

func (r *memRemote) take() []sentMsg {
	r.mu.Lock()
	defer r.mu.Unlock()
	s := r.sent
	r.sent = nil
	return s
}

type noopReceiver struct{}

func (noopReceiver) Receive(*actor.Context) {}

func noopProvider(*cluster.Cluster) actor.Producer {
	return func() actor.Receiver { return noopReceiver{} }
}

func quiet() {
	// many harness processes run side by side: a few threads each are enough
	runtime.GOMAXPROCS(2)
	slog.SetDefault(slog.New(slog.NewTextHandler(io.Discard, nil)))
	log.SetOutput(io.Discard)
}

type flushEvent struct{ n int }

func freeAddr() string {
	l, err := net.Listen("tcp", "127.0.0.1:0")
	if err != nil {
		return "127.0.0.1:45999"
	}
	defer l.Close()
	return l.Addr().String()
}
