package main

import (
	"context"
	"encoding/json"
	"fmt"
	"sort"
	"strconv"
	"strings"
	"sync"
	"sync/atomic"
	"time"

	"github.com/anthdm/hollywood/actor"
)

// tree08 (C08): a supervision tree of scripted actors on a real engine,
// public API only.
//
//	tree   [id, [subtree, ...]]            every node spawns its children from its Started handler (WithID, so PIDs are known)
//	gates  [id, ...]                       nodes whose Stopped handler blocks until the harness releases them
//	steps  ["poison",n] | ["stop",n]       Engine.Poison / Engine.Stop by the harness (a stop handle, not awaited)
//	       ["self",n]                      n calls Engine.Poison on itself from inside a Receive (a stop handle)
//	       ["crash",n]                     n panics in a Receive with MaxRestarts(0) (a stop handle: done = ActorStoppedEvent seen)
//	       ["await",k]                     wait until stop handle k is done (HANG after the timeout)
//	       ["waitgate",g] | ["release",g]  wait until g is inside its gated Stopped handler | let it go on
//	       ["probe",n]                     n reports Children() and Parent() from inside a Receive
//	       ["spawn",p,c]                   p spawns a new child with id c ON DEMAND, from inside the Receive of a message (not from
//	                                       Started: a later incarnation of p does not spawn it again)
//	       ["restart",n]                   n panics in a Receive while it has restart budget left (maxr): a new incarnation on the
//	                                       same process and Context; the harness waits until it has handled Started
//	       ["hold",k,c,m]                  with a gate closed: go on when handle k is done (it should not be), or when the
//	                                       inbox of the stopping actor c holds m envelopes (the ancestor stopped through
//	                                       k has reached c and waits for it), or after a long second; an optional fifth
//	                                       element: then stay put for that many more milliseconds
//
// The children listed in the tree are spawned by the FIRST incarnation of a node only, so that a restart cannot
// mask lost children by spawning them again under the same ids.  "crash" is a panic with the budget used up.
// At the end every gate is released and every handle awaited.
type treeCase struct {
	Tree  json.RawMessage `json:"tree"`
	MaxR  int             `json:"maxr"` // MaxRestarts of every node
	Gates []int           `json:"gates"`
	Steps [][]any         `json:"steps"`
	// 1: every actor is spawned WithContext(ctx) for a ctx that is cancelled already (the application's own
	// context is gone before the tree is taken down): stopping must not depend on it
	Ctx int `json:"ctx"`
}

type treeXInfo struct {
	N       int   `json:"n"`
	SelfReg bool  `json:"self_reg"` // GetPID(self) non-nil inside the Stopped handler
	DescReg []int `json:"desc_reg"` // proper descendants still registered at that moment
	Kids    []int `json:"kids"`     // Children() inside the Stopped handler
	Parent  int   `json:"parent"`   // Parent() inside the Stopped handler (-1: nil)
}

type treeHandle struct {
	Kind     string `json:"kind"`
	Target   int    `json:"target"`
	AtReturn bool   `json:"at_return"` // the context was already done when Poison/Stop returned
	Done     bool   `json:"done"`
	Alive    []int  `json:"alive"` // actors of the target's subtree still registered, or not yet through Stopped, when done was seen
}

type treeProbe struct {
	N        int   `json:"n"`
	Answered bool  `json:"answered"`
	Kids     []int `json:"kids"`
	Parent   int   `json:"parent"`
}

type treeObs struct {
	Events      [][]any      `json:"events"` // ["xb",n] ["xe",n] ["done",k] in global stamp order
	XInfo       []treeXInfo  `json:"xinfo"`
	Started     [][]int      `json:"started"` // [node, Parent() seen in its Started handler], every incarnation
	RStops      int          `json:"rstops"`  // Stopped deliveries to incarnations that were replaced by a restart
	Handles     []treeHandle `json:"handles"`
	Probes      []treeProbe  `json:"probes"`
	Hang        bool         `json:"hang"`
	GateTimeout bool         `json:"gate_timeout"`
	Note        string       `json:"note,omitempty"`
}

type tnode struct {
	id     int
	kids   []*tnode
	parent *tnode
	path   string // PID.ID
}

type tprobeMsg struct{ k int }
type tdieMsg struct{ k int }
type tboomMsg struct{}
type tspawnMsg struct {
	child *tnode
	ack   chan struct{}
}
type tselfPill struct {
	ctx   context.Context
	early bool // already done when Poison returned inside the handler
}

type thandle struct {
	kind     string
	target   int
	ctx      context.Context
	atReturn bool
	once     sync.Once
	seen     chan struct{}
	alive    []int
}

type tstamped struct {
	stamp int64
	ev    []any
	inc   int // incarnation that produced an xb/xe (0 otherwise)
}

type treeWorld struct {
	mu      sync.Mutex
	e       *actor.Engine
	nodes   map[int]*tnode
	byPath  map[string]int
	gated   map[int]bool
	reached map[int]chan struct{}
	release map[int]chan struct{}
	relOnce map[int]*sync.Once
	counter int64
	evs     []tstamped
	xinfo   []treeXInfo
	xe      map[int]bool
	started [][]int
	handles []*thandle
	probes  []*treeProbe
	probeCh map[int]chan struct{}
	selfCh  map[int]chan tselfPill
	crashOf map[int]*thandle      // node -> crash handle waiting for its ActorStoppedEvent
	evSeen  map[int]chan struct{} // closed when the ActorStoppedEvent of the node was seen
	notes   []string
	maxr    int
	ctxMode int
	incs    map[int]int           // node -> incarnations created so far
	restart map[int]bool          // node -> the harness has just made it panic with budget left
	upCh    map[int]chan struct{} // node -> closed when the incarnation after a restart has handled Started
	rstops  int
}

func parseTree(raw json.RawMessage, parent *tnode, w *treeWorld) (*tnode, error) {
	var pair []json.RawMessage
	if err := json.Unmarshal(raw, &pair); err != nil || len(pair) != 2 {
		return nil, fmt.Errorf("bad tree %s", string(raw))
	}
	var id int
	if err := json.Unmarshal(pair[0], &id); err != nil {
		return nil, err
	}
	var kids []json.RawMessage
	if err := json.Unmarshal(pair[1], &kids); err != nil {
		return nil, err
	}
	n := &tnode{id: id, parent: parent}
	if parent == nil {
		n.path = "n/" + strconv.Itoa(id)
	} else {
		n.path = parent.path + "/n/" + strconv.Itoa(id)
	}
	if _, dup := w.nodes[id]; dup {
		return nil, fmt.Errorf("duplicate node id %d", id)
	}
	w.nodes[id] = n
	w.byPath[n.path] = id
	for _, k := range kids {
		c, err := parseTree(k, n, w)
		if err != nil {
			return nil, err
		}
		n.kids = append(n.kids, c)
	}
	return n, nil
}

// closureU needs w.mu (the kids lists grow when children are spawned on demand)
func (n *tnode) closureU() []int {
	out := []int{n.id}
	for _, k := range n.kids {
		out = append(out, k.closureU()...)
	}
	return out
}

func (w *treeWorld) closure(n *tnode) []int {
	w.mu.Lock()
	defer w.mu.Unlock()
	return n.closureU()
}

func (w *treeWorld) stamp(inc int, ev ...any) {
	s := atomic.AddInt64(&w.counter, 1)
	w.mu.Lock()
	w.evs = append(w.evs, tstamped{s, ev, inc})
	w.mu.Unlock()
}

func (w *treeWorld) producer(n *tnode) actor.Producer {
	return func() actor.Receiver {
		w.mu.Lock()
		w.incs[n.id]++
		inc := w.incs[n.id]
		w.mu.Unlock()
		return &treeRecv{w: w, n: n, inc: inc}
	}
}

func (w *treeWorld) childOpts(id int) []actor.OptFunc {
	o := []actor.OptFunc{actor.WithID(strconv.Itoa(id)), actor.WithMaxRestarts(w.maxr), actor.WithRestartDelay(time.Microsecond)}
	if w.ctxMode == 1 {
		ctx, cancel := context.WithCancel(context.Background())
		cancel()
		o = append(o, actor.WithContext(ctx))
	}
	return o
}

func (w *treeWorld) registered(id int) bool {
	return w.e.Registry.GetPID(w.kindOf(id), strconv.Itoa(id)) != nil
}

// kind of a node: PID.ID = kind + "/" + id
func (w *treeWorld) kindOf(id int) string {
	w.mu.Lock()
	p := w.nodes[id].path
	w.mu.Unlock()
	return p[:strings.LastIndex(p, "/")]
}

func (w *treeWorld) idOf(p *actor.PID) int {
	if p == nil {
		return -1
	}
	w.mu.Lock()
	id, ok := w.byPath[p.ID]
	w.mu.Unlock()
	if ok {
		return id
	}
	return -2 // a PID that is not a node of the tree
}

func (w *treeWorld) pidsToIDs(ps []*actor.PID) []int {
	out := []int{}
	for _, p := range ps {
		out = append(out, w.idOf(p))
	}
	sort.Ints(out)
	return out
}

type treeRecv struct {
	w   *treeWorld
	n   *tnode
	inc int
}

func (r *treeRecv) Receive(c *actor.Context) {
	w, n := r.w, r.n
	switch m := c.Message().(type) {
	case actor.Started:
		par := w.idOf(c.Parent())
		w.mu.Lock()
		w.started = append(w.started, []int{n.id, par})
		var kids []*tnode
		if r.inc == 1 {
			kids = append(kids, n.kids...)
		}
		w.mu.Unlock()
		for _, k := range kids {
			c.SpawnChild(w.producer(k), "n", w.childOpts(k.id)...)
		}
		if r.inc > 1 {
			w.mu.Lock()
			ch := w.upCh[n.id]
			delete(w.upCh, n.id)
			w.mu.Unlock()
			if ch != nil {
				close(ch)
			}
		}
	case actor.Stopped:
		w.mu.Lock()
		replaced := w.restart[n.id]
		if replaced {
			// the Stopped a failed incarnation gets before it is replaced: not the actor's stop
			w.restart[n.id] = false
			w.rstops++
		}
		w.mu.Unlock()
		if replaced {
			return
		}
		w.stamp(r.inc, "xb", n.id)
		info := treeXInfo{N: n.id, SelfReg: c.GetPID(n.path) != nil, DescReg: []int{}, Parent: w.idOf(c.Parent())}
		for _, d := range w.closure(n)[1:] {
			if w.registered(d) {
				info.DescReg = append(info.DescReg, d)
			}
		}
		sort.Ints(info.DescReg)
		info.Kids = w.pidsToIDs(c.Children())
		w.mu.Lock()
		w.xinfo = append(w.xinfo, info)
		w.mu.Unlock()
		if w.gated[n.id] {
			close(w.reached[n.id])
			select {
			case <-w.release[n.id]:
			case <-time.After(60 * time.Second):
				w.note("gate %d never released", n.id)
			}
		}
		w.mu.Lock()
		w.xe[n.id] = true
		w.mu.Unlock()
		w.stamp(r.inc, "xe", n.id)
	case tspawnMsg:
		c.SpawnChild(w.producer(m.child), "n", w.childOpts(m.child.id)...)
		close(m.ack)
	case tprobeMsg:
		w.mu.Lock()
		p := w.probes[m.k]
		w.mu.Unlock()
		kids := w.pidsToIDs(c.Children())
		par := w.idOf(c.Parent())
		w.mu.Lock()
		p.Answered, p.Kids, p.Parent = true, kids, par
		ch := w.probeCh[m.k]
		w.mu.Unlock()
		close(ch)
	case tdieMsg:
		ctx := c.Engine().Poison(c.PID())
		early := ctx.Err() != nil
		w.mu.Lock()
		ch := w.selfCh[m.k]
		w.mu.Unlock()
		ch <- tselfPill{ctx, early}
	case tboomMsg:
		panic("scripted crash")
	}
}

func (w *treeWorld) note(f string, a ...any) {
	w.mu.Lock()
	w.notes = append(w.notes, fmt.Sprintf(f, a...))
	w.mu.Unlock()
}

// markDone records the moment a handle was seen done (once).
func (w *treeWorld) markDone(k int, h *thandle) {
	h.once.Do(func() {
		alive := []int{}
		w.mu.Lock()
		tn := w.nodes[h.target]
		w.mu.Unlock()
		for _, d := range w.closure(tn) {
			w.mu.Lock()
			through := w.xe[d]
			w.mu.Unlock()
			if !through || w.registered(d) {
				alive = append(alive, d)
			}
		}
		sort.Ints(alive)
		h.alive = alive
		w.stamp(0, "done", k)
		close(h.seen)
	})
}

func (w *treeWorld) addPill(kind string, target int, ctx context.Context, early bool) {
	h := &thandle{kind: kind, target: target, ctx: ctx, seen: make(chan struct{})}
	w.mu.Lock()
	k := len(w.handles)
	w.handles = append(w.handles, h)
	w.mu.Unlock()
	if early {
		// done on return: recorded by the harness goroutine itself, before it goes on
		h.atReturn = true
		w.markDone(k, h)
		return
	}
	go func() {
		<-ctx.Done()
		w.markDone(k, h)
	}()
}

const (
	treeAwait = 8 * time.Second
	treeGate  = 8 * time.Second
	treeHold  = 1 * time.Second
)

func runTree(raw json.RawMessage) (any, error) {
	var c treeCase
	if err := json.Unmarshal(raw, &c); err != nil {
		return nil, err
	}
	e, err := actor.NewEngine(actor.NewEngineConfig())
	if err != nil {
		return nil, err
	}
	w := &treeWorld{e: e, nodes: map[int]*tnode{}, byPath: map[string]int{}, gated: map[int]bool{},
		reached: map[int]chan struct{}{}, release: map[int]chan struct{}{}, relOnce: map[int]*sync.Once{},
		xe: map[int]bool{}, probeCh: map[int]chan struct{}{}, selfCh: map[int]chan tselfPill{},
		crashOf: map[int]*thandle{}, evSeen: map[int]chan struct{}{}, maxr: c.MaxR, ctxMode: c.Ctx, incs: map[int]int{},
		restart: map[int]bool{}, upCh: map[int]chan struct{}{}}
	root, err := parseTree(c.Tree, nil, w)
	if err != nil {
		return nil, err
	}
	for id := range w.nodes {
		w.evSeen[id] = make(chan struct{})
	}
	for _, g := range c.Gates {
		if _, ok := w.nodes[g]; !ok {
			return nil, fmt.Errorf("gate on unknown node %d", g)
		}
		w.gated[g] = true
		w.reached[g] = make(chan struct{})
		w.release[g] = make(chan struct{})
		w.relOnce[g] = &sync.Once{}
	}
	releaseGate := func(g int) { w.relOnce[g].Do(func() { close(w.release[g]) }) }
	// monitor: ActorStoppedEvent of a crashed node completes its handle
	mon := e.SpawnFunc(func(ctx *actor.Context) {
		if ev, ok := ctx.Message().(actor.ActorStoppedEvent); ok {
			id := w.idOf(ev.PID)
			w.mu.Lock()
			if ch, ok := w.evSeen[id]; ok {
				select {
				case <-ch:
				default:
					close(ch)
				}
			}
			h := w.crashOf[id]
			k := -1
			for i, x := range w.handles {
				if x == h {
					k = i
				}
			}
			w.mu.Unlock()
			if h != nil && k >= 0 {
				w.markDone(k, h)
			}
		}
	}, "monitor", actor.WithID("m"))
	e.Subscribe(mon)
	// make sure the subscription is in place before anything can stop
	{
		deadline := time.Now().Add(5 * time.Second)
		es := actor.VerifEventStream(e)
		for time.Now().Before(deadline) && !(actor.VerifIdle(e, es) && actor.VerifIdle(e, mon)) {
			time.Sleep(50 * time.Microsecond)
		}
	}
	obs := treeObs{}
	spawnPanic := ""
	func() {
		defer func() {
			if v := recover(); v != nil {
				spawnPanic = fmt.Sprint(v)
			}
		}()
		e.Spawn(w.producer(root), "n", w.childOpts(root.id)...)
	}()
	if spawnPanic != "" {
		w.note("spawn panicked: %s", spawnPanic)
	}
	pidOf := func(id int) *actor.PID {
		w.mu.Lock()
		defer w.mu.Unlock()
		return actor.NewPID(e.Address(), w.nodes[id].path)
	}
	known := func(id int) bool {
		w.mu.Lock()
		defer w.mu.Unlock()
		_, ok := w.nodes[id]
		return ok
	}
	num := func(x any) int { return int(x.(float64)) }
	awaitHandle := func(k int) bool {
		w.mu.Lock()
		if k < 0 || k >= len(w.handles) {
			w.mu.Unlock()
			return true
		}
		h := w.handles[k]
		w.mu.Unlock()
		select {
		case <-h.seen:
			return true
		case <-time.After(treeAwait):
			return false
		}
	}
steps:
	for _, st := range c.Steps {
		op := st[0].(string)
		n := num(st[1])
		if op != "await" && op != "hold" {
			if !known(n) {
				return nil, fmt.Errorf("step %v on unknown node", st)
			}
		}
		switch op {
		case "poison":
			ctx := e.Poison(pidOf(n))
			w.addPill("poison", n, ctx, ctx.Err() != nil)
		case "stop":
			ctx := e.Stop(pidOf(n))
			w.addPill("stop", n, ctx, ctx.Err() != nil)
		case "self":
			ch := make(chan tselfPill, 1)
			w.mu.Lock()
			k := len(w.handles)
			w.selfCh[k] = ch
			w.mu.Unlock()
			e.Send(pidOf(n), tdieMsg{k})
			select {
			case sp := <-ch:
				w.addPill("self", n, sp.ctx, sp.early)
			case <-time.After(treeAwait):
				// the node never handled the request: a handle that is never done
				w.note("self-poison request to %d not handled", n)
				w.addPill("self", n, context.Background(), false)
			}
		case "crash":
			h := &thandle{kind: "crash", target: n, seen: make(chan struct{})}
			w.mu.Lock()
			w.handles = append(w.handles, h)
			w.crashOf[n] = h
			w.mu.Unlock()
			e.Send(pidOf(n), tboomMsg{})
		case "await":
			if !awaitHandle(n) {
				obs.Hang = true
				break steps
			}
			// a stop context can be done a moment before the target has left its parent's map (a
			// Stop/Poison that finds the PID unregistered signals at once); ActorStoppedEvent comes
			// after that, so what a later probe sees does not depend on the schedule
			w.mu.Lock()
			var tch chan struct{}
			if n >= 0 && n < len(w.handles) {
				tch = w.evSeen[w.handles[n].target]
			}
			w.mu.Unlock()
			if tch != nil {
				select {
				case <-tch:
				case <-time.After(treeAwait):
					w.note("no ActorStoppedEvent for the target of handle %d", n)
					obs.Hang = true
					break steps
				}
			}
		case "waitgate":
			select {
			case <-w.reached[n]:
			case <-time.After(treeGate):
				obs.GateTimeout = true
				break steps
			}
		case "release":
			releaseGate(n)
		case "hold":
			cnode, m := num(st[2]), int64(num(st[3]))
			if !known(cnode) {
				return nil, fmt.Errorf("step %v on unknown node", st)
			}
			w.mu.Lock()
			var h *thandle
			if n >= 0 && n < len(w.handles) {
				h = w.handles[n]
			}
			w.mu.Unlock()
			if h == nil {
				break
			}
			deadline := time.Now().Add(treeHold)
		hold:
			for time.Now().Before(deadline) {
				select {
				case <-h.seen:
					break hold
				default:
				}
				if actor.VerifQueueLen(e, pidOf(cnode)) >= m {
					break hold
				}
				time.Sleep(100 * time.Microsecond)
			}
			if len(st) > 4 {
				// linger: the ancestor stays blocked on its stopping child for this long (unless its
				// handle is done, which it should not be)
				select {
				case <-h.seen:
				case <-time.After(time.Duration(num(st[4])) * time.Millisecond):
				}
			}
		case "spawn":
			cid := num(st[2])
			if known(cid) {
				return nil, fmt.Errorf("step %v: id already in use", st)
			}
			w.mu.Lock()
			pn := w.nodes[n]
			child := &tnode{id: cid, parent: pn, path: pn.path + "/n/" + strconv.Itoa(cid)}
			pn.kids = append(pn.kids, child)
			w.nodes[cid] = child
			w.byPath[child.path] = cid
			w.evSeen[cid] = make(chan struct{})
			w.mu.Unlock()
			ack := make(chan struct{})
			e.Send(pidOf(n), tspawnMsg{child, ack})
			select {
			case <-ack:
			case <-time.After(treeAwait):
				w.note("spawn request to %d not handled", n)
				obs.Hang = true
				break steps
			}
		case "restart":
			up := make(chan struct{})
			w.mu.Lock()
			w.restart[n] = true
			w.upCh[n] = up
			w.mu.Unlock()
			e.Send(pidOf(n), tboomMsg{})
			select {
			case <-up:
			case <-time.After(treeAwait):
				w.note("%d did not come up again", n)
				obs.Hang = true
				break steps
			}
		case "probe":
			p := &treeProbe{N: n, Kids: []int{}, Parent: -1}
			ch := make(chan struct{})
			w.mu.Lock()
			k := len(w.probes)
			w.probes = append(w.probes, p)
			w.probeCh[k] = ch
			w.mu.Unlock()
			e.Send(pidOf(n), tprobeMsg{k})
			select {
			case <-ch:
			case <-time.After(treeAwait):
			}
		default:
			return nil, fmt.Errorf("unknown step %v", st)
		}
	}
	// wind down: open every gate, wait for every handle
	for g := range w.gated {
		releaseGate(g)
	}
	w.mu.Lock()
	nh := len(w.handles)
	w.mu.Unlock()
	for k := 0; k < nh; k++ {
		if !awaitHandle(k) {
			obs.Hang = true
		}
	}
	// every actor of a stopped subtree should be through Stopped by now; give
	// stragglers (a violation in itself) a moment so that the record is complete
	must := map[int]bool{}
	w.mu.Lock()
	for _, h := range w.handles {
		for _, d := range w.nodes[h.target].closureU() {
			must[d] = true
		}
	}
	w.mu.Unlock()
	deadline := time.Now().Add(2 * time.Second)
	for time.Now().Before(deadline) {
		all := true
		w.mu.Lock()
		for d := range must {
			if !w.xe[d] {
				all = false
			}
		}
		w.mu.Unlock()
		if all || obs.Hang {
			break
		}
		time.Sleep(200 * time.Microsecond)
	}
	// collect
	w.mu.Lock()
	defer w.mu.Unlock()
	sort.Slice(w.evs, func(i, j int) bool { return w.evs[i].stamp < w.evs[j].stamp })
	obs.Events = [][]any{}
	for _, s := range w.evs {
		// an xb/xe of an incarnation that was replaced afterwards is not the actor's stop
		if s.inc != 0 && s.inc != w.incs[int(s.ev[1].(int))] {
			obs.RStops++
			continue
		}
		obs.Events = append(obs.Events, s.ev)
	}
	obs.RStops = obs.RStops/2 + w.rstops
	obs.XInfo = []treeXInfo{}
	lastX := map[int]int{}
	for i, x := range w.xinfo {
		lastX[x.N] = i
	}
	for i, x := range w.xinfo {
		if lastX[x.N] == i {
			obs.XInfo = append(obs.XInfo, x)
		}
	}
	sort.Slice(obs.XInfo, func(i, j int) bool { return obs.XInfo[i].N < obs.XInfo[j].N })
	obs.Started = append([][]int{}, w.started...)
	sort.Slice(obs.Started, func(i, j int) bool { return obs.Started[i][0] < obs.Started[j][0] })
	obs.Handles = []treeHandle{}
	for _, h := range w.handles {
		done := false
		select {
		case <-h.seen:
			done = true
		default:
		}
		alive := h.alive
		if alive == nil {
			alive = []int{}
		}
		obs.Handles = append(obs.Handles, treeHandle{Kind: h.kind, Target: h.target, AtReturn: h.atReturn, Done: done, Alive: alive})
	}
	obs.Probes = []treeProbe{}
	for _, p := range w.probes {
		obs.Probes = append(obs.Probes, *p)
	}
	obs.Note = strings.Join(w.notes, "; ")
	return obs, nil
}

func init() { families["tree08"] = runTree }
