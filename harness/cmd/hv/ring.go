package main

import (
	"encoding/json"
	"fmt"

	"github.com/anthdm/hollywood/ringbuffer"
)

// ringCase: an initial capacity and an operation list.
// ops: ["push", x] | ["pop"] | ["popn", n] | ["len"]
type ringCase struct {
	Size int64   `json:"size"`
	Ops  [][]any `json:"ops"`
}

// results: ["push"] | ["pop", ok, x] | ["popn", ok, [xs]] | ["len", n]
func runRing(raw json.RawMessage) (res any, err error) {
	var c ringCase
	if err = json.Unmarshal(raw, &c); err != nil {
		return nil, err
	}
	out := make([][]any, 0, len(c.Ops))
	defer func() {
		if v := recover(); v != nil {
			// a panic is an observation, not the end of the run
			out = append(out, []any{"panic", fmt.Sprint(v)})
			res, err = out, nil
		}
	}()
	rb := ringbuffer.New[int64](c.Size)
	for _, op := range c.Ops {
		switch op[0].(string) {
		case "push":
			rb.Push(int64(op[1].(float64)))
			out = append(out, []any{"push"})
		case "pop":
			x, ok := rb.Pop()
			out = append(out, []any{"pop", ok, x})
		case "popn":
			xs, ok := rb.PopN(int64(op[1].(float64)))
			if xs == nil {
				xs = []int64{}
			}
			out = append(out, []any{"popn", ok, xs})
		case "len":
			out = append(out, []any{"len", rb.Len()})
		default:
			return nil, fmt.Errorf("bad op %v", op)
		}
	}
	return out, nil
}

func init() { families["ring"] = runRing }
