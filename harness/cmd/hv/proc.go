package main

import (
	"context"
	"encoding/json"
	"fmt"
	"sync"
	"time"

	"github.com/anthdm/hollywood/actor"
)

// procCase: one scripted actor on a fresh engine.
//
//	script rule: {"inc": i (0 = any), "on": "I"|"S"|"X"|n, "do": [["send",n],["sendnil",n],["poison"],["stop"],["panic"],["panic_internal"]]}
//	external op: ["send", n] | ["poison"] | ["stop"]  — each performed at quiescence
type procCase struct {
	MaxRestarts int        `json:"max_restarts"`
	Chain       int        `json:"chain"`
	Script      []procRule `json:"script"`
	Ops         [][]any    `json:"ops"`
	// Decoy: the chain is given as two WithMiddleware options, the first from a slice with spare
	// capacity that is also used to spawn a second, unrelated actor afterwards
	Decoy bool `json:"decoy"`
	// AsChild: the scripted actor is not spawned by Engine.Spawn but by Context.SpawnChild from a
	// parent that does nothing else (same options); its id is then p/q/t/a
	AsChild bool `json:"as_child"`
}

type spawnReq struct{}

// the scripted actor's registry kind (Registry.GetPID(kind, "a")) and full id
func (c procCase) kind() string {
	if c.AsChild {
		return "p/q/t"
	}
	return "t"
}

type procRule struct {
	Inc int     `json:"inc"`
	On  any     `json:"on"`
	Do  [][]any `json:"do"`
}

type procRecv struct {
	Inc  int  `json:"inc"`
	Msg  any  `json:"msg"` // "I" | "S" | "X" | n | "?<type>"
	Snd  bool `json:"snd"`
	Full bool `json:"full"`
}

type procPill struct {
	Done      bool `json:"done"`
	Early     bool `json:"early"`
	RegAtDone bool `json:"reg_at_done"`
}

type procObs struct {
	Recvs        []procRecv `json:"recvs"`
	Events       []any      `json:"events"`
	Pills        []procPill `json:"pills"`
	Sends        []int      `json:"sends"`
	Escaped      bool       `json:"escaped"`
	Hang         bool       `json:"hang"`
	SpawnStarted bool       `json:"spawn_started"`
	Registered   bool       `json:"registered"`
	Note         string     `json:"note,omitempty"`
}

type userMsg struct{ N int }

type pillRec struct {
	ctx       context.Context
	early     bool
	regAtDone bool
	checked   bool
	seen      chan struct{}
}

type procWorld struct {
	mu      sync.Mutex
	c       procCase
	e       *actor.Engine
	pid     *actor.PID
	recvs   []procRecv
	events  []any
	pills   []*pillRec
	sends   []int
	incs    int
	started bool
	chainAt []int // middleware ids entered for the delivery in progress
	chainOK bool
}

func msgKey(m any) any {
	switch x := m.(type) {
	case actor.Initialized:
		return "I"
	case actor.Started:
		return "S"
	case actor.Stopped:
		return "X"
	case userMsg:
		return x.N
	default:
		return fmt.Sprintf("?%T", m)
	}
}

func sameKey(a, b any) bool {
	if fa, ok := a.(float64); ok {
		a = int(fa)
	}
	if fb, ok := b.(float64); ok {
		b = int(fb)
	}
	return a == b
}

func (w *procWorld) lookup(inc int, key any) [][]any {
	for _, r := range w.c.Script {
		if (r.Inc == 0 || r.Inc == inc) && sameKey(r.On, key) {
			return r.Do
		}
	}
	return nil
}

func (w *procWorld) sent(n int) {
	w.mu.Lock()
	w.sends = append(w.sends, n)
	w.mu.Unlock()
}

// newPillAt: a Stop/Poison issued from inside the Stopped handler must not be signalled before that
// handler has returned ("done only after the target has handled Stopped").
func (w *procWorld) newPillAt(ctx context.Context, insideStopped bool) {
	w.newPill(ctx)
	if insideStopped && ctx.Err() != nil {
		w.mu.Lock()
		w.pills[len(w.pills)-1].early = true
		w.mu.Unlock()
	}
}

func (w *procWorld) newPill(ctx context.Context) {
	pr := &pillRec{ctx: ctx, seen: make(chan struct{})}
	w.mu.Lock()
	w.pills = append(w.pills, pr)
	w.mu.Unlock()
	// the waiter: the moment the context is done, is the target still registered?
	go func() {
		<-ctx.Done()
		pr.regAtDone = w.e.Registry.GetPID(w.c.kind(), "a") != nil
		close(pr.seen)
	}()
}

type scripted struct {
	w   *procWorld
	inc int
}

func (s *scripted) Receive(c *actor.Context) {
	w := s.w
	key := msgKey(c.Message())
	w.mu.Lock()
	full := w.chainOK && len(w.chainAt) == w.c.Chain
	for i, id := range w.chainAt {
		if id != i {
			full = false
		}
	}
	w.recvs = append(w.recvs, procRecv{Inc: s.inc, Msg: key, Snd: c.Sender() != nil, Full: full})
	if key == "S" {
		w.started = true
	}
	if key == "X" {
		// a Stop/Poison context that is already done now was signalled before
		// the target handled Stopped
		for _, p := range w.pills {
			if !p.checked && p.ctx.Err() != nil {
				p.checked = true
				// done before X of this (the last?) incarnation: early unless
				// the actor was already unregistered when the pill was made
				p.early = true
			}
		}
	}
	w.chainAt = nil
	w.chainOK = true
	w.mu.Unlock()
	for _, a := range w.lookup(s.inc, key) {
		switch a[0].(string) {
		case "send":
			w.sent(int(a[1].(float64)))
			c.Send(c.PID(), userMsg{int(a[1].(float64))})
		case "sendnil":
			w.sent(int(a[1].(float64)))
			c.Engine().Send(c.PID(), userMsg{int(a[1].(float64))})
		case "poison":
			w.newPillAt(c.Engine().Poison(c.PID()), key == "X")
		case "stop":
			w.newPillAt(c.Engine().Stop(c.PID()), key == "X")
		case "panic":
			panic("scripted panic")
		case "panic_internal":
			panic(&actor.InternalError{From: "script", Err: fmt.Errorf("scripted")})
		}
	}
}

func (w *procWorld) middleware(id int) actor.MiddlewareFunc {
	return func(next actor.ReceiveFunc) actor.ReceiveFunc {
		return func(c *actor.Context) {
			// deliveries to the scripted actor only (the decoy shares these middlewares). The log is
			// cleared by the receiver at the end of the chain, never here: a chain that runs its
			// middlewares twice over must show as such
			if pid := c.PID(); pid != nil && pid.ID == w.c.kind()+"/a" {
				w.mu.Lock()
				w.chainAt = append(w.chainAt, id)
				w.mu.Unlock()
			}
			next(c)
		}
	}
}

func runProc(raw json.RawMessage) (any, error) {
	var c procCase
	if err := json.Unmarshal(raw, &c); err != nil {
		return nil, err
	}
	e, err := actor.NewEngine(actor.NewEngineConfig())
	if err != nil {
		return nil, err
	}
	w := &procWorld{c: c, e: e, chainOK: true}
	// monitor: logs the engine's lifecycle events about the scripted actor
	mon := e.SpawnFunc(func(ctx *actor.Context) {
		w.mu.Lock()
		defer w.mu.Unlock()
		isOurs := func(p *actor.PID) bool { return p != nil && p.ID == c.kind()+"/a" }
		switch ev := ctx.Message().(type) {
		case actor.ActorInitializedEvent:
			if isOurs(ev.PID) {
				w.events = append(w.events, "initialized")
			}
		case actor.ActorStartedEvent:
			if isOurs(ev.PID) {
				w.events = append(w.events, "started")
			}
		case actor.ActorStoppedEvent:
			if isOurs(ev.PID) {
				w.events = append(w.events, "stopped")
			}
		case actor.ActorRestartedEvent:
			if isOurs(ev.PID) {
				w.events = append(w.events, []any{"restarted", int(ev.Restarts)})
			}
		case actor.ActorMaxRestartsExceededEvent:
			if isOurs(ev.PID) {
				w.events = append(w.events, "maxrestarts")
			}
		case actor.DeadLetterEvent:
			if isOurs(ev.Target) {
				if u, ok := ev.Message.(userMsg); ok {
					w.events = append(w.events, []any{"dead", u.N})
				} else {
					w.events = append(w.events, "deadpill")
				}
			}
		}
	}, "monitor", actor.WithID("m"))
	e.Subscribe(mon)
	es := actor.VerifEventStream(e)
	target := actor.NewPID(e.Address(), c.kind()+"/a")
	quiesce := func() bool {
		deadline := time.Now().Add(20 * time.Second)
		stable := 0
		for time.Now().Before(deadline) {
			if actor.VerifIdle(e, target) && actor.VerifIdle(e, es) && actor.VerifIdle(e, mon) {
				stable++
				if stable >= 3 {
					return true
				}
			} else {
				stable = 0
			}
			time.Sleep(50 * time.Microsecond)
		}
		return false
	}
	quiesce()
	obs := procObs{}
	finish := func() procObs {
		w.mu.Lock()
		defer w.mu.Unlock()
		obs.Recvs = append([]procRecv{}, w.recvs...)
		obs.Events = append([]any{}, w.events...)
		obs.Sends = append([]int{}, w.sends...)
		for _, p := range w.pills {
			done := p.ctx.Err() != nil
			if done {
				select {
				case <-p.seen:
				case <-time.After(time.Second):
				}
			}
			obs.Pills = append(obs.Pills, procPill{Done: done, Early: p.early, RegAtDone: p.regAtDone})
		}
		obs.Registered = e.Registry.GetPID(c.kind(), "a") != nil
		if obs.Recvs == nil {
			obs.Recvs = []procRecv{}
		}
		if obs.Events == nil {
			obs.Events = []any{}
		}
		if obs.Pills == nil {
			obs.Pills = []procPill{}
		}
		return obs
	}
	// spawn
	opts := []actor.OptFunc{actor.WithID("a"), actor.WithMaxRestarts(c.MaxRestarts), actor.WithRestartDelay(time.Microsecond)}
	var common []actor.MiddlewareFunc
	if c.Chain > 0 && !(c.Decoy && c.Chain >= 2) {
		mws := make([]actor.MiddlewareFunc, c.Chain)
		for i := range mws {
			mws[i] = w.middleware(i)
		}
		opts = append(opts, actor.WithMiddleware(mws...))
	} else if c.Chain >= 2 {
		common = make([]actor.MiddlewareFunc, c.Chain-1, c.Chain+3)
		for i := range common {
			common[i] = w.middleware(i)
		}
		opts = append(opts, actor.WithMiddleware(common...), actor.WithMiddleware(w.middleware(c.Chain-1)))
	}
	spawnPanicked := false
	producer := func() actor.Receiver {
		w.mu.Lock()
		w.incs++
		inc := w.incs
		w.mu.Unlock()
		return &scripted{w: w, inc: inc}
	}
	startedAtReturn := false
	if c.AsChild {
		back := make(chan struct{})
		parent := e.SpawnFunc(func(ctx *actor.Context) {
			if _, ok := ctx.Message().(spawnReq); !ok {
				return
			}
			defer close(back)
			defer func() {
				if v := recover(); v != nil {
					spawnPanicked = true
				}
			}()
			ctx.SpawnChild(producer, "t", opts...)
			w.mu.Lock()
			startedAtReturn = w.started
			w.mu.Unlock()
		}, "p", actor.WithID("q"))
		e.Send(parent, spawnReq{})
		select {
		case <-back:
		case <-time.After(20 * time.Second):
			obs.Hang = true
		}
	} else {
		func() {
			defer func() {
				if v := recover(); v != nil {
					spawnPanicked = true
				}
			}()
			e.Spawn(producer, "t", opts...)
		}()
		w.mu.Lock()
		startedAtReturn = w.started
		w.mu.Unlock()
	}
	obs.SpawnStarted = startedAtReturn
	if spawnPanicked {
		obs.Escaped = true
		quiesce()
		return finish(), nil
	}
	if !quiesce() {
		obs.Hang = true
		return finish(), nil
	}
	if common != nil {
		// an unrelated actor configured from the same slice of common middlewares
		foreign := func(next actor.ReceiveFunc) actor.ReceiveFunc { return func(c *actor.Context) { next(c) } }
		e.SpawnFunc(func(*actor.Context) {}, "decoy", actor.WithID("d"), actor.WithMiddleware(common...), actor.WithMiddleware(foreign))
		quiesce()
	}
	for _, op := range c.Ops {
		switch op[0].(string) {
		case "send":
			w.sent(int(op[1].(float64)))
			e.Send(target, userMsg{int(op[1].(float64))})
		case "poison":
			w.newPill(e.Poison(target))
		case "stop":
			w.newPill(e.Stop(target))
		}
		if !quiesce() {
			obs.Hang = true
			break
		}
	}
	return finish(), nil
}

func init() { families["proc"] = runProc }
