package main

import (
	"encoding/json"
	"fmt"
	"sort"
	"sync/atomic"
	"time"

	"github.com/anthdm/hollywood/actor"
	"github.com/anthdm/hollywood/remote"
	"google.golang.org/protobuf/proto"
	"google.golang.org/protobuf/reflect/protoreflect"
	"google.golang.org/protobuf/reflect/protoregistry"
)

// peerCase: a network peer addresses a well-formed envelope (a registered protobuf type, valid
// indices) to one of the node's own internal actors instead of a user actor:
//
//	"writer"  the stream writer registered under stream/<address>
//	"router"  the remote's stream router
//	"events"  the engine's event stream
//	"response" the temporary PID of a pending Request
//	"user"    an ordinary actor (control)
//
// Observation: did the node survive (a panic on any goroutine kills this harness process: the
// driver then records outcome "panic"), and did the stream end with an error.
type peerCase struct {
	Target string `json:"target"`
	Msg    string `json:"msg"` // "pid" | "test"
	N      int    `json:"n"`   // how many messages in the envelope ("streams": how many inbound streams at once)
	Rounds int    `json:"rounds,omitempty"`
}

type peerObs struct {
	Outcome string `json:"outcome"` // "ok" | "error" | "panic"
	Note    string `json:"note,omitempty"`
}

func runPeer(raw json.RawMessage) (any, error) {
	var c peerCase
	if err := json.Unmarshal(raw, &c); err != nil {
		return nil, err
	}
	r := remote.New(freeAddr(), remote.NewConfig())
	e, err := actor.NewEngine(actor.NewEngineConfig().WithRemote(r))
	if err != nil {
		return nil, err
	}
	defer r.Stop()
	if c.Target == "streams" {
		return runStreams(e, c)
	}
	var target *actor.PID
	switch c.Target {
	case "writer":
		target = remote.VerifSpawnIdleWriter(e, "203.0.113.9:4000")
	case "router":
		target = remote.VerifRouterPID(r)
	case "events":
		target = actor.VerifEventStream(e)
	case "response":
		resp := e.Request(actor.NewPID(e.Address(), "nobody/x"), &actor.Ping{}, 2*time.Second)
		target = resp.PID()
		defer resp.Result()
	default:
		target = e.SpawnFunc(func(*actor.Context) {}, "user", actor.WithID("u"))
	}
	var msg proto.Message = &actor.PID{Address: "v", ID: "1"}
	if c.Msg == "test" {
		msg = &remote.TestMessage{Data: []byte("1")}
	}
	data, err := proto.Marshal(msg)
	if err != nil {
		return nil, err
	}
	env := &remote.Envelope{TypeNames: []string{string(proto.MessageName(msg))}, Targets: []*actor.PID{target}}
	if c.N < 1 {
		c.N = 1
	}
	for i := 0; i < c.N; i++ {
		env.Messages = append(env.Messages, &remote.Message{Data: data, TypeNameIndex: 0, TargetIndex: 0, SenderIndex: -1})
	}
	wire, err := env.MarshalVT()
	if err != nil {
		return nil, err
	}
	rerr, pv := remote.VerifReaderReceive(e, [][]byte{wire})
	obs := peerObs{Outcome: "ok"}
	if pv != nil {
		obs.Outcome, obs.Note = "panic", fmt.Sprint(pv)
	} else if rerr != nil {
		obs.Outcome, obs.Note = "error", rerr.Error()
	}
	// let the addressed actor handle what it was sent; a panic there kills this process
	for i := 0; i < 400 && !actor.VerifIdle(e, target); i++ {
		time.Sleep(time.Millisecond)
	}
	time.Sleep(150 * time.Millisecond)
	return obs, nil
}

// runStreams: c.N peers open their streams to a node that has just come up (a fresh stream
// reader per round, exactly what Remote.Start builds) at the same moment; each stream carries
// one valid envelope with one (empty, hence decodable) message of every protobuf message type
// linked into this binary, addressed to a user actor.  Every message must arrive and the node
// must survive.
func runStreams(e *actor.Engine, c peerCase) (any, error) {
	var names []string
	protoregistry.GlobalTypes.RangeMessages(func(mt protoreflect.MessageType) bool {
		// an empty payload must decode (proto2 messages with required fields do not)
		if proto.Unmarshal(nil, mt.New().Interface()) == nil {
			names = append(names, string(mt.Descriptor().FullName()))
		}
		return true
	})
	sort.Strings(names)
	var got atomic.Int64
	sink := e.SpawnFunc(func(ctx *actor.Context) {
		switch ctx.Message().(type) {
		case actor.Initialized, actor.Started, actor.Stopped:
		default:
			got.Add(1)
		}
	}, "user", actor.WithID("sink"))
	if c.N < 2 {
		c.N = 2
	}
	if c.Rounds < 1 {
		c.Rounds = 1
	}
	wires := make([][][]byte, c.N)
	for i := range wires {
		// each peer lists the type names in an order of its own
		env := &remote.Envelope{Targets: []*actor.PID{sink}}
		for j := range names {
			env.TypeNames = append(env.TypeNames, names[(j+i*7)%len(names)])
			env.Messages = append(env.Messages, &remote.Message{TypeNameIndex: int32(j), TargetIndex: 0, SenderIndex: -1})
		}
		w, err := env.MarshalVT()
		if err != nil {
			return nil, err
		}
		wires[i] = [][]byte{w}
	}
	obs := peerObs{Outcome: "ok"}
	want := int64(0)
	for r := 0; r < c.Rounds && obs.Outcome == "ok"; r++ {
		errs, pv := remote.VerifReaderReceiveConcurrent(e, wires)
		want += int64(c.N * len(names))
		if pv != nil {
			obs.Outcome, obs.Note = "panic", fmt.Sprint(pv)
		}
		for _, err := range errs {
			if err != nil && obs.Outcome == "ok" {
				obs.Outcome, obs.Note = "error", err.Error()
			}
		}
	}
	for i := 0; i < 30000 && got.Load() < want && obs.Outcome == "ok"; i++ {
		time.Sleep(time.Millisecond)
	}
	if obs.Outcome == "ok" && got.Load() != want {
		obs.Outcome, obs.Note = "panic", fmt.Sprintf("%d of %d valid messages delivered", got.Load(), want)
	}
	return obs, nil
}

func init() { families["peer16"] = runPeer }
