package main

import (
	"encoding/json"
	"fmt"
	"time"

	"github.com/anthdm/hollywood/actor"
	"github.com/anthdm/hollywood/remote"
	"google.golang.org/protobuf/proto"
)

// peerCase: a network peer addresses a well-formed envelope (a registered protobuf type, valid
// indices) to one of the node's own internal actors instead of a user actor:
//
//	"writer"  the stream writer registered under stream/<address>
//	"router"  the remote's stream router
//	"events"  the engine's event stream
//	"response" the temporary PID of a pending Request
//	"user"    an ordinary actor (control)
//
// Observation: did the node survive (a panic on any goroutine kills this harness process: the
// driver then records outcome "panic"), and did the stream end with an error.
type peerCase struct {
	Target string `json:"target"`
	Msg    string `json:"msg"` // "pid" | "test"
	N      int    `json:"n"`   // how many messages in the envelope
}

type peerObs struct {
	Outcome string `json:"outcome"` // "ok" | "error" | "panic"
	Note    string `json:"note,omitempty"`
}

func runPeer(raw json.RawMessage) (any, error) {
	var c peerCase
	if err := json.Unmarshal(raw, &c); err != nil {
		return nil, err
	}
	r := remote.New(freeAddr(), remote.NewConfig())
	e, err := actor.NewEngine(actor.NewEngineConfig().WithRemote(r))
	if err != nil {
		return nil, err
	}
	defer r.Stop()
	var target *actor.PID
	switch c.Target {
	case "writer":
		target = remote.VerifSpawnIdleWriter(e, "203.0.113.9:4000")
	case "router":
		target = remote.VerifRouterPID(r)
	case "events":
		target = actor.VerifEventStream(e)
	case "response":
		resp := e.Request(actor.NewPID(e.Address(), "nobody/x"), &actor.Ping{}, 2*time.Second)
		target = resp.PID()
		defer resp.Result()
	default:
		target = e.SpawnFunc(func(*actor.Context) {}, "user", actor.WithID("u"))
	}
	var msg proto.Message = &actor.PID{Address: "v", ID: "1"}
	if c.Msg == "test" {
		msg = &remote.TestMessage{Data: []byte("1")}
	}
	data, err := proto.Marshal(msg)
	if err != nil {
		return nil, err
	}
	env := &remote.Envelope{TypeNames: []string{string(proto.MessageName(msg))}, Targets: []*actor.PID{target}}
	if c.N < 1 {
		c.N = 1
	}
	for i := 0; i < c.N; i++ {
		env.Messages = append(env.Messages, &remote.Message{Data: data, TypeNameIndex: 0, TargetIndex: 0, SenderIndex: -1})
	}
	wire, err := env.MarshalVT()
	if err != nil {
		return nil, err
	}
	rerr, pv := remote.VerifReaderReceive(e, [][]byte{wire})
	obs := peerObs{Outcome: "ok"}
	if pv != nil {
		obs.Outcome, obs.Note = "panic", fmt.Sprint(pv)
	} else if rerr != nil {
		obs.Outcome, obs.Note = "error", rerr.Error()
	}
	// let the addressed actor handle what it was sent; a panic there kills this process
	for i := 0; i < 400 && !actor.VerifIdle(e, target); i++ {
		time.Sleep(time.Millisecond)
	}
	time.Sleep(150 * time.Millisecond)
	return obs, nil
}

func init() { families["peer16"] = runPeer }
