package main

// Family cluster19 — C19: 1..4 real cluster.Cluster instances in one process,
// joined by an in-memory actor.Remoter (every message that crosses nodes goes
// through a protobuf encode/decode and is handed to the destination engine's
// SendLocal), do-nothing providers, membership injected by the harness as
// *cluster.Members sent to every agent.
//
// case:  {"kinds": [[kind...] per node], "ops": [op...]}
//   op = ["activate", node, kind, id, selectIdx]
//      | ["spawn", node, kind, id]                 (Cluster.Spawn)
//      | ["deactivate", node, host, kind, id]      (host -1: the PID the node's own view resolves kind/id to)
//      | ["snap", [node...]]                       (new membership; "join"/"leave" are the single-change forms)
//      | ["join", node] | ["leave", node]
// Node i has member id n<i> and address h<i>:1; kinds 0..2 are spelled k0..k2
// and kind 3 is spelled "k0/x" (the boundary of GetActiveByKind's split).  A
// node that is dropped from the membership is gone for good (its engine is
// detached from the network); the same number joining again is a fresh node.
//
// After each op the harness waits for quiescence (no message inside the
// network, a round trip to every agent, repeated until two passes in a row saw
// no traffic) and then records, for every member node: GetActiveByID for every
// key of the case, GetActiveByKind / HasKind for the 4 kinds, which keys its
// engine's registry holds, and the Activation/Deactivation events it
// published; plus the value returned by Activate/Spawn and which actors were
// started and stopped during the op.

import (
	"encoding/json"
	"fmt"
	"sort"
	"sync"
	"sync/atomic"
	"time"

	"github.com/anthdm/hollywood/actor"
	"github.com/anthdm/hollywood/cluster"
	"github.com/anthdm/hollywood/remote"
	"google.golang.org/protobuf/proto"
)

// ------------------------------------------------------------ the network

type cnNet struct {
	mu       sync.RWMutex
	engines  map[string]*actor.Engine
	inflight int64 // messages between Send and the end of SendLocal
	total    int64 // messages ever sent
	lost     int64 // undeliverable (unknown address, not protobuf, codec error)
	// lazy: like the real remote, Send only queues the message VALUE it was given (a pointer) on the link to the
	// destination; a goroutine per link encodes and delivers it later, in order.  A sender that goes on
	// modifying what it has sent (re-used slices) then shows, as it does over TCP.
	lazy  bool
	links map[string]chan cnItem
}

type cnItem struct {
	pid, sender *actor.PID
	msg         any
}

func (n *cnNet) link(src, dst string) chan cnItem {
	n.mu.Lock()
	defer n.mu.Unlock()
	if n.links == nil {
		n.links = map[string]chan cnItem{}
	}
	k := src + ">" + dst
	ch := n.links[k]
	if ch == nil {
		ch = make(chan cnItem, 1<<16)
		n.links[k] = ch
		go func() {
			for it := range ch {
				n.deliver(it.pid, it.msg, it.sender)
				atomic.AddInt64(&n.inflight, -1)
			}
		}()
	}
	return ch
}

type cnRemote struct {
	net  *cnNet
	addr string
}

func (r *cnRemote) Address() string           { return r.addr }
func (r *cnRemote) Start(*actor.Engine) error { return nil }
func (r *cnRemote) Stop() *sync.WaitGroup     { return &sync.WaitGroup{} }

func cnRoundTrip(msg any) (any, bool) {
	if _, ok := msg.(proto.Message); !ok {
		return nil, false
	}
	ser := remote.ProtoSerializer{}
	b, err := ser.Serialize(msg)
	if err != nil {
		return nil, false
	}
	out, err := ser.Deserialize(b, ser.TypeName(msg))
	if err != nil {
		return nil, false
	}
	return out, true
}

func (r *cnRemote) Send(pid *actor.PID, msg any, sender *actor.PID) {
	n := r.net
	atomic.AddInt64(&n.inflight, 1)
	atomic.AddInt64(&n.total, 1)
	if n.lazy {
		n.link(r.addr, pid.Address) <- cnItem{pid, sender, msg}
		return
	}
	defer atomic.AddInt64(&n.inflight, -1)
	n.deliver(pid, msg, sender)
}

func (n *cnNet) deliver(pid *actor.PID, msg any, sender *actor.PID) {
	n.mu.RLock()
	dst := n.engines[pid.Address]
	n.mu.RUnlock()
	m2, ok := cnRoundTrip(msg)
	if dst == nil || !ok {
		atomic.AddInt64(&n.lost, 1)
		return
	}
	var to, from *actor.PID
	if p, ok := cnRoundTrip(pid); ok {
		to = p.(*actor.PID)
	}
	if sender != nil {
		if p, ok := cnRoundTrip(sender); ok {
			from = p.(*actor.PID)
		}
	}
	if to == nil {
		atomic.AddInt64(&n.lost, 1)
		return
	}
	dst.SendLocal(to, m2, from)
}

// ------------------------------------------------------------------ nodes

func cnKindSpelling(k int) string {
	if k == 3 {
		return "k0/x"
	}
	return kindName(k)
}

func cnHostNum(addr string) int { return hostNum(addr) }

type cnPid struct {
	Host int    `json:"host"`
	Key  string `json:"key"`
}

func cnToPid(p *actor.PID) *cnPid {
	if p == nil {
		return nil
	}
	return &cnPid{Host: cnHostNum(p.Address), Key: p.ID}
}

type cnEv struct {
	T    string `json:"t"` // "A" ActivationEvent, "D" DeactivationEvent
	Host int    `json:"host"`
	Key  string `json:"key"`
}

type cnLife struct {
	Node int    `json:"node"`
	Key  string `json:"key"`
}

type cnNode struct {
	idx     int
	e       *actor.Engine
	cl      *cluster.Cluster
	monitor *actor.PID
	mu      sync.Mutex
	events  []cnEv
	flushed chan int
}

type cnWorld struct {
	net     *cnNet
	kinds   [][]int
	nodes   map[int]*cnNode
	lmu     sync.Mutex
	started []cnLife
	stopped []cnLife
}

// the actors the cluster activates: they only report their own start and stop
type cnTracked struct {
	w    *cnWorld
	node int
}

func (t *cnTracked) Receive(c *actor.Context) {
	switch c.Message().(type) {
	case actor.Started:
		t.w.lmu.Lock()
		t.w.started = append(t.w.started, cnLife{t.node, c.PID().ID})
		t.w.lmu.Unlock()
	case actor.Stopped:
		t.w.lmu.Lock()
		t.w.stopped = append(t.w.stopped, cnLife{t.node, c.PID().ID})
		t.w.lmu.Unlock()
	}
}

func (w *cnWorld) producer(node int) actor.Producer {
	return func() actor.Receiver { return &cnTracked{w: w, node: node} }
}

const reqTimeout19 = 20 * time.Second

func (w *cnWorld) newNode(i int) (*cnNode, error) {
	addr := hostName(i)
	e, err := actor.NewEngine(actor.NewEngineConfig().WithRemote(&cnRemote{net: w.net, addr: addr}))
	if err != nil {
		return nil, err
	}
	cl, err := cluster.New(cluster.NewConfig().WithEngine(e).WithID(idName(i)).
		WithProvider(noopProvider).WithRequestTimeout(reqTimeout19))
	if err != nil {
		return nil, err
	}
	if i < len(w.kinds) {
		for _, k := range w.kinds[i] {
			cl.RegisterKind(cnKindSpelling(k), w.producer(i), cluster.NewKindConfig())
		}
	}
	n := &cnNode{idx: i, e: e, cl: cl, flushed: make(chan int, 64)}
	n.monitor = e.SpawnFunc(func(ctx *actor.Context) {
		switch ev := ctx.Message().(type) {
		case cluster.ActivationEvent:
			n.mu.Lock()
			n.events = append(n.events, cnEv{"A", cnHostNum(ev.PID.GetAddress()), ev.PID.GetID()})
			n.mu.Unlock()
		case cluster.DeactivationEvent:
			n.mu.Lock()
			n.events = append(n.events, cnEv{"D", cnHostNum(ev.PID.GetAddress()), ev.PID.GetID()})
			n.mu.Unlock()
		case flushEvent:
			n.flushed <- ev.n
		}
	}, "monitor", actor.WithID("c19"))
	e.Subscribe(n.monitor)
	cl.Start()
	w.net.mu.Lock()
	w.net.engines[addr] = e
	w.net.mu.Unlock()
	return n, nil
}

func (w *cnWorld) sortedNodes() []*cnNode {
	out := make([]*cnNode, 0, len(w.nodes))
	for _, n := range w.nodes {
		out = append(out, n)
	}
	sort.Slice(out, func(i, j int) bool { return out[i].idx < out[j].idx })
	return out
}

// quiesce: nothing inside the network and every agent has answered a request
// that was queued behind everything it had received; until two consecutive
// passes saw no network traffic at all.
func (w *cnWorld) quiesce() string {
	deadline := time.Now().Add(3 * reqTimeout19)
	stable := 0
	for stable < 2 {
		before := atomic.LoadInt64(&w.net.total)
		for atomic.LoadInt64(&w.net.inflight) != 0 {
			if time.Now().After(deadline) {
				return "network never drained"
			}
			time.Sleep(50 * time.Microsecond)
		}
		for _, n := range w.sortedNodes() {
			n.cl.Members()
		}
		if atomic.LoadInt64(&w.net.total) == before && atomic.LoadInt64(&w.net.inflight) == 0 {
			stable++
		} else {
			stable = 0
		}
		if time.Now().After(deadline) {
			return "no quiescence"
		}
	}
	return ""
}

type cnNodeObs struct {
	N       int       `json:"n"`
	ByID    []int     `json:"byid"`   // host of GetActiveByID(key) per key of the case, -1: nil
	ByKind  [][]cnPid `json:"bykind"` // GetActiveByKind per kind 0..3, sorted
	HasKind []bool    `json:"haskind"`
	Reg     []bool    `json:"reg"` // engine registry holds key, per key of the case
	Events  []cnEv    `json:"events"`
}

type cnOpObs struct {
	Res     *cnPid      `json:"res"`
	Started []cnLife    `json:"started"`
	Stopped []cnLife    `json:"stopped"`
	Nodes   []cnNodeObs `json:"nodes"`
	Err     string      `json:"err,omitempty"`
}

type cnKey struct {
	kind int
	id   string
}

func (k cnKey) key() string { return cnKindSpelling(k.kind) + "/" + k.id }

const kindUniverse19 = 4

type cnCase struct {
	Kinds [][]int             `json:"kinds"`
	Ops   [][]json.RawMessage `json:"ops"`
	Lazy  bool                `json:"lazy,omitempty"`
}

func cnSortLife(l []cnLife) []cnLife {
	out := append([]cnLife{}, l...)
	sort.Slice(out, func(i, j int) bool {
		if out[i].Node != out[j].Node {
			return out[i].Node < out[j].Node
		}
		return out[i].Key < out[j].Key
	})
	return out
}

func runCluster19(raw json.RawMessage) (res any, err error) {
	var c cnCase
	if err = json.Unmarshal(raw, &c); err != nil {
		return nil, err
	}
	quiet()
	out := make([]cnOpObs, 0, len(c.Ops))
	defer func() {
		if v := recover(); v != nil {
			out = append(out, cnOpObs{Err: "panic: " + fmt.Sprint(v)})
			res, err = out, nil
		}
	}()
	w := &cnWorld{net: &cnNet{engines: map[string]*actor.Engine{}, lazy: c.Lazy}, kinds: c.Kinds, nodes: map[int]*cnNode{}}

	// decode the ops and collect the keys of the case (first-use order)
	type dop struct {
		name       string
		node, kind int
		id         string
		sel, host  int
		ids        []int
	}
	ops := make([]dop, 0, len(c.Ops))
	var keys []cnKey
	seen := map[string]bool{}
	geti := func(r json.RawMessage) (int, error) { var v int; e := json.Unmarshal(r, &v); return v, e }
	gets := func(r json.RawMessage) (string, error) { var v string; e := json.Unmarshal(r, &v); return v, e }
	for _, o := range c.Ops {
		var d dop
		if len(o) == 0 {
			return nil, fmt.Errorf("empty op")
		}
		if d.name, err = gets(o[0]); err != nil {
			return nil, err
		}
		need := map[string]int{"activate": 5, "spawn": 4, "deactivate": 5, "snap": 2, "join": 2, "leave": 2, "join_to": 3}[d.name]
		if need == 0 || len(o) != need {
			return nil, fmt.Errorf("bad op %s", string(o[0]))
		}
		switch d.name {
		case "activate":
			d.node, _ = geti(o[1])
			d.kind, _ = geti(o[2])
			d.id, _ = gets(o[3])
			d.sel, _ = geti(o[4])
		case "spawn":
			d.node, _ = geti(o[1])
			d.kind, _ = geti(o[2])
			d.id, _ = gets(o[3])
		case "deactivate":
			d.node, _ = geti(o[1])
			d.host, _ = geti(o[2])
			d.kind, _ = geti(o[3])
			d.id, _ = gets(o[4])
		case "snap":
			if err = json.Unmarshal(o[1], &d.ids); err != nil {
				return nil, err
			}
		case "join_to":
			d.node, _ = geti(o[1])
			if err = json.Unmarshal(o[2], &d.ids); err != nil {
				return nil, err
			}
		default:
			d.node, _ = geti(o[1])
		}
		if d.name == "activate" || d.name == "spawn" || d.name == "deactivate" {
			k := cnKey{d.kind, d.id}
			if !seen[k.key()] {
				seen[k.key()] = true
				keys = append(keys, k)
			}
		}
		ops = append(ops, d)
	}

	var only map[int]bool // when set: the member list is sent to these nodes only (a membership change that spreads)
	snapshot := func(ids []int) error {
		want := map[int]bool{}
		for _, i := range ids {
			want[i] = true
		}
		for i, n := range w.nodes {
			if !want[i] {
				w.net.mu.Lock()
				delete(w.net.engines, hostName(i))
				w.net.mu.Unlock()
				delete(w.nodes, i)
				_ = n
			}
		}
		for i := range want {
			if w.nodes[i] == nil {
				n, err := w.newNode(i)
				if err != nil {
					return err
				}
				w.nodes[i] = n
			}
		}
		ns := w.sortedNodes()
		for _, n := range ns {
			if only != nil && !only[n.idx] {
				continue
			}
			ms := make([]*cluster.Member, 0, len(ns))
			for _, m := range ns {
				ms = append(ms, m.cl.Member())
			}
			n.e.Send(n.cl.PID(), &cluster.Members{Members: ms})
		}
		return nil
	}

	for step, d := range ops {
		o := cnOpObs{}
		w.lmu.Lock()
		w.started, w.stopped = nil, nil
		w.lmu.Unlock()
		var awaitGone []*cnNode // nodes on which key must leave the registry
		var awaitKey cnKey
		n := w.nodes[d.node]
		switch d.name {
		case "activate":
			if n == nil {
				o.Err = "op from a node that is not a member"
				break
			}
			sel := d.sel
			cfg := cluster.NewActivationConfig().WithID(d.id).WithSelectMemberFunc(
				func(det cluster.ActivationDetails) *cluster.Member {
					ms := append([]*cluster.Member{}, det.Members...)
					sort.Slice(ms, func(i, j int) bool { return idNum(ms[i].ID) < idNum(ms[j].ID) })
					if sel < 0 || sel >= len(ms) {
						return nil
					}
					return ms[sel]
				})
			o.Res = cnToPid(n.cl.Activate(cnKindSpelling(d.kind), cfg))
		case "spawn":
			if n == nil {
				o.Err = "op from a node that is not a member"
				break
			}
			o.Res = cnToPid(n.cl.Spawn(w.producer(d.node), cnKindSpelling(d.kind), actor.WithID(d.id)))
		case "deactivate":
			if n == nil {
				o.Err = "op from a node that is not a member"
				break
			}
			k := cnKey{d.kind, d.id}
			var pid *actor.PID
			if d.host < 0 {
				pid = n.cl.GetActiveByID(k.key())
			} else {
				pid = actor.NewPID(hostName(d.host), k.key())
			}
			if pid != nil {
				view := map[int]bool{}
				for _, m := range n.cl.Members() {
					view[idNum(m.ID)] = true
				}
				for _, x := range w.sortedNodes() {
					if view[x.idx] {
						awaitGone = append(awaitGone, x)
					}
				}
				awaitKey = k
				n.cl.Deactivate(pid)
			}
		case "join":
			ids := []int{d.node}
			for i := range w.nodes {
				if i != d.node {
					ids = append(ids, i)
				}
			}
			if err = snapshot(ids); err != nil {
				return nil, err
			}
		case "leave":
			ids := []int{}
			for i := range w.nodes {
				if i != d.node {
					ids = append(ids, i)
				}
			}
			if err = snapshot(ids); err != nil {
				return nil, err
			}
		case "snap":
			if err = snapshot(d.ids); err != nil {
				return nil, err
			}
		case "join_to":
			// node d.node is (or becomes) a member; only the agents of d.ids are told the member list now
			ids := []int{d.node}
			for i := range w.nodes {
				if i != d.node {
					ids = append(ids, i)
				}
			}
			only = map[int]bool{}
			for _, i := range d.ids {
				only[i] = true
			}
			err = snapshot(ids)
			only = nil
			if err != nil {
				return nil, err
			}
		}
		if q := w.quiesce(); q != "" && o.Err == "" {
			o.Err = q
		}
		// "stops the actor": every node that was told to deactivate poisons its
		// local actor of that id; the stop itself is asynchronous — wait for
		// the registry entry to go (bounded: a missing stop is an observation)
		if len(awaitGone) > 0 {
			limit := time.Now().Add(3 * time.Second)
			for _, x := range awaitGone {
				for x.e.Registry.GetPID(cnKindSpelling(awaitKey.kind), awaitKey.id) != nil && time.Now().Before(limit) {
					time.Sleep(100 * time.Microsecond)
				}
			}
			if q := w.quiesce(); q != "" && o.Err == "" {
				o.Err = q
			}
		}
		// flush the event streams
		for _, x := range w.sortedNodes() {
			x.e.BroadcastEvent(flushEvent{step})
		}
		for _, x := range w.sortedNodes() {
			select {
			case <-x.flushed:
			case <-time.After(waitLong):
				if o.Err == "" {
					o.Err = "monitor flush timeout"
				}
			}
		}
		w.lmu.Lock()
		o.Started, o.Stopped = cnSortLife(w.started), cnSortLife(w.stopped)
		w.lmu.Unlock()
		for _, x := range w.sortedNodes() {
			no := cnNodeObs{N: x.idx}
			for _, k := range keys {
				h := -1
				if p := x.cl.GetActiveByID(k.key()); p != nil {
					h = cnHostNum(p.Address)
					if p.ID != k.key() {
						h = -2
					}
				}
				no.ByID = append(no.ByID, h)
				no.Reg = append(no.Reg, x.e.Registry.GetPID(cnKindSpelling(k.kind), k.id) != nil)
			}
			for k := 0; k < kindUniverse19; k++ {
				l := []cnPid{}
				for _, p := range x.cl.GetActiveByKind(cnKindSpelling(k)) {
					if p != nil {
						l = append(l, *cnToPid(p))
					}
				}
				sort.Slice(l, func(i, j int) bool {
					if l[i].Key != l[j].Key {
						return l[i].Key < l[j].Key
					}
					return l[i].Host < l[j].Host
				})
				no.ByKind = append(no.ByKind, l)
				no.HasKind = append(no.HasKind, x.cl.HasKind(cnKindSpelling(k)))
			}
			x.mu.Lock()
			no.Events = append([]cnEv{}, x.events...)
			x.events = nil
			x.mu.Unlock()
			sort.Slice(no.Events, func(i, j int) bool {
				a, b := no.Events[i], no.Events[j]
				if a.T != b.T {
					return a.T < b.T
				}
				if a.Key != b.Key {
					return a.Key < b.Key
				}
				return a.Host < b.Host
			})
			if no.ByID == nil {
				no.ByID = []int{}
			}
			if no.Reg == nil {
				no.Reg = []bool{}
			}
			o.Nodes = append(o.Nodes, no)
		}
		if o.Nodes == nil {
			o.Nodes = []cnNodeObs{}
		}
		out = append(out, o)
	}
	return out, nil
}

func init() {
	families["cluster19"] = runCluster19
}
