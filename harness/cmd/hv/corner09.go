package main

import (
	"encoding/json"
	"fmt"
	"strconv"
	"strings"
	"sync"
	"sync/atomic"
	"time"

	"github.com/anthdm/hollywood/actor"
	"github.com/anthdm/hollywood/remote"
)

// corner09: unusual inputs for "sending never panics or blocks, a finite number of sends produces a
// finite number of events, an undeliverable message surfaces exactly once":
//
//	"nilmsg"        a nil message sent to an unregistered PID
//	"events_gone"   the event stream actor itself has been stopped, then a send to an unregistered PID
//	"sub_response"  the temporary PID of a pending Request is subscribed to the event stream, then k events
//	"sub_self"      the event stream's own PID is subscribed to itself, then k events
//	"concurrent_stops" 12 rounds: k actors are poisoned at the same moment by k goroutines, and when all the stop contexts
//	                are done one message is sent to each: k dead letters per round, and no PID is registered any more
//	"nil_targets"   Send / SendWithSender / SendLocal / Poison / Stop / Request with a nil PID: no panic, nobody blocks,
//	                SendLocal(nil) and the two pills are one dead letter each (target nil), Send(nil) is dropped
//	"send_in_stopped" an actor is poisoned and held inside its Stopped handler (it is still registered there); k messages
//	                are sent to it at that moment, then it is released: every one of them is one dead letter, none is lost
//	"remote_dead_sub" on an engine configured with a remote: a subscriber stops without unsubscribing, then k events
//
// Observation: how many DeadLetterEvents a monitor saw for the probe, whether the engine came to
// rest, whether the sending goroutine panicked.  A panic on another goroutine kills the process
// (the driver records outcome "panic").
type corner09Case struct {
	Kind string `json:"kind"`
	K    int    `json:"k"`
}

type corner09Obs struct {
	Outcome string `json:"outcome"` // "ok" | "panic" | "diverged" | "blocked" | "registered"
	Dead    int    `json:"dead"`    // dead letters for the probe target seen by the monitor
	Events  int64  `json:"events"`  // everything the monitor saw
	Note    string `json:"note,omitempty"`
}

type cornerMsg struct{ N int }

func runCorner09(raw json.RawMessage) (any, error) {
	var c corner09Case
	if err := json.Unmarshal(raw, &c); err != nil {
		return nil, err
	}
	cfg := actor.NewEngineConfig()
	if c.Kind == "remote_dead_sub" {
		// an engine that has a remote: its own address is not "local"
		r := remote.New(freeAddr(), remote.NewConfig())
		defer r.Stop()
		cfg = cfg.WithRemote(r)
	}
	e, err := actor.NewEngine(cfg)
	if err != nil {
		return nil, err
	}
	var total, dead atomic.Int64
	mon := e.SpawnFunc(func(ctx *actor.Context) {
		switch m := ctx.Message().(type) {
		case actor.Initialized, actor.Started, actor.Stopped:
		case actor.DeadLetterEvent:
			total.Add(1)
			if m.Target != nil && (m.Target.ID == "nobody/x" || strings.HasPrefix(m.Target.ID, "cs/")) {
				dead.Add(1)
			}
			if m.Target != nil && m.Target.ID == "held/x" {
				if _, isMsg := m.Message.(cornerMsg); isMsg {
					dead.Add(1)
				}
			}
			if m.Target == nil && c.Kind == "nil_targets" {
				dead.Add(1)
			}
		default:
			total.Add(1)
		}
	}, "mon", actor.WithID("m"))
	e.Subscribe(mon)
	es := actor.VerifEventStream(e)
	rest := func() bool {
		deadline := time.Now().Add(8 * time.Second)
		stable := 0
		for time.Now().Before(deadline) {
			if total.Load() > 20000 {
				return false
			}
			if actor.VerifIdle(e, es) && actor.VerifIdle(e, mon) {
				stable++
				if stable >= 5 {
					return true
				}
			} else {
				stable = 0
			}
			time.Sleep(200 * time.Microsecond)
		}
		return false
	}
	rest()
	obs := corner09Obs{Outcome: "ok"}
	nobody := actor.NewPID(e.Address(), "nobody/x")
	done := make(chan struct{})
	go func() {
		defer close(done)
		defer func() {
			if v := recover(); v != nil {
				obs.Outcome, obs.Note = "panic", fmt.Sprint(v)
			}
		}()
		switch c.Kind {
		case "nilmsg":
			e.Send(nobody, nil)
		case "nil_targets":
			e.Send(nil, cornerMsg{1})
			e.SendWithSender(nil, cornerMsg{2}, mon)
			e.SendLocal(nil, cornerMsg{3}, nil)
			<-e.Poison(nil).Done()
			<-e.Stop(nil).Done()
			if _, err := e.Request(nil, cornerMsg{4}, 20*time.Millisecond).Result(); err == nil {
				obs.Note = "a request to a nil PID got a reply"
			}
		case "send_in_stopped":
			inStopped, release := make(chan struct{}), make(chan struct{})
			held := e.SpawnFunc(func(ctx *actor.Context) {
				if _, ok := ctx.Message().(actor.Stopped); ok {
					close(inStopped)
					<-release
				}
			}, "held", actor.WithID("x"))
			stop := e.Poison(held)
			<-inStopped
			for i := 0; i < c.K; i++ {
				e.Send(held, cornerMsg{i})
			}
			close(release)
			<-stop.Done()
		case "events_gone":
			<-e.Poison(es).Done()
			e.Send(nobody, cornerMsg{1})
		case "sub_response":
			resp := e.Request(actor.NewPID(e.Address(), "nobody/y"), cornerMsg{0}, 3*time.Second)
			e.Subscribe(resp.PID())
			for i := 0; i < c.K; i++ {
				e.BroadcastEvent(cornerMsg{i})
			}
			rest()
			resp.Result()
		case "remote_dead_sub":
			a := e.SpawnFunc(func(*actor.Context) {}, "sub", actor.WithID("a"))
			e.Subscribe(a)
			rest()
			<-e.Poison(a).Done()
			for i := 0; i < c.K; i++ {
				e.BroadcastEvent(cornerMsg{i})
			}
		case "concurrent_stops":
			for round := 0; round < 12; round++ {
				pids := make([]*actor.PID, c.K)
				for i := range pids {
					pids[i] = e.SpawnFunc(func(*actor.Context) {}, "cs", actor.WithID(strconv.Itoa(round)+"-"+strconv.Itoa(i)))
				}
				var wg sync.WaitGroup
				start := make(chan struct{})
				for _, p := range pids {
					p := p
					wg.Add(1)
					go func() {
						defer wg.Done()
						<-start
						<-e.Poison(p).Done()
					}()
				}
				close(start)
				wg.Wait()
				for i, p := range pids {
					if e.Registry.GetPID("cs", strconv.Itoa(round)+"-"+strconv.Itoa(i)) != nil {
						obs.Outcome, obs.Note = "registered", "still registered after its stop context was done: "+p.ID
					}
					e.Send(p, cornerMsg{i})
				}
			}
		case "sub_self":
			e.Subscribe(es)
			for i := 0; i < c.K; i++ {
				e.BroadcastEvent(cornerMsg{i})
			}
		}
	}()
	select {
	case <-done:
	case <-time.After(15 * time.Second):
		obs.Outcome = "blocked"
	}
	if obs.Outcome == "ok" && !rest() {
		obs.Outcome = "diverged"
	}
	obs.Dead = int(dead.Load())
	obs.Events = total.Load()
	if obs.Events > 20000 {
		obs.Events = 20000
	}
	return obs, nil
}

func init() { families["corner09"] = runCorner09 }
