package main

import (
	"encoding/json"
	"sync"
	"sync/atomic"
	"time"

	"github.com/anthdm/hollywood/actor"
)

// deliverCase: real engine, real goroutines.
//
//	mode "multi": Senders goroutines each send PerSender numbered messages (with a sender PID of
//	  their own, or none for sender 0) to one actor spawned with the given inbox size;
//	mode "chain": one message is sent and the actor sends itself the next one until Total were handled
//	  (every batch holds one message: Total consecutive batches in one worker run).
type deliverCase struct {
	Mode      string `json:"mode"`
	InboxSize int    `json:"inbox_size"`
	Senders   int    `json:"senders"`
	PerSender int    `json:"per_sender"`
	Total     int    `json:"total"`
	ViaActor  bool   `json:"via_actor"` // multi: the senders are actors forwarding a numbered stream
	// multi: the receiver panics on these (sender, seq) messages; the actor restarts after
	// RestartDelayMs while the senders keep sending; each handler call takes HandlerMicros
	PanicAt        [][]int `json:"panic_at"`
	RestartDelayMs int     `json:"restart_delay_ms"`
	HandlerMicros  int     `json:"handler_micros"`
	PaceMicros     int     `json:"pace_micros"`
	// stoprace: sender 0 stops (poisons, when Poison is set) the actor after its StopAt-th message and
	// waits for the returned context, while the other senders go on
	StopAt int  `json:"stop_at"`
	Poison bool `json:"poison"`
}

type deliverObs struct {
	// multi: per received message (sender index, sequence number, sender PID matched the one given)
	Got     [][]int `json:"got"`
	Hang    bool    `json:"hang"`
	Overlap bool    `json:"overlap"` // two Receive calls of the actor were in progress at once
	// spawnrace: Spawn returned before Started had been handled
	SpawnEarly bool `json:"spawn_early"`
	// childrenrace: nil entries seen in Context.Children(), dead letters for a nil target
	Anomalies int `json:"anomalies"`
}

type dmsg struct{ From, Seq int }

// runSpawnRace: messages sent to a PID from the moment Spawn registered it, while its
// Started handler is still running, must be retained and delivered after Started, in order;
// and Spawn must not return before Started was handled.
func runSpawnRace(c deliverCase) (any, error) {
	e, err := actor.NewEngine(actor.NewEngineConfig())
	if err != nil {
		return nil, err
	}
	var mu sync.Mutex
	got := [][]int{}
	release := make(chan struct{})
	done := make(chan struct{})
	startedHandled := false
	spawnReturned := make(chan bool, 1)
	go func() {
		e.SpawnFunc(func(ctx *actor.Context) {
			switch m := ctx.Message().(type) {
			case actor.Started:
				<-release // hold the Started handler open while the sender works
				mu.Lock()
				got = append(got, []int{9, 0, 1})
				startedHandled = true
				mu.Unlock()
			case dmsg:
				mu.Lock()
				got = append(got, []int{m.From, m.Seq, 1})
				n := len(got)
				mu.Unlock()
				if n == c.PerSender+1 {
					close(done)
				}
			}
		}, "sink", actor.WithID("x"), actor.WithInboxSize(max(1, c.InboxSize)))
		mu.Lock()
		ok := startedHandled
		mu.Unlock()
		spawnReturned <- ok
	}()
	deadline := time.Now().Add(30 * time.Second)
	var pid *actor.PID
	for pid == nil && time.Now().Before(deadline) {
		pid = e.Registry.GetPID("sink", "x")
	}
	obs := deliverObs{}
	if pid == nil {
		obs.Hang = true
		close(release)
		return obs, nil
	}
	for k := 1; k <= c.PerSender; k++ {
		e.Send(pid, dmsg{0, k})
	}
	close(release)
	select {
	case <-done:
	case <-time.After(30 * time.Second):
		obs.Hang = true
	}
	select {
	case ok := <-spawnReturned:
		obs.SpawnEarly = !ok
	case <-time.After(2 * time.Second):
		obs.Hang = true
	}
	mu.Lock()
	obs.Got = append([][]int{}, got...)
	mu.Unlock()
	return obs, nil
}

// runChildrenRace: a parent keeps listing Context.Children() while its children are stopped one by one
// by somebody else; every listing must consist of live children only (no nil entries), and stopping
// the parent afterwards must not address a nil PID.
func runChildrenRace(c deliverCase) (any, error) {
	e, err := actor.NewEngine(actor.NewEngineConfig())
	if err != nil {
		return nil, err
	}
	var nils, nilDead atomic.Int64
	mon := e.SpawnFunc(func(ctx *actor.Context) {
		if dl, ok := ctx.Message().(actor.DeadLetterEvent); ok && dl.Target == nil {
			nilDead.Add(1)
		}
	}, "mon", actor.WithID("m"))
	e.Subscribe(mon)
	obs := deliverObs{Got: [][]int{}}
	for round := 0; round < c.Total && nils.Load() == 0; round++ {
		kids := make(chan []*actor.PID, 1)
		parent := e.SpawnFunc(func(ctx *actor.Context) {
			switch ctx.Message().(type) {
			case actor.Started:
				var ks []*actor.PID
				for i := 0; i < c.PerSender; i++ {
					ks = append(ks, ctx.SpawnChildFunc(func(*actor.Context) {}, "k"))
				}
				kids <- ks
			case dmsg:
				for _, p := range ctx.Children() {
					if p == nil {
						nils.Add(1)
					}
				}
			}
		}, "parent")
		ks := <-kids
		done := make(chan struct{})
		go func() {
			for i, k := range ks {
				if i%2 == 0 { // half of them: the rest is stopped with the parent
					e.Poison(k)
				}
			}
			close(done)
		}()
		for i := 0; i < 40*c.PerSender; i++ {
			e.Send(parent, dmsg{0, i})
		}
		<-done
		select {
		case <-e.Poison(parent).Done():
		case <-time.After(30 * time.Second):
			obs.Hang = true
		}
	}
	time.Sleep(5 * time.Millisecond)
	obs.Anomalies = int(nils.Load() + nilDead.Load())
	return obs, nil
}

// runChildBusy: a parent is poisoned while its child is inside a handler that takes HandlerMicros; the
// child's Stopped must wait for that handler (one Receive call at a time, whoever delivers), come exactly
// once, and the parent's Stopped and the stop context must come after it, however long it takes.
func runChildBusy(c deliverCase) (any, error) {
	e, err := actor.NewEngine(actor.NewEngineConfig())
	if err != nil {
		return nil, err
	}
	var inflight, anomaly, childStopped, childStoppedDone int32
	var mu sync.Mutex
	overlap := false
	entered := make(chan struct{})
	kid := make(chan *actor.PID, 1)
	child := func(ctx *actor.Context) {
		if n := atomic.AddInt32(&inflight, 1); n > 1 {
			mu.Lock()
			overlap = true
			mu.Unlock()
		}
		defer atomic.AddInt32(&inflight, -1)
		switch ctx.Message().(type) {
		case dmsg:
			close(entered)
			time.Sleep(time.Duration(c.HandlerMicros) * time.Microsecond)
		case actor.Stopped:
			atomic.AddInt32(&childStopped, 1)
			time.Sleep(200 * time.Microsecond)
			atomic.AddInt32(&childStoppedDone, 1)
		}
	}
	parent := e.SpawnFunc(func(ctx *actor.Context) {
		switch ctx.Message().(type) {
		case actor.Started:
			kid <- ctx.SpawnChildFunc(child, "k", actor.WithID("c"))
		case actor.Stopped:
			if atomic.LoadInt32(&childStoppedDone) != 1 {
				atomic.AddInt32(&anomaly, 1) // the parent got Stopped before its child was through
			}
		}
	}, "parent", actor.WithID("p"))
	obs := deliverObs{Got: [][]int{}}
	k := <-kid
	e.Send(k, dmsg{0, 1})
	select {
	case <-entered:
	case <-time.After(30 * time.Second):
		obs.Hang = true
		return obs, nil
	}
	select {
	case <-e.Poison(parent).Done():
		if atomic.LoadInt32(&childStoppedDone) != 1 {
			atomic.AddInt32(&anomaly, 1)
		}
	case <-time.After(30*time.Second + time.Duration(c.HandlerMicros)*time.Microsecond):
		obs.Hang = true
	}
	time.Sleep(5 * time.Millisecond)
	if atomic.LoadInt32(&childStopped) != 1 {
		atomic.AddInt32(&anomaly, 1)
	}
	mu.Lock()
	obs.Overlap = overlap
	mu.Unlock()
	obs.Anomalies = int(atomic.LoadInt32(&anomaly))
	return obs, nil
}

// stopRaceActor: one value per incarnation (the Producer runs again after a crash).
type stopRaceActor struct {
	w       *stopRaceWorld
	stopped int32 // Stopped deliveries to this incarnation
}

type stopRaceWorld struct {
	c        deliverCase
	mu       sync.Mutex
	got      [][]int
	inflight int32
	overlap  bool
	anomaly  int32
	panicked map[[2]int]bool
	// set when the Stopped handler of an incarnation has returned
	stoppedDone int32
}

func (a *stopRaceActor) Receive(ctx *actor.Context) {
	w := a.w
	if n := atomic.AddInt32(&w.inflight, 1); n > 1 {
		w.mu.Lock()
		w.overlap = true
		w.mu.Unlock()
	}
	defer atomic.AddInt32(&w.inflight, -1)
	if atomic.LoadInt32(&a.stopped) > 0 {
		// anything at all after Stopped, to the incarnation that got it
		atomic.AddInt32(&w.anomaly, 1)
	}
	switch m := ctx.Message().(type) {
	case actor.Stopped:
		atomic.AddInt32(&a.stopped, 1)
		time.Sleep(300 * time.Microsecond) // room for a second worker to show itself
		atomic.AddInt32(&w.stoppedDone, 1)
	case dmsg:
		if w.c.HandlerMicros > 0 {
			time.Sleep(time.Duration(w.c.HandlerMicros) * time.Microsecond)
		}
		w.mu.Lock()
		w.got = append(w.got, []int{m.From, m.Seq, 1})
		first := false
		for _, pa := range w.c.PanicAt {
			if pa[0] == m.From && pa[1] == m.Seq && !w.panicked[[2]int{m.From, m.Seq}] {
				w.panicked[[2]int{m.From, m.Seq}] = true
				first = true
			}
		}
		w.mu.Unlock()
		if first {
			panic("scripted panic")
		}
	}
}

// runStopRace: a stop request racing restarts and active senders. The incarnation that is stopped
// must get Stopped exactly once, as the last thing it gets, one Receive call at a time; the stop's
// context must not be done before that handler has returned; crashed incarnations get Stopped once
// each; what was delivered is in per-sender order without repetition.
func runStopRace(c deliverCase) (any, error) {
	e, err := actor.NewEngine(actor.NewEngineConfig())
	if err != nil {
		return nil, err
	}
	w := &stopRaceWorld{c: c, panicked: map[[2]int]bool{}, got: [][]int{}}
	var incs []*stopRaceActor
	pid := e.Spawn(func() actor.Receiver {
		a := &stopRaceActor{w: w}
		w.mu.Lock()
		incs = append(incs, a)
		w.mu.Unlock()
		return a
	}, "sink", actor.WithID("x"), actor.WithInboxSize(max(1, c.InboxSize)),
		actor.WithMaxRestarts(len(c.PanicAt)+1), actor.WithRestartDelay(time.Duration(c.RestartDelayMs)*time.Millisecond))
	obs := deliverObs{}
	var wg sync.WaitGroup
	for s := 0; s < c.Senders; s++ {
		s := s
		wg.Add(1)
		go func() {
			defer wg.Done()
			for k := 1; k <= c.PerSender; k++ {
				e.Send(pid, dmsg{s, k})
				if c.PaceMicros > 0 {
					time.Sleep(time.Duration(c.PaceMicros) * time.Microsecond)
				}
				if s == 0 && k == c.StopAt {
					var done <-chan struct{}
					if c.Poison {
						done = e.Poison(pid).Done()
					} else {
						done = e.Stop(pid).Done()
					}
					select {
					case <-done:
						w.mu.Lock()
						crashed := len(w.panicked)
						w.mu.Unlock()
						// every crash so far and this stop have each produced one finished Stopped handler
						// (crashes and the stop are handled by the one worker of the inbox, in turn)
						if int(atomic.LoadInt32(&w.stoppedDone)) < 1+crashed {
							atomic.AddInt32(&w.anomaly, 1)
						}
					case <-time.After(30 * time.Second):
						w.mu.Lock()
						obs.Hang = true
						w.mu.Unlock()
					}
				}
			}
		}()
	}
	wg.Wait()
	time.Sleep(20 * time.Millisecond) // would anything still arrive?
	w.mu.Lock()
	defer w.mu.Unlock()
	last := len(incs) - 1
	for i, a := range incs {
		n := atomic.LoadInt32(&a.stopped)
		if n > 1 || (i == last && n != 1) {
			atomic.AddInt32(&w.anomaly, 1)
		}
	}
	if e.Registry.GetPID("sink", "x") != nil {
		atomic.AddInt32(&w.anomaly, 1)
	}
	obs.Overlap = w.overlap
	obs.Got = append([][]int{}, w.got...)
	obs.Anomalies = int(atomic.LoadInt32(&w.anomaly))
	return obs, nil
}

func runDeliver(raw json.RawMessage) (any, error) {
	var c deliverCase
	if err := json.Unmarshal(raw, &c); err != nil {
		return nil, err
	}
	if c.Mode == "childrenrace" {
		return runChildrenRace(c)
	}
	if c.Mode == "spawnrace" {
		return runSpawnRace(c)
	}
	if c.Mode == "stoprace" {
		return runStopRace(c)
	}
	if c.Mode == "childbusy" {
		return runChildBusy(c)
	}
	e, err := actor.NewEngine(actor.NewEngineConfig())
	if err != nil {
		return nil, err
	}
	var mu sync.Mutex
	got := [][]int{}
	want := c.Senders * c.PerSender
	if c.Mode == "chain" {
		want = c.Total
	}
	done := make(chan struct{})
	senderPIDs := make([]*actor.PID, c.Senders)
	for i := range senderPIDs {
		if i > 0 {
			senderPIDs[i] = actor.NewPID(e.Address(), "snd/"+string(rune('a'+i)))
		}
	}
	size := c.InboxSize
	if size < 1 {
		size = 1
	}
	var inflight int32
	overlap := false
	panicked := map[[2]int]bool{}
	opts := []actor.OptFunc{actor.WithID("x"), actor.WithInboxSize(size)}
	if len(c.PanicAt) > 0 {
		opts = append(opts, actor.WithMaxRestarts(len(c.PanicAt)+1), actor.WithRestartDelay(time.Duration(c.RestartDelayMs)*time.Millisecond))
	}
	pid := e.SpawnFunc(func(ctx *actor.Context) {
		if n := atomic.AddInt32(&inflight, 1); n > 1 {
			mu.Lock()
			overlap = true
			mu.Unlock()
		}
		defer atomic.AddInt32(&inflight, -1)
		m, ok := ctx.Message().(dmsg)
		if !ok {
			return
		}
		if c.HandlerMicros > 0 {
			time.Sleep(time.Duration(c.HandlerMicros) * time.Microsecond)
		}
		match := 1
		if c.Mode == "multi" && !c.ViaActor {
			exp := senderPIDs[m.From]
			s := ctx.Sender()
			if (exp == nil) != (s == nil) || (exp != nil && !exp.Equals(s)) {
				match = 0
			}
		}
		mu.Lock()
		got = append(got, []int{m.From, m.Seq, match})
		n := len(got)
		mu.Unlock()
		if c.Mode == "chain" && m.Seq < c.Total {
			ctx.Send(ctx.PID(), dmsg{0, m.Seq + 1})
		}
		if n == want {
			close(done)
		}
		for _, pa := range c.PanicAt {
			if pa[0] == m.From && pa[1] == m.Seq {
				mu.Lock()
				first := !panicked[[2]int{m.From, m.Seq}]
				panicked[[2]int{m.From, m.Seq}] = true
				mu.Unlock()
				if first {
					panic("scripted panic")
				}
			}
		}
	}, "sink", opts...)
	switch c.Mode {
	case "chain":
		e.Send(pid, dmsg{0, 1})
	default:
		var wg sync.WaitGroup
		for s := 0; s < c.Senders; s++ {
			s := s
			wg.Add(1)
			if c.ViaActor {
				fw := e.SpawnFunc(func(ctx *actor.Context) {
					if m, ok := ctx.Message().(dmsg); ok {
						ctx.Send(pid, m)
					}
				}, "fw", actor.WithID(string(rune('a'+s))))
				go func() {
					defer wg.Done()
					for k := 1; k <= c.PerSender; k++ {
						e.Send(fw, dmsg{s, k})
					}
				}()
			} else {
				go func() {
					defer wg.Done()
					for k := 1; k <= c.PerSender; k++ {
						e.SendWithSender(pid, dmsg{s, k}, senderPIDs[s])
						if c.PaceMicros > 0 {
							time.Sleep(time.Duration(c.PaceMicros) * time.Microsecond)
						}
					}
				}()
			}
		}
		wg.Wait()
	}
	obs := deliverObs{}
	select {
	case <-done:
		time.Sleep(20 * time.Millisecond) // would a duplicate still arrive?
	case <-time.After(30 * time.Second):
		obs.Hang = true
	}
	mu.Lock()
	obs.Overlap = overlap
	obs.Got = append([][]int{}, got...)
	mu.Unlock()
	return obs, nil
}

func init() { families["deliver"] = runDeliver }
