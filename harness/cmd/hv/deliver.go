package main

import (
	"encoding/json"
	"sync"
	"time"

	"github.com/anthdm/hollywood/actor"
)

// deliverCase: real engine, real goroutines.
//
//	mode "multi": Senders goroutines each send PerSender numbered messages (with a sender PID of
//	  their own, or none for sender 0) to one actor spawned with the given inbox size;
//	mode "chain": one message is sent and the actor sends itself the next one until Total were handled
//	  (every batch holds one message: Total consecutive batches in one worker run).
type deliverCase struct {
	Mode      string `json:"mode"`
	InboxSize int    `json:"inbox_size"`
	Senders   int    `json:"senders"`
	PerSender int    `json:"per_sender"`
	Total     int    `json:"total"`
	ViaActor  bool   `json:"via_actor"` // multi: the senders are actors forwarding a numbered stream
}

type deliverObs struct {
	// multi: per received message (sender index, sequence number, sender PID matched the one given)
	Got  [][]int `json:"got"`
	Hang bool    `json:"hang"`
}

type dmsg struct{ From, Seq int }

func runDeliver(raw json.RawMessage) (any, error) {
	var c deliverCase
	if err := json.Unmarshal(raw, &c); err != nil {
		return nil, err
	}
	e, err := actor.NewEngine(actor.NewEngineConfig())
	if err != nil {
		return nil, err
	}
	var mu sync.Mutex
	got := [][]int{}
	want := c.Senders * c.PerSender
	if c.Mode == "chain" {
		want = c.Total
	}
	done := make(chan struct{})
	senderPIDs := make([]*actor.PID, c.Senders)
	for i := range senderPIDs {
		if i > 0 {
			senderPIDs[i] = actor.NewPID(e.Address(), "snd/"+string(rune('a'+i)))
		}
	}
	size := c.InboxSize
	if size < 1 {
		size = 1
	}
	pid := e.SpawnFunc(func(ctx *actor.Context) {
		m, ok := ctx.Message().(dmsg)
		if !ok {
			return
		}
		match := 1
		if c.Mode == "multi" && !c.ViaActor {
			exp := senderPIDs[m.From]
			s := ctx.Sender()
			if (exp == nil) != (s == nil) || (exp != nil && !exp.Equals(s)) {
				match = 0
			}
		}
		mu.Lock()
		got = append(got, []int{m.From, m.Seq, match})
		n := len(got)
		mu.Unlock()
		if c.Mode == "chain" && m.Seq < c.Total {
			ctx.Send(ctx.PID(), dmsg{0, m.Seq + 1})
		}
		if n == want {
			close(done)
		}
	}, "sink", actor.WithID("x"), actor.WithInboxSize(size))
	switch c.Mode {
	case "chain":
		e.Send(pid, dmsg{0, 1})
	default:
		var wg sync.WaitGroup
		for s := 0; s < c.Senders; s++ {
			s := s
			wg.Add(1)
			if c.ViaActor {
				fw := e.SpawnFunc(func(ctx *actor.Context) {
					if m, ok := ctx.Message().(dmsg); ok {
						ctx.Send(pid, m)
					}
				}, "fw", actor.WithID(string(rune('a'+s))))
				go func() {
					defer wg.Done()
					for k := 1; k <= c.PerSender; k++ {
						e.Send(fw, dmsg{s, k})
					}
				}()
			} else {
				go func() {
					defer wg.Done()
					for k := 1; k <= c.PerSender; k++ {
						e.SendWithSender(pid, dmsg{s, k}, senderPIDs[s])
					}
				}()
			}
		}
		wg.Wait()
	}
	obs := deliverObs{}
	select {
	case <-done:
		time.Sleep(20 * time.Millisecond) // would a duplicate still arrive?
	case <-time.After(5 * time.Second):
		obs.Hang = true
	}
	mu.Lock()
	obs.Got = append([][]int{}, got...)
	mu.Unlock()
	return obs, nil
}

func init() { families["deliver"] = runDeliver }
