package main

import (
	"encoding/json"
	"math/rand"
	"strconv"
	"strings"
	"sync"
	"sync/atomic"
	"time"

	"github.com/anthdm/hollywood/actor"
)

// reqrespCase: concurrent requesters against scripted responders on a fresh engine.
//
//	requests[i] = {target, replies, delay, fan}
//	  target   index of the responder actor the request is sent to
//	  replies  how many times the responder calls Context.Respond (payloads (i,1), (i,2), ...)
//	  delay    "now"    reply on receipt
//	           "half"   sleep timeout/2 first
//	           "double" sleep 2*timeout first
//	           "after"  wait until the requester's Result() has returned (logical lateness)
//	  fan      instead of replying itself the responder passes the request, with the original
//	           sender, to `replies` helper actors which reply once each (payload (i,k) from helper k)
//
// Each requester goroutine: Request, Result (timed around the call), then reads
// the registry for the response PID.  Wall-clock time enters only as bounds.
type reqrespCase struct {
	TimeoutMs  int          `json:"timeout_ms"`
	Responders int          `json:"responders"`
	Requests   []reqrespReq `json:"requests"`
}

type reqrespReq struct {
	Target  int    `json:"target"`
	Replies int    `json:"replies"`
	Delay   string `json:"delay"`
	Fan     bool   `json:"fan"`
}

type rrReplyObs struct {
	K            int  `json:"k"`
	Late         bool `json:"late"`           // Respond was called after the requester's Result() had returned
	Done         bool `json:"done"`           // Respond returned
	Dead         int  `json:"dead"`           // DeadLetterEvents carrying this reply seen by the monitor
	DeadTargetOK bool `json:"dead_target_ok"` // ... all addressed to the response PID of this request
}

type rrReqObs struct {
	PID          string       `json:"pid"`
	Handled      bool         `json:"handled"`   // the responder received the request
	SenderOK     bool         `json:"sender_ok"` // ... and Context.Sender() was the response PID
	Value        []int        `json:"value"`     // [request, k] of the reply Result() returned, or null
	Foreign      bool         `json:"foreign"`   // Result() returned something that is no reply payload
	Err          bool         `json:"err"`
	ElapsedOK    bool         `json:"elapsed_ok"` // elapsed >= timeout (meaningful when err)
	Overrun      bool         `json:"overrun"`    // Result() took longer than timeout + 5 s
	Unregistered bool         `json:"unregistered"`
	InTime       bool         `json:"in_time"` // the first Respond returned at least 20 ms before Result()'s deadline
	Replies      []rrReplyObs `json:"replies"`
}

type reqrespObs struct {
	Reqs   []rrReqObs `json:"reqs"`
	DupIDs int        `json:"dupids"` // ActorDuplicateIdEvents for response ids (an id collision)
	Stuck  int        `json:"stuck"`  // Respond calls that never returned
	Note   string     `json:"note,omitempty"`
}

type rrRequest struct {
	R, Replies int
	Delay      string
	Fan        bool
}
type rrFanned struct{ R, K int }
type rrReply struct{ R, K int }
type rrSentinel struct{ N int }

type rrReplyRec struct {
	late, done  bool
	tDone       time.Time
	dead        int
	deadTargets []string // Target of each DeadLetterEvent carrying this reply
}

type rrWorld struct {
	mu       sync.Mutex
	timeout  time.Duration
	returned []chan struct{}
	handled  []bool
	sender   []string
	replies  []map[int]*rrReplyRec
	handlers sync.WaitGroup
	pids     []string
	dupids   int
	sentinel chan int
}

func (w *rrWorld) rec(r, k int) *rrReplyRec {
	if w.replies[r][k] == nil {
		w.replies[r][k] = &rrReplyRec{}
	}
	return w.replies[r][k]
}

func (w *rrWorld) respond(c *actor.Context, r, k int) {
	late := false
	select {
	case <-w.returned[r]:
		late = true
	default:
	}
	w.mu.Lock()
	rc := w.rec(r, k)
	rc.late = late
	w.mu.Unlock()
	c.Respond(rrReply{R: r, K: k})
	now := time.Now()
	w.mu.Lock()
	rc.done, rc.tDone = true, now
	w.mu.Unlock()
}

func (w *rrWorld) wait(delay string, r int) {
	switch delay {
	case "half":
		time.Sleep(w.timeout / 2)
	case "double":
		time.Sleep(2 * w.timeout)
	case "after":
		select {
		case <-w.returned[r]:
		case <-time.After(w.timeout + 8*time.Second):
		}
	}
}

func runReqResp(raw json.RawMessage) (any, error) {
	var c reqrespCase
	if err := json.Unmarshal(raw, &c); err != nil {
		return nil, err
	}
	e, err := actor.NewEngine(actor.NewEngineConfig())
	if err != nil {
		return nil, err
	}
	n := len(c.Requests)
	w := &rrWorld{timeout: time.Duration(c.TimeoutMs) * time.Millisecond, returned: make([]chan struct{}, n),
		handled: make([]bool, n), sender: make([]string, n), replies: make([]map[int]*rrReplyRec, n),
		pids: make([]string, n), sentinel: make(chan int, 16)}
	for i := range w.returned {
		w.returned[i] = make(chan struct{})
		w.replies[i] = map[int]*rrReplyRec{}
	}
	mon := e.SpawnFunc(func(ctx *actor.Context) {
		switch ev := ctx.Message().(type) {
		case actor.DeadLetterEvent:
			if rp, ok := ev.Message.(rrReply); ok && rp.R >= 0 && rp.R < n {
				w.mu.Lock()
				rc := w.rec(rp.R, rp.K)
				rc.dead++
				if ev.Target == nil {
					rc.deadTargets = append(rc.deadTargets, "<nil>")
				} else {
					rc.deadTargets = append(rc.deadTargets, ev.Target.ID)
				}
				w.mu.Unlock()
			}
		case actor.ActorDuplicateIdEvent:
			if ev.PID != nil && strings.HasPrefix(ev.PID.ID, "response/") {
				w.mu.Lock()
				w.dupids++
				w.mu.Unlock()
			}
		case rrSentinel:
			w.sentinel <- ev.N
		}
	}, "monitor", actor.WithID("m"))
	e.Subscribe(mon)
	maxFan := 0
	for _, rq := range c.Requests {
		if rq.Fan && rq.Replies > maxFan {
			maxFan = rq.Replies
		}
	}
	helpers := make([]*actor.PID, maxFan)
	for k := range helpers {
		helpers[k] = e.SpawnFunc(func(ctx *actor.Context) {
			if m, ok := ctx.Message().(rrFanned); ok {
				defer w.handlers.Done()
				w.respond(ctx, m.R, m.K)
			}
		}, "helper", actor.WithID(string(rune('a'+k))))
	}
	responders := make([]*actor.PID, c.Responders)
	for a := range responders {
		responders[a] = e.SpawnFunc(func(ctx *actor.Context) {
			m, ok := ctx.Message().(rrRequest)
			if !ok {
				return
			}
			defer w.handlers.Done()
			w.mu.Lock()
			w.handled[m.R] = true
			if s := ctx.Sender(); s != nil {
				w.sender[m.R] = s.ID
			}
			w.mu.Unlock()
			w.wait(m.Delay, m.R)
			if m.Fan {
				for k := 1; k <= m.Replies; k++ {
					w.handlers.Add(1)
					ctx.Engine().SendWithSender(helpers[k-1], rrFanned{R: m.R, K: k}, ctx.Sender())
				}
				return
			}
			for k := 1; k <= m.Replies; k++ {
				w.respond(ctx, m.R, k)
			}
		}, "responder", actor.WithID(string(rune('a'+a))))
	}
	time.Sleep(2 * time.Millisecond)
	obs := reqrespObs{Reqs: make([]rrReqObs, n)}
	tCall := make([]time.Time, n)
	var reqs sync.WaitGroup
	start := make(chan struct{})
	for i, rq := range c.Requests {
		i, rq := i, rq
		reqs.Add(1)
		w.handlers.Add(1)
		go func() {
			defer reqs.Done()
			<-start
			o := &obs.Reqs[i]
			resp := e.Request(responders[rq.Target], rrRequest{R: i, Replies: rq.Replies, Delay: rq.Delay, Fan: rq.Fan}, w.timeout)
			w.mu.Lock()
			w.pids[i] = resp.PID().ID
			w.mu.Unlock()
			o.PID = resp.PID().ID
			t0 := time.Now()
			w.mu.Lock()
			tCall[i] = t0
			w.mu.Unlock()
			v, err := resp.Result()
			el := time.Since(t0)
			o.Unregistered = !actor.VerifRegistered(e, o.PID)
			close(w.returned[i])
			o.Err = err != nil
			o.ElapsedOK = el >= w.timeout
			o.Overrun = el > w.timeout+5*time.Second
			if err == nil {
				if rp, ok := v.(rrReply); ok {
					o.Value = []int{rp.R, rp.K}
				} else {
					o.Foreign = true
				}
			}
		}()
	}
	close(start)
	reqs.Wait()
	// the handlers: everything that can finish does so within the longest delay
	done := make(chan struct{})
	go func() { w.handlers.Wait(); close(done) }()
	select {
	case <-done:
	case <-time.After(3*w.timeout + 3*time.Second):
	}
	// flush the event stream: two sentinel round trips
	for s := 1; s <= 2; s++ {
		e.BroadcastEvent(rrSentinel{N: s})
		select {
		case <-w.sentinel:
		case <-time.After(5 * time.Second):
			obs.Note = "sentinel lost"
		}
	}
	w.mu.Lock()
	defer w.mu.Unlock()
	obs.DupIDs = w.dupids
	for i, rq := range c.Requests {
		o := &obs.Reqs[i]
		o.Handled = w.handled[i]
		o.SenderOK = w.handled[i] && w.sender[i] == o.PID
		o.Replies = []rrReplyObs{}
		for k := 1; k <= rq.Replies; k++ {
			rc := w.replies[i][k]
			if rc == nil {
				continue // never issued (the responder got stuck before, or never received the request)
			}
			targetOK := true
			for _, t := range rc.deadTargets {
				if t != o.PID {
					targetOK = false
				}
			}
			o.Replies = append(o.Replies, rrReplyObs{K: k, Late: rc.late, Done: rc.done, Dead: rc.dead, DeadTargetOK: targetOK})
			if !rc.done {
				obs.Stuck++
			}
		}
		// the earliest completed Respond for this request, against Result()'s deadline
		var first *rrReplyRec
		for _, rc := range w.replies[i] {
			if rc.done && !rc.late && (first == nil || rc.tDone.Before(first.tDone)) {
				first = rc
			}
		}
		if first != nil {
			o.InTime = first.tDone.Before(tCall[i].Add(w.timeout - 20*time.Millisecond))
		}
	}
	return obs, nil
}

func init() { families["reqresp"] = runReqResp }

// ---------------------------------------------------------------------------
// reqcollide (thorough tier): what C11's distinct-ids premise means on the real
// code.  math/rand is seeded, the stream of response ids is recorded by issuing
// throw-away requests, the first repeated id (draws i < j) is located, the
// stream is replayed and the requests of draws i and j are real ones that are
// outstanding at the same time.
type collideCase struct {
	Seed     int64 `json:"seed"`
	MaxDraws int   `json:"max_draws"`
}

type collideObs struct {
	Found      bool   `json:"found"`
	I          int    `json:"i"`
	J          int    `json:"j"`
	ID         string `json:"id"`
	SameID     bool   `json:"same_id"` // the two real requests did get the same response PID
	AGot       int    `json:"a_got"`   // tag of the reply request i's Result() returned (1 = its own, 2 = the other's)
	AErr       bool   `json:"a_err"`
	BGot       int    `json:"b_got"`
	BErr       bool   `json:"b_err"`
	DupEvents  int    `json:"dup_events"` // ActorDuplicateIdEvents for response ids
	DeadOwn    int    `json:"dead_own"`   // request i's own reply, sent afterwards, dead-lettered
	CrossTalk  bool   `json:"cross_talk"`
	DrawMillis int64  `json:"draw_ms"`
}

type collMsg struct{ Tag int }
type collReply struct{ Tag int }

func runReqCollide(raw json.RawMessage) (any, error) {
	var c collideCase
	if err := json.Unmarshal(raw, &c); err != nil {
		return nil, err
	}
	if c.MaxDraws == 0 {
		c.MaxDraws = 400000
	}
	e, err := actor.NewEngine(actor.NewEngineConfig())
	if err != nil {
		return nil, err
	}
	var mu sync.Mutex
	obs := collideObs{}
	mon := e.SpawnFunc(func(ctx *actor.Context) {
		mu.Lock()
		defer mu.Unlock()
		switch ev := ctx.Message().(type) {
		case actor.ActorDuplicateIdEvent:
			if ev.PID != nil && strings.HasPrefix(ev.PID.ID, "response/") {
				obs.DupEvents++
			}
		case actor.DeadLetterEvent:
			if rp, ok := ev.Message.(collReply); ok && rp.Tag == 1 {
				obs.DeadOwn++
			}
		}
	}, "monitor", actor.WithID("m"))
	e.Subscribe(mon)
	gate := make(chan struct{})
	responder := func(wait bool) *actor.PID {
		id := "now"
		if wait {
			id = "gated"
		}
		return e.SpawnFunc(func(ctx *actor.Context) {
			if m, ok := ctx.Message().(collMsg); ok {
				if wait {
					select {
					case <-gate:
					case <-time.After(20 * time.Second):
					}
				}
				ctx.Respond(collReply{Tag: m.Tag})
			}
		}, "responder", actor.WithID(id))
	}
	pidA, pidB := responder(true), responder(false)
	time.Sleep(5 * time.Millisecond)
	filler := func() string {
		r := e.Request(nil, nil, time.Nanosecond)
		id := r.PID().ID
		r.Result()
		return id
	}
	// pass 1: record the stream
	t0 := time.Now()
	rand.Seed(c.Seed) //nolint:staticcheck // makes the global source deterministic
	seen := map[string]int{}
	for n := 0; n < c.MaxDraws; n++ {
		id := filler()
		if i, ok := seen[id]; ok {
			obs.Found, obs.I, obs.J, obs.ID = true, i, n, id
			break
		}
		seen[id] = n
	}
	obs.DrawMillis = time.Since(t0).Milliseconds()
	if !obs.Found {
		return obs, nil
	}
	mu.Lock()
	obs.DupEvents = 0
	mu.Unlock()
	// pass 2: the same stream, with two real requests at draws i and j
	rand.Seed(c.Seed) //nolint:staticcheck
	var respA, respB *actor.Response
	for n := 0; n <= obs.J; n++ {
		switch n {
		case obs.I:
			respA = e.Request(pidA, collMsg{Tag: 1}, 3*time.Second)
		case obs.J:
			respB = e.Request(pidB, collMsg{Tag: 2}, 300*time.Millisecond)
		default:
			filler()
		}
	}
	obs.SameID = respA.PID().ID == respB.PID().ID && respA.PID().ID == obs.ID
	tag := func(v any, err error) (int, bool) {
		if err != nil {
			return 0, true
		}
		if rp, ok := v.(collReply); ok {
			return rp.Tag, false
		}
		return -1, false
	}
	obs.AGot, obs.AErr = tag(respA.Result())
	obs.BGot, obs.BErr = tag(respB.Result())
	close(gate)
	time.Sleep(50 * time.Millisecond)
	for s := 0; s < 200 && !(actor.VerifIdle(e, mon) && actor.VerifIdle(e, actor.VerifEventStream(e)) && actor.VerifIdle(e, pidA)); s++ {
		time.Sleep(5 * time.Millisecond)
	}
	mu.Lock()
	defer mu.Unlock()
	obs.CrossTalk = obs.AGot == 2
	return obs, nil
}

func init() { families["reqcollide"] = runReqCollide }

// ---------------------------------------------------------------------------
// reqstorm: P requester goroutines in parallel, each issuing uniquely tokenised
// requests to echo responders.  Probabilistic detector for faults that need
// truly parallel Request calls (e.g. response ids that collide).  Nothing here
// depends on an upper bound on elapsed time: a timeout is recorded, never judged.
type stormCase struct {
	Goroutines int `json:"goroutines"`
	Per        int `json:"per"` // requests per goroutine
	Responders int `json:"responders"`
	TimeoutMs  int `json:"timeout_ms"`
}

type stormAnomaly struct {
	Kind  string `json:"kind"` // wrong | foreign | registered | timeout | panic
	G     int    `json:"g"`
	N     int    `json:"n"`
	PID   string `json:"pid"`
	GotG  int    `json:"got_g"`
	GotN  int    `json:"got_n"`
	Other string `json:"other_pid,omitempty"` // response PID of the request whose reply was returned
}

type stormObs struct {
	Requests         int            `json:"requests"`          // completed Request+Result pairs
	Values           int            `json:"values"`            // ... that returned their own token
	Wrong            int            `json:"wrong"`             // returned the token of another request
	WrongUnexplained int            `json:"wrong_unexplained"` // ... although the two response PIDs differ
	Foreign          int            `json:"foreign"`           // returned something that is no token
	StillRegistered  int            `json:"still_registered"`  // after Result(): the Response is still the registry entry of its PID
	Collisions       int            `json:"collisions"`        // ActorDuplicateIdEvents for response PIDs
	Timeouts         int            `json:"timeouts"`          // recorded, not judged
	TimeoutsNoDup    int            `json:"timeouts_no_dup"`   // ... whose response PID was never reported as a duplicate
	Panics           int            `json:"panics"`
	First            []stormAnomaly `json:"first"`
	Millis           int64          `json:"ms"`
}

type stormTok struct{ G, N int }

func stillRegistered(e *actor.Engine, resp *actor.Response) bool {
	p := e.Registry.VerifGet(resp.PID())
	r, ok := p.(*actor.Response)
	return ok && r == resp
}

func runReqStorm(raw json.RawMessage) (any, error) {
	var c stormCase
	if err := json.Unmarshal(raw, &c); err != nil {
		return nil, err
	}
	if c.Goroutines == 0 {
		c.Goroutines = 16
	}
	if c.Responders == 0 {
		c.Responders = 8
	}
	if c.TimeoutMs == 0 {
		c.TimeoutMs = 2000
	}
	e, err := actor.NewEngine(actor.NewEngineConfig())
	if err != nil {
		return nil, err
	}
	var mu sync.Mutex
	dupIDs := map[string]int{}
	var stop, ndup int32
	mon := e.SpawnFunc(func(ctx *actor.Context) {
		if ev, ok := ctx.Message().(actor.ActorDuplicateIdEvent); ok && ev.PID != nil && strings.HasPrefix(ev.PID.ID, "response/") {
			mu.Lock()
			dupIDs[ev.PID.ID]++
			n := 0
			for _, k := range dupIDs {
				n += k
			}
			mu.Unlock()
			atomic.StoreInt32(&ndup, int32(n))
			if n >= 2 {
				atomic.StoreInt32(&stop, 1)
			}
		}
	}, "monitor", actor.WithID("m"))
	e.Subscribe(mon)
	responders := make([]*actor.PID, c.Responders)
	for a := range responders {
		responders[a] = e.SpawnFunc(func(ctx *actor.Context) {
			if t, ok := ctx.Message().(stormTok); ok {
				ctx.Respond(t)
			}
		}, "echo", actor.WithID(strconv.Itoa(a)))
	}
	time.Sleep(2 * time.Millisecond)
	ids := make([][]string, c.Goroutines)
	var anomalies []stormAnomaly
	obs := stormObs{First: []stormAnomaly{}}
	timeout := time.Duration(c.TimeoutMs) * time.Millisecond
	var wg sync.WaitGroup
	start := make(chan struct{})
	t0 := time.Now()
	for g := 0; g < c.Goroutines; g++ {
		g := g
		ids[g] = make([]string, 0, c.Per)
		wg.Add(1)
		go func() {
			defer wg.Done()
			<-start
			var done, values int
			var local []stormAnomaly
			// the budget is c.Per requests; a single collision seen so far (which a 31-bit uniform id
			// source produces about once in 10^8 requests) extends it threefold to look for a second one
			for n := 0; (n < c.Per || (n < 3*c.Per && atomic.LoadInt32(&ndup) == 1)) && atomic.LoadInt32(&stop) == 0; n++ {
				func() {
					defer func() {
						if v := recover(); v != nil {
							local = append(local, stormAnomaly{Kind: "panic", G: g, N: n})
						}
					}()
					tok := stormTok{G: g, N: n}
					resp := e.Request(responders[(g+n)%len(responders)], tok, timeout)
					pid := resp.PID().ID
					ids[g] = append(ids[g], pid)
					v, err := resp.Result()
					if stillRegistered(e, resp) {
						local = append(local, stormAnomaly{Kind: "registered", G: g, N: n, PID: pid})
						atomic.StoreInt32(&stop, 1)
					}
					done++
					switch {
					case err != nil:
						local = append(local, stormAnomaly{Kind: "timeout", G: g, N: n, PID: pid})
					default:
						got, ok := v.(stormTok)
						switch {
						case !ok:
							local = append(local, stormAnomaly{Kind: "foreign", G: g, N: n, PID: pid})
							atomic.StoreInt32(&stop, 1)
						case got != tok:
							local = append(local, stormAnomaly{Kind: "wrong", G: g, N: n, PID: pid, GotG: got.G, GotN: got.N})
						default:
							values++
						}
					}
				}()
			}
			mu.Lock()
			obs.Requests += done
			obs.Values += values
			anomalies = append(anomalies, local...)
			mu.Unlock()
		}()
	}
	close(start)
	wg.Wait()
	obs.Millis = time.Since(t0).Milliseconds()
	// let the duplicate-id events arrive
	for s := 0; s < 400 && !(actor.VerifIdle(e, mon) && actor.VerifIdle(e, actor.VerifEventStream(e))); s++ {
		time.Sleep(5 * time.Millisecond)
	}
	mu.Lock()
	defer mu.Unlock()
	for _, k := range dupIDs {
		obs.Collisions += k
	}
	for _, a := range anomalies {
		switch a.Kind {
		case "wrong":
			obs.Wrong++
			if a.GotG >= 0 && a.GotG < len(ids) && a.GotN >= 0 && a.GotN < len(ids[a.GotG]) {
				a.Other = ids[a.GotG][a.GotN]
			}
			if a.Other != a.PID {
				obs.WrongUnexplained++
			}
		case "foreign":
			obs.Foreign++
		case "registered":
			obs.StillRegistered++
		case "timeout":
			obs.Timeouts++
			if dupIDs[a.PID] == 0 {
				obs.TimeoutsNoDup++
			}
		case "panic":
			obs.Panics++
		}
		if len(obs.First) < 6 {
			obs.First = append(obs.First, a)
		}
	}
	return obs, nil
}

// ---------------------------------------------------------------------------
// reqboundary: requester/responder pairs; the responder busy-waits and replies
// at an instant swept around the moment Result()'s timeout fires.  After EVERY
// Result() the response PID must be unregistered; a returned value must be the
// token of that request.  Probabilistic detector for faults in the
// reply-versus-timeout race; the verdict is purely logical (no elapsed-time bound).
type boundaryCase struct {
	Pairs     int `json:"pairs"`
	Rounds    int `json:"rounds"`
	TimeoutUs int `json:"timeout_us"`
	FromUs    int `json:"from_us"`
	ToUs      int `json:"to_us"`
}

type boundaryHit struct {
	Kind     string `json:"kind"` // registered | wrong | foreign
	Pair     int    `json:"pair"`
	Round    int    `json:"round"`
	OffsetUs int    `json:"offset_us"`
	Value    bool   `json:"value"` // Result() returned a value (not the error)
	PID      string `json:"pid"`
}

type boundaryObs struct {
	Rounds          int           `json:"rounds"`
	Values          int           `json:"values"`
	Errors          int           `json:"errors"`
	StillRegistered int           `json:"still_registered"`
	Wrong           int           `json:"wrong"`
	Foreign         int           `json:"foreign"`
	Panics          int           `json:"panics"`
	First           []boundaryHit `json:"first"`
	Millis          int64         `json:"ms"`
}

type bReq struct {
	Tok    int64
	Offset time.Duration
	T0     *int64 // nanoseconds since base at which the requester called Result(); 0 = not yet
	Done   chan struct{}
}

func runReqBoundary(raw json.RawMessage) (any, error) {
	var c boundaryCase
	if err := json.Unmarshal(raw, &c); err != nil {
		return nil, err
	}
	if c.Pairs == 0 {
		c.Pairs = 6
	}
	if c.TimeoutUs == 0 {
		c.TimeoutUs = 400
	}
	if c.ToUs <= c.FromUs {
		c.FromUs, c.ToUs = -20, 230
	}
	e, err := actor.NewEngine(actor.NewEngineConfig())
	if err != nil {
		return nil, err
	}
	base := time.Now()
	timeout := time.Duration(c.TimeoutUs) * time.Microsecond
	var mu sync.Mutex
	obs := boundaryObs{First: []boundaryHit{}}
	var stop int32
	var wg sync.WaitGroup
	span := c.ToUs - c.FromUs + 1
	for p := 0; p < c.Pairs; p++ {
		p := p
		responder := e.SpawnFunc(func(ctx *actor.Context) {
			m, ok := ctx.Message().(bReq)
			if !ok {
				return
			}
			defer close(m.Done)
			// wait (bounded) for the requester to enter Result(), then for the instant
			limit := time.Since(base) + 200*time.Millisecond
			var t0 int64
			for t0 = atomic.LoadInt64(m.T0); t0 == 0 && time.Since(base) < limit; t0 = atomic.LoadInt64(m.T0) {
			}
			at := time.Duration(t0) + timeout + m.Offset
			for time.Since(base) < at {
			}
			ctx.Respond(m.Tok)
		}, "boundary", actor.WithID(strconv.Itoa(p)))
		wg.Add(1)
		go func() {
			defer wg.Done()
			var local boundaryObs
			for r := 0; r < c.Rounds && atomic.LoadInt32(&stop) == 0; r++ {
				off := c.FromUs + (r*37+p*11)%span
				func() {
					defer func() {
						if v := recover(); v != nil {
							local.Panics++
						}
					}()
					tok := int64(p)<<32 | int64(r)
					var t0 int64
					done := make(chan struct{})
					resp := e.Request(responder, bReq{Tok: tok, Offset: time.Duration(off) * time.Microsecond, T0: &t0, Done: done}, timeout)
					atomic.StoreInt64(&t0, int64(time.Since(base))+1)
					v, err := resp.Result()
					reg := stillRegistered(e, resp)
					local.Rounds++
					hit := func(kind string) {
						local.First = append(local.First, boundaryHit{Kind: kind, Pair: p, Round: r, OffsetUs: off, Value: err == nil, PID: resp.PID().ID})
					}
					if reg {
						local.StillRegistered++
						hit("registered")
						atomic.StoreInt32(&stop, 1)
					}
					if err != nil {
						local.Errors++
					} else if got, ok := v.(int64); !ok {
						local.Foreign++
						hit("foreign")
					} else if got != tok {
						local.Wrong++
						hit("wrong")
					} else {
						local.Values++
					}
					select {
					case <-done:
					case <-time.After(5 * time.Second):
					}
				}()
			}
			mu.Lock()
			obs.Rounds += local.Rounds
			obs.Values += local.Values
			obs.Errors += local.Errors
			obs.StillRegistered += local.StillRegistered
			obs.Wrong += local.Wrong
			obs.Foreign += local.Foreign
			obs.Panics += local.Panics
			for _, h := range local.First {
				if len(obs.First) < 6 {
					obs.First = append(obs.First, h)
				}
			}
			mu.Unlock()
		}()
	}
	wg.Wait()
	obs.Millis = time.Since(base).Milliseconds()
	return obs, nil
}

func init() {
	families["reqstorm"] = runReqStorm
	families["reqboundary"] = runReqBoundary
}
