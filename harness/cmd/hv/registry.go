package main

import (
	"context"
	"encoding/json"
	"runtime"
	"sync"
	"sync/atomic"
	"time"

	"github.com/anthdm/hollywood/actor"
)

// respawnCase: a history of operations on a fresh engine, each performed by
// the harness goroutine at quiescence through the public API.
//
//	universe[k] = {full, kind, id, parent, name}: actor k is spawned at top level
//	    by Engine.Spawn(producer, kind, WithID(id)) and as a child by
//	    Context.SpawnChild(producer, name, WithID(id)) from actor `parent`
//	    (both give the full id universe[k].full)
//	["spawn", k] ["spawnchild", p, k] ["stop", k] ["send", k, m] ["block", k] ["release", k] ["get", k]
//	["stopbegin", k, g, [line...]]   Engine.Stop(k) issued, not waited for; g's Stopped handler is gated, the
//	                                 harness waits until g sits in it; line = the actors from k down to g
//	["stopend", k, g]                the gate opens; wait for the Stop context
//	["race", k, g]                   g goroutines call Engine.Spawn for actor k at the same moment
type respawnCase struct {
	Universe []respawnActor `json:"universe"`
	Ops      [][]any        `json:"ops"`
}

type respawnActor struct {
	Full   string `json:"full"`
	Kind   string `json:"kind"`
	ID     string `json:"id"`
	Parent int    `json:"parent"`
	Name   string `json:"name"`
}

type respawnStep struct {
	Runs    []int    `json:"runs"`
	Dups    []int    `json:"dups"`
	Reg     []bool   `json:"reg"`
	RegCtx  []bool   `json:"regctx"`
	Recv    [][3]int `json:"recv"`
	Overlap bool     `json:"overlap"`
	Hang    bool     `json:"hang"`
}

type respawnObs struct {
	Steps []respawnStep `json:"steps"`
	Note  string        `json:"note,omitempty"`
}

type rsUser struct{ N int }
type rsBlock struct{ entered, release chan struct{} }
type rsSpawnChild struct {
	child int
	done  chan struct{}
}
type rsProbe struct{ reply chan []bool }

type rsGate struct {
	k                int
	entered, release chan struct{}
	once             sync.Once
}

type rsWorld struct {
	mu      sync.Mutex
	c       respawnCase
	e       *actor.Engine
	runs    []int
	dups    []int
	live    []int
	recv    [][3]int
	overlap bool
	hang    bool
	gate    *rsGate
	index   map[string]int
}

const rsWait = 6 * time.Second

type rsActor struct {
	w   *rsWorld
	k   int
	inc int
}

func (w *rsWorld) producer(k int) actor.Producer {
	return func() actor.Receiver {
		w.mu.Lock()
		defer w.mu.Unlock()
		w.runs[k]++
		if w.live[k] > 0 {
			w.overlap = true
		}
		w.live[k]++
		return &rsActor{w: w, k: k, inc: w.runs[k]}
	}
}

func (a *rsActor) Receive(c *actor.Context) {
	w := a.w
	switch m := c.Message().(type) {
	case actor.Stopped:
		w.mu.Lock()
		g := w.gate
		w.mu.Unlock()
		if g != nil && g.k == a.k {
			g.once.Do(func() { close(g.entered) })
			select {
			case <-g.release:
			case <-time.After(3 * rsWait):
			}
		}
		w.mu.Lock()
		w.live[a.k]--
		w.mu.Unlock()
	case rsUser:
		w.mu.Lock()
		w.recv = append(w.recv, [3]int{a.k, a.inc, m.N})
		w.mu.Unlock()
	case rsBlock:
		close(m.entered)
		select {
		case <-m.release:
		case <-time.After(3 * rsWait):
		}
	case rsSpawnChild:
		u := w.c.Universe[m.child]
		c.SpawnChild(w.producer(m.child), u.Name, actor.WithID(u.ID))
		close(m.done)
	}
}

func runRespawn(raw json.RawMessage) (any, error) {
	var c respawnCase
	if err := json.Unmarshal(raw, &c); err != nil {
		return nil, err
	}
	e, err := actor.NewEngine(actor.NewEngineConfig())
	if err != nil {
		return nil, err
	}
	n := len(c.Universe)
	w := &rsWorld{c: c, e: e, runs: make([]int, n), dups: make([]int, n), live: make([]int, n), index: map[string]int{}}
	pids := make([]*actor.PID, n)
	for k, u := range c.Universe {
		w.index[u.Full] = k
		pids[k] = actor.NewPID(e.Address(), u.Full)
	}
	// monitor: counts the duplicate-id events per id
	mon := e.SpawnFunc(func(ctx *actor.Context) {
		if ev, ok := ctx.Message().(actor.ActorDuplicateIdEvent); ok && ev.PID != nil {
			w.mu.Lock()
			if k, ok := w.index[ev.PID.ID]; ok {
				w.dups[k]++
			}
			w.mu.Unlock()
		}
	}, "monitor", actor.WithID("m"))
	e.Subscribe(mon)
	// probe: asks Context.GetPID from inside an actor
	probe := e.SpawnFunc(func(ctx *actor.Context) {
		if p, ok := ctx.Message().(rsProbe); ok {
			res := make([]bool, n)
			for k, u := range c.Universe {
				res[k] = ctx.GetPID(u.Full) != nil
			}
			p.reply <- res
		}
	}, "probe", actor.WithID("p"))
	es := actor.VerifEventStream(e)
	busy := map[int]bool{}
	quiesce := func() bool {
		deadline := time.Now().Add(rsWait)
		stable := 0
		for time.Now().Before(deadline) {
			ok := actor.VerifIdle(e, es) && actor.VerifIdle(e, mon) && actor.VerifIdle(e, probe)
			for k := range pids {
				if ok && !busy[k] && !actor.VerifIdle(e, pids[k]) {
					ok = false
				}
			}
			if ok {
				stable++
				if stable >= 3 {
					return true
				}
			} else {
				stable = 0
			}
			time.Sleep(50 * time.Microsecond)
		}
		return false
	}
	waitCh := func(ch <-chan struct{}) bool {
		select {
		case <-ch:
			return true
		case <-time.After(rsWait):
			return false
		}
	}
	num := func(v any) int { return int(v.(float64)) }
	blocks := map[int]chan struct{}{}
	var heldCtx context.Context
	obs := respawnObs{Steps: []respawnStep{}}
	quiesce()
	for _, op := range c.Ops {
		hang := false
		switch op[0].(string) {
		case "spawn":
			k := num(op[1])
			u := c.Universe[k]
			func() {
				defer func() {
					if v := recover(); v != nil {
						hang = true
						obs.Note = "panic in Spawn"
					}
				}()
				e.Spawn(w.producer(k), u.Kind, actor.WithID(u.ID))
			}()
		case "race":
			// g goroutines, released together by a spin barrier, spawn the same id
			k, g := num(op[1]), num(op[2])
			u := c.Universe[k]
			var ready int32
			var wg sync.WaitGroup
			for j := 0; j < g; j++ {
				wg.Add(1)
				go func() {
					defer wg.Done()
					defer func() { recover() }()
					atomic.AddInt32(&ready, 1)
					for atomic.LoadInt32(&ready) < int32(g) {
						runtime.Gosched()
					}
					e.Spawn(w.producer(k), u.Kind, actor.WithID(u.ID))
				}()
			}
			wg.Wait()
		case "spawnchild":
			p, k := num(op[1]), num(op[2])
			if e.Registry.GetPID(c.Universe[p].Kind, c.Universe[p].ID) != nil {
				done := make(chan struct{})
				e.Send(pids[p], rsSpawnChild{child: k, done: done})
				if !waitCh(done) {
					hang = true
				}
			}
		case "stop":
			if !waitCh(e.Stop(pids[num(op[1])]).Done()) {
				hang = true
			}
		case "send":
			e.Send(pids[num(op[1])], rsUser{N: num(op[2])})
		case "block":
			k := num(op[1])
			b := rsBlock{entered: make(chan struct{}), release: make(chan struct{})}
			e.Send(pids[k], b)
			if !waitCh(b.entered) {
				hang = true
			}
			blocks[k] = b.release
			busy[k] = true
		case "release":
			k := num(op[1])
			if ch, ok := blocks[k]; ok {
				close(ch)
				delete(blocks, k)
			}
			delete(busy, k)
		case "get":
		case "stopbegin":
			k, g := num(op[1]), num(op[2])
			gt := &rsGate{k: g, entered: make(chan struct{}), release: make(chan struct{})}
			w.mu.Lock()
			w.gate = gt
			w.mu.Unlock()
			if len(op) > 3 {
				for _, x := range op[3].([]any) {
					busy[num(x)] = true
				}
			}
			heldCtx = e.Stop(pids[k])
			if !waitCh(gt.entered) {
				hang = true
			}
		case "stopend":
			w.mu.Lock()
			gt := w.gate
			w.mu.Unlock()
			if gt != nil {
				close(gt.release)
				if heldCtx != nil && !waitCh(heldCtx.Done()) {
					hang = true
				}
				w.mu.Lock()
				w.gate = nil
				w.mu.Unlock()
			}
			heldCtx = nil
			for k := range busy {
				if _, blocked := blocks[k]; !blocked {
					delete(busy, k)
				}
			}
		}
		if !quiesce() {
			hang = true
		}
		// observe
		st := respawnStep{Reg: make([]bool, n)}
		for k, u := range c.Universe {
			st.Reg[k] = e.Registry.GetPID(u.Kind, u.ID) != nil
		}
		reply := make(chan []bool, 1)
		e.Send(probe, rsProbe{reply: reply})
		select {
		case st.RegCtx = <-reply:
		case <-time.After(rsWait):
			st.RegCtx = make([]bool, n)
			hang = true
		}
		w.mu.Lock()
		if hang {
			w.hang = true
		}
		st.Runs = append([]int{}, w.runs...)
		st.Dups = append([]int{}, w.dups...)
		st.Recv = append([][3]int{}, w.recv...)
		st.Overlap = w.overlap
		st.Hang = w.hang
		w.mu.Unlock()
		obs.Steps = append(obs.Steps, st)
	}
	// let go of whatever is still held so that no goroutine of this engine lingers
	for _, ch := range blocks {
		close(ch)
	}
	w.mu.Lock()
	if w.gate != nil {
		select {
		case <-w.gate.release:
		default:
			close(w.gate.release)
		}
	}
	w.mu.Unlock()
	return obs, nil
}

func init() { families["respawn"] = runRespawn }
