package main

// Family remote17race (C17, defect D12): the real stream router (an ordinary
// actor) and the real stream writers of remote/, with actor/inbox.go and
// actor/registry.go under the deterministic scheduler.  A writer W1 for one
// peer address is brought up the normal way (a first message makes the router
// spawn it; its dial is answered by an in-memory connection, package ynet);
// then, under the scheduler, one goroutine runs W1.Shutdown() — what the
// writer's own goroutine does once `<-conn.Closed()` returns — while sender
// goroutines hand further messages for the same address to the router.  All
// schedules of those goroutines, of the router's / writers' / event stream's
// inbox workers are enumerated (DFS with visited-state pruning), or sampled,
// or one given schedule is replayed.  Nothing is delayed and no code of
// remote/ is changed: a reported schedule is a real interleaving of the real
// statements at their atomic operations.

import (
	"encoding/json"
	"fmt"
	"io"
	"log/slog"
	"math/rand"
	"net"
	"runtime"
	"strconv"
	"strings"
	"sync"
	"time"

	"github.com/anthdm/hollywood/actor"
	"github.com/anthdm/hollywood/remote"
	"github.com/anthdm/hollywood/verifshim/vsched"
	"github.com/anthdm/hollywood/verifshim/yatomic"
	"github.com/anthdm/hollywood/verifshim/ynet"
	"github.com/anthdm/hollywood/verifshim/yring"
	"github.com/anthdm/hollywood/verifshim/ysync"
	"storj.io/drpc/drpcwire"
)

type raceCase struct {
	Senders  [][]int `json:"senders"` // message numbers (>= 2) sent by each sender goroutine, in order
	Drop     bool    `json:"drop"`    // a goroutine runs W1.Shutdown()
	Mode     string  `json:"mode"`    // "dfs" | "walk" | "replay"
	MaxExecs int     `json:"max_execs"`
	Seed     int64   `json:"seed"`
	Choices  []int   `json:"choices"`
	Keep     int     `json:"keep"`
}

// raceObs is what is left when nothing can run any more.
type raceObs struct {
	Has      bool    `json:"has"`     // router.streams has the address
	Reg      int     `json:"reg"`     // writer registered under stream/<addr>: 0 none, k = the k-th writer started (1 = W1)
	Dead     []int   `json:"dead"`    // messages published as DeadLetterEvent, in order
	Wire     [][]int `json:"wire"`    // per started writer: the messages it put on its connection, in order
	Stuck    []int   `json:"stuck"`   // per started writer: messages left in its inbox
	Stopped  []bool  `json:"stopped"` // per started writer: inbox stopped
	Dups     int     `json:"dups"`    // ActorDuplicateIdEvent published
	Evts     int     `json:"evts"`    // RemoteUnreachableEvent pushed (router + event stream)
	Order    string  `json:"order"`   // "notify-first" | "remove-first" | "" : what Shutdown did first, as observed
	RouterQ  int64   `json:"routerq"` // messages left in the router's inbox
	Terminal bool    `json:"terminal"`
	Deadlock bool    `json:"deadlock"`
}

const raceAddr = "peer:1"

// sinkConn is the connection the stand-in dialer returns: writes are parsed as
// dRPC frames (synchronously, on the writing goroutine) and the messages of
// every Envelope are recorded; reads block until the connection is closed.
type sinkConn struct {
	mu       sync.Mutex
	buf      []byte
	pkt      []byte
	msgs     []int
	closed   chan struct{}
	once     sync.Once
	sawClose bool
}

type sinkAddr struct{}

func (sinkAddr) Network() string { return "sink" }
func (sinkAddr) String() string  { return "sink" }

func newSink() *sinkConn { return &sinkConn{closed: make(chan struct{})} }

func (c *sinkConn) Read(b []byte) (int, error) {
	<-c.closed
	return 0, io.EOF
}

func (c *sinkConn) Write(b []byte) (int, error) {
	c.mu.Lock()
	defer c.mu.Unlock()
	select {
	case <-c.closed:
		return 0, io.ErrClosedPipe
	default:
	}
	c.buf = append(c.buf, b...)
	for {
		rem, fr, ok, err := drpcwire.ParseFrame(c.buf)
		if err != nil || !ok {
			break
		}
		c.buf = append([]byte(nil), rem...)
		switch fr.Kind {
		case drpcwire.KindMessage:
			c.pkt = append(c.pkt, fr.Data...)
			if fr.Done {
				env := new(remote.Envelope)
				if err := env.UnmarshalVT(c.pkt); err == nil {
					for _, m := range env.Messages {
						p := new(actor.PID)
						if err := p.UnmarshalVT(m.Data); err == nil {
							n, _ := strconv.Atoi(p.ID)
							c.msgs = append(c.msgs, n)
						}
					}
				}
				c.pkt = nil
			}
		case drpcwire.KindClose, drpcwire.KindCloseSend, drpcwire.KindCancel, drpcwire.KindError:
			c.sawClose = true
		}
	}
	return len(b), nil
}

func (c *sinkConn) Close() error                     { c.once.Do(func() { close(c.closed) }); return nil }
func (c *sinkConn) LocalAddr() net.Addr              { return sinkAddr{} }
func (c *sinkConn) RemoteAddr() net.Addr             { return sinkAddr{} }
func (c *sinkConn) SetDeadline(time.Time) error      { return nil }
func (c *sinkConn) SetReadDeadline(time.Time) error  { return nil }
func (c *sinkConn) SetWriteDeadline(time.Time) error { return nil }
func (c *sinkConn) sent() []int {
	c.mu.Lock()
	defer c.mu.Unlock()
	return append([]int{}, c.msgs...)
}

// standIn does what remote.Remote does on the sending side (Start: spawn the
// router; Send: hand a streamDeliver to it) without opening a listener.
type standIn struct {
	addr   string
	e      *actor.Engine
	router *actor.PID
}

func (r *standIn) Address() string { return r.addr }
func (r *standIn) Start(e *actor.Engine) error {
	r.e = e
	r.router = e.Spawn(remote.VerifNewRouter(e), "router", actor.WithID("r"), actor.WithInboxSize(1024))
	return nil
}
func (r *standIn) Stop() *sync.WaitGroup { return &sync.WaitGroup{} }
func (r *standIn) Send(pid *actor.PID, msg any, sender *actor.PID) {
	r.e.Send(r.router, remote.VerifDeliverMsg(pid, sender, msg))
}

func raceDescribe(v any) any {
	env, ok := v.(actor.Envelope)
	if !ok {
		return v
	}
	num := func(m any) string {
		if d, ok := remote.VerifDeliverOf(m); ok {
			if p, ok := d.Msg.(*actor.PID); ok {
				return p.ID
			}
		}
		return "?"
	}
	switch m := env.Msg.(type) {
	case actor.RemoteUnreachableEvent:
		return "evt"
	case actor.DeadLetterEvent:
		return "dead:" + num(m.Message)
	case actor.ActorDuplicateIdEvent:
		return "dup"
	default:
		if _, ok := remote.VerifDeliverOf(m); ok {
			return "d:" + num(m)
		}
		return fmt.Sprintf("%T", m)
	}
}

var racePrev []*sinkConn

func waitUntil(what string, f func() bool) {
	dl := time.Now().Add(20 * time.Second)
	for !f() {
		if time.Now().After(dl) {
			panic("remote17race: setup did not settle: " + what)
		}
		time.Sleep(20 * time.Microsecond)
	}
}

// raceCleanup ends the connections of the previous execution and waits until
// no goroutine is inside the packages under test any more (each writer's
// `<-conn.Closed()` goroutine wakes up and runs Shutdown on the abandoned
// engine, whose router then handles the event): a goroutine that the
// scheduler does not manage must never run shimmed code while an execution is
// under way.  The goroutine dump is the one signal that does not depend on
// what those goroutines do.
func raceCleanup() error {
	for _, c := range racePrev {
		c.Close()
	}
	racePrev = nil
	buf := make([]byte, 1<<20)
	dl := time.Now().Add(20 * time.Second)
	for {
		n := runtime.Stack(buf, true)
		st := string(buf[:n])
		if !strings.Contains(st, "hollywood/actor.") && !strings.Contains(st, "hollywood/remote.") {
			return nil
		}
		if time.Now().After(dl) {
			return fmt.Errorf("remote17race: goroutines of the previous execution did not finish:\n%s", st)
		}
		time.Sleep(30 * time.Microsecond)
	}
}

type raceRun struct {
	e       *actor.Engine
	rem     *standIn
	wpid    *actor.PID
	writers []actor.Processer // started writers, in order of registration
	smu     sync.Mutex
	sinks   []*sinkConn
	// shadow of the ring contents, kept from the trace
	rings  map[string][]string
	lens   map[string]int64
	ntrace int
	order  string
}

func (r *raceRun) sinkList() []*sinkConn {
	r.smu.Lock()
	defer r.smu.Unlock()
	return append([]*sinkConn(nil), r.sinks...)
}

func (r *raceRun) inboxes() map[string]*actor.Inbox {
	m := map[string]*actor.Inbox{
		"router": actor.VerifInbox(actor.VerifProc(r.e, r.rem.router)),
		"es":     actor.VerifInbox(actor.VerifProc(r.e, actor.VerifEventStream(r.e))),
	}
	for i, w := range r.writers {
		m["w"+strconv.Itoa(i+1)] = remote.VerifWriterInbox(w)
	}
	return m
}

// track is called after every scheduling step: it notes a newly registered
// writer and attributes the one ring operation of the step to its ring.
func (r *raceRun) track(s *vsched.Sched) {
	if p := actor.VerifProc(r.e, r.wpid); p != nil {
		known := false
		for _, w := range r.writers {
			if w == p {
				known = true
			}
		}
		if !known {
			r.writers = append(r.writers, p)
		}
	}
	inb := r.inboxes()
	grown, shrunk := "", ""
	for name, in := range inb {
		if in == nil {
			continue
		}
		l := in.VerifLen()
		if l > r.lens[name] {
			grown = name
		} else if l < r.lens[name] {
			shrunk = name
		}
		r.lens[name] = l
	}
	for ; r.ntrace < len(s.Trace); r.ntrace++ {
		ev := s.Trace[r.ntrace]
		switch ev.Op {
		case "push":
			item := fmt.Sprint(ev.Args[0])
			if grown != "" {
				r.rings[grown] = append(r.rings[grown], item)
			}
			if item == "evt" && grown == "router" && r.order == "" {
				r.order = "notify-first"
			}
		case "popn", "pop":
			if shrunk != "" {
				n := int64(len(r.rings[shrunk])) - r.lens[shrunk]
				if n > 0 && int(n) <= len(r.rings[shrunk]) {
					r.rings[shrunk] = r.rings[shrunk][n:]
				}
			}
		}
	}
	if r.order == "" && len(r.writers) > 0 && actor.VerifProc(r.e, r.wpid) == nil {
		r.order = "remove-first"
	}
}

func (r *raceRun) observe(s *vsched.Sched, terminal, deadlock bool) raceObs {
	o := raceObs{Terminal: terminal, Deadlock: deadlock, Dead: []int{}, Order: r.order}
	if rcv := actor.VerifReceiver(r.e, r.rem.router); rcv != nil {
		o.Has, _ = remote.VerifRouterHas(rcv, raceAddr)
	}
	if p := actor.VerifProc(r.e, r.wpid); p != nil {
		for i, w := range r.writers {
			if w == p {
				o.Reg = i + 1
			}
		}
		if o.Reg == 0 {
			o.Reg = -1
		}
	}
	for _, ev := range s.Trace {
		if ev.Op != "push" {
			continue
		}
		item := fmt.Sprint(ev.Args[0])
		switch {
		case strings.HasPrefix(item, "dead:"):
			n, _ := strconv.Atoi(item[5:])
			o.Dead = append(o.Dead, n)
		case item == "dup":
			o.Dups++
		case item == "evt":
			o.Evts++
		}
	}
	sinks := r.sinkList()
	for i, w := range r.writers {
		var sent []int
		if i < len(sinks) {
			sent = sinks[i].sent()
		}
		if sent == nil {
			sent = []int{}
		}
		o.Wire = append(o.Wire, sent)
		in := remote.VerifWriterInbox(w)
		o.Stuck = append(o.Stuck, int(in.VerifLen()))
		o.Stopped = append(o.Stopped, in.VerifStatus() == 0)
	}
	if in := actor.VerifInbox(actor.VerifProc(r.e, r.rem.router)); in != nil {
		o.RouterQ = in.VerifLen()
	}
	return o
}

func raceMsg(n int) *actor.PID { return &actor.PID{Address: "m", ID: strconv.Itoa(n)} }

func raceScenario(c raceCase) func() vsched.Scenario {
	return func() vsched.Scenario {
		// ---- unmanaged: bring the node up the normal way, W1 connected, message 1 on the wire
		if err := raceCleanup(); err != nil {
			panic(err)
		}
		r := &raceRun{rings: map[string][]string{}, lens: map[string]int64{}}
		ynet.Dialer = func(network, address string) (net.Conn, error) {
			sk := newSink()
			r.smu.Lock()
			r.sinks = append(r.sinks, sk)
			racePrev = append(racePrev, sk)
			r.smu.Unlock()
			return sk, nil
		}
		r.rem = &standIn{addr: "self:1"}
		e, err := actor.NewEngine(actor.NewEngineConfig().WithRemote(r.rem))
		if err != nil {
			panic(err)
		}
		r.e = e
		r.wpid = remote.VerifWriterPID(e, raceAddr)
		target := actor.NewPID(raceAddr, "t/1")
		e.Send(target, raceMsg(1))
		waitUntil("first message on the wire", func() bool {
			sk := r.sinkList()
			return len(sk) == 1 && len(sk[0].sent()) == 1 &&
				actor.VerifIdle(e, r.rem.router) && actor.VerifIdle(e, actor.VerifEventStream(e))
		})
		w1 := actor.VerifProc(e, r.wpid)
		if w1 == nil {
			panic("remote17race: W1 not registered")
		}
		r.writers = []actor.Processer{w1}
		waitUntil("W1 idle", func() bool {
			in := remote.VerifWriterInbox(w1)
			return in.VerifStatus() == 2 && in.VerifLen() == 0
		})
		// An inbox that reads "idle and empty" may still have its last worker between the CAS to idle and the
		// re-check of the ring length: that goroutine is not managed and must be gone before the scheduler takes over.
		waitUntil("inbox workers of the set-up gone", func() bool {
			buf := make([]byte, 1<<18)
			st := string(buf[:runtime.Stack(buf, true)])
			return !strings.Contains(st, "actor.(*Inbox).process") && !strings.Contains(st, "actor.(*Inbox).run")
		})
		return vsched.Scenario{
			Describe: raceDescribe,
			Setup: func(s *vsched.Sched) {
				if c.Drop {
					vsched.Go(func() { w1.Shutdown() })
				}
				for _, ms := range c.Senders {
					ms := ms
					vsched.Go(func() {
						for _, n := range ms {
							e.Send(target, raceMsg(n))
						}
					})
				}
			},
			Fingerprint: func(s *vsched.Sched) string {
				r.track(s)
				o := r.observe(s, false, false)
				st := []string{}
				for name, in := range r.inboxes() {
					if in != nil {
						st = append(st, fmt.Sprint(name, in.VerifStatus(), r.rings[name]))
					}
				}
				sortStrings(st)
				closed := []bool{}
				for _, sk := range r.sinkList() {
					sk.mu.Lock()
					closed = append(closed, sk.sawClose)
					sk.mu.Unlock()
				}
				return fmt.Sprint(o.Has, o.Reg, o.Dead, o.Wire, o.Dups, o.Evts, closed, st, "|", strings.Join(s.LocalStates(), ","))
			},
			Observe: func(s *vsched.Sched, terminal, deadlock bool) any {
				r.track(s)
				return r.observe(s, terminal, deadlock)
			},
		}
	}
}

func sortStrings(a []string) {
	for i := 1; i < len(a); i++ {
		for j := i; j > 0 && a[j] < a[j-1]; j-- {
			a[j], a[j-1] = a[j-1], a[j]
		}
	}
}

// blackholed: at rest the router still maps the address to a writer PID under
// which nothing is registered (and no event is on its way to the router).
func raceBad(o any) bool {
	ob := o.(raceObs)
	if ob.Deadlock || !ob.Terminal {
		return ob.Deadlock
	}
	return (ob.Has && ob.Reg == 0) || (!ob.Has && ob.Reg != 0) || ob.Dups > 0
}

type raceResult struct {
	Executions int              `json:"executions"`
	States     int              `json:"states"`
	Steps      int              `json:"transitions"`
	Exhaustive bool             `json:"exhaustive"`
	Stuck      int              `json:"stuck"`
	Deadlocks  int              `json:"deadlocks"`
	Terminals  []raceObs        `json:"terminals"`
	Bad        []vsched.Outcome `json:"bad"`
	Sample     *vsched.Outcome  `json:"sample,omitempty"`
}

// exploreAll is vsched.Explore without aborted executions: when a state has
// been seen before, the execution is not cut (a goroutine parked inside an
// actor's Receive cannot be unwound: the actor's recover would restart it) but
// finished with the default schedule, and the search backtracks from the cut.
func exploreAll(mk func() vsched.Scenario, maxExecs int, bad func(any) bool) raceResult {
	res := raceResult{Exhaustive: true}
	visited := map[string]bool{}
	seen := map[string]bool{}
	var stack []int
	for {
		if res.Executions >= maxExecs {
			res.Exhaustive = false
			break
		}
		cut, k := -1, 0
		out := vsched.RunOnce(mk, func(step, n int) int {
			if cut < 0 && step < len(stack) {
				return stack[step]
			}
			return 0
		}, 0, func(fp string) bool {
			k++
			if cut >= 0 || k < len(stack) {
				return false
			}
			if visited[fp] {
				cut = k
			} else {
				visited[fp] = true
			}
			return false
		}, 1000000)
		res.Executions++
		if out.Stuck {
			res.Stuck++
		}
		if out.Deadlock {
			res.Deadlocks++
		}
		choices, widths := out.Choices, out.Widths
		if cut >= 0 && cut <= len(choices) {
			choices, widths = choices[:cut], widths[:cut]
		}
		res.Steps += len(choices) - len(stack) + 1
		if ob, ok := out.Obs.(raceObs); ok && (out.Terminal || out.Deadlock) {
			b, _ := json.Marshal(ob)
			if !seen[string(b)] {
				seen[string(b)] = true
				res.Terminals = append(res.Terminals, ob)
				if bad(ob) && len(res.Bad) < 2 {
					res.Bad = append(res.Bad, out)
				}
			}
			if res.Sample == nil && cut < 0 {
				o := out
				res.Sample = &o
			}
		}
		stack = append([]int(nil), choices...)
		for len(stack) > 0 && stack[len(stack)-1]+1 >= widths[len(stack)-1] {
			stack = stack[:len(stack)-1]
		}
		if len(stack) == 0 {
			break
		}
		stack[len(stack)-1]++
	}
	res.States = len(visited)
	return res
}

func runRace(raw json.RawMessage) (any, error) {
	var c raceCase
	if err := json.Unmarshal(raw, &c); err != nil {
		return nil, err
	}
	slog.SetDefault(slog.New(slog.NewTextHandler(io.Discard, nil)))
	yatomic.Enabled, yring.Enabled, ysync.Enabled = true, true, true
	defer func() {
		yatomic.Enabled, yring.Enabled, ysync.Enabled = false, false, false
		ynet.Dialer = nil
		_ = raceCleanup()
	}()
	if c.MaxExecs == 0 {
		c.MaxExecs = 100000
	}
	mk := raceScenario(c)
	switch c.Mode {
	case "replay":
		out := vsched.RunOnce(mk, func(step, n int) int {
			if step < len(c.Choices) {
				return c.Choices[step]
			}
			return 0
		}, 0, func(string) bool { return false }, 1000000)
		res := raceResult{Executions: 1}
		if ob, ok := out.Obs.(raceObs); ok {
			res.Terminals = []raceObs{ob}
			if raceBad(ob) {
				res.Bad = []vsched.Outcome{out}
			}
		}
		res.Sample = &out
		return res, nil
	case "walk":
		rnd := rand.New(rand.NewSource(c.Seed))
		res := raceResult{}
		seen := map[string]bool{}
		for i := 0; i < c.MaxExecs; i++ {
			out := vsched.RunOnce(mk, func(step, n int) int { return rnd.Intn(n) }, 0, func(string) bool { return false }, 1000000)
			res.Executions++
			res.Steps += len(out.Choices)
			if out.Stuck {
				res.Stuck++
			}
			if out.Deadlock {
				res.Deadlocks++
			}
			if ob, ok := out.Obs.(raceObs); ok {
				b, _ := json.Marshal(ob)
				if !seen[string(b)] {
					seen[string(b)] = true
					res.Terminals = append(res.Terminals, ob)
					if raceBad(ob) && len(res.Bad) < 2 {
						res.Bad = append(res.Bad, out)
					}
				}
			}
		}
		return res, nil
	default:
		return exploreAll(mk, c.MaxExecs, raceBad), nil
	}
}

func init() { families["remote17race"] = runRace }
