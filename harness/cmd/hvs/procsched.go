package main

import (
	"encoding/json"
	"fmt"
	"math/rand"
	"reflect"
	"sync"
	"sync/atomic"
	"time"

	"github.com/anthdm/hollywood/actor"
	"github.com/anthdm/hollywood/verifshim/vsched"
	"github.com/anthdm/hollywood/verifshim/yatomic"
	"github.com/anthdm/hollywood/verifshim/yring"
	"github.com/anthdm/hollywood/verifshim/ysync"
)

// procSchedCase: the real engine (process.go + inbox.go + registry.go) under the deterministic
// scheduler.  One scripted actor "t/a" is spawned by a managed goroutine while other managed
// goroutines send it numbered messages / poison it; the receiver yields inside every Receive, so
// that two overlapping Receive calls would be seen.  Script: panic_on = payloads whose handler panics
// (first time only), pill_after = a sender poisons the actor after its last message.
type procSchedCase struct {
	Senders     [][]int `json:"senders"`
	PanicOn     []int   `json:"panic_on"`
	MaxRestarts int     `json:"max_restarts"`
	Poison      string  `json:"poison"` // "", "poison", "stop": issued by an extra goroutine
	// Poisoners: further goroutines each calling Stop ("stop") or Poison ("poison") on the actor
	Poisoners  []string `json:"poisoners"`
	SelfPoison int      `json:"self_poison"` // payload whose handler calls Poison(self), 0 = none
	Walks      int      `json:"walks"`
	Seed       int64    `json:"seed"`
	Choices    []int    `json:"choices"`
	Mode       string   `json:"mode"`
	// Script: rules in the format of the proc family (cmd/hv/proc.go), applied in addition to
	// panic_on / self_poison: {"inc": i (0 = any), "on": "I"|"S"|"X"|n,
	// "do": [["send",n],["sendnil",n],["poison"],["stop"],["panic"],["panic_internal"]]}
	Script []psRule `json:"script"`
	// Trace (family actorsched): every kept execution comes with its trace restricted to the
	// operations on the target actor (atrace) and with the final state of its inbox
	Trace bool `json:"trace"`
	Keep  int  `json:"keep"`
}

type psRule struct {
	Inc int     `json:"inc"`
	On  any     `json:"on"`
	Do  [][]any `json:"do"`
}

// aEvent: one operation on the target actor: thread (0 spawner, then senders, then poisoners,
// then the target inbox's workers in order of appearance), operation, arguments, results
type aEvent struct {
	T  int    `json:"t"`
	Op string `json:"op"`
	A  []any  `json:"a,omitempty"`
	R  []any  `json:"r,omitempty"`
}

type psRecv struct {
	Inc int `json:"inc"`
	Msg any `json:"msg"`
}

type psObs struct {
	Recvs    []psRecv `json:"recvs"`
	Overlap  bool     `json:"overlap"`
	Deadlock bool     `json:"deadlock"`
	Terminal bool     `json:"terminal"`
	Stuck    bool     `json:"stuck"`
	Sent     []int    `json:"sent"`
	Dead     []int    `json:"dead"` // payloads reported as dead letters
	// for every Stop/Poison context created: did it become done
	PillsDone []bool `json:"pills_done"`
	// family actorsched only
	ATrace     []aEvent `json:"atrace,omitempty"`
	Status     *int32   `json:"status,omitempty"`     // final procStatus of the target's inbox
	Registered *bool    `json:"registered,omitempty"` // target still in the registry
	Stranded   []any    `json:"stranded,omitempty"`   // what is left in the target's ring: payloads, "pill:<graceful>"
	Threads    int      `json:"threads,omitempty"`
	// two threads ran the actor's code at once (spawner inside process.Start / a worker inside Inbox.run)
	HolderOverlap bool `json:"holder_overlap,omitempty"`
}

type psWorld struct {
	mu      sync.Mutex
	c       procSchedCase
	recvs   []psRecv
	open    int
	overlap bool
	incs    int
	boomed  map[int]bool
	dead    []int
	sent    []int
	pills   []interface{ Err() error }
	// the target inbox's status word and ring, as the shims see them
	stObj *int32
	rgObj any
}

type psActor struct {
	w   *psWorld
	inc int
}

func (a *psActor) Receive(c *actor.Context) {
	w := a.w
	key := msgKey(c.Message())
	vsched.Op("recv-begin", nil, a.inc, key)
	vsched.Res()
	w.mu.Lock()
	if w.open > 0 {
		w.overlap = true
	}
	w.open++
	w.recvs = append(w.recvs, psRecv{Inc: a.inc, Msg: key})
	w.mu.Unlock()
	vsched.Op("recv-mid", nil) // a scheduling point inside Receive
	vsched.Res()
	w.mu.Lock()
	w.open--
	boom := false
	if n, ok := key.(int); ok {
		for _, p := range w.c.PanicOn {
			if p == n && !w.boomed[n] {
				w.boomed[n] = true
				boom = true
			}
		}
		if n == w.c.SelfPoison && n != 0 {
			w.mu.Unlock()
			c.Engine().Poison(c.PID())
			w.mu.Lock()
		}
	}
	var acts [][]any
	for _, r := range w.c.Script {
		if (r.Inc == 0 || r.Inc == a.inc) && psSameKey(r.On, key) {
			acts = r.Do
			break
		}
	}
	w.mu.Unlock()
	for _, act := range acts {
		kind, _ := act[0].(string)
		n := 0
		if len(act) > 1 {
			if f, ok := act[1].(float64); ok {
				n = int(f)
			}
		}
		switch kind {
		case "send", "sendnil":
			w.mu.Lock()
			w.sent = append(w.sent, n)
			w.mu.Unlock()
			if kind == "send" {
				c.Send(c.PID(), psMsg{n})
			} else {
				c.Engine().Send(c.PID(), psMsg{n})
			}
		case "poison":
			c.Engine().Poison(c.PID())
		case "stop":
			c.Engine().Stop(c.PID())
		case "panic":
			panic("scripted panic")
		case "panic_internal":
			panic(&actor.InternalError{From: "script", Err: fmt.Errorf("scripted")})
		}
	}
	if boom {
		panic("scripted panic")
	}
}

func psSameKey(a, b any) bool {
	if f, ok := a.(float64); ok {
		a = int(f)
	}
	if f, ok := b.(float64); ok {
		b = int(f)
	}
	return a == b
}

func msgKey(m any) any {
	switch x := m.(type) {
	case actor.Initialized:
		return "I"
	case actor.Started:
		return "S"
	case actor.Stopped:
		return "X"
	case psMsg:
		return x.N
	default:
		return fmt.Sprintf("?%T", m)
	}
}

type psMsg struct{ N int }

func procScenario(c procSchedCase) func() vsched.Scenario {
	return func() vsched.Scenario {
		w := &psWorld{c: c, boomed: map[int]bool{}}
		var e *actor.Engine
		return vsched.Scenario{
			Setup: func(s *vsched.Sched) {
				// engine creation runs unmanaged; wait until its event stream is at rest
				vsched.Active = nil
				e, _ = actor.NewEngine(actor.NewEngineConfig())
				mon := e.SpawnFunc(func(ctx *actor.Context) {
					if dl, ok := ctx.Message().(actor.DeadLetterEvent); ok {
						if m, ok := dl.Message.(psMsg); ok {
							w.mu.Lock()
							w.dead = append(w.dead, m.N)
							w.mu.Unlock()
						}
					}
				}, "mon", actor.WithID("m"))
				e.Subscribe(mon)
				for i := 0; i < 2000 && !(actor.VerifIdle(e, actor.VerifEventStream(e)) && actor.VerifIdle(e, mon)); i++ {
					time.Sleep(50 * time.Microsecond)
				}
				time.Sleep(200 * time.Microsecond)
				vsched.Active = s
				target := actor.NewPID(e.Address(), "t/a")
				vsched.Go(func() {
					e.Spawn(func() actor.Receiver {
						w.mu.Lock()
						w.incs++
						inc := w.incs
						if c.Trace && w.stObj == nil {
							w.stObj, w.rgObj = actor.VerifInboxObjs(e, target)
						}
						w.mu.Unlock()
						return &psActor{w: w, inc: inc}
					}, "t", actor.WithID("a"), actor.WithMaxRestarts(c.MaxRestarts), actor.WithRestartDelay(time.Microsecond))
				})
				for _, ms := range c.Senders {
					ms := ms
					vsched.Go(func() {
						for _, m := range ms {
							w.mu.Lock()
							w.sent = append(w.sent, m)
							w.mu.Unlock()
							e.Send(target, psMsg{m})
						}
					})
				}
				kinds := append([]string{}, c.Poisoners...)
				if c.Poison != "" {
					kinds = append(kinds, c.Poison)
				}
				for _, k := range kinds {
					k := k
					vsched.Go(func() {
						var ctx interface{ Err() error }
						if k == "stop" {
							ctx = e.Stop(target)
						} else {
							ctx = e.Poison(target)
						}
						w.mu.Lock()
						w.pills = append(w.pills, ctx)
						w.mu.Unlock()
					})
				}
			},
			Observe: func(s *vsched.Sched, terminal, deadlock bool) any {
				w.mu.Lock()
				defer w.mu.Unlock()
				o := psObs{Recvs: append([]psRecv{}, w.recvs...), Overlap: w.overlap, Deadlock: deadlock, Terminal: terminal,
					Sent: append([]int{}, w.sent...), Dead: append([]int{}, w.dead...), PillsDone: []bool{}}
				for _, p := range w.pills {
					o.PillsDone = append(o.PillsDone, p.Err() != nil)
				}
				if c.Trace {
					nInit := 1 + len(c.Senders) + len(c.Poisoners)
					if c.Poison != "" {
						nInit++
					}
					o.ATrace, o.Threads = restrictTrace(s, nInit, schedObjID(s, w.stObj), schedObjID(s, w.rgObj))
					o.HolderOverlap = holdersOverlap(o.ATrace, nInit-1)
					reg := actor.VerifTargetRegistered(e, actor.NewPID(e.Address(), "t/a"))
					o.Registered = &reg
					if w.stObj != nil {
						st := atomic.LoadInt32(w.stObj)
						o.Status = &st
					}
					if (terminal || deadlock) && w.rgObj != nil {
						// what is left in the ring (the execution is over: emptying it disturbs nothing)
						if rb, ok := w.rgObj.(interface {
							PopN(int64) ([]actor.Envelope, bool)
						}); ok {
							for {
								xs, ok := rb.PopN(4096)
								if !ok {
									break
								}
								for _, x := range xs {
									o.Stranded = append(o.Stranded, psDescribe(x))
								}
							}
						}
					}
				}
				return o
			},
			Describe: psDescriber(c),
		}
	}
}

func psDescriber(c procSchedCase) func(any) any {
	if !c.Trace {
		return nil
	}
	return psDescribe
}

// psDescribe renders an envelope of the target as its payload number or "pill:<graceful>".
func psDescribe(v any) any {
	if x, ok := v.(actor.Envelope); ok {
		if m, ok := x.Msg.(psMsg); ok {
			return m.N
		}
		if isPill, g := actor.VerifPill(x.Msg); isPill {
			return fmt.Sprintf("pill:%v", g)
		}
		return fmt.Sprintf("?%T", x.Msg)
	}
	return v
}

// The object ids of the scheduler's events (vsched.Event.Obj, (*vsched.Sched).ObjID) are read through
// reflection, so that this file also builds against shims that do not record them; the actorsched
// family then refuses to run, the procsched family does not need them.
func eventObj(ev vsched.Event) int {
	f := reflect.ValueOf(ev).FieldByName("Obj")
	if !f.IsValid() {
		return 0
	}
	return int(f.Int())
}

func schedHasObjIDs(s *vsched.Sched) bool {
	return reflect.ValueOf(s).MethodByName("ObjID").IsValid()
}

func schedObjID(s *vsched.Sched, obj any) int {
	m := reflect.ValueOf(s).MethodByName("ObjID")
	if !m.IsValid() || obj == nil {
		return 0
	}
	v := reflect.ValueOf(obj)
	if v.Kind() == reflect.Pointer && v.IsNil() {
		return 0
	}
	return int(m.Call([]reflect.Value{v})[0].Int())
}

// holdersOverlap: the predicate of C02_at_most_one_thread_runs_the_actor on a restricted trace (the
// same as ActorExec.holders_overlap): the spawner from Registry.add to Inbox.Start's Swap and a
// worker from its first operation to its CAS running->idle never coexist.
func holdersOverlap(tr []aEvent, nclients int) bool {
	open := map[int]bool{}
	num := func(v any) int {
		switch x := v.(type) {
		case int32:
			return int(x)
		case int:
			return x
		case float64:
			return int(x)
		}
		return -1
	}
	for _, e := range tr {
		if !(e.T == 0 || e.T > nclients) {
			continue
		}
		closes := false
		switch e.Op {
		case "len":
			continue
		case "cas":
			if len(e.A) == 2 && num(e.A[0]) == 2 && num(e.A[1]) == 3 && !open[e.T] {
				continue
			}
			closes = e.T > nclients && len(e.A) == 2 && num(e.A[0]) == 3 && num(e.A[1]) == 2
		case "swap":
			closes = e.T == 0
		case "store":
			// the same write with the old value not asked for (2 = idle)
			closes = e.T == 0 && len(e.A) == 1 && num(e.A[0]) == 2
		}
		for j := range open {
			if j != e.T {
				return true
			}
		}
		if closes {
			delete(open, e.T)
		} else {
			open[e.T] = true
		}
	}
	return false
}

// restrictTrace keeps the operations on the target actor: atomic operations on its inbox's status
// word (stObj), operations on its ring (rgObj), acquisitions of the registry's write lock (add and
// Remove of the target: nothing else is added or removed while the scheduler runs), registry
// lookups of the target, and the yields of its receiver.  The shims do not say which id a lookup
// asked for; of the threads that operate on the target (the initial ones and the workers of its
// inbox: goroutines whose first operation is a load of stObj) every lookup of another actor is a
// BroadcastEvent to the event stream, which is registered throughout: that lookup is immediately
// followed, on the same goroutine, by a push onto a ring that is not the target's.
func restrictTrace(s *vsched.Sched, nInit, stObj, rgObj int) ([]aEvent, int) {
	tid := map[int]int{}
	for g := 0; g < nInit; g++ {
		tid[g] = g
	}
	next := nInit
	first := map[int]bool{}
	nextOf := make([]int, len(s.Trace)) // index of the same goroutine's next event, -1 if none
	last := map[int]int{}
	for i := range s.Trace {
		nextOf[i] = -1
		if j, ok := last[s.Trace[i].G]; ok {
			nextOf[j] = i
		}
		last[s.Trace[i].G] = i
	}
	var out []aEvent
	for i, ev := range s.Trace {
		if !first[ev.G] {
			first[ev.G] = true
			if _, ok := tid[ev.G]; !ok && ev.Op == "load" && stObj != 0 && eventObj(ev) == stObj {
				tid[ev.G] = next
				next++
			}
		}
		t, ok := tid[ev.G]
		if !ok {
			continue
		}
		keep := false
		switch ev.Op {
		case "cas", "load", "swap", "store":
			keep = stObj != 0 && eventObj(ev) == stObj
		case "push", "popn", "len", "pop":
			keep = rgObj != 0 && eventObj(ev) == rgObj
		case "lock", "recv-begin", "recv-mid":
			keep = true
		case "rlock":
			keep = true
			if j := nextOf[i]; j >= 0 && s.Trace[j].Op == "push" && !(rgObj != 0 && eventObj(s.Trace[j]) == rgObj) {
				keep = false
			}
		}
		if keep {
			out = append(out, aEvent{T: t, Op: ev.Op, A: ev.Args, R: ev.Res})
		}
	}
	return out, next
}

func psBad(o any) bool {
	ob := o.(psObs)
	if ob.Terminal {
		for _, d := range ob.PillsDone {
			if !d {
				return true
			}
		}
	}
	if ob.Terminal && ob.Registered != nil && !*ob.Registered && ob.Status != nil && *ob.Status != 0 {
		return true // the inbox of an unregistered actor is not stopped
	}
	return ob.Overlap || ob.HolderOverlap || ob.Deadlock
}

func runProcSched(raw json.RawMessage) (any, error) {
	var c procSchedCase
	if err := json.Unmarshal(raw, &c); err != nil {
		return nil, err
	}
	yatomic.Enabled, yring.Enabled, ysync.Enabled = true, true, true
	defer func() { yatomic.Enabled, yring.Enabled, ysync.Enabled = false, false, false }()
	mk := procScenario(c)
	if c.Mode == "replay" {
		return vsched.Replay(mk, c.Choices, 20000), nil
	}
	rnd := rand.New(rand.NewSource(c.Seed))
	if c.Walks == 0 {
		c.Walks = 200
	}
	var res vsched.Result
	if c.Mode == "pct" {
		res = vsched.WalksPCT(mk, c.Walks, rnd.Intn, 3, 20000, 3, psBad)
	} else {
		res = vsched.Walks(mk, c.Walks, rnd.Intn, 20000, 3, psBad)
	}
	// keep the output small: traces of the samples are not needed
	for i := range res.Samples {
		res.Samples[i].Trace = nil
	}
	return res, nil
}

// runActorSched: the same scenarios; every kept execution (terminal ones, up to keep, and the bad
// ones) is returned with its choices and its observation including the restricted trace, for the
// lock-step replay in the product model (coq/Actor.v).
func runActorSched(raw json.RawMessage) (any, error) {
	var c procSchedCase
	if err := json.Unmarshal(raw, &c); err != nil {
		return nil, err
	}
	c.Trace = true
	if !schedHasObjIDs(&vsched.Sched{}) {
		return nil, fmt.Errorf("actorsched: the scheduler shims do not record object ids (tools/verifshim: Event.Obj, OpOn, ObjID)")
	}
	yatomic.Enabled, yring.Enabled, ysync.Enabled = true, true, true
	defer func() { yatomic.Enabled, yring.Enabled, ysync.Enabled = false, false, false }()
	mk := procScenario(c)
	type kept struct {
		Choices []int `json:"choices"`
		Obs     any   `json:"obs"`
	}
	type result struct {
		Executions int    `json:"executions"`
		Steps      int    `json:"transitions"`
		Deadlocks  int    `json:"deadlocks"`
		Stuck      int    `json:"stuck"`
		Samples    []kept `json:"samples"`
		Bad        []kept `json:"bad"`
	}
	if c.Mode == "replay" {
		out := vsched.Replay(mk, c.Choices, 20000)
		r := result{Executions: 1, Steps: len(out.Choices), Samples: []kept{{out.Choices, out.Obs}}}
		if out.Deadlock {
			r.Deadlocks = 1
		}
		if out.Stuck {
			r.Stuck = 1
		}
		if psBad(out.Obs) {
			r.Bad = []kept{{out.Choices, out.Obs}}
		}
		return r, nil
	}
	rnd := rand.New(rand.NewSource(c.Seed))
	if c.Walks == 0 {
		c.Walks = 100
	}
	if c.Keep == 0 {
		c.Keep = c.Walks
	}
	var res vsched.Result
	if c.Mode == "pct" {
		res = vsched.WalksPCT(mk, c.Walks, rnd.Intn, 3, 20000, c.Keep, psBad)
	} else {
		res = vsched.Walks(mk, c.Walks, rnd.Intn, 20000, c.Keep, psBad)
	}
	r := result{Executions: res.Executions, Steps: res.Steps, Deadlocks: res.Deadlocks, Stuck: res.Stuck}
	for _, o := range res.Samples {
		r.Samples = append(r.Samples, kept{o.Choices, o.Obs})
	}
	for _, o := range res.Bad {
		r.Bad = append(r.Bad, kept{o.Choices, o.Obs})
	}
	return r, nil
}

func init() {
	families["procsched"] = runProcSched
	families["actorsched"] = runActorSched
}
