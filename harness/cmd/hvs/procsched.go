package main

import (
	"encoding/json"
	"fmt"
	"math/rand"
	"sync"
	"time"

	"github.com/anthdm/hollywood/actor"
	"github.com/anthdm/hollywood/verifshim/vsched"
	"github.com/anthdm/hollywood/verifshim/yatomic"
	"github.com/anthdm/hollywood/verifshim/yring"
	"github.com/anthdm/hollywood/verifshim/ysync"
)

// procSchedCase: the real engine (process.go + inbox.go + registry.go) under the deterministic
// scheduler.  One scripted actor "t/a" is spawned by a managed goroutine while other managed
// goroutines send it numbered messages / poison it; the receiver yields inside every Receive, so
// that two overlapping Receive calls would be seen.  Script: panic_on = payloads whose handler panics
// (first time only), pill_after = a sender poisons the actor after its last message.
type procSchedCase struct {
	Senders     [][]int `json:"senders"`
	PanicOn     []int   `json:"panic_on"`
	MaxRestarts int     `json:"max_restarts"`
	Poison      string  `json:"poison"` // "", "poison", "stop": issued by an extra goroutine
	// Poisoners: further goroutines each calling Stop ("stop") or Poison ("poison") on the actor
	Poisoners  []string `json:"poisoners"`
	SelfPoison int      `json:"self_poison"` // payload whose handler calls Poison(self), 0 = none
	Walks      int      `json:"walks"`
	Seed       int64    `json:"seed"`
	Choices    []int    `json:"choices"`
	Mode       string   `json:"mode"`
}

type psRecv struct {
	Inc int `json:"inc"`
	Msg any `json:"msg"`
}

type psObs struct {
	Recvs    []psRecv `json:"recvs"`
	Overlap  bool     `json:"overlap"`
	Deadlock bool     `json:"deadlock"`
	Terminal bool     `json:"terminal"`
	Stuck    bool     `json:"stuck"`
	Sent     []int    `json:"sent"`
	Dead     []int    `json:"dead"` // payloads reported as dead letters
	// for every Stop/Poison context created: did it become done
	PillsDone []bool `json:"pills_done"`
}

type psWorld struct {
	mu      sync.Mutex
	c       procSchedCase
	recvs   []psRecv
	open    int
	overlap bool
	incs    int
	boomed  map[int]bool
	dead    []int
	sent    []int
	pills   []interface{ Err() error }
}

type psActor struct {
	w   *psWorld
	inc int
}

func (a *psActor) Receive(c *actor.Context) {
	w := a.w
	key := msgKey(c.Message())
	vsched.Op("recv-begin", nil, a.inc, key)
	vsched.Res()
	w.mu.Lock()
	if w.open > 0 {
		w.overlap = true
	}
	w.open++
	w.recvs = append(w.recvs, psRecv{Inc: a.inc, Msg: key})
	w.mu.Unlock()
	vsched.Op("recv-mid", nil) // a scheduling point inside Receive
	vsched.Res()
	w.mu.Lock()
	w.open--
	boom := false
	if n, ok := key.(int); ok {
		for _, p := range w.c.PanicOn {
			if p == n && !w.boomed[n] {
				w.boomed[n] = true
				boom = true
			}
		}
		if n == w.c.SelfPoison && n != 0 {
			w.mu.Unlock()
			c.Engine().Poison(c.PID())
			w.mu.Lock()
		}
	}
	w.mu.Unlock()
	if boom {
		panic("scripted panic")
	}
}

func msgKey(m any) any {
	switch x := m.(type) {
	case actor.Initialized:
		return "I"
	case actor.Started:
		return "S"
	case actor.Stopped:
		return "X"
	case psMsg:
		return x.N
	default:
		return fmt.Sprintf("?%T", m)
	}
}

type psMsg struct{ N int }

func procScenario(c procSchedCase) func() vsched.Scenario {
	return func() vsched.Scenario {
		w := &psWorld{c: c, boomed: map[int]bool{}}
		var e *actor.Engine
		return vsched.Scenario{
			Setup: func(s *vsched.Sched) {
				// engine creation runs unmanaged; wait until its event stream is at rest
				vsched.Active = nil
				e, _ = actor.NewEngine(actor.NewEngineConfig())
				mon := e.SpawnFunc(func(ctx *actor.Context) {
					if dl, ok := ctx.Message().(actor.DeadLetterEvent); ok {
						if m, ok := dl.Message.(psMsg); ok {
							w.mu.Lock()
							w.dead = append(w.dead, m.N)
							w.mu.Unlock()
						}
					}
				}, "mon", actor.WithID("m"))
				e.Subscribe(mon)
				for i := 0; i < 2000 && !(actor.VerifIdle(e, actor.VerifEventStream(e)) && actor.VerifIdle(e, mon)); i++ {
					time.Sleep(50 * time.Microsecond)
				}
				time.Sleep(200 * time.Microsecond)
				vsched.Active = s
				target := actor.NewPID(e.Address(), "t/a")
				vsched.Go(func() {
					e.Spawn(func() actor.Receiver {
						w.mu.Lock()
						w.incs++
						inc := w.incs
						w.mu.Unlock()
						return &psActor{w: w, inc: inc}
					}, "t", actor.WithID("a"), actor.WithMaxRestarts(c.MaxRestarts), actor.WithRestartDelay(time.Microsecond))
				})
				for _, ms := range c.Senders {
					ms := ms
					vsched.Go(func() {
						for _, m := range ms {
							w.mu.Lock()
							w.sent = append(w.sent, m)
							w.mu.Unlock()
							e.Send(target, psMsg{m})
						}
					})
				}
				kinds := append([]string{}, c.Poisoners...)
				if c.Poison != "" {
					kinds = append(kinds, c.Poison)
				}
				for _, k := range kinds {
					k := k
					vsched.Go(func() {
						var ctx interface{ Err() error }
						if k == "stop" {
							ctx = e.Stop(target)
						} else {
							ctx = e.Poison(target)
						}
						w.mu.Lock()
						w.pills = append(w.pills, ctx)
						w.mu.Unlock()
					})
				}
			},
			Observe: func(s *vsched.Sched, terminal, deadlock bool) any {
				w.mu.Lock()
				defer w.mu.Unlock()
				o := psObs{Recvs: append([]psRecv{}, w.recvs...), Overlap: w.overlap, Deadlock: deadlock, Terminal: terminal,
					Sent: append([]int{}, w.sent...), Dead: append([]int{}, w.dead...), PillsDone: []bool{}}
				for _, p := range w.pills {
					o.PillsDone = append(o.PillsDone, p.Err() != nil)
				}
				return o
			},
		}
	}
}

func psBad(o any) bool {
	ob := o.(psObs)
	if ob.Terminal {
		for _, d := range ob.PillsDone {
			if !d {
				return true
			}
		}
	}
	return ob.Overlap || ob.Deadlock
}

func runProcSched(raw json.RawMessage) (any, error) {
	var c procSchedCase
	if err := json.Unmarshal(raw, &c); err != nil {
		return nil, err
	}
	yatomic.Enabled, yring.Enabled, ysync.Enabled = true, true, true
	defer func() { yatomic.Enabled, yring.Enabled, ysync.Enabled = false, false, false }()
	mk := procScenario(c)
	if c.Mode == "replay" {
		return vsched.Replay(mk, c.Choices, 20000), nil
	}
	rnd := rand.New(rand.NewSource(c.Seed))
	if c.Walks == 0 {
		c.Walks = 200
	}
	var res vsched.Result
	if c.Mode == "pct" {
		res = vsched.WalksPCT(mk, c.Walks, rnd.Intn, 3, 20000, 3, psBad)
	} else {
		res = vsched.Walks(mk, c.Walks, rnd.Intn, 20000, 3, psBad)
	}
	// keep the output small: traces of the samples are not needed
	for i := range res.Samples {
		res.Samples[i].Trace = nil
	}
	return res, nil
}

func init() { families["procsched"] = runProcSched }
