package main

import (
	"encoding/json"
	"math/rand"
	"sync"
	"time"

	"github.com/anthdm/hollywood/actor"
	"github.com/anthdm/hollywood/verifshim/vsched"
	"github.com/anthdm/hollywood/verifshim/yatomic"
	"github.com/anthdm/hollywood/verifshim/yring"
	"github.com/anthdm/hollywood/verifshim/ysync"
)

// treerace (C08): the real engine under the deterministic scheduler, with safemap.go shimmed as
// well, so that every acquisition of a children map's lock is a scheduling point.
//
// A parent "p/0" has one child "p/0/c/1" (spawned from the parent's Started handler).  Managed
// goroutines: Stoppers stop the child ("poison" | "stop" each); Ensure goroutines each send the
// parent `per` requests "make sure the child is there", which the parent serves with
// SpawnChild(.., "c", WithID("1")) — a duplicate no-op while the child lives, a fresh child once it is
// gone.  The window of interest: the old child is between its Registry.Remove and its
// parentCtx.children.Delete when the parent spawns the new one.
//
// Observed when nothing can move any more: is a child registered, is it in the parent's map, how
// many child processes were started.  Bad: registered but not listed (an orphan: it will not be
// stopped with its parent) or listed but not registered.
type treeRaceCase struct {
	Stoppers []string `json:"stoppers"`
	Ensure   []int    `json:"ensure"` // requests per ensuring goroutine
	Walks    int      `json:"walks"`
	Seed     int64    `json:"seed"`
	Mode     string   `json:"mode"` // "pct" | "walk" | "replay"
	Choices  []int    `json:"choices"`
}

type treeRaceObs struct {
	Registered bool `json:"registered"`
	Listed     bool `json:"listed"`
	Started    int  `json:"started"`  // child processes that handled Started
	Stopped    int  `json:"stopped"`  // child processes that handled Stopped
	Requests   int  `json:"requests"` // ensure requests served by the parent
	Terminal   bool `json:"terminal"`
	Deadlock   bool `json:"deadlock"`
}

type trEnsure struct{}

type trWorld struct {
	mu       sync.Mutex
	started  int
	stopped  int
	requests int
}

const trChildKind = "c"

func treeRaceScenario(c treeRaceCase) func() vsched.Scenario {
	return func() vsched.Scenario {
		w := &trWorld{}
		var e *actor.Engine
		var ppid, cpid *actor.PID
		child := func() actor.Receiver {
			return trFunc(func(ctx *actor.Context) {
				switch ctx.Message().(type) {
				case actor.Started:
					w.mu.Lock()
					w.started++
					w.mu.Unlock()
				case actor.Stopped:
					w.mu.Lock()
					w.stopped++
					w.mu.Unlock()
				}
			})
		}
		parent := func() actor.Receiver {
			return trFunc(func(ctx *actor.Context) {
				switch ctx.Message().(type) {
				case actor.Started:
					ctx.SpawnChild(child, trChildKind, actor.WithID("1"))
				case trEnsure:
					ctx.SpawnChild(child, trChildKind, actor.WithID("1"))
					w.mu.Lock()
					w.requests++
					w.mu.Unlock()
				}
			})
		}
		return vsched.Scenario{
			Setup: func(s *vsched.Sched) {
				// engine and tree are built unmanaged; then everything is at rest
				vsched.Active = nil
				e, _ = actor.NewEngine(actor.NewEngineConfig())
				ppid = e.Spawn(parent, "p", actor.WithID("0"))
				cpid = actor.NewPID(e.Address(), "p/0/"+trChildKind+"/1")
				for i := 0; i < 4000 && !(actor.VerifIdle(e, actor.VerifEventStream(e)) && actor.VerifIdle(e, ppid) && actor.VerifIdle(e, cpid)); i++ {
					time.Sleep(50 * time.Microsecond)
				}
				time.Sleep(200 * time.Microsecond)
				vsched.Active = s
				for _, k := range c.Stoppers {
					k := k
					vsched.Go(func() {
						if k == "stop" {
							e.Stop(cpid)
						} else {
							e.Poison(cpid)
						}
					})
				}
				for _, n := range c.Ensure {
					n := n
					vsched.Go(func() {
						for i := 0; i < n; i++ {
							e.Send(ppid, trEnsure{})
						}
					})
				}
			},
			Observe: func(s *vsched.Sched, terminal, deadlock bool) any {
				w.mu.Lock()
				defer w.mu.Unlock()
				o := treeRaceObs{Started: w.started, Stopped: w.stopped, Requests: w.requests, Terminal: terminal, Deadlock: deadlock}
				o.Registered = e.Registry.GetPID("p/0/"+trChildKind, "1") != nil
				for _, k := range actor.VerifChildKeys(e, ppid) {
					if k == cpid.ID {
						o.Listed = true
					}
				}
				return o
			},
		}
	}
}

type trFunc func(*actor.Context)

func (f trFunc) Receive(c *actor.Context) { f(c) }

func trBad(o any) bool {
	ob := o.(treeRaceObs)
	return ob.Deadlock || (ob.Terminal && ob.Registered != ob.Listed)
}

func runTreeRace(raw json.RawMessage) (any, error) {
	var c treeRaceCase
	if err := json.Unmarshal(raw, &c); err != nil {
		return nil, err
	}
	yatomic.Enabled, yring.Enabled, ysync.Enabled = true, true, true
	defer func() { yatomic.Enabled, yring.Enabled, ysync.Enabled = false, false, false }()
	mk := treeRaceScenario(c)
	if c.Mode == "replay" {
		out := vsched.Replay(mk, c.Choices, 20000)
		out.Trace = nil
		return out, nil
	}
	rnd := rand.New(rand.NewSource(c.Seed))
	if c.Walks == 0 {
		c.Walks = 200
	}
	var res vsched.Result
	if c.Mode == "walk" {
		res = vsched.Walks(mk, c.Walks, rnd.Intn, 20000, 3, trBad)
	} else {
		res = vsched.WalksPCT(mk, c.Walks, rnd.Intn, 3, 20000, 3, trBad)
	}
	for i := range res.Samples {
		res.Samples[i].Trace = nil
	}
	for i := range res.Bad {
		res.Bad[i].Trace = nil
	}
	return res, nil
}

func init() { families["treerace"] = runTreeRace }
