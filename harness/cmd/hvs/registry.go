package main

import (
	"encoding/json"
	"fmt"
	"math/rand"
	"sort"
	"strconv"
	"strings"

	"github.com/anthdm/hollywood/actor"
	"github.com/anthdm/hollywood/verifshim/vsched"
	"github.com/anthdm/hollywood/verifshim/ysync"
)

// regCase: a real actor.Registry (on an engine that runs no actors; a recording
// Processer stands in for the event stream) and client goroutines, each
// executing a program of calls:
//
//	["add", i]   newProcess-like object for id "k/<i>", Registry.add(proc)
//	["stop", i]  the process registered under "k/<i>", if it is started and not
//	             stopping yet, "handles Stopped"; then Registry.Remove(pid) —
//	             what process.cleanup does
//	["get", i]   Registry.get(pid) (even threads) / Registry.GetPID (odd threads)
//
// registry.go is built with `sync` rewritten to the yielding shim: every
// RWMutex acquisition is a scheduling point; proc.Start() of the recording
// Processer is one more.
type regCase struct {
	Progs    [][][]any `json:"progs"`
	Mode     string    `json:"mode"` // "dfs" | "walk" | "replay"
	MaxExecs int       `json:"max_execs"`
	Keep     int       `json:"keep"`
	Seed     int64     `json:"seed"`
	Choices  []int     `json:"choices"`
}

type regOp struct {
	kind string
	id   int
}

type regLabel struct {
	K   string `json:"k"` // add | start | dup | try | rem | get | bad
	I   int    `json:"i"`
	P   int    `json:"p"`
	Won bool   `json:"won"`
	R   int    `json:"r"` // result process of try/get, -1 for none
}

type regObs struct {
	IDs      []int    `json:"ids"`
	Reg      [][2]int `json:"reg"` // (id, process or -1) for every id of the case, in order of first mention
	Started  []int    `json:"started"`
	Stopped  []int    `json:"stopped"`
	Dup      []int    `json:"dup"`
	Gets     [][2]int `json:"gets"`
	Overlap  bool     `json:"overlap"`
	Deadlock bool     `json:"deadlock"`
	Terminal bool     `json:"terminal"`
}

type regOut struct {
	vsched.Result
	SampleLabels [][]regLabel `json:"sample_labels"`
	BadLabels    [][]regLabel `json:"bad_labels"`
}

// recProc is the Processer that gets registered.  name = thread*100 + position
// of the add in the thread's program: independent of the schedule.
type recProc struct {
	w       *regWorld
	name    int
	id      int
	pid     *actor.PID
	started bool
	stopped bool
}

func (p *recProc) Start() {
	vsched.Op("start", nil, p.name)
	vsched.Res()
	w := p.w
	if w.live[p.id] > 0 {
		w.overlap = true
	}
	w.live[p.id]++
	p.started = true
	w.started = append(w.started, p.name)
}
func (p *recProc) PID() *actor.PID                  { return p.pid }
func (p *recProc) Send(*actor.PID, any, *actor.PID) {}
func (p *recProc) Invoke([]actor.Envelope)          {}
func (p *recProc) Shutdown()                        {}

// esRec stands in for the event stream actor.
type esRec struct {
	w   *regWorld
	pid *actor.PID
}

func (e *esRec) Start()                  {}
func (e *esRec) PID() *actor.PID         { return e.pid }
func (e *esRec) Invoke([]actor.Envelope) {}
func (e *esRec) Shutdown()               {}
func (e *esRec) Send(_ *actor.PID, msg any, _ *actor.PID) {
	if ev, ok := msg.(actor.ActorDuplicateIdEvent); ok {
		if p, ok := e.w.byPID[ev.PID]; ok {
			e.w.dups = append(e.w.dups, p.name)
		} else {
			e.w.dups = append(e.w.dups, -1)
		}
	}
}

type regWorld struct {
	reg     *actor.Registry
	byPID   map[*actor.PID]*recProc
	live    map[int]int
	overlap bool
	started []int
	stopped []int
	dups    []int
	gets    [][2]int // (id, name or -1)
}

func regID(i int) string { return "k/" + strconv.Itoa(i) }

func parseProgs(c regCase) [][]regOp {
	out := make([][]regOp, len(c.Progs))
	for t, prog := range c.Progs {
		for _, o := range prog {
			out[t] = append(out[t], regOp{kind: o[0].(string), id: int(o[1].(float64))})
		}
	}
	return out
}

// interpret turns the raw trace of one execution into the model's labels and
// numbers the processes in the order in which their add took the lock.
// names: process name -> model number.
func interpret(progs [][]regOp, trace []vsched.Event) (labels []regLabel, names map[int]int, ids []int) {
	type tstate struct {
		pc      int
		micro   string // "" | "added" | "rem"
		cur     int    // process name being worked on
		pending int    // index of the LAdd label waiting for its outcome
	}
	names = map[int]int{}
	ts := make([]tstate, len(progs))
	num := func(name int) int {
		if n, ok := names[name]; ok {
			return n
		}
		return -1
	}
	resOf := func(e vsched.Event) int {
		if len(e.Res) == 1 {
			switch v := e.Res[0].(type) {
			case int:
				return v
			case float64:
				return int(v)
			}
		}
		return -2
	}
	for _, e := range trace {
		if e.G < 0 || e.G >= len(progs) {
			labels = append(labels, regLabel{K: "bad"})
			continue
		}
		th := &ts[e.G]
		var op regOp
		if th.pc < len(progs[e.G]) {
			op = progs[e.G][th.pc]
		}
		switch {
		case e.Op == "lock" && th.micro == "rem":
			labels = append(labels, regLabel{K: "rem", P: num(th.cur)})
			th.micro = ""
			th.pc++
		case e.Op == "lock" && th.micro == "" && op.kind == "add":
			name := e.G*100 + th.pc
			names[name] = len(ids)
			ids = append(ids, op.id)
			th.cur, th.micro, th.pending = name, "added", len(labels)
			labels = append(labels, regLabel{K: "add", I: op.id, P: names[name]})
		case e.Op == "start" && th.micro == "added":
			labels[th.pending].Won = true
			labels = append(labels, regLabel{K: "start", P: num(th.cur)})
			th.micro = ""
			th.pc++
		case e.Op == "rlock" && th.micro == "added":
			labels = append(labels, regLabel{K: "dup", P: num(th.cur)})
			th.micro = ""
			th.pc++
		case e.Op == "rlock" && th.micro == "" && op.kind == "get":
			r := resOf(e)
			if r >= 0 {
				r = num(r)
			}
			labels = append(labels, regLabel{K: "get", I: op.id, R: r})
			th.pc++
		case e.Op == "trystop" && th.micro == "" && op.kind == "stop":
			r := resOf(e)
			if r >= 0 {
				th.cur, th.micro = r, "rem"
				r = num(r)
			} else {
				th.pc++
			}
			labels = append(labels, regLabel{K: "try", I: op.id, R: r})
		default:
			// an operation the model does not have at this point
			labels = append(labels, regLabel{K: "bad"})
		}
	}
	return
}

func regScenario(c regCase, progs [][]regOp) func() vsched.Scenario {
	var universe []int
	seen := map[int]bool{}
	for _, prog := range progs {
		for _, o := range prog {
			if !seen[o.id] {
				seen[o.id] = true
				universe = append(universe, o.id)
			}
		}
	}
	return func() vsched.Scenario {
		w := &regWorld{byPID: map[*actor.PID]*recProc{}, live: map[int]int{}}
		nameOf := func(p actor.Processer) int {
			if rp, ok := p.(*recProc); ok && rp != nil {
				return rp.name
			}
			return -1
		}
		return vsched.Scenario{
			Setup: func(s *vsched.Sched) {
				es := &esRec{w: w, pid: actor.NewPID(actor.LocalLookupAddr, "eventstream/es")}
				w.reg = actor.VerifNewRegistry(es)
				for t, prog := range progs {
					t, prog := t, prog
					vsched.Go(func() {
						for pc, o := range prog {
							switch o.kind {
							case "add":
								p := &recProc{w: w, name: t*100 + pc, id: o.id, pid: actor.NewPID(actor.LocalLookupAddr, regID(o.id))}
								w.byPID[p.pid] = p
								w.reg.VerifAdd(p)
							case "stop":
								vsched.Op("trystop", nil, o.id)
								cur, _ := w.reg.VerifPeek(regID(o.id)).(*recProc)
								if cur != nil && cur.started && !cur.stopped {
									// the actor handles Stopped: from here on it is not live any more
									cur.stopped = true
									w.live[cur.id]--
									w.stopped = append(w.stopped, cur.name)
									vsched.Res(cur.name)
									w.reg.Remove(cur.pid)
								} else {
									vsched.Res(-1)
								}
							case "get":
								var got int
								if t%2 == 0 {
									got = nameOf(w.reg.VerifGet(actor.NewPID(actor.LocalLookupAddr, regID(o.id))))
								} else {
									got = -1
									if pid := w.reg.GetPID("k", strconv.Itoa(o.id)); pid != nil {
										if rp, ok := w.byPID[pid]; ok {
											got = rp.name
										} else {
											got = -3
										}
									}
								}
								vsched.Res(got)
								w.gets = append(w.gets, [2]int{o.id, got})
							}
						}
					})
				}
			},
			Fingerprint: func(s *vsched.Sched) string {
				var b strings.Builder
				for _, i := range universe {
					fmt.Fprint(&b, i, "=", nameOf(w.reg.VerifPeek(regID(i))), ";")
				}
				st := append([]int{}, w.started...)
				sp := append([]int{}, w.stopped...)
				du := append([]int{}, w.dups...)
				sort.Ints(st)
				sort.Ints(sp)
				sort.Ints(du)
				fmt.Fprint(&b, st, sp, du, w.gets, w.overlap, "|", strings.Join(s.LocalStates(), ","))
				return b.String()
			},
			Observe: func(s *vsched.Sched, terminal, deadlock bool) any {
				_, names, ids := interpret(progs, s.Trace)
				num := func(name int) int {
					if n, ok := names[name]; ok {
						return n
					}
					return -1
				}
				o := regObs{IDs: append([]int{}, ids...), Overlap: w.overlap, Deadlock: deadlock, Terminal: terminal,
					Reg: [][2]int{}, Started: []int{}, Stopped: []int{}, Dup: []int{}, Gets: [][2]int{}}
				for _, i := range universe {
					o.Reg = append(o.Reg, [2]int{i, num(nameOf(w.reg.VerifPeek(regID(i))))})
				}
				for _, n := range w.started {
					o.Started = append(o.Started, num(n))
				}
				for _, n := range w.stopped {
					o.Stopped = append(o.Stopped, num(n))
				}
				for _, n := range w.dups {
					o.Dup = append(o.Dup, num(n))
				}
				for _, g := range w.gets {
					r := g[1]
					if r >= 0 {
						r = num(r)
					}
					o.Gets = append(o.Gets, [2]int{g[0], r})
				}
				return o
			},
		}
	}
}

// regBad is the property's predicate, evaluated during the exploration so that
// a failing schedule is kept (the verdict itself is computed in Coq).
func regBad(progs [][]regOp) func(any) bool {
	adds, stops := map[int]int{}, map[int]bool{}
	for _, prog := range progs {
		for _, o := range prog {
			switch o.kind {
			case "add":
				adds[o.id]++
			case "stop":
				stops[o.id] = true
			}
		}
	}
	return func(ob any) bool {
		o := ob.(regObs)
		if o.Overlap || o.Deadlock {
			return true
		}
		for _, g := range o.Gets {
			if g[1] >= 0 && (g[1] >= len(o.IDs) || o.IDs[g[1]] != g[0]) || g[1] < -1 {
				return true
			}
		}
		if !o.Terminal {
			return false
		}
		cnt := func(l []int, i int) int {
			n := 0
			for _, p := range l {
				if p >= 0 && p < len(o.IDs) && o.IDs[p] == i {
					n++
				}
			}
			return n
		}
		for i, k := range adds {
			st, sp, du := cnt(o.Started, i), cnt(o.Stopped, i), cnt(o.Dup, i)
			if st+du != k || st > sp+1 || (!stops[i] && st != 1) {
				return true
			}
		}
		return false
	}
}

func runRegSched(raw json.RawMessage) (any, error) {
	var c regCase
	if err := json.Unmarshal(raw, &c); err != nil {
		return nil, err
	}
	ysync.Enabled = true
	defer func() { ysync.Enabled = false }()
	if c.MaxExecs == 0 {
		c.MaxExecs = 200000
	}
	progs := parseProgs(c)
	mk := regScenario(c, progs)
	var res vsched.Result
	switch c.Mode {
	case "replay":
		out := vsched.Replay(mk, c.Choices, 10000)
		labels, _, _ := interpret(progs, out.Trace)
		return map[string]any{"choices": out.Choices, "sched": out.Sched, "trace": out.Trace, "terminal": out.Terminal,
			"deadlock": out.Deadlock, "obs": out.Obs, "labels": labels}, nil
	case "walk":
		rnd := rand.New(rand.NewSource(c.Seed))
		res = vsched.Walks(mk, c.MaxExecs, rnd.Intn, 10000, c.Keep, regBad(progs))
	default:
		res = vsched.Explore(mk, c.MaxExecs, 10000, c.Keep, regBad(progs))
	}
	out := regOut{Result: res}
	for _, s := range res.Samples {
		l, _, _ := interpret(progs, s.Trace)
		out.SampleLabels = append(out.SampleLabels, l)
	}
	for _, s := range res.Bad {
		l, _, _ := interpret(progs, s.Trace)
		out.BadLabels = append(out.BadLabels, l)
	}
	return out, nil
}

func init() { families["regsched"] = runRegSched }
