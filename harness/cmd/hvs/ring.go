package main

import (
	"encoding/json"
	"fmt"
	"math/rand"
	"strings"

	"github.com/anthdm/hollywood/ringbuffer"
	yatomic "github.com/anthdm/hollywood/verifshim/ratomic"
	ysync "github.com/anthdm/hollywood/verifshim/rsync"
	"github.com/anthdm/hollywood/verifshim/vsched"
)

// ringCase: one ringbuffer.RingBuffer[int64] of the given capacity, filled by
// the sequential prefix `pre` (run before any client goroutine exists), then
// client goroutines each running its list of operations
// ["push",x] | ["pop"] | ["popn",n] | ["len"].  The ring's own mutex and
// atomics are the scheduling points (ringbuffer.go is built with its sync and
// sync/atomic imports rewritten to the yielding shims); the harness adds one
// scheduling point "call" in front of every client operation: the invocation
// event of the history.  The response is the operation's last event.
type ringCase struct {
	Cap      int64     `json:"cap"`
	Pre      [][]any   `json:"pre"`
	Threads  [][][]any `json:"threads"`
	Mode     string    `json:"mode"` // "dfs" | "walk" | "replay"
	MaxExecs int       `json:"max_execs"`
	Keep     int       `json:"keep"`
	Seed     int64     `json:"seed"`
	Choices  []int     `json:"choices"`
	NoPrune  bool      `json:"noprune"`
}

type rop struct {
	kind string
	arg  int64
}

// ropRes: what the client got back, with the positions of its call event and
// of its return in the trace.
type ropRes struct {
	Res []any `json:"res"` // ["push"] | ["pop",ok,x] | ["popn",ok,[..]] | ["len",n] | ["panic",text]
	inv int
	ret int
	// number of completed operations of every thread at the moment of the call
	before []int
}

type ringObs struct {
	Results  [][]ropRes `json:"results"`
	Lin      bool       `json:"linearizable"`
	Deadlock bool       `json:"deadlock"`
	Terminal bool       `json:"terminal"`
}

func parseOps(raw [][]any) ([]rop, error) {
	var out []rop
	for _, o := range raw {
		if len(o) == 0 {
			return nil, fmt.Errorf("empty op")
		}
		k, _ := o[0].(string)
		r := rop{kind: k}
		if k == "push" || k == "popn" {
			if len(o) < 2 {
				return nil, fmt.Errorf("op %v needs an argument", o)
			}
			f, ok := o[1].(float64)
			if !ok {
				return nil, fmt.Errorf("bad argument in %v", o)
			}
			r.arg = int64(f)
		} else if k != "pop" && k != "len" {
			return nil, fmt.Errorf("unknown op %v", o)
		}
		out = append(out, r)
	}
	return out, nil
}

func applyOp(rb *ringbuffer.RingBuffer[int64], o rop) (res []any) {
	defer func() {
		if v := recover(); v != nil {
			if fmt.Sprintf("%T", v) == "vsched.abortT" {
				panic(v)
			}
			res = []any{"panic", fmt.Sprint(v)}
		}
	}()
	switch o.kind {
	case "push":
		rb.Push(o.arg)
		return []any{"push"}
	case "pop":
		x, ok := rb.Pop()
		return []any{"pop", ok, x}
	case "popn":
		xs, ok := rb.PopN(o.arg)
		l := make([]int64, len(xs))
		copy(l, xs)
		return []any{"popn", ok, l}
	default:
		return []any{"len", rb.Len()}
	}
}

// ---- the list-queue specification and the linearizability search

func fifoStep(q []int64, o rop) ([]int64, []any) {
	switch o.kind {
	case "push":
		return append(append([]int64(nil), q...), o.arg), []any{"push"}
	case "pop":
		if len(q) == 0 {
			return q, []any{"pop", false, int64(0)}
		}
		return q[1:], []any{"pop", true, q[0]}
	case "popn":
		if len(q) == 0 {
			return q, []any{"popn", false, []int64{}}
		}
		n := o.arg
		if n > int64(len(q)) {
			n = int64(len(q))
		}
		if n < 0 {
			return q, []any{"panic", "negative"}
		}
		return q[n:], []any{"popn", true, append([]int64{}, q[:n]...)}
	default:
		return q, []any{"len", int64(len(q))}
	}
}

func sameRes(a, b []any) bool { return fmt.Sprint(a) == fmt.Sprint(b) }

// linearizable: is there an order of all operations, consistent with every
// thread's program order and with the real-time order (A returned before B was
// called => A first), on which the list queue returns exactly the observed results?
func linearizable(progs [][]rop, obs [][]ropRes, q0 []int64) bool {
	taken := make([]int, len(progs))
	seen := map[string]bool{}
	var rec func(q []int64) bool
	rec = func(q []int64) bool {
		all := true
		for t := range progs {
			if taken[t] < len(obs[t]) {
				all = false
			}
		}
		if all {
			return true
		}
		key := fmt.Sprint(taken, q)
		if seen[key] {
			return false
		}
		seen[key] = true
		for t := range progs {
			k := taken[t]
			if k >= len(obs[t]) {
				continue
			}
			b := obs[t][k]
			ok := true
			for u := range progs { // every operation that returned before b's call must be in already
				if u != t && taken[u] < len(obs[u]) && obs[u][taken[u]].ret <= b.inv {
					ok = false
				}
			}
			if !ok {
				continue
			}
			q2, r := fifoStep(q, progs[t][k])
			if !sameRes(r, b.Res) {
				continue
			}
			taken[t]++
			if rec(q2) {
				taken[t]--
				return true
			}
			taken[t]--
		}
		return false
	}
	return rec(q0)
}

func ringScenario(c ringCase, pre []rop, progs [][]rop) func() vsched.Scenario {
	return func() vsched.Scenario {
		var rb *ringbuffer.RingBuffer[int64]
		var results [][]ropRes
		var q0 []int64
		var inprog []bool
		var curBefore [][]int
		critOrder := func(s *vsched.Sched) string {
			var b strings.Builder
			for _, e := range s.Trace {
				if e.Op == "lock" || e.Op == "add" {
					fmt.Fprintf(&b, "%d%c", e.G, e.Op[0])
				}
			}
			return b.String()
		}
		return vsched.Scenario{
			Setup: func(s *vsched.Sched) {
				rb = ringbuffer.New[int64](c.Cap)
				q0 = nil
				for _, o := range pre { // unmanaged: runs without yields
					applyOp(rb, o)
					q0, _ = fifoStep(q0, o)
				}
				results = make([][]ropRes, len(progs))
				inprog = make([]bool, len(progs))
				curBefore = make([][]int, len(progs))
				for t := range progs {
					t := t
					vsched.Go(func() {
						for _, o := range progs[t] {
							if o.kind == "push" || o.kind == "popn" {
								vsched.Op("call", nil, o.kind, o.arg)
							} else {
								vsched.Op("call", nil, o.kind)
							}
							vsched.Res()
							inv := len(s.Trace) - 1
							before := make([]int, len(results))
							for u := range results {
								before[u] = len(results[u])
							}
							inprog[t], curBefore[t] = true, before
							r := applyOp(rb, o)
							inprog[t] = false
							results[t] = append(results[t], ropRes{Res: r, inv: inv, ret: len(s.Trace), before: before})
						}
					})
				}
			},
			Fingerprint: func(s *vsched.Sched) string {
				items, head, tail, mod, ln := rb.VerifSnapshot()
				var b strings.Builder
				fmt.Fprint(&b, items, head, tail, mod, ln, "|", critOrder(s), "|")
				for t := range results { // per-thread results and the real-time relation so far
					for _, r := range results[t] {
						fmt.Fprint(&b, r.Res, r.before, ";")
					}
					b.WriteString("/")
				}
				// operations in progress: which operations had completed at their call
				for g := range progs {
					if inprog[g] {
						fmt.Fprint(&b, "c", g, curBefore[g], ";")
					}
				}
				b.WriteString("|" + strings.Join(s.LocalStates(), ","))
				return b.String()
			},
			Observe: func(s *vsched.Sched, terminal, deadlock bool) any {
				o := ringObs{Results: make([][]ropRes, len(results)), Deadlock: deadlock, Terminal: terminal}
				for t := range results {
					o.Results[t] = append([]ropRes{}, results[t]...)
				}
				o.Lin = linearizable(progs, o.Results, q0)
				return o
			},
		}
	}
}

func ringBad(o any) bool {
	ob := o.(ringObs)
	return ob.Deadlock || !ob.Lin
}

func runRingSched(raw json.RawMessage) (any, error) {
	var c ringCase
	if err := json.Unmarshal(raw, &c); err != nil {
		return nil, err
	}
	pre, err := parseOps(c.Pre)
	if err != nil {
		return nil, err
	}
	progs := make([][]rop, len(c.Threads))
	for t, p := range c.Threads {
		if progs[t], err = parseOps(p); err != nil {
			return nil, err
		}
	}
	yatomic.Enabled, ysync.Enabled = true, true
	defer func() { yatomic.Enabled, ysync.Enabled = false, false }()
	if c.MaxExecs == 0 {
		c.MaxExecs = 400000
	}
	mk := ringScenario(c, pre, progs)
	if c.NoPrune {
		inner := mk
		mk = func() vsched.Scenario { sc := inner(); sc.Fingerprint = nil; return sc }
	}
	switch c.Mode {
	case "replay":
		return vsched.Replay(mk, c.Choices, 10000), nil
	case "walk":
		rnd := rand.New(rand.NewSource(c.Seed))
		return vsched.Walks(mk, c.MaxExecs, rnd.Intn, 10000, c.Keep, ringBad), nil
	default:
		return vsched.Explore(mk, c.MaxExecs, 10000, c.Keep, ringBad), nil
	}
}

func init() { families["ringsched"] = runRingSched }
