package main

import (
	"encoding/json"
	"fmt"
	"math/rand"
	"strings"

	"github.com/anthdm/hollywood/actor"
	"github.com/anthdm/hollywood/verifshim/vsched"
	"github.com/anthdm/hollywood/verifshim/yatomic"
	"github.com/anthdm/hollywood/verifshim/yring"
)

// inboxCase: a real actor.Inbox of the given capacity, sender goroutines with
// numbered messages (ids >= 1000 are "pills": the recording Processer stops
// the inbox when it meets one, as process.cleanup does), optionally a
// goroutine calling Inbox.Start concurrently (otherwise the inbox is started
// before the senders run).
type inboxCase struct {
	Cap      int     `json:"cap"`
	Senders  [][]int `json:"senders"`
	Starter  bool    `json:"starter"`
	Mode     string  `json:"mode"` // "dfs" | "walk" | "replay"
	MaxExecs int     `json:"max_execs"`
	Keep     int     `json:"keep"`
	Seed     int64   `json:"seed"`
	Choices  []int   `json:"choices"`
	Idle     *int32  `json:"idle"` // value of the idle state in actor/inbox.go (default 2)
	// throughput budget of the inbox's scheduler (default: the stock 300, never used up by these
	// configurations); 0 = the worker yields before every batch but the first
	Throughput *int `json:"throughput"`
}

type inboxObs struct {
	Status    int32 `json:"status"`
	QLen      int64 `json:"qlen"`
	Delivered []int `json:"delivered"`
	Dropped   []int `json:"dropped"`
	Pushed    []int `json:"pushed"`
	Overlap   bool  `json:"overlap"`
	Deadlock  bool  `json:"deadlock"`
	Terminal  bool  `json:"terminal"`
}

type msgID int

// recorder is the Processer plugged into the inbox.
type recorder struct {
	in        *actor.Inbox
	open      int
	overlap   bool
	delivered []int
	dropped   []int
}

func (r *recorder) Start()                           {}
func (r *recorder) PID() *actor.PID                  { return nil }
func (r *recorder) Send(*actor.PID, any, *actor.PID) {}
func (r *recorder) Shutdown()                        {}
func (r *recorder) Invoke(msgs []actor.Envelope) {
	ids := make([]any, len(msgs))
	for i, m := range msgs {
		ids[i] = m
	}
	vsched.Op("invoke-begin", nil, ids)
	vsched.Res()
	if r.open > 0 {
		r.overlap = true
	}
	r.open++
	for i, m := range msgs {
		id := int(m.Msg.(msgID))
		if id >= 1000 {
			for _, d := range msgs[i:] {
				r.dropped = append(r.dropped, int(d.Msg.(msgID)))
			}
			r.in.Stop()
			break
		}
		r.delivered = append(r.delivered, id)
	}
	vsched.Op("invoke-end", nil)
	vsched.Res()
	r.open--
}

func describe(v any) any {
	switch x := v.(type) {
	case actor.Envelope:
		if id, ok := x.Msg.(msgID); ok {
			return int(id)
		}
		return fmt.Sprint(x.Msg)
	}
	return v
}

func inboxScenario(c inboxCase) func() vsched.Scenario {
	return func() vsched.Scenario {
		var in *actor.Inbox
		var rec *recorder
		pushedOf := func(s *vsched.Sched) (pushed []int, popped int) {
			for _, e := range s.Trace {
				switch e.Op {
				case "push":
					if e.Res != nil || true {
						pushed = append(pushed, e.Args[0].(int))
					}
				case "popn":
					if len(e.Res) == 2 {
						popped += len(e.Res[0].([]any))
					}
				}
			}
			return
		}
		return vsched.Scenario{
			Describe: describe,
			Setup: func(s *vsched.Sched) {
				if c.Throughput != nil {
					in = actor.VerifNewInbox(c.Cap, *c.Throughput)
				} else {
					in = actor.NewInbox(c.Cap)
				}
				rec = &recorder{in: in}
				if !c.Starter {
					in.Start(rec) // unmanaged: runs without yields
				}
				for _, ms := range c.Senders {
					ms := ms
					vsched.Go(func() {
						for _, m := range ms {
							in.Send(actor.Envelope{Msg: msgID(m)})
						}
					})
				}
				if c.Starter {
					vsched.Go(func() { in.Start(rec) })
				}
			},
			Fingerprint: func(s *vsched.Sched) string {
				pushed, popped := pushedOf(s)
				return fmt.Sprint(in.VerifStatus(), pushed, popped, rec.delivered, rec.dropped, rec.open, rec.overlap, "|",
					strings.Join(s.LocalStates(), ","))
			},
			Observe: func(s *vsched.Sched, terminal, deadlock bool) any {
				pushed, _ := pushedOf(s)
				return inboxObs{Status: in.VerifStatus(), QLen: in.VerifLen(),
					Delivered: append([]int{}, rec.delivered...), Dropped: append([]int{}, rec.dropped...),
					Pushed: append([]int{}, pushed...), Overlap: rec.overlap, Deadlock: deadlock, Terminal: terminal}
			},
		}
	}
}

func inboxBad(c inboxCase) func(any) bool {
	total := 0
	pill := false
	for _, ms := range c.Senders {
		total += len(ms)
		for _, m := range ms {
			if m >= 1000 {
				pill = true
			}
		}
	}
	return func(o any) bool {
		ob := o.(inboxObs)
		if ob.Overlap || ob.Deadlock {
			return true
		}
		if !ob.Terminal {
			return false
		}
		if pill {
			return int64(len(ob.Delivered)+len(ob.Dropped))+ob.QLen != int64(len(ob.Pushed))
		}
		idle := int32(2)
		if c.Idle != nil {
			idle = *c.Idle
		}
		return ob.Status != idle || ob.QLen != 0 || len(ob.Delivered) != total || fmt.Sprint(ob.Delivered) != fmt.Sprint(ob.Pushed)
	}
}

func runInboxSched(raw json.RawMessage) (any, error) {
	var c inboxCase
	if err := json.Unmarshal(raw, &c); err != nil {
		return nil, err
	}
	yatomic.Enabled, yring.Enabled = true, true
	defer func() { yatomic.Enabled, yring.Enabled = false, false }()
	if c.MaxExecs == 0 {
		c.MaxExecs = 200000
	}
	mk := inboxScenario(c)
	switch c.Mode {
	case "replay":
		return vsched.Replay(mk, c.Choices, 10000), nil
	case "walk":
		rnd := rand.New(rand.NewSource(c.Seed))
		return vsched.Walks(mk, c.MaxExecs, rnd.Intn, 10000, c.Keep, inboxBad(c)), nil
	default:
		return vsched.Explore(mk, c.MaxExecs, 10000, c.Keep, inboxBad(c)), nil
	}
}

func init() { families["inboxsched"] = runInboxSched }
