module hvharness

go 1.22.12

toolchain go1.24.0

require github.com/anthdm/hollywood v0.0.0

replace github.com/anthdm/hollywood => /repo
