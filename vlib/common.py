"""Shared machinery of the check driver: build the Coq development, build the
Go harness against /repo's working tree, run cases through both, decide."""
import ast, fcntl, hashlib, json, os, random, re, shutil, subprocess, sys, time
from concurrent.futures import ThreadPoolExecutor

VERIF = os.path.dirname(os.path.dirname(os.path.abspath(__file__)))
REPO = os.environ.get("VERIF_REPO", "/repo")
COQ = os.path.join(VERIF, "coq")
HARNESS = os.path.join(VERIF, "harness")
WORKROOT = os.path.join(VERIF, ".work")
# evidence and replays of runs against another tree than /repo (seeded changes,
# scratch worktrees) are kept apart so they never overwrite the real ones
_ALT = "" if os.path.realpath(REPO) == "/repo" else "-alt"
EVIDENCE = os.path.join(VERIF, "evidence") if not _ALT else os.path.join(WORKROOT, "evidence-alt")
REPLAYS = os.path.join(VERIF, "replays" + _ALT)
NCPU = os.cpu_count() or 4

GOENV = dict(os.environ, GOFLAGS="-mod=mod", GOPROXY="off", GOSUMDB="off",
             GOTOOLCHAIN="local", CGO_ENABLED=os.environ.get("CGO_ENABLED", "0"))

FORBIDDEN = re.compile(r"\b(Admitted|admit|Axiom|Parameter|Conjecture|Admit Obligations|"
                       r"Unset Guard Checking|bypass_check|type-in-type|impredicative-set|"
                       r"Unset Positivity Checking|Unset Universe Checking)\b")


def log(*a):
    print(*a, file=sys.stderr, flush=True)


def sh(cmd, cwd=None, env=None, timeout=None, input=None):
    """run, return (rc, stdout+stderr)"""
    try:
        p = subprocess.run(cmd, cwd=cwd, env=env, timeout=timeout, input=input,
                           stdout=subprocess.PIPE, stderr=subprocess.STDOUT, text=True,
                           shell=isinstance(cmd, str))
        return p.returncode, p.stdout
    except subprocess.TimeoutExpired as e:
        out = e.stdout or ""
        if isinstance(out, bytes):
            out = out.decode(errors="replace")
        return 124, out + "\nTIMEOUT"


class Work:
    """private scratch directory of one invocation"""
    def __init__(self, tag):
        os.makedirs(WORKROOT, exist_ok=True)
        self.dir = os.path.join(WORKROOT, "%s-%d" % (tag, os.getpid()))
        shutil.rmtree(self.dir, ignore_errors=True)
        os.makedirs(self.dir)

    def path(self, *p):
        return os.path.join(self.dir, *p)

    def close(self):
        if not os.environ.get("VERIF_KEEP_WORK"):
            shutil.rmtree(self.dir, ignore_errors=True)


# ------------------------------------------------------------------ Coq side
def coq_sources():
    with open(os.path.join(COQ, "_CoqProject")) as f:
        return [l.strip() for l in f if l.strip().endswith(".v")]


def scan_forbidden():
    bad = []
    for v in coq_sources():
        txt = open(os.path.join(COQ, v)).read()
        txt = re.sub(r"\(\*.*?\*\)", "", txt, flags=re.S)
        for m in FORBIDDEN.finditer(txt):
            bad.append("%s: %s" % (v, m.group(0)))
    return bad


def coq_build(clean=False, timeout=3000):
    """(re)build the development with a full .vo build; returns (ok, log).
    Serialised across concurrent invocations by a lock file."""
    os.makedirs(WORKROOT, exist_ok=True)
    with open(os.path.join(WORKROOT, "coq.lock"), "w") as lk:
        fcntl.flock(lk, fcntl.LOCK_EX)
        if clean or not os.path.exists(os.path.join(COQ, "Makefile")):
            sh("rm -f *.vo *.vos *.vok *.glob .*.aux Makefile Makefile.conf .Makefile.d", cwd=COQ)
            rc, out = sh("coq_makefile -f _CoqProject -o Makefile", cwd=COQ)
            if rc != 0:
                return False, out
        rc, out = sh("timeout %d make -j%d -k" % (timeout, NCPU), cwd=COQ)
        return rc == 0, out


def vo_ok(vfile):
    vo = os.path.join(COQ, vfile[:-2] + ".vo")
    src = os.path.join(COQ, vfile)
    return os.path.exists(vo) and os.path.getmtime(vo) >= os.path.getmtime(src)


STMT = re.compile(r"^\s*(?:Local\s+|Global\s+|#\[[^\]]*\]\s*)*(Theorem|Lemma|Corollary|Proposition|Fact|Remark|Example)\s+([A-Za-z0-9_']+)", re.M)


def count_obligations(vfiles):
    """statements (Theorem/Lemma/...) in the given files, and how many of them
    sit in a file whose .vo was produced by this tree's build"""
    total = done = 0
    per = {}
    for v in vfiles:
        txt = open(os.path.join(COQ, v)).read()
        txt = re.sub(r"\(\*.*?\*\)", "", txt, flags=re.S)
        n = len(STMT.findall(txt))
        ok = vo_ok(v)
        per[v] = {"statements": n, "compiled": ok}
        total += n
        if ok:
            done += n
    return total, done, per


def print_assumptions(theorems, work):
    """compile a file that prints the assumptions of each property theorem;
    returns {name: text} (text == 'MISSING' when the theorem does not check)"""
    res = {}
    src = ["From HV Require Import Properties."]
    for t in theorems:
        src.append('Goal True. idtac "@@BEGIN %s". Abort.' % t)
        src.append("Print Assumptions %s." % t)
        src.append('Goal True. idtac "@@END". Abort.')
    p = work.path("PA.v")
    open(p, "w").write("\n".join(src) + "\n")
    rc, out = sh(["coqc", "-Q", COQ, "HV", p], cwd=work.dir, timeout=600)
    if rc != 0:
        # find which are missing: try one by one
        for t in theorems:
            q = work.path("PA1.v")
            open(q, "w").write("From HV Require Import Properties.\nPrint Assumptions %s.\n" % t)
            rc1, out1 = sh(["coqc", "-Q", COQ, "HV", q], cwd=work.dir, timeout=600)
            res[t] = out1.strip() if rc1 == 0 else "MISSING: " + out1.strip()[-400:]
        return res
    for m in re.finditer(r"@@BEGIN (\S+)\n(.*?)@@END", out, flags=re.S):
        res[m.group(1)] = m.group(2).strip()
    for t in theorems:
        res.setdefault(t, "MISSING")
    return res


def coq_term_to_py(s):
    s = re.sub(r"%[A-Za-z]+", "", s)
    s = s.replace(";", ",").replace("true", "True").replace("false", "False")
    return ast.literal_eval(s.strip())


def run_cases_in_coq(exec_module, case_terms, work, tag, shard=250, prelude=""):
    """evaluate [exec_module.report] on the given case terms (strings) by
    vm_compute inside Coq; returns the list of per-shard reports, or raises"""
    shards = [case_terms[i:i + shard] for i in range(0, len(case_terms), shard)]
    files = []
    for k, sh_cases in enumerate(shards):
        name = "Cases_%s_%d" % (tag, k)
        p = work.path(name + ".v")
        with open(p, "w") as f:
            f.write("From stdpp Require Import list.\nFrom Coq Require Import ZArith.\n")
            f.write("From HV Require Import %s.\nImport %s.\n%s\n" % (exec_module, exec_module, prelude))
            f.write("Open Scope Z_scope.\nDefinition cases : list case := [\n")
            f.write(";\n".join(sh_cases))
            f.write("\n].\nDefinition M := Eval vm_compute in report cases.\n")
            f.write('Goal True. idtac "@@BEGIN". Abort.\nPrint M.\nGoal True. idtac "@@END". Abort.\n')
        files.append(p)

    def one(p):
        rc, out = sh(["coqc", "-Q", COQ, "HV", p], cwd=work.dir, timeout=1800)
        if rc != 0:
            raise RuntimeError("coqc failed on %s:\n%s" % (p, out[-3000:]))
        m = re.search(r"@@BEGIN\s*M =(.*?)\n\s*: [^\n]*(?:\n[^@]*)?@@END", out, flags=re.S)
        if not m:
            raise RuntimeError("cannot parse coqc output of %s:\n%s" % (p, out[-2000:]))
        return coq_term_to_py(m.group(1))

    with ThreadPoolExecutor(max_workers=NCPU) as ex:
        return list(ex.map(one, files)), shard


# ------------------------------------------------------------------- Go side
# which hook files (under tools/hooks) each harness family file needs; a restricted build overlays
# only those and replaces the other family files by an empty stub, so that a change to the code
# under verification that breaks the compilation of one hook file raises an alarm only in the
# checks that need that hook
FAMILY_HOOKS = {
    ("hv", "ring.go"): [], ("hv", "deliver.go"): [], ("hv", "clusternet.go"): [],
    ("hv", "proc.go"): ["actor/hooks.go"], ("hv", "events.go"): ["actor/hooks.go"],
    ("hv", "corner09.go"): ["actor/hooks.go"], ("hv", "registry.go"): ["actor/hooks.go", "actor/registry_hooks.go"],
    ("hv", "response.go"): ["actor/hooks.go", "actor/registry_hooks.go"], ("hv", "tree.go"): ["actor/hooks.go", "actor/tree.go"],
    ("hv", "wire.go"): ["remote/hooks.go", "remote/buf.go"],
    ("hv", "peer.go"): ["actor/hooks.go", "remote/hooks.go", "remote/buf.go", "remote/remote17.go", "actor/remote17.go"],
    ("hv", "cluster.go"): ["cluster/hooks.go"],
    ("hvs", "inbox.go"): ["actor/hooks.go", "actor/inbox_tp.go"], ("hvs", "procsched.go"): ["actor/hooks.go", "actor/actor.go"],
    ("hvs", "registry.go"): ["actor/hooks.go", "actor/registry_hooks.go"], ("hvs", "ring.go"): ["ringbuffer/ringconc.go"],
    ("hvs", "treerace.go"): ["actor/hooks.go", "actor/tree.go"],
}
KEEP_ALWAYS = ("main.go", "shared.go")
# harness family name -> the source file of cmd/<binary>/ that implements it
FAMILY_FILE = {"ring": "ring.go", "proc": "proc.go", "deliver": "deliver.go", "wire15": "wire.go", "wire16": "wire.go",
               "peer16": "peer.go", "agent18": "cluster.go", "provider20": "cluster.go", "cluster19": "clusternet.go",
               "events12": "events.go", "undeliv09": "events.go", "corner09": "corner09.go", "respawn": "registry.go",
               "reqresp": "response.go", "reqstorm": "response.go", "reqboundary": "response.go", "reqcollide": "response.go",
               "tree08": "tree.go", "inboxsched": "inbox.go", "procsched": "procsched.go", "regsched": "registry.go",
               "ringsched": "ring.go", "treerace": "treerace.go", "node1820": "cluster.go"}


def restricted_overlay(binary, fams):
    """(stub replacements for the family files not needed, hook files needed) or (None, None) for a full build"""
    if not fams:
        return None, None
    src = os.path.join(HARNESS, "cmd", binary)
    stub = os.path.join(VERIF, "tools", "stub.go")
    repl, hooks = {}, set()
    for f in sorted(os.listdir(src)):
        if not f.endswith(".go") or f in KEEP_ALWAYS:
            continue
        if f in fams:
            if (binary, f) not in FAMILY_HOOKS:
                return None, None          # unknown family: build everything
            hooks.update(FAMILY_HOOKS[(binary, f)])
        else:
            repl[os.path.join(src, f)] = stub
    return repl, hooks


def make_overlay(work, extra=None, only_hooks=None):
    """overlay.json: hook files of /verif/tools/hooks/<pkg>/*.go appear in
    REPO/<pkg>/zz_verif_<name>; nothing is written into the repository"""
    repl = {}
    hooks = os.path.join(VERIF, "tools", "hooks")
    for root, _, files in os.walk(hooks):
        for f in files:
            if f.endswith(".go"):
                rel = os.path.relpath(root, hooks)
                if only_hooks is not None and os.path.join(rel, f) not in only_hooks:
                    continue
                repl[os.path.join(REPO, rel, "zz_verif_" + f)] = os.path.join(root, f)
    if extra:
        repl.update(extra)
    p = work.path("overlay.json")
    json.dump({"Replace": repl}, open(p, "w"), indent=1)
    return p


MODPATH = "github.com/anthdm/hollywood"
SHIMMED = [   # (file, import map, rewrite go statements)
    ("actor/inbox.go", {"sync/atomic": "yatomic", MODPATH + "/ringbuffer": "yring"}, True),
    ("actor/registry.go", {"sync": "ysync"}, False),
    ("ringbuffer/ringbuffer.go", {"sync/atomic": "ratomic", "sync": "rsync"}, False),
]


def shim_overlay(work):
    """overlay entries of the scheduler-shimmed build: the shim packages as
    virtual directories REPO/verifshim/*, and import-rewritten copies of the
    current inbox.go / registry.go / ringbuffer.go (generated afresh)"""
    tools = os.path.join(VERIF, "tools")
    gen = work.path("shimgen")
    if not os.path.exists(gen):
        rc, out = sh(["go", "build", "-o", gen, "."], cwd=os.path.join(tools, "shimgen"), env=dict(GOENV), timeout=300)
        if rc != 0:
            raise RuntimeError("shimgen build failed: " + out)
    repl = {}
    vs = os.path.join(tools, "verifshim")
    for virt, real in (("vsched", "vsched/vsched.go"), ("yatomic", "yatomic/yatomic.go"), ("ratomic", "yatomic/yatomic.go"),
                       ("ysync", "ysync/ysync.go"), ("rsync", "ysync/ysync.go"), ("yring", "yring/yring.go")):
        repl[os.path.join(REPO, "verifshim", virt, os.path.basename(real))] = os.path.join(vs, real)
    os.makedirs(work.path("shim"), exist_ok=True)
    for (f, imap, gos) in SHIMMED:
        out_f = work.path("shim", f.replace("/", "_"))
        m = ",".join("%s=%s/verifshim/%s" % (k, MODPATH, v) for k, v in imap.items())
        cmd = [gen, "-in", os.path.join(REPO, f), "-out", out_f, "-map", m]
        if gos:
            cmd += ["-vsched", MODPATH + "/verifshim/vsched"]
        rc, out = sh(cmd, timeout=60)
        if rc != 0:
            raise RuntimeError("shimgen failed on %s: %s" % (f, out))
        repl[os.path.join(REPO, f)] = out_f
    return repl


def build_harness(work, binary="hv", tags="verif", extra_overlay=None, fams=None):
    """build the harness against the current working tree of REPO.  The
    module file is generated (replace => REPO) so that nothing under /verif
    or REPO is modified by a build.  With fams (family file names) only those
    families and the hook files they need are part of the build."""
    modsrc = open(os.path.join(HARNESS, "go.mod")).read().replace("=> /repo", "=> " + REPO)
    modfile = work.path("go.mod")
    open(modfile, "w").write(modsrc)
    shutil.copy(os.path.join(REPO, "go.sum"), work.path("go.sum"))
    out_bin = work.path(binary)
    if binary == "hvs":
        try:
            extra_overlay = dict(extra_overlay or {}, **shim_overlay(work))
        except RuntimeError as e:
            return None, str(e)
    stubs, hooks = restricted_overlay(binary, fams)
    if stubs is not None:
        extra_overlay = dict(extra_overlay or {}, **stubs)
    overlay = make_overlay(work, extra_overlay, only_hooks=hooks)
    cmd = ["go", "build", "-modfile", modfile, "-tags", tags, "-overlay", overlay,
           "-o", out_bin, "./cmd/" + binary]
    rc, out = sh(cmd, cwd=HARNESS, env=dict(GOENV), timeout=900)
    if rc != 0 and hooks is not None and re.search(r"Verif\w+", out):
        # the table of needed hook files may be out of date: retry with every hook file
        # (still only the needed families)
        overlay = make_overlay(work, extra_overlay, only_hooks=None)
        cmd[cmd.index("-overlay") + 1] = overlay
        rc, out2 = sh(cmd, cwd=HARNESS, env=dict(GOENV), timeout=900)
        out = out2 if rc == 0 else out + "\n--- retry with all hook files ---\n" + out2
    return (out_bin if rc == 0 else None), out


def run_harness(binary, family, cases, timeout=1800, args=(), crash_obs=None):
    """feed cases (python objects) as JSON lines; get one observation each.
    If the harness process dies (a panic escaping the code under test) and
    crash_obs is given, the case being run gets that observation and the
    remaining cases are run in a fresh process."""
    res = []
    rest = list(cases)
    while rest:
        inp = "\n".join(json.dumps(c, separators=(",", ":")) for c in rest) + "\n"
        p = subprocess.run([binary, family, *args], input=inp, stdout=subprocess.PIPE,
                           stderr=subprocess.PIPE, text=True, timeout=timeout)
        obs = []
        for l in p.stdout.splitlines():
            if l.strip():
                try:
                    obs.append(json.loads(l))
                except ValueError:
                    break
        if p.returncode == 0 and len(obs) == len(rest):
            res += obs
            break
        if crash_obs is None or len(obs) >= len(rest):
            raise RuntimeError("harness %s failed (rc=%d, %d observations for %d cases): %s"
                               % (family, p.returncode, len(obs), len(rest), p.stderr[-2000:]))
        res += obs
        res.append(dict(crash_obs, stderr_tail=p.stderr[-600:]))
        rest = rest[len(obs) + 1:]
    return res


def run_harness_parallel(binary, family, cases, nproc=None, timeout=1800, args=(), crash_obs=None):
    nproc = min(nproc or NCPU, len(cases))
    if nproc < 2:
        return run_harness(binary, family, cases, timeout, args, crash_obs)
    chunks = [cases[i::nproc] for i in range(nproc)]
    with ThreadPoolExecutor(max_workers=nproc) as ex:
        outs = list(ex.map(lambda c: run_harness(binary, family, c, timeout, args, crash_obs), chunks))
    res = [None] * len(cases)
    for k, o in enumerate(outs):
        res[k::nproc] = o
    return res


# ------------------------------------------------------------- Coq printing
def cz(n):
    return "(%d)" % n if n < 0 else "%d" % n


def cnat(n):
    assert 0 <= n < 5000, n
    return "%d%%nat" % n


def clist(xs):
    return "[" + "; ".join(xs) + "]"


def copt(x):
    return "None" if x is None else "(Some %s)" % x


def cbool(b):
    return "true" if b else "false"


def coqchk_cached(modules, timeout=3000):
    """independent re-check of the compiled development with coqchk (thorough
    tier); cached by the hash of the .vo files so that concurrent thorough
    runs on one tree share a single check"""
    h = hashlib.sha256()
    for v in sorted(coq_sources()):
        vo = os.path.join(COQ, v[:-2] + ".vo")
        if os.path.exists(vo):
            h.update(open(vo, "rb").read())
    key = h.hexdigest()[:16]
    os.makedirs(WORKROOT, exist_ok=True)
    cache = os.path.join(WORKROOT, "coqchk-%s.json" % key)
    with open(os.path.join(WORKROOT, "coqchk.lock"), "w") as lk:
        fcntl.flock(lk, fcntl.LOCK_EX)
        if os.path.exists(cache):
            return json.load(open(cache))
        t0 = time.time()
        rc, out = sh(["coqchk", "-silent", "-o", "-Q", COQ, "HV"] + ["HV." + m for m in modules], cwd=COQ, timeout=timeout)
        m = re.search(r"CONTEXT SUMMARY.*", out, flags=re.S)
        res = {"ok": rc == 0, "summary": re.sub(r"\s+", " ", m.group(0))[:1500] if m else out[-1500:],
               "wall_s": round(time.time() - t0, 1), "modules": modules}
        json.dump(res, open(cache, "w"))
        return res
