"""Translation ties (DESIGN.md 0.8, 0.10): a translator regenerates a Coq term model of one source file from the
current tree, and a committed proof file, compiled outside the main build in a work directory of the run, proves that
generated model equivalent to the hand-written one.  The result is information in the evidence
({"status": "proved" | "unavailable", "detail": ...}); it never produces a violation and never raises."""
import hashlib, json, os, re, shutil, time
from . import common as C


def _coqc_src(d, f, timeout):
    return C.sh(["coqc", "-Q", C.COQ, "HV", "-Q", d, "HVSrc", f], cwd=d, timeout=timeout)


def _coq_error(out, text, fname):
    m = None
    for m in re.finditer(r'File "[^"]*", line (\d+), characters [^\n]*\n(.*)', out, flags=re.S):
        pass
    if not m:
        return re.sub(r"\s+", " ", out[-500:])
    line = int(m.group(1))
    names = [(x.start(), x.group(2)) for x in C.STMT.finditer(text)]
    pos = sum(len(l) + 1 for l in text.split("\n")[:line - 1])
    inside = [n for (p, n) in names if p <= pos]
    return "in %s (%s line %d): %s" % (inside[-1] if inside else "?", fname, line, re.sub(r"\s+", " ", m.group(2))[:400])


def unavailable(reason, message, **more):
    return {"status": "unavailable", "detail": dict(reason=reason, message=message, **more)}


def translation_tie(tag, tool, source_rel, gen_name, proofs_name, theorems, deps, tier, proof_timeout=900):
    """tool: directory name under tools/ (a Go main package taking -repo DIR -o FILE, exit 3 = refusal)"""
    t0 = time.time()
    work = None
    try:
        work = C.Work(tag)
        d = work.path("src")
        os.makedirs(d)
        tdir = os.path.join(C.VERIF, "tools", tool)
        tkey = hashlib.sha256(open(os.path.join(tdir, "main.go"), "rb").read()).hexdigest()[:16]
        cdir = os.path.join(C.WORKROOT, tool + "-cache")
        trans = os.path.join(cdir, tool + "-" + tkey)
        if not os.path.exists(trans):
            os.makedirs(cdir, exist_ok=True)
            rc, out = C.sh(["go", "build", "-o", work.path(tool), "."], cwd=tdir, env=dict(C.GOENV), timeout=300)
            if rc != 0:
                return unavailable("translator-not-built", out[-600:])
            os.replace(work.path(tool), trans)
        gen = os.path.join(d, gen_name)
        rc, out = C.sh([trans, "-repo", C.REPO, "-o", gen], timeout=60)
        if rc == 3:
            return unavailable("source-outside-the-translated-fragment", out.strip()[-500:])
        if rc != 0:
            return unavailable("translator-failed", "rc=%d %s" % (rc, out.strip()[-500:]))
        src = open(gen).read()
        proofs_path = os.path.join(C.COQ, proofs_name)
        proofs = open(proofs_path).read()
        sha = hashlib.sha256(open(os.path.join(C.REPO, source_rel), "rb").read()).hexdigest()[:16]
        missing = [v for v in deps if not C.vo_ok(v)]
        if missing:
            return unavailable("coq-dependencies-not-built", "no up-to-date .vo for " + ", ".join(missing))
        bad = [m.group(0) for t in (src, proofs) for m in C.FORBIDDEN.finditer(re.sub(r"\(\*.*?\*\)", "", t, flags=re.S))]
        if bad:
            return unavailable("forbidden-construct", ", ".join(bad))
        m = re.search(r"audited against[^\n]*\n(.*?)\*\)", src, flags=re.S)
        sites = [l.strip() for l in m.group(1).splitlines() if l.strip()] if m else None
        base = dict(source=source_rel, source_sha256_16=sha, generated="%s (%d bytes)" % (gen_name, len(src)),
                    checker_cmd="tools/%s -repo $VERIF_REPO; coqc -Q coq HV -Q <work> HVSrc %s %s (outside the main build)"
                                % (tool, gen_name, proofs_name))
        if sites is not None:
            base["audited_call_sites"] = sites
        h = hashlib.sha256()
        for t in [src, proofs] + [open(os.path.join(C.COQ, v)).read() for v in deps]:
            h.update(t.encode() + b"\0")
        cache = os.path.join(cdir, h.hexdigest()[:24] + ".json")
        if tier == "quick" and os.path.exists(cache) and not os.environ.get("VERIF_NO_TIE_CACHE"):
            try:
                res = json.load(open(cache))
                res["detail"].update(cached=True, wall_s=round(time.time() - t0, 1))
                return res
            except Exception:
                pass
        rc, out = _coqc_src(d, gen, 300)
        if rc != 0:
            return unavailable("generated-terms-do-not-compile", out[-600:], **base)
        shutil.copy(proofs_path, os.path.join(d, proofs_name))
        rc, out = _coqc_src(d, os.path.join(d, proofs_name), proof_timeout)
        if rc == 124:
            rc, out = _coqc_src(d, os.path.join(d, proofs_name), 2 * proof_timeout)
        if rc == 0:
            pa = {m.group(1): m.group(2).strip() for m in re.finditer(r"@@BEGIN (\S+)\n(.*?)@@END", out, flags=re.S)}
            open_ = {t: pa.get(t, "MISSING") for t in theorems if not pa.get(t, "").startswith("Closed under the global context")}
            if open_:
                return unavailable("theorems-not-closed", json.dumps(open_)[:600], **base)
            res = {"status": "proved", "detail": dict(base, theorems={t: pa[t] for t in theorems}, cached=False,
                                                      wall_s=round(time.time() - t0, 1))}
            try:
                json.dump(res, open(cache + ".tmp%d" % os.getpid(), "w"))
                os.replace(cache + ".tmp%d" % os.getpid(), cache)
            except Exception:
                pass
            return res
        if rc == 124:
            return unavailable("timeout", "coqc %s did not finish" % proofs_name, **base)
        return unavailable("equivalence-proof-does-not-compile", _coq_error(out, proofs, proofs_name), **base)
    except Exception as e:
        return unavailable("internal-error", repr(e)[-400:])
    finally:
        if work is not None:
            work.close()


def note(pid, res):
    if res["status"] == "proved":
        return None
    d = res["detail"]
    return "NOTE property=%s translation_tie=unavailable reason=%s detail=%s" % (
        pid, d.get("reason"), re.sub(r"\s+", " ", str(d.get("message")))[:300])
