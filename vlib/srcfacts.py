"""Facts read from the current sources of the code under verification and fed to the models as
parameters, so that the models follow the code on what is only a constant: the PopN batch bound,
the throughput budget, the numbering of the inbox states."""
import os, re
from . import common as C


def _const(src, name):
    m = re.search(r"\b%s\s*(?:int\d*\s*)?=\s*([0-9 *+()]+)" % re.escape(name), src)
    if not m:
        return None
    expr = m.group(1).strip()
    if not re.fullmatch(r"[0-9 *+()]+", expr):
        return None
    return int(eval(expr))


def inbox_facts():
    src = open(os.path.join(C.REPO, "actor", "inbox.go")).read()
    facts = {"messageBatchSize": _const(src, "messageBatchSize"), "defaultThroughput": _const(src, "defaultThroughput")}
    # const ( stopped int32 = iota \n starting \n idle \n running )
    m = re.search(r"const\s*\(\s*(\w+)\s+int32\s*=\s*iota\s*\n\s*(\w+)\s*\n\s*(\w+)\s*\n\s*(\w+)\s*\n\s*\)", src)
    if m:
        facts["states"] = {name: i for i, name in enumerate(m.groups())}
    return facts
