"""C09 — undeliverable messages surface exactly once as events, never silently."""
from . import events_common as EC
from .events_common import COQ_FILES, TRUSTED_BASE

THEOREMS = ["C09_send_total", "C09_dead_letter_exact", "C09_remote_missing_exact", "C09_finitely_many_events",
            "C09_dead_subscriber_diverges_pinned_refuted", "C09_oracle_holds_of_model"]
RULE = ("scenarios on a real engine without remote: 0-3 live monitors subscribed from the start, recording actors 3, 4 "
        "(which scenarios subscribe and stop), 5 (live target), 8 (sender), an actor stopped beforehand (6), an id never "
        "spawned (7), a foreign address; steps: SendWithSender to a target of class nil / never spawned / stopped / "
        "foreign / live / stopped-in-scenario with payload numbers and senders {none, live actor, dead PID, foreign "
        "PID}; Subscribe / Unsubscribe of live, stopped, unknown and foreign PIDs; Poison of a subscribed actor; "
        "BroadcastEvent; every step followed by quiescence. Systematic: 4 monitor counts x 10 subscriber populations "
        "(0-2 unreachable subscribers made in 5 ways) x 6 target classes x senders, with follow-up sends; then random "
        "scenarios up to 10 steps. Observation: per recording actor everything received with its sender "
        "(DeadLetterEvent / EngineRemoteMissingEvent rendered recursively with target, message, sender), whether a "
        "step panicked, and a divergence guard (more than 10000 messages, or no quiescence within 10 s, is observed as "
        "'diverged'; the harness then removes the scenario's subscriptions and, failing that, leaves the process). "
        "A case is non-trivial when the model run reaches a proof-relevant situation (dead letter, remote missing, "
        "forward to an unreachable subscriber coming back, ...); distinct = distinct scenario")
ASSUMPTIONS = [
    "the theorems are about Events.v, a hand transcription of Engine.send/SendLocal/BroadcastEvent, Registry.get, "
    "Context.Forward and eventStream.Receive after fixes/D5.diff and fixes/D6.diff; the tie is differential "
    "execution on generated scenarios",
    "C09_dead_letter_exact / C09_remote_missing_exact are stated for a send made while the event stream is at rest "
    "(so that 'the events caused by this send' is well defined); C09_finitely_many_events holds for every "
    "interleaving",
    "'exactly one' is exact when no subscriber is unreachable; with unreachable subscribers each of them adds one "
    "event about itself (the forward that could not be delivered), after which it is dropped",
    "the event stream's own PID is never subscribed to the event stream; a subscriber behind a configured remote is "
    "C17's matter (unreachable remotes produce RemoteUnreachableEvents at the pace of the dial retries); Stop/Poison "
    "of an unregistered PID (a DeadLetterEvent carrying the pill) is covered by C07",
]

from ..driver import Part
from .. import common as C

COQ_FILES = COQ_FILES + ["Corner09Exec.v"]


class Corners(Part):
    """unusual inputs outside the modelled domain: nil message, event stream gone, response mailbox
    or the event stream itself subscribed"""
    name = "corners"
    family = "corner09"
    exec_module = "Corner09Exec"
    one_per_process = True
    KINDS = {"nilmsg": 1, "events_gone": 2, "sub_response": 3, "sub_self": 4, "remote_dead_sub": 5, "concurrent_stops": 6, "nil_targets": 7, "send_in_stopped": 8}
    OUT = {"ok": 0, "panic": 1, "diverged": 2, "blocked": 3, "registered": 4}
    branch_names = {1: "nil_message", 2: "event_stream_gone", 3: "response_mailbox_subscribed", 4: "event_stream_subscribed_to_itself", 5: "dead_subscriber_on_engine_with_remote", 6: "send_after_concurrent_stops", 7: "nil_pids", 8: "send_while_target_handles_Stopped"}
    crash_obs = {"outcome": "panic", "dead": 0, "events": 0, "note": "the harness process died"}

    def generate(self, rng, tier):
        cs = [{"kind": "nilmsg", "k": 0}, {"kind": "events_gone", "k": 0}, {"kind": "sub_response", "k": 3},
              {"kind": "sub_response", "k": 7}, {"kind": "sub_self", "k": 2}, {"kind": "remote_dead_sub", "k": 2},
              {"kind": "concurrent_stops", "k": 48}, {"kind": "concurrent_stops", "k": 6}, {"kind": "nil_targets", "k": 0},
              {"kind": "send_in_stopped", "k": 1}, {"kind": "send_in_stopped", "k": 5}]
        return [{"input": c, "class": c["kind"]} for c in cs]

    def to_coq(self, inp, obs):
        return "{| c_kind := %s; c_k := %s; c_outcome := %s; c_dead := %s; c_events := %s |}" % (
            C.cnat(self.KINDS[inp["kind"]]), C.cnat(inp["k"]), C.cnat(self.OUT.get(obs["outcome"], 1)),
            C.cnat(min(obs.get("dead", 0), 4999)), C.cnat(min(obs.get("events", 0), 4999)))


PARTS = [EC.Undeliv09(), Corners()]
