"""C14 — RingBuffer is an unbounded, linearizable FIFO queue."""
import itertools
from ..driver import Part
from . import c14_conc
from .. import common as C

COQ_FILES = ["Ring.v", "RingProofs.v", "RingExec.v", "PropsRing.v"]
THEOREMS = ["C14_ring_refines_fifo", "C14_no_out_of_bounds", "C14_len_is_pushes_minus_popped",
            "C14_pop_false_iff_empty", "C14_popN_first_min_n_len"]
RULE = ("operation sequences over {Push x, Pop, PopN n, Len} on RingBuffer[int64]: exhaustive over a small "
        "alphabet and capacities 1-4, then random fill/drain phases (capacity 1-16) built so that head takes "
        "many residues before each growth; a case is non-trivial when the model replay reaches at least one "
        "proof-relevant branch (growth with head=0, growth while wrapped, PopN across the wrap, PopN clamped, "
        "pop on empty, Pop across the wrap); distinct = distinct (capacity, op list)")
TRUSTED_BASE = [
    "Coq 8.16.1 kernel; vm_compute (used to evaluate the model on the cases); no native_compute",
    "axioms: none (Print Assumptions below)",
    "correspondence harness: /verif/harness cmd/hv family 'ring' (runs ringbuffer.RingBuffer[int64] from /repo), "
    "vlib/props/c14.py (generators, printing of cases as Coq terms)",
    "modelled not verified: sync.Mutex gives mutual exclusion and atomic.AddInt64/LoadInt64 are single steps; "
    "int64 does not overflow; make() zero-fills; n >= 0 and size >= 1 (outside: Go panics / corrupts, not in C14's domain)",
]
ASSUMPTIONS = [
    "the theorem is about Ring.v, a hand transcription of ringbuffer.go; the tie is differential execution on generated histories",
    "concurrent callers: mutators are serialised by the mutex (modelled as atomic sections), Len is one atomic read",
]


def op_coq(op):
    if op[0] == "push":
        return "Push %s" % C.cz(op[1])
    if op[0] == "pop":
        return "Pop"
    if op[0] == "popn":
        return "PopN %s" % C.cnat(op[1])
    return "Len"


def res_coq(r):
    k = r[0]
    if k == "push":
        return "RPush"
    if k == "pop":
        return "RPop %s" % (C.copt(C.cz(r[2])) if r[1] else "None")
    if k == "popn":
        return "RPopN %s" % (C.copt(C.clist([C.cz(x) for x in r[2]])) if r[1] else "None")
    if k == "len":
        if r[1] < 0:
            return "RPop (Some (-999999))"      # a negative length can never equal a model result
        return "RLen %s" % C.cnat(r[1])
    if k == "panic":
        return "RPop (Some (-999998))"
    raise ValueError(r)


class Seq(Part):
    name = "sequential"
    family = "ring"
    exec_module = "RingExec"
    branch_names = {1: "grow_head0", 2: "grow_wrapped", 3: "popN_across_wrap", 4: "popN_clamped",
                    5: "pop_empty", 6: "pop_across_wrap"}

    def generate(self, rng, tier):
        cases = []
        # exhaustive family
        alpha = [["push", None], ["pop"], ["popn", 0], ["popn", 1], ["popn", 2], ["popn", 3], ["popn", 5], ["len"]]
        maxlen = 4 if tier == "quick" else 5
        for size in (1, 2, 3, 4):
            for n in range(1, maxlen + 1):
                for combo in itertools.product(range(len(alpha)), repeat=n):
                    # prune: at least one push, starts with push (others are trivial prefixes)
                    if combo[0] != 0:
                        continue
                    ops, k = [], 0
                    for c in combo:
                        if c == 0:
                            k += 1
                            ops.append(["push", k])
                        else:
                            ops.append(list(alpha[c]))
                    cases.append({"input": {"size": size, "ops": ops}, "class": "exhaustive"})
        # random fill/drain phases
        nrand = 600 if tier == "quick" else 12000
        for _ in range(nrand):
            size = rng.choice([1, 1, 2, 3, 4, 5, 7, 8, 16])
            ops, k = [], 0
            target = rng.randint(5, 120 if tier == "quick" else 400)
            while len(ops) < target:
                phase = rng.random()
                if phase < 0.45:      # fill
                    for _ in range(rng.randint(1, 2 * size + 3)):
                        k += 1
                        ops.append(["push", k * rng.choice([1, 1, -1])])
                elif phase < 0.85:    # drain partly
                    for _ in range(rng.randint(1, size + 2)):
                        r = rng.random()
                        if r < 0.5:
                            ops.append(["pop"])
                        else:
                            ops.append(["popn", rng.choice([0, 1, 2, 3, size, size + 1, 7, 4096])])
                else:
                    ops.append(["len"])
            cases.append({"input": {"size": size, "ops": ops}, "class": "random_fill_drain"})
        return cases

    def to_coq(self, inp, obs):
        return "{| c_size := %s; c_ops := %s; c_obs := %s |}" % (
            C.cnat(inp["size"]), C.clist([op_coq(o) for o in inp["ops"]]),
            C.clist([res_coq(r) for r in obs]))

    def shrink(self, inp):
        out = []
        ops = inp["ops"]
        n = len(ops)
        for chunk in (n // 2, n // 4, 1):
            if chunk < 1:
                continue
            for i in range(0, n, chunk):
                out.append({"size": inp["size"], "ops": ops[:i] + ops[i + chunk:]})
        if inp["size"] > 1:
            out.append({"size": inp["size"] - 1, "ops": ops})
        return [o for o in out if o["ops"]]

    def describe(self, inp):
        d = dict(inp)
        if len(d["ops"]) > 40:
            d = {"size": d["size"], "ops_prefix": d["ops"][:40], "n_ops": len(d["ops"])}
        return d


PARTS = [Seq(), c14_conc.Conc()]
build = c14_conc.build
COQ_FILES = COQ_FILES + c14_conc.COQ_FILES
THEOREMS = THEOREMS + c14_conc.THEOREMS
TRUSTED_BASE = TRUSTED_BASE + c14_conc.TRUSTED_BASE
ASSUMPTIONS = ASSUMPTIONS + c14_conc.ASSUMPTIONS
RULE = RULE + "; " + c14_conc.RULE_CONC
