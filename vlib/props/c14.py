"""C14 — RingBuffer is an unbounded, linearizable FIFO queue."""
import hashlib, itertools, json, os, re, shutil, time
from concurrent.futures import ThreadPoolExecutor
from ..driver import Part
from . import c14_conc
from .. import common as C

COQ_FILES = ["Ring.v", "RingProofs.v", "RingExec.v", "PropsRing.v"]
THEOREMS = ["C14_ring_refines_fifo", "C14_no_out_of_bounds", "C14_len_is_pushes_minus_popped",
            "C14_pop_false_iff_empty", "C14_popN_first_min_n_len"]
RULE = ("operation sequences over {Push x, Pop, PopN n, Len} on RingBuffer[int64]: exhaustive over a small "
        "alphabet and capacities 1-4, then random fill/drain phases (capacity 1-16) built so that head takes "
        "many residues before each growth; a case is non-trivial when the model replay reaches at least one "
        "proof-relevant branch (growth with head=0, growth while wrapped, PopN across the wrap, PopN clamped, "
        "pop on empty, Pop across the wrap); distinct = distinct (capacity, op list)")
TRUSTED_BASE = [
    "Coq 8.16.1 kernel; vm_compute (used to evaluate the model on the cases); no native_compute",
    "axioms: none (Print Assumptions below)",
    "correspondence harness: /verif/harness cmd/hv family 'ring' (runs ringbuffer.RingBuffer[int64] from /repo), "
    "vlib/props/c14.py (generators, printing of cases as Coq terms)",
    "translation tie (when its status is 'proved'): tools/ringtrans (Go AST -> GoMini terms, refuses what it does not know) and "
    "the sequential semantics coq/GoMini.v gives those terms; coqc run on the generated RingSrc.v + coq/RingSrcProofs.v outside the main build",
    "modelled not verified: sync.Mutex gives mutual exclusion and atomic.AddInt64/LoadInt64 are single steps; "
    "int64 does not overflow; make() zero-fills; n >= 0 and size >= 1 (outside: Go panics / corrupts, not in C14's domain)",
]
ASSUMPTIONS = [
    "the theorem is about Ring.v, a hand transcription of ringbuffer.go; the tie is differential execution on generated histories",
    "second tie (coverage.parts.sequential.translation_tie): tools/ringtrans translates the current ringbuffer.go into GoMini terms "
    "(coq/GoMini.v) on every run; status 'proved' = coq/RingSrcProofs.v was re-checked against those terms (they behave like Ring.v for "
    "all heaps, rings and arguments, hence like the FIFO; trusted: the translator and GoMini's sequential semantics); status "
    "'unavailable' = the source left the translated fragment or the equivalence proof needs porting, and the verdict rests on the "
    "differential execution alone (never a violation by itself)",
    "concurrent callers: mutators are serialised by the mutex (modelled as atomic sections), Len is one atomic read",
]


def op_coq(op):
    if op[0] == "push":
        return "Push %s" % C.cz(op[1])
    if op[0] == "pop":
        return "Pop"
    if op[0] == "popn":
        return "PopN %s" % C.cnat(op[1])
    return "Len"


def res_coq(r):
    k = r[0]
    if k == "push":
        return "RPush"
    if k == "pop":
        return "RPop %s" % (C.copt(C.cz(r[2])) if r[1] else "None")
    if k == "popn":
        return "RPopN %s" % (C.copt(C.clist([C.cz(x) for x in r[2]])) if r[1] else "None")
    if k == "len":
        if r[1] < 0:
            return "RPop (Some (-999999))"      # a negative length can never equal a model result
        return "RLen %s" % C.cnat(r[1])
    if k == "panic":
        return "RPop (Some (-999998))"
    raise ValueError(r)


# ---------------------------------------------------------------- translation tie (DESIGN.md 0.8)
# tools/ringtrans regenerates a GoMini model of ringbuffer.go from the current source; coq/RingSrcProofs.v proves that
# model equivalent to Ring.v.  Both are compiled in a work directory of their own, outside the main build, so that a
# source the translator refuses or a proof that no longer compiles degrades this tie to "unavailable" and disturbs
# nothing else.  The result is information in the evidence; it never produces a violation.
TIE_THEOREMS = ["push_ok", "pop_ok", "popN_ok", "step_ok", "C14_src_refines_fifo"]
TIE_DEPS = ["GoMini.v", "GoMiniFacts.v", "RingSrcRun.v", "Ring.v", "RingProofs.v", "RingExec.v", "PropsRing.v"]
TIE_MODEL_CHECK_CASES = 1500


def _coqc_src(d, f, timeout):
    return C.sh(["coqc", "-Q", C.COQ, "HV", "-Q", d, "HVSrc", f], cwd=d, timeout=timeout)


def _coq_error(out, text):
    """'<lemma> (line n): <first words of the error>' from coqc's output on RingSrcProofs.v"""
    m = None
    for m in re.finditer(r'File "[^"]*", line (\d+), characters [^\n]*\n(.*)', out, flags=re.S):
        pass
    if not m:
        return re.sub(r"\s+", " ", out[-500:])
    line = int(m.group(1))
    names = [(x.start(), x.group(2)) for x in C.STMT.finditer(text)]
    pos = sum(len(l) + 1 for l in text.split("\n")[:line - 1])
    inside = [n for (p, n) in names if p <= pos]
    return "in %s (RingSrcProofs.v line %d): %s" % (inside[-1] if inside else "?", line, re.sub(r"\s+", " ", m.group(2))[:400])


def _unavailable(reason, message, **more):
    return {"status": "unavailable", "detail": dict(reason=reason, message=message, **more)}


def _model_check(d, terms):
    """the generated model, run by vm_compute on the cases of the correspondence run: where does IT differ from the
    FIFO specification / from the implementation?  (only when the proof is broken; a sampling aid, not a proof)"""
    terms = terms[:TIE_MODEL_CHECK_CASES]
    shards = [terms[i:i + 250] for i in range(0, len(terms), 250)]
    files = []
    for k, sh_cases in enumerate(shards):
        f = os.path.join(d, "SrcCases_%d.v" % k)
        with open(f, "w") as o:
            o.write("From stdpp Require Import list.\nFrom Coq Require Import ZArith.\n"
                    "From HV Require Import GoMini RingExec RingSrcRun.\nFrom HVSrc Require Import RingSrc.\nOpen Scope Z_scope.\n"
                    "Definition methods := {| rm_new := new_src; rm_push := push_src; rm_pop := pop_src; rm_popN := popN_src; rm_len := len_src |}.\n"
                    "Definition cases : list case := [\n" + ";\n".join(sh_cases) + "\n].\n"
                    "Definition M := Eval vm_compute in src_report methods cases.\n"
                    'Goal True. idtac "@@BEGIN". Abort.\nPrint M.\nGoal True. idtac "@@END". Abort.\n')
        files.append(f)

    def one(f):
        rc, out = _coqc_src(d, f, 900)
        m = re.search(r"@@BEGIN\s*M =(.*?)\n\s*: [^\n]*(?:\n[^@]*)?@@END", out, flags=re.S)
        if rc != 0 or not m:
            raise RuntimeError(out[-800:])
        return C.coq_term_to_py(m.group(1))

    with ThreadPoolExecutor(max_workers=C.NCPU) as ex:
        reps = list(ex.map(one, files))
    spec, obs, unfinished = [], [], []
    for k, (sp, ob, st) in enumerate(reps):
        spec += [k * 250 + i for i in sp]
        obs += [k * 250 + i for i in ob]
        unfinished += [(k * 250 + i, c) for (i, c) in st]
    return len(terms), spec, obs, unfinished


def translation_tie(part, inputs, obs, tier):
    """{"status": "proved" | "unavailable", "detail": ...}; never raises"""
    t0 = time.time()
    work = None
    try:
        work = C.Work("C14tie")
        d = work.path("ringsrc")
        os.makedirs(d)
        # 1. translate the current source (the translator binary is kept, keyed by its own source)
        tdir = os.path.join(C.VERIF, "tools", "ringtrans")
        tkey = hashlib.sha256(open(os.path.join(tdir, "main.go"), "rb").read()).hexdigest()[:16]
        trans = os.path.join(C.WORKROOT, "ringsrc-cache", "ringtrans-" + tkey)
        if not os.path.exists(trans):
            os.makedirs(os.path.dirname(trans), exist_ok=True)
            rc, out = C.sh(["go", "build", "-o", work.path("ringtrans"), "."], cwd=tdir, env=dict(C.GOENV), timeout=300)
            if rc != 0:
                return _unavailable("translator-not-built", out[-600:])
            os.replace(work.path("ringtrans"), trans)
        gen = os.path.join(d, "RingSrc.v")
        rc, out = C.sh([trans, "-repo", C.REPO, "-o", gen], timeout=60)
        if rc == 3:
            return _unavailable("source-outside-the-translated-fragment", out.strip()[-500:])
        if rc != 0:
            return _unavailable("translator-failed", "rc=%d %s" % (rc, out.strip()[-500:]))
        src = open(gen).read()
        proofs_path = os.path.join(C.COQ, "RingSrcProofs.v")
        proofs = open(proofs_path).read()
        sha = hashlib.sha256(open(os.path.join(C.REPO, "ringbuffer", "ringbuffer.go"), "rb").read()).hexdigest()[:16]
        # 2. the static part of the development must be there, and nothing may be assumed
        missing = [v for v in TIE_DEPS if not C.vo_ok(v)]
        if missing:
            return _unavailable("coq-dependencies-not-built", "no up-to-date .vo for " + ", ".join(missing))
        bad = [m.group(0) for t in (src, proofs) for m in C.FORBIDDEN.finditer(re.sub(r"\(\*.*?\*\)", "", t, flags=re.S))]
        if bad:
            return _unavailable("forbidden-construct", ", ".join(bad))
        base = dict(source_sha256_16=sha, generated="RingSrc.v (%d bytes): new_src push_src pop_src popN_src len_src" % len(src),
                    checker_cmd="tools/ringtrans -repo $VERIF_REPO; coqc -Q coq HV -Q <work> HVSrc RingSrc.v RingSrcProofs.v (outside the main build)")
        h = hashlib.sha256()
        for t in [src, proofs] + [open(os.path.join(C.COQ, v)).read() for v in TIE_DEPS]:
            h.update(t.encode() + b"\0")
        cache = os.path.join(C.WORKROOT, "ringsrc-cache", h.hexdigest()[:24] + ".json")
        if tier == "quick" and os.path.exists(cache) and not os.environ.get("VERIF_NO_TIE_CACHE"):
            # same generated terms, same proofs, same model files as in an earlier successful check
            try:
                res = json.load(open(cache))
                res["detail"].update(cached=True, wall_s=round(time.time() - t0, 1))
                return res
            except Exception:
                pass
        # 3. compile the generated terms, then the equivalence proofs against them
        rc, out = _coqc_src(d, gen, 300)
        if rc != 0:
            return _unavailable("generated-terms-do-not-compile", out[-600:], **base)
        shutil.copy(proofs_path, os.path.join(d, "RingSrcProofs.v"))
        rc, out = _coqc_src(d, os.path.join(d, "RingSrcProofs.v"), 900)
        if rc == 124:       # killed by the timeout (machine load): once more
            rc, out = _coqc_src(d, os.path.join(d, "RingSrcProofs.v"), 1800)
        if rc == 0:
            pa = {m.group(1): m.group(2).strip() for m in re.finditer(r"@@BEGIN (\S+)\n(.*?)@@END", out, flags=re.S)}
            open_ = {t: pa.get(t, "MISSING") for t in TIE_THEOREMS if not pa.get(t, "").startswith("Closed under the global context")}
            if open_:
                return _unavailable("theorems-not-closed", json.dumps(open_)[:600], **base)
            res = {"status": "proved", "detail": dict(base, theorems={t: pa[t] for t in TIE_THEOREMS}, cached=False,
                                                      wall_s=round(time.time() - t0, 1))}
            try:
                os.makedirs(os.path.dirname(cache), exist_ok=True)
                json.dump(res, open(cache + ".tmp%d" % os.getpid(), "w"))
                os.replace(cache + ".tmp%d" % os.getpid(), cache)
            except Exception:
                pass
            return res
        if rc == 124:
            return _unavailable("timeout", "coqc RingSrcProofs.v did not finish", **base)
        # 4. translated, but the equivalence proof does not go through for these terms: the proof has to be ported
        #    (or the change is not behaviour-preserving).  Say what the generated model does on the cases just run.
        res = _unavailable("equivalence-proof-does-not-compile", _coq_error(out, proofs), **base)
        try:
            terms = [part.to_coq(i["input"], o) for i, o in zip(inputs, obs)]
            n, spec, ob, unfinished = _model_check(d, terms)
            mc = dict(cases=n, generated_model_differs_from_fifo_spec=len(spec), generated_model_differs_from_implementation=len(ob),
                      runs_not_finished=len(unfinished))
            if spec:
                i = spec[0]
                how = {0: "finishes, with other results than the FIFO", 1: "panics", 2: "gets stuck (leaves GoMini)"}[dict(unfinished).get(i, 0)]
                mc["first_counterexample_to_the_spec"] = dict(input=part.describe(inputs[i]["input"]),
                                                              implementation_returned=obs[i], generated_model=how)
            res["detail"]["model_check"] = mc
        except Exception as e:
            res["detail"]["model_check"] = {"error": str(e)[-400:]}
        return res
    except Exception as e:
        return _unavailable("internal-error", repr(e)[-400:])
    finally:
        if work is not None:
            work.close()


def tie_note(res):
    """one stdout line when the tie is not 'proved' (information, not a verdict)"""
    if res["status"] == "proved":
        return None
    d = res["detail"]
    mc = d.get("model_check") or {}
    extra = ""
    if "cases" in mc:
        extra = " generated-model-vs-fifo-spec: %d of %d cases differ" % (mc["generated_model_differs_from_fifo_spec"], mc["cases"])
    return "NOTE property=C14 translation_tie=unavailable reason=%s%s detail=%s" % (
        d.get("reason"), extra, re.sub(r"\s+", " ", str(d.get("message")))[:300])


class Seq(Part):
    name = "sequential"
    family = "ring"
    exec_module = "RingExec"
    branch_names = {1: "grow_head0", 2: "grow_wrapped", 3: "popN_across_wrap", 4: "popN_clamped",
                    5: "pop_empty", 6: "pop_across_wrap"}

    def extra_coverage(self, inputs, obs):
        res = translation_tie(self, inputs, obs, getattr(self, "_tier", "quick"))
        note = tie_note(res)
        if note:
            print(note, flush=True)
        C.log("translation tie: %s" % json.dumps(res)[:800])
        return {"translation_tie": res}

    def generate(self, rng, tier):
        self._tier = tier
        cases = []
        # exhaustive family
        alpha = [["push", None], ["pop"], ["popn", 0], ["popn", 1], ["popn", 2], ["popn", 3], ["popn", 5], ["len"]]
        maxlen = 4 if tier == "quick" else 5
        for size in (1, 2, 3, 4):
            for n in range(1, maxlen + 1):
                for combo in itertools.product(range(len(alpha)), repeat=n):
                    # prune: at least one push, starts with push (others are trivial prefixes)
                    if combo[0] != 0:
                        continue
                    ops, k = [], 0
                    for c in combo:
                        if c == 0:
                            k += 1
                            ops.append(["push", k])
                        else:
                            ops.append(list(alpha[c]))
                    cases.append({"input": {"size": size, "ops": ops}, "class": "exhaustive"})
        # random fill/drain phases
        nrand = 600 if tier == "quick" else 12000
        for _ in range(nrand):
            size = rng.choice([1, 1, 2, 3, 4, 5, 7, 8, 16])
            ops, k = [], 0
            target = rng.randint(5, 120 if tier == "quick" else 400)
            while len(ops) < target:
                phase = rng.random()
                if phase < 0.45:      # fill
                    for _ in range(rng.randint(1, 2 * size + 3)):
                        k += 1
                        ops.append(["push", k * rng.choice([1, 1, -1])])
                elif phase < 0.85:    # drain partly
                    for _ in range(rng.randint(1, size + 2)):
                        r = rng.random()
                        if r < 0.5:
                            ops.append(["pop"])
                        else:
                            ops.append(["popn", rng.choice([0, 1, 2, 3, size, size + 1, 7, 4096])])
                else:
                    ops.append(["len"])
            cases.append({"input": {"size": size, "ops": ops}, "class": "random_fill_drain"})
        return cases

    def to_coq(self, inp, obs):
        return "{| c_size := %s; c_ops := %s; c_obs := %s |}" % (
            C.cnat(inp["size"]), C.clist([op_coq(o) for o in inp["ops"]]),
            C.clist([res_coq(r) for r in obs]))

    def shrink(self, inp):
        out = []
        ops = inp["ops"]
        n = len(ops)
        for chunk in (n // 2, n // 4, 1):
            if chunk < 1:
                continue
            for i in range(0, n, chunk):
                out.append({"size": inp["size"], "ops": ops[:i] + ops[i + chunk:]})
        if inp["size"] > 1:
            out.append({"size": inp["size"] - 1, "ops": ops})
        return [o for o in out if o["ops"]]

    def describe(self, inp):
        d = dict(inp)
        if len(d["ops"]) > 40:
            d = {"size": d["size"], "ops_prefix": d["ops"][:40], "n_ops": len(d["ops"])}
        return d


PARTS = [Seq(), c14_conc.Conc()]
build = c14_conc.build
COQ_FILES = COQ_FILES + c14_conc.COQ_FILES
THEOREMS = THEOREMS + c14_conc.THEOREMS
TRUSTED_BASE = TRUSTED_BASE + c14_conc.TRUSTED_BASE
ASSUMPTIONS = ASSUMPTIONS + c14_conc.ASSUMPTIONS
RULE = RULE + "; " + c14_conc.RULE_CONC
