"""C18 — Cluster membership view follows the provider's snapshots exactly."""
import itertools
from ..driver import Part
from .. import common as C
from .cluster_common import member_coq, nats, mem

COQ_FILES = ["Agent.v", "AgentProofs.v", "AgentExec.v", "PropsCluster.v"]
THEOREMS = ["C18_view_follows_snapshots", "C18_members_and_events_follow_any_snapshot",
            "C18_has_kind_iff_snapshot_lists", "C18_self_membership_needed",
            "C18_staying_member_keeps_old_kinds", "C18_iteration_order_irrelevant",
            "C18_oracle_holds_of_model"]
RULE = ("histories of membership snapshots sent to the agent of a real cluster.Cluster (do-nothing provider, "
        "in-memory Remoter): exhaustive over a reduced universe (self + 2 members, 2 kinds, an alphabet of 6 (thorough: 8) "
        "snapshots incl. a duplicated entry, a same-id-other-kinds entry and the self-only snapshot; all "
        "histories up to length 3, 4 in the thorough tier), then random histories (<= 6 snapshots) over 5 members "
        "x 3 kinds built from grow / shrink / repeat / resample moves with duplicate entries, same id with other "
        "kinds or another host, shuffled order, and a small class of snapshots without the observing node; after "
        "each snapshot the harness reads Members(), HasKind(k) for the 3 kinds and the MemberJoin/MemberLeave "
        "events seen by a subscriber (flushed by a sentinel event). A case is non-trivial when the model replay "
        "reaches a proof-relevant branch (join, leave, both at once, duplicate id, staying member with a "
        "different entry, kind dropped by rebuildKinds, no-change snapshot, snapshot without self, empty "
        "snapshot); distinct = distinct (self, own kinds, history)")
TRUSTED_BASE = [
    "Coq 8.16.1 kernel; vm_compute (used to evaluate model and specification on the cases); no native_compute",
    "axioms: none (Print Assumptions below); std++ gmap/gset",
    "correspondence harness: /verif/harness cmd/hv family 'agent18' (cluster.Cluster from the tree under test, "
    "snapshots delivered as *cluster.Members to the agent PID, observation through Members()/HasKind()/event stream), "
    "vlib/props/c18.py (generators, printing of cases as Coq terms)",
    "modelled not verified: the agent actor handles one message at a time (C02); Go map iteration order is replaced by "
    "std++'s canonical order (C18_iteration_order_irrelevant: state and event multiset do not depend on it); "
    "strings are interned to nat injectively; activation bookkeeping of memberJoin/memberLeave is C19's",
]
ASSUMPTIONS = [
    "the theorems are about Agent.v, a hand transcription of handleMembers/Except/memberJoin/memberLeave/rebuildKinds; "
    "the tie is differential execution on generated histories",
    "clause (c) (HasKind) needs every snapshot to contain the observing node with at least its own kinds "
    "(C18_self_membership_needed shows the failure otherwise); 'some member of the view advertises k' refers to the "
    "Member values the view holds: a member that stays keeps the value it joined with even if a later snapshot "
    "lists other kinds for the same id (C18_staying_member_keeps_old_kinds); read against the snapshot itself the "
    "clause holds when kinds are stable per id (C18_has_kind_iff_snapshot_lists)",
]

NK = 3


def obs_coq(o):
    if o.get("err") or "ids" not in o or o.get("ids") is None:
        return "{| o_ids := [4999%nat]; o_joins := []; o_leaves := []; o_kinds := [] |}"
    return "{| o_ids := %s; o_joins := %s; o_leaves := %s; o_kinds := %s |}" % (
        nats(o["ids"]), nats(o["joins"]), nats(o["leaves"]), C.clist([C.cbool(b) for b in o["kinds"]]))


class Agent(Part):
    name = "agent"
    family = "agent18"
    exec_module = "AgentExec"
    shard = 120
    branch_names = {1: "join", 2: "leave", 3: "join_and_leave_in_one_snapshot", 4: "duplicate_id_in_snapshot",
                    5: "staying_member_entry_differs", 6: "kind_dropped_by_rebuild", 7: "snapshot_changes_nothing",
                    8: "snapshot_without_self", 9: "empty_snapshot"}

    def generate(self, rng, tier):
        cases = []
        # ---- exhaustive over a reduced universe: self 0 (kind 0), members 1 and 2
        own = [0]
        s = mem(0, own)
        m1, m1b, m2 = mem(1, [1]), mem(1, [0]), mem(2, [0, 1])
        alpha = [[s], [s, m1], [m2, s], [s, m1, m2], [s, m1b], [m1, m1b, s, m2]]
        if tier != "quick":
            alpha += [[m1, s, m1], [s, m1b, m1]]
        maxlen = 3 if tier == "quick" else 4
        for n in range(1, maxlen + 1):
            for combo in itertools.product(range(len(alpha)), repeat=n):
                cases.append({"input": {"self": 0, "own": own, "hist": [alpha[c] for c in combo]},
                              "class": "exhaustive"})
        # ---- random over 5 members x 3 kinds
        nrand = 250 if tier == "quick" else 8000
        for r in range(nrand):
            self_id = rng.choice([0, 0, 0, 3])
            own = sorted(rng.sample(range(NK), rng.randint(0, NK)))
            base = {i: sorted(rng.sample(range(NK), rng.randint(0, NK))) for i in range(5)}
            base[self_id] = own
            no_self_case = (r % 25 == 24)
            hist, cur = [], set()
            for _ in range(rng.randint(1, 6)):
                others = [i for i in range(5) if i != self_id]
                move = rng.random()
                if move < 0.35:      # grow
                    cur = cur | set(rng.sample(others, rng.randint(1, 2)))
                elif move < 0.6:     # shrink
                    for x in rng.sample(sorted(cur), min(len(cur), rng.randint(1, 2))):
                        cur.discard(x)
                elif move < 0.75:    # repeat
                    pass
                else:                # resample
                    cur = set(rng.sample(others, rng.randint(0, 4)))
                snap = []
                for i in sorted(cur):
                    kinds = base[i]
                    if rng.random() < 0.15:      # same id, other kinds (and maybe another host)
                        kinds = sorted(rng.sample(range(NK), rng.randint(0, NK)))
                    r = rng.random()
                    # mostly the member's own address; sometimes another one; sometimes an address shared with other ids
                    host = i if r < 0.7 else (i + 10 if r < 0.8 else 20 + i % 2)
                    snap.append(mem(i, kinds, host))
                    if rng.random() < 0.2:       # duplicate entry: identical, or with other kinds
                        dk = kinds if rng.random() < 0.5 else sorted(rng.sample(range(NK), rng.randint(0, NK)))
                        snap.append(mem(i, dk, host))
                include_self = not (no_self_case and rng.random() < 0.5)
                if include_self:
                    extra = [k for k in range(NK) if k not in own and rng.random() < 0.1]
                    snap.append(mem(self_id, sorted(own + extra)))
                    if rng.random() < 0.15:
                        snap.append(mem(self_id, own))
                rng.shuffle(snap)
                hist.append(snap)
            cases.append({"input": {"self": self_id, "own": own, "hist": hist},
                          "class": "random_no_self" if no_self_case else "random"})
        return cases

    def to_coq(self, inp, obs):
        return "{| c_self := %s; c_own := %s; c_hist := %s; c_obs := %s |}" % (
            C.cnat(inp["self"]), nats(inp["own"]),
            C.clist([C.clist([member_coq(m) for m in snap]) for snap in inp["hist"]]),
            C.clist([obs_coq(o) for o in obs]))

    def shrink(self, inp):
        out = []
        hist = inp["hist"]
        for i in range(len(hist)):
            if len(hist) > 1:
                out.append(dict(inp, hist=hist[:i] + hist[i + 1:]))
        for i, snap in enumerate(hist):
            for j in range(len(snap)):
                out.append(dict(inp, hist=hist[:i] + [snap[:j] + snap[j + 1:]] + hist[i + 1:]))
        for i, snap in enumerate(hist):
            for j, m in enumerate(snap):
                if m["kinds"]:
                    m2 = dict(m, kinds=m["kinds"][1:])
                    out.append(dict(inp, hist=hist[:i] + [snap[:j] + [m2] + snap[j + 1:]] + hist[i + 1:]))
        if inp["own"]:
            out.append(dict(inp, own=inp["own"][1:]))
        return out


PARTS = [Agent()]
