"""C15 — batched wire encoding round-trips every message to its own target and sender."""
import itertools
from ..driver import Part
from .. import common as C

COQ_FILES = ["Wire.v", "WireExec.v", "WireProofs.v", "PropsWire.v"]
THEOREMS = ["C15_roundtrip", "C15_same_count_order_target_sender_payload", "C15_unserialisable_dropped_alone"]
RULE = ("batches of outbound messages over pools: 3 targets; senders {none, x/s1, x/s2, ab/c, a/bc} (the last two "
        "differ only in how address and id split); message kinds {actor.PID, remote.TestMessage, an actor.PID that "
        "proto.Marshal rejects (invalid UTF-8), a non-protobuf Go value}; every message carries its own integer. "
        "Exhaustive: all batches of length 1 (3x5x4), all of length 2 over 2 targets, length 3 over all sender "
        "triples x 3 target patterns x 6 kind patterns (quick) / x all kind triples, plus length 4 over 4 senders x 3 kinds "
        "(thorough); then random "
        "batches up to length 64, a fifth of them against an engine with no target registered (dead-letter path). "
        "Each batch goes through the real streamWriter.Invoke, the generated dRPC encoding, and the real "
        "streamReader.Receive on a real engine. A case is non-trivial when the model replay reaches a "
        "proof-relevant situation (no-sender after a real sender, split-ambiguous pair, dropped message, table hit, "
        "two type names, ...); distinct = distinct (batch, registered)")
TRUSTED_BASE = [
    "Coq 8.16.1 kernel; vm_compute (used to evaluate the model on the cases); no native_compute",
    "axioms: none (Print Assumptions below)",
    "correspondence harness: /verif/harness cmd/hv family 'wire15', hook file tools/hooks/remote/hooks.go (fake dRPC "
    "stream using the generated Envelope encoding, recover around Invoke/Receive), vlib/props/c15.py (generators, "
    "printing of cases as Coq terms)",
    "modelled not verified: xxh3 collision-free (pinned model only); Go maps as association lists; vtproto encoding of "
    "an Envelope without nil elements is a bijection; payload (de)serialisation is an oracle triple "
    "(tyname_of, ser, deser) with deser t (ser v) = v; int32 does not overflow (batch <= 1024)",
]
ASSUMPTIONS = [
    "the theorems are about Wire.v, a hand transcription of streamWriter.Invoke / streamReader.Receive after "
    "fixes/D8.diff and fixes/D9.diff; the tie is differential execution on generated batches",
    "C15_roundtrip assumes the codec law: a message serialised under its type name decodes under that name to itself",
    "delivery is observed at Processer.Send of recording Processers registered under the target ids (synchronous) "
    "and as DeadLetterEvents when no target is registered",
]

TARGETS = [["r", "t1"], ["r", "t2"], ["q", "t3"]]
SENDERS = [None, ["x", "s1"], ["x", "s2"], ["ab", "c"], ["a", "bc"]]
# the same ids behind other addresses (random and dedicated families only)
SENDERS_EXT = SENDERS + [["y", "s1"], ["y", "s2"], ["x", "t1"]]
TARGETS_EXT = TARGETS + [["q", "t1"], ["r", "t3"]]
KINDS = ["pid", "test", "badutf8", "nonproto"]
TYPE_IDS = {"actor.PID": 0, "remote.TestMessage": 1, "verif.Unknown": 2, "": 3}
OUTCOMES = {"ok": "Ok", "error": "Err", "panic": "Panic"}


def cstr(s):
    return "(zs %s)" % C.clist([str(ord(ch)) for ch in s])


def cpid(p):
    if p is None:
        return "(zs [0], zs [0])"       # a nil PID where the model has a PID: equals nothing generated
    return "(%s, %s)" % (cstr(p[0]), cstr(p[1]))


def copid(p):
    return "None" if p is None else "(Some %s)" % cpid(p)


def ctype(name):
    return C.cnat(TYPE_IDS.get(name, 99))


def cvalue(kind, n):
    if kind == "pid":
        return "(XMsg %s %s true)" % (C.cnat(0), C.cz(n))
    if kind in ("test", "big"):
        return "(XMsg %s %s true)" % (C.cnat(1), C.cz(n))
    if kind == "badutf8":
        return "(XMsg %s %s false)" % (C.cnat(0), C.cz(n))
    if kind == "nonproto":
        return "XOther"
    raise ValueError(kind)


def cobs(obs):
    ds = ["{| d_target := %s; d_sender := %s; d_ty := %s; d_msg := XMsg %s %s true |}" % (
        cpid(d["target"]), copid(d["sender"]), ctype(d["type"]), ctype(d["type"]), C.cz(d["payload"]))
        for d in obs["deliveries"]]
    return "{| delivered := %s; out := %s |}" % (C.clist(ds), OUTCOMES[obs["outcome"]])


def msg(t, s, k, n):
    return {"target": t, "sender": s, "kind": k, "n": n}


class Batches(Part):
    name = "roundtrip"
    family = "wire15"
    exec_module = "WireExec"
    shard = 1000
    branch_names = {1: "nil_sender_with_nonempty_table", 2: "split_ambiguous_pair", 3: "marshal_error_dropped",
                    4: "non_proto_dropped", 5: "table_hit", 6: "two_type_names", 7: "all_dropped",
                    8: "nil_sender_with_empty_table"}

    def generate(self, rng, tier):
        cases = []

        def add(batch, cls, registered=True):
            b = [msg(m[0], m[1], m[2], i + 1) for i, m in enumerate(batch)]
            inp = {"batch": b}
            if not registered:
                inp["registered"] = False
            cases.append({"input": inp, "class": cls})

        alpha3 = list(itertools.product(TARGETS, SENDERS, KINDS))
        alpha2 = list(itertools.product(TARGETS[:2], SENDERS, KINDS))
        for a in alpha3:
            add([a], "exhaustive_len1")
        for a, b in itertools.product(alpha2, repeat=2):
            add([a, b], "exhaustive_len2")
        if tier == "quick":
            tpat = [(0, 0, 0), (0, 1, 0), (0, 1, 2)]
            kpat = [("pid", "pid", "pid"), ("pid", "test", "pid"), ("pid", "badutf8", "pid"),
                    ("nonproto", "pid", "test"), ("badutf8", "pid", "pid"), ("pid", "pid", "nonproto")]
            for tp in tpat:
                for ss in itertools.product(SENDERS, repeat=3):
                    for kp in kpat:
                        add([(TARGETS[tp[i]], ss[i], kp[i]) for i in range(3)], "exhaustive_len3_patterns")
        else:
            for tp in [(0, 0, 0), (0, 1, 0), (0, 1, 2)]:
                for ss in itertools.product(SENDERS, repeat=3):
                    for kp in itertools.product(KINDS, repeat=3):
                        add([(TARGETS[tp[i]], ss[i], kp[i]) for i in range(3)], "exhaustive_len3")
            for ss in itertools.product([None, ["x", "s1"], ["ab", "c"], ["a", "bc"]], repeat=4):
                for kp in itertools.product(["pid", "test", "badutf8"], repeat=4):
                    add([(TARGETS[i % 2], ss[i], kp[i]) for i in range(4)], "exhaustive_len4_patterns")
        # equal ids behind different addresses, for senders and for targets
        same_id = list(itertools.product([["r", "t1"], ["q", "t1"]], [None, ["x", "s1"], ["y", "s1"]], ["pid", "test"]))
        for a, b in itertools.product(same_id, repeat=2):
            add([a, b], "same_id_other_address")
        for _ in range(60 if tier == "quick" else 600):
            add([rng.choice(same_id) for _ in range(rng.randint(3, 6))], "same_id_other_address")
        # a writer configured for a small reader buffer, payloads of 900 bytes
        for _ in range(40 if tier == "quick" else 400):
            n = rng.randint(3, 12)
            batch = [(rng.choice(TARGETS_EXT), rng.choice(SENDERS_EXT), rng.choice(["big", "big", "pid", "test"])) for _ in range(n)]
            add(batch, "small_reader_buffer")
            cases[-1]["input"]["buff_size"] = rng.choice([2048, 4096, 8192])
        nrand = 400 if tier == "quick" else 6000
        for _ in range(nrand):
            n = rng.choice([1, 2, 3, 5, 8, 13, 21, 40, 64])
            wk = rng.choice([[6, 4, 1, 1], [5, 5, 0, 0], [3, 3, 3, 3], [1, 1, 6, 6]])
            batch = [(rng.choice(TARGETS_EXT), rng.choice(SENDERS_EXT), rng.choices(KINDS, weights=wk)[0]) for _ in range(n)]
            add(batch, "random", registered=rng.random() >= 0.2)
        return cases

    def to_coq(self, inp, obs):
        b = ["{| s_target := %s; s_sender := %s; s_msg := %s |}" % (
            cpid(m["target"]), copid(m["sender"]), cvalue(m["kind"], m["n"])) for m in inp["batch"]]
        return "Case15 %s %s" % (C.clist(b), cobs(obs))

    def shrink(self, inp):
        out = []
        b = inp["batch"]
        n = len(b)
        extra = {k: v for k, v in inp.items() if k != "batch"}
        for chunk in (n // 2, n // 4, 1):
            if chunk < 1:
                continue
            for i in range(0, n, chunk):
                out.append(dict(extra, batch=b[:i] + b[i + chunk:]))
        if inp.get("registered") is False:
            out.append({"batch": b})
        return [o for o in out if o["batch"]]

    def describe(self, inp):
        if len(inp["batch"]) > 12:
            return {"batch_prefix": inp["batch"][:12], "n_messages": len(inp["batch"]),
                    "registered": inp.get("registered", True)}
        return inp


PARTS = [Batches()]


def search(rng, binaries, work):
    """failing-input search used when a proof or the correspondence broke
    without an oracle failure: the thorough generators against the oracle"""
    from .. import driver
    for part in PARTS:
        b = binaries.get(part.binary, (None, ""))[0]
        if b is None:
            continue
        inputs = part.generate(rng, "thorough")
        ev = driver.eval_part(part, b, inputs, work, "search")
        if ev["oracle"]:
            small = driver.shrink_failure(part, b, inputs[ev["oracle"][0]]["input"], work, "oracle")
            ev1 = driver.eval_part(part, b, [{"input": small}], work, "srep")
            return dict(part=part.name, input=small, observation=ev1["obs"][0],
                        what="the property's predicate is false on what the implementation did")
    return None
