"""C20 — Self-managed provider keeps a correct member list through joins and failures."""
import itertools
from ..driver import Part
from .. import common as C
from .cluster_common import member_coq, nats, mem, agent_obs_coq

COQ_FILES = ["Agent.v", "AgentProofs.v", "Provider.v", "ProviderProofs.v", "ProviderExec.v", "PropsCluster.v",
             "ClusterCompose.v", "ClusterComposeProofs.v", "ClusterComposeExec.v", "PropsClusterCompose.v"]
THEOREMS = ["C20_handshake", "C20_members", "C20_leave_removes_exactly_that_member",
            "C20_leave_shared_address_removes_one", "C20_leave_unknown_is_noop", "C20_no_panic",
            "C20_leave_unknown_pinned_refuted", "C20_self_stays_member", "C20_member_list_is_spec",
            "C20_leave_any_choice", "C20_leave_choice_realised", "C20_repeated_reports",
            "C20_oracle_holds_of_model", "C20_driven_model_reproduces_itself",
            "C18_C20_members_follow_the_provider", "C18_C20_view_is_provider_list", "C18_C20_events_follow_provider",
            "C18_C20_snapshots_contain_self", "C18_C20_every_snapshot_step_ok", "C18_C20_has_kind_follows_provider",
            "C18_C20_oracle_holds_of_model"]
RULE = ("histories of provider messages fed to the real SelfManaged receiver (mDNS switched off by the hook, a "
        "recording actor in the agent's place, an in-memory Remoter as the network): handshake from a peer, "
        "member list, RemoteUnreachableEvent broadcast on the engine (turned into memberLeave by the provider's own "
        "event child); exhaustive over a reduced universe (2 peers; alphabet: 2 handshakes, a handshake under a "
        "second address, a list (thorough: also the empty list), reports for both peers' addresses and for an address nobody has; "
        "all histories up to length 3, 4 in the thorough tier), then random histories (<= 8 messages) over 4 peers "
        "with duplicate list entries, known ids under another address, reports for members, departed members, "
        "never-seen addresses, repeats and the node's own address; then the shared-address classes: two or three ids "
        "behind ONE address with repeated reports for it — directed (m ids, k reports, m in 2..3, k in 1..m+1, ids "
        "introduced by list or handshakes), exhaustive over an alphabet of 5 (list of two ids at address 7, handshake "
        "of a third id at 7, report for 7, handshake of an ordinary peer, report for that peer) up to length 3 "
        "(thorough: 5), and random histories mixing them with re-joins of removed ids. Which of the ids behind an "
        "address goes first depends on Go's map iteration order: model and reference take the id that the observed "
        "member list shows disappearing as GetByHost's choice (it has to be at the reported address), so the "
        "comparison is exact and order-independent. Observation at start-up and after each message: "
        "the member lists the agent stub received, the list sent back to the handshaking peer, the provider's "
        "member list (hook), panic / ActorRestartedEvent. A case is non-trivial when the model replay reaches a "
        "proof-relevant branch; distinct = distinct (self, history). Part 'node' (C18 o C20): the same kinds of "
        "histories (addresses not shared: exhaustive up to length 2, 3 in the thorough tier, plus random ones) fed to "
        "the real provider and the real agent of one cluster.Cluster together; after start-up and after each message "
        "the agent's Members(), HasKind(k) and the MemberJoin/MemberLeave events are compared with the composed model "
        "and with what the composed theorem predicts from the provider's list alone")
TRUSTED_BASE = [
    "Coq 8.16.1 kernel; vm_compute (used to evaluate model and reference on the cases); no native_compute",
    "axioms: none (Print Assumptions below); std++ gmap/gset",
    "correspondence harness: /verif/harness cmd/hv family 'provider20', hook tools/hooks/cluster/hooks.go (add-only, "
    "build tag verif, overlaid: wraps SelfManaged.Receive, handles Started/Stopped as SelfManaged does minus "
    "initAutoDiscovery/startAutoDiscovery/announcer.Shutdown, reports each handled message), vlib/props/c20.py",
    "modelled not verified: the provider actor handles one message at a time (C02); a panic of Receive restarts the "
    "actor with a fresh receiver (C05/C06); Go map iteration order: member lists are compared sorted, and the one "
    "place where it is observable (GetByHost among several members at one address) is a parameter of the step "
    "read off the observation (C20_leave_any_choice / C20_oracle_holds_of_model quantify over every choice); "
    "mDNS and the ping timer are left out; "
    "strings interned to nat injectively",
]
ASSUMPTIONS = [
    "the theorems are about Provider.v, a hand transcription of SelfManaged.Receive with the D10 repair "
    "(fixes/D10.diff); the tie is differential execution on generated histories",
    "C20_leave_removes_exactly_that_member assumes that no address is used by two different node ids (GetByHost "
    "picks by address); with a shared address each report removes exactly one of the members behind it, whichever "
    "GetByHost picks (C20_leave_any_choice), so k reports leave max(m-k,0) of m (C20_repeated_reports)",
    "a known id offered again under another address is ignored (first value kept); an unreachable report for the "
    "node's own address removes the node from its own list (own_address_removes_self) — C20_self_stays_member "
    "excludes such reports",
]


def msg_coq(h):
    if h[0] == "hs":
        return "Handshake %s %s" % (member_coq(h[1]), C.cnat(h[2]))
    if h[0] == "ms":
        return "MembersMsg %s" % C.clist([member_coq(m) for m in h[1]])
    return "LeaveAddr %s" % C.cnat(h[1])


def pobs_coq(o):
    bad = bool(o.get("err")) or o.get("panicked") or o.get("restarted")
    return "{| p_agent := %s; p_reply := %s; p_list := %s; p_panic := %s |}" % (
        C.clist([nats(l) for l in (o.get("agent") or [])]),
        "None" if o.get("reply") is None else "(Some %s)" % nats(o["reply"]),
        nats(o.get("list") or []), C.cbool(bad))


class Provider(Part):
    name = "provider"
    family = "provider20"
    exec_module = "ProviderExec"
    shard = 120
    branch_names = {1: "handshake_new_peer", 2: "handshake_known_peer", 3: "list_adds_member", 4: "list_adds_nothing",
                    5: "report_for_member", 6: "report_for_address_never_seen", 7: "report_for_departed_or_unlisted_node",
                    8: "known_id_under_other_address_ignored", 9: "report_for_own_address", 10: "empty_list",
                    11: "report_for_address_with_several_members", 12: "report_for_shared_address_down_to_last_member"}

    def generate(self, rng, tier):
        cases = []
        self_m = mem(0, [0])
        # ---- exhaustive, reduced universe
        p1, p2, p1b = mem(1, [1]), mem(2, []), mem(1, [1], host=11)
        alpha = [["hs", p1, 1], ["hs", p2, 2], ["hs", p1b, 11], ["ms", [p1, p2, p1]],
                 ["leave", 1], ["leave", 2], ["leave", 9]]
        if tier != "quick":
            alpha.append(["ms", []])
        maxlen = 3 if tier == "quick" else 4
        for n in range(1, maxlen + 1):
            for combo in itertools.product(range(len(alpha)), repeat=n):
                cases.append({"input": {"self": self_m, "hist": [alpha[c] for c in combo]}, "class": "exhaustive"})
        # ---- random
        nrand = 250 if tier == "quick" else 6000
        for _ in range(nrand):
            sk = sorted(rng.sample(range(3), rng.randint(0, 3)))
            self_r = mem(0, sk)

            def member(i):
                host = i if rng.random() < 0.85 else i + 10
                return mem(i, sorted(rng.sample(range(3), rng.randint(0, 2))), host)
            hist, seen_hosts = [], []
            for _ in range(rng.randint(1, 8)):
                r = rng.random()
                if r < 0.35:
                    m = member(rng.randint(0, 4))
                    # the sender is another node (a reply addressed to the node's own
                    # address would be delivered to the provider itself)
                    frm = m["host"] if (rng.random() < 0.9 and m["host"] != self_r["host"]) else rng.randint(1, 4)
                    hist.append(["hs", m, frm])
                    seen_hosts.append(m["host"])
                elif r < 0.55:
                    l = [member(rng.randint(0, 4)) for _ in range(rng.randint(0, 4))]
                    if l and rng.random() < 0.3:
                        l.append(dict(rng.choice(l)))
                    hist.append(["ms", l])
                    seen_hosts += [m["host"] for m in l]
                else:
                    q = rng.random()
                    if q < 0.55 and seen_hosts:
                        a = rng.choice(seen_hosts)          # a member, or one that already left (repeat)
                    elif q < 0.65:
                        a = 0                               # own address
                    elif q < 0.8:
                        a = rng.choice([1, 2, 3, 4, 11, 12, 13, 14])
                    else:
                        a = rng.choice([20, 21, 22])        # never seen
                    hist.append(["leave", a])
            cases.append({"input": {"self": self_r, "hist": hist}, "class": "random"})
        # ---- shared addresses: several ids behind one address, repeated reports for it
        SH = 7

        def q(i):
            return mem(i, [], host=SH)
        # directed: m ids (by list / by handshakes), k reports
        for m in (2, 3):
            ids = [1, 2, 3][:m]
            for k in range(1, m + 2):
                for intro in ("list", "handshakes"):
                    hist = ([["ms", [q(i) for i in ids]]] if intro == "list"
                            else [["hs", q(i), SH] for i in ids])
                    hist += [["leave", SH]] * k
                    cases.append({"input": {"self": self_m, "hist": hist}, "class": "shared_directed"})
                    # ... with an ordinary peer that must stay untouched, and a late re-join
                    hist2 = [["hs", p1, 1]] + hist + [["hs", q(ids[0]), SH], ["leave", SH]]
                    cases.append({"input": {"self": self_m, "hist": hist2}, "class": "shared_directed"})
        # exhaustive over a small alphabet
        alpha2 = [["ms", [q(1), q(2)]], ["hs", q(3), SH], ["leave", SH], ["hs", p1, 1], ["leave", 1]]
        maxlen2 = 3 if tier == "quick" else 5
        for n in range(2, maxlen2 + 1):
            for combo in itertools.product(range(len(alpha2)), repeat=n):
                if 2 not in combo or (0 not in combo and 1 not in combo):
                    continue        # needs a report for the shared address and somebody behind it
                cases.append({"input": {"self": self_m, "hist": [alpha2[c] for c in combo]},
                              "class": "shared_exhaustive"})
        # random: two shared addresses, re-joins, other traffic
        nshared = 120 if tier == "quick" else 3000
        for _ in range(nshared):
            addr = {1: 7, 2: 7, 3: 7, 4: 8, 5: 8, 6: 6}
            hist = []
            for _ in range(rng.randint(3, 8)):
                r = rng.random()
                if r < 0.3:
                    i = rng.randint(1, 6)
                    hist.append(["hs", mem(i, [], host=addr[i]), addr[i]])
                elif r < 0.5:
                    l = [mem(i, [], host=addr[i]) for i in rng.sample(range(1, 7), rng.randint(1, 4))]
                    hist.append(["ms", l])
                else:
                    hist.append(["leave", rng.choice([7, 7, 7, 8, 8, 6, 9])])
            cases.append({"input": {"self": self_m, "hist": hist}, "class": "shared_random"})
        return cases

    def to_coq(self, inp, obs):
        return "{| c_self := %s; c_hist := %s; c_obs := %s |}" % (
            member_coq(inp["self"]), C.clist([msg_coq(h) for h in inp["hist"]]),
            C.clist([pobs_coq(o) for o in obs]))

    def shrink(self, inp):
        out = []
        hist = inp["hist"]
        for i in range(len(hist)):
            if len(hist) > 1:
                out.append(dict(inp, hist=hist[:i] + hist[i + 1:]))
        for i, h in enumerate(hist):
            if h[0] == "ms":
                for j in range(len(h[1])):
                    out.append(dict(inp, hist=hist[:i] + [["ms", h[1][:j] + h[1][j + 1:]]] + hist[i + 1:]))
        if inp["self"]["kinds"]:
            out.append(dict(inp, self=dict(inp["self"], kinds=[])))
        return out


class Node(Part):
    """the real provider and the real agent of one node together (C18 o C20)"""
    name = "node"
    family = "node1820"
    exec_module = "ClusterComposeExec"
    shard = 120
    branch_names = {1: "message_sends_agent_nothing", 2: "snapshot_with_join", 3: "snapshot_with_leave",
                    4: "snapshot_changes_nothing", 5: "kind_disappears", 6: "kind_appears"}

    def generate(self, rng, tier):
        base = Provider().generate(rng, tier)
        maxlen = 2 if tier == "quick" else 3
        ex = [c for c in base if c["class"] == "exhaustive" and len(c["input"]["hist"]) <= maxlen]
        rnd = [c for c in base if c["class"] == "random"]
        if tier == "quick":
            rnd = rnd[:150]
        return ex + rnd

    def to_coq(self, inp, obs):
        return "{| c_self := %s; c_hist := %s; c_obs := %s |}" % (
            member_coq(inp["self"]), C.clist([msg_coq(h) for h in inp["hist"]]),
            C.clist([agent_obs_coq(o) for o in obs]))

    def shrink(self, inp):
        return Provider().shrink(inp)


PARTS = [Provider(), Node()]
