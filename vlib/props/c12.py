"""C12 — the event stream delivers each event once to each current subscriber, in order."""
from . import events_common as EC
from .events_common import TRUSTED_BASE
from . import c10 as R10
from . import proc_common as PC

COQ_FILES = EC.COQ_FILES + ["Registry.v", "RegistryProofs.v", "RespawnExec.v", "RespawnSound.v", "PropsRegistry.v"] + PC.COQ_FILES

THEOREMS = ["C12_once_between_sub_and_unsub", "C12_once_between_sub_and_unsub_alive",
            "C12_subscription_follows_the_actor", "C12_sub_idempotent", "C12_unsub_by_value", "C12_broadcast_order",
            "C12_pointer_keys_refuted", "C12_oracle_holds_of_model",
            # "duplicate id ... published for every such occurrence": one event per losing Spawn / SpawnChild
            "C10_duplicate_is_noop", "C10_duplicate_child_is_noop", "C10_respawn_oracle_holds_of_model",
            # "started, stopped, restarted, dead letter ... published for every such occurrence" (process layer)
            "C12_lifecycle_events_published", "C12_expected_events_of_table", "C12_oracle_sound"]
RULE = ("(seq) histories of Subscribe / Unsubscribe / BroadcastEvent / stop / respawn on a real engine over PID values of "
        "recording actors, each value available through 2 distinct *PID objects with equal address and id (object 0 = the "
        "PID Spawn returned); 'stop' poisons the actor and waits, 'respawn' spawns a new recording actor under the same "
        "id; with 'remote' the engine has an in-memory Remoter and the same ids are also used behind a foreign address "
        "(what the Remoter is given is logged per foreign PID; in the 'look' variants the foreign twin of (node0:1, a/k) is "
        "(node0:, 1a/k): different in both fields although address followed by id spells the same string); every step is made by the harness goroutine and followed "
        "by quiescence (event stream and all actors idle with empty inboxes). Exhaustive: all histories ending in an "
        "event of length <= 5 (thorough 7) over {sub,unsub} x {object 0, object 1} of one PID + event; length <= 3 "
        "(thorough 6) over a 7-letter alphabet with a second PID value; length <= 6 (thorough 8) over {sub, unsub through "
        "the other object, stop-or-respawn, event} of one actor (thorough: also two actors); length <= 4 (thorough 6) over "
        "{sub, unsub} x {(local, id), (foreign, id)} + event on an engine with a remote (thorough: also with a second id "
        "and stop/respawn); then random histories up to 25 steps over 3 PID values and their foreign twins x 2 objects "
        "with stops and respawns. Observation: per PID value the list of user event numbers received (engine events are "
        "not logged). (conc) 1-4 broadcaster goroutines each broadcasting its own "
        "increasing numbers to 0-3 subscribers, one of them subscribing a late actor and one unsubscribing a leaver "
        "(through fresh *PID objects) between two of its own broadcasts; oracle: every full subscriber has each source's "
        "events exactly once and in order and all subscribers saw one serialisation; the late actor has a suffix (and all "
        "events its own source broadcast after the Subscribe call), the leaver a prefix (and exactly the events its source "
        "broadcast before the Unsubscribe call); correspondence: the machine run on the serialisation subscriber 0 saw "
        "reproduces every log. A case is non-trivial when the model replay reaches a proof-relevant situation "
        "(second subscription through the same / another object, unsubscription through another object, stop of a "
        "subscribed actor, re-subscription of a respawned actor, local and foreign PID with one id, ...); "
        "distinct = distinct input")
ASSUMPTIONS = [
    "the theorems are about Events.v, a hand transcription of eventStream.Receive (after fixes/D5.diff and "
    "fixes/D6.diff), Engine.send/SendLocal/BroadcastEvent/Subscribe/Unsubscribe and Context.Forward; the tie is "
    "differential execution on generated histories",
    "C12_once_between_sub_and_unsub is stated for an actor that is alive (local and registered) whenever the event "
    "stream handles an event between the actor's Sub and its next Unsub; C12_subscription_follows_the_actor drops "
    "the premise: a subscriber that stopped is dropped by the first event that cannot be delivered (D6 repair; that "
    "forward surfaces as a dead letter, C09) and an actor spawned again under the id is a subscriber only after a new "
    "Subscribe; a PID on another node is handed to the remote while the engine has one",
    "in the seq model the dead letters that come back from forwards to stopped subscribers are left out of the "
    "history: they are handled right after the event that caused them, when every unreachable subscriber has "
    "already been dropped (C09_dead_letter_exact), reach live subscribers only and are not logged by this family",
    "'broadcast after Subscribe in happens-before order' is read through the inbox: Subscribe, Unsubscribe and "
    "BroadcastEvent are pushes on the event stream's inbox, which C01 shows to be FIFO per sender and C02 to be "
    "handled one at a time; the theorems quantify over the resulting serialisation",
    "the last sentence of C12 (lifecycle events are published for every occurrence) is covered by the process-layer "
    "checks C04-C07 (Proc.v emits EvInitialized/EvStarted/EvStopped/EvRestarted/dead letters and the harness "
    "compares them) and by C09 (dead letter); for the duplicate-id event it is checked here too, by a reduced run of C10's "
    "respawn family (part duplicate_id_events; theorems C10_duplicate_is_noop, C10_duplicate_child_is_noop)",
    "the event stream's own PID is never subscribed to the event stream (it would forward every event to itself)",
]

class DuplicateIdEvents(R10.Respawn):
    """the last sentence of C12 for the duplicate-id event: every losing Spawn and SpawnChild (and every loser of a
    race of real goroutines) publishes one ActorDuplicateIdEvent, observed at a subscribed monitor after every
    operation; a reduced run of C10's respawn family (scenario classes, all histories up to length 2, some random)"""
    name = "duplicate_id_events"

    def generate(self, rng, tier):
        cases = R10.Respawn.generate(self, rng, tier)
        keep, nrand = [], 0
        for c in cases:
            cls = c["class"].replace("_lookalike_ids", "")
            if cls == "scenario" or (cls == "exhaustive" and len(c["input"]["ops"]) <= (2 if tier == "quick" else 3)):
                keep.append(c)
            elif cls == "random" and nrand < (40 if tier == "quick" else 1000):
                nrand += 1
                keep.append(c)
        return keep


class LifecycleEvents(PC.ProcPart):
    """the last sentence of C12 for the actor's own lifecycle events: on scripted single-actor scenarios of the real
    engine the events the monitor saw (other than dead letters) are exactly the ones the delivery stream and the
    script call for - Initialized/Started per incarnation whose handler returned, Restarted 1, 2, 3, ... per counted
    crash, MaxRestartsExceeded + Stopped when the budget is spent, Stopped on stop/poison - in that order, dead letters
    only after Stopped, Stopped iff unregistered at the end, one dead letter per payload sent and not delivered
    (oracle_c12, judged on the implementation's observation alone; theorem C12_lifecycle_events_published)"""
    prop = 12
    name = "lifecycle_events"

    def generate(self, rng, tier):
        cases = PC.ProcPart.generate(self, rng, tier)
        keep, nrand = [], 0
        for c in cases:
            if c["class"] in ("lifecycle_and_repeats", "repeated_crash_episodes"):
                keep.append(c)
            elif c["class"] == "random" and nrand < (100 if tier == "quick" else 2000):
                nrand += 1
                keep.append(c)
        return keep


PARTS = [EC.Seq12(), EC.Conc12(), DuplicateIdEvents(), LifecycleEvents()]
