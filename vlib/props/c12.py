"""C12 — the event stream delivers each event once to each current subscriber, in order."""
from . import events_common as EC
from .events_common import COQ_FILES, TRUSTED_BASE

THEOREMS = ["C12_once_between_sub_and_unsub", "C12_sub_idempotent", "C12_unsub_by_value", "C12_broadcast_order",
            "C12_pointer_keys_refuted", "C12_oracle_holds_of_model"]
RULE = ("(seq) histories of Subscribe / Unsubscribe / BroadcastEvent on a real engine over PID values of live recording "
        "actors, each value available through 2 distinct *PID objects with equal address and id (object 0 = the PID "
        "Spawn returned); every step is made by the harness goroutine and followed by quiescence (event stream and all "
        "actors idle with empty inboxes); exhaustive: all histories ending in an event of length <= 6 (thorough 7) over "
        "{sub,unsub} x {object 0, object 1} of one PID + event, all of length <= 4 (thorough 6) over a 7-letter alphabet "
        "with a second PID value; then random histories up to 25 steps over 3 PID values x 2 objects. Observation: per "
        "actor the list of event numbers received. (conc) 1-4 broadcaster goroutines each broadcasting its own "
        "increasing numbers to 0-3 subscribers, one of them subscribing a late actor and one unsubscribing a leaver "
        "(through fresh *PID objects) between two of its own broadcasts; oracle: every full subscriber has each source's "
        "events exactly once and in order and all subscribers saw one serialisation; the late actor has a suffix (and all "
        "events its own source broadcast after the Subscribe call), the leaver a prefix (and exactly the events its source "
        "broadcast before the Unsubscribe call); correspondence: the machine run on the serialisation subscriber 0 saw "
        "reproduces every log. A case is non-trivial when the model replay reaches a proof-relevant situation "
        "(second subscription through the same / another object, unsubscription through another object, ...); "
        "distinct = distinct input")
ASSUMPTIONS = [
    "the theorems are about Events.v, a hand transcription of eventStream.Receive (after fixes/D5.diff and "
    "fixes/D6.diff), Engine.send/SendLocal/BroadcastEvent/Subscribe/Unsubscribe and Context.Forward; the tie is "
    "differential execution on generated histories",
    "C12_once_between_sub_and_unsub is stated for an actor that is alive (local and registered) whenever the event "
    "stream handles a message of the history; a subscriber that stopped is dropped at the first forward (D6 repair) "
    "and that forward surfaces as a dead letter (C09)",
    "'broadcast after Subscribe in happens-before order' is read through the inbox: Subscribe, Unsubscribe and "
    "BroadcastEvent are pushes on the event stream's inbox, which C01 shows to be FIFO per sender and C02 to be "
    "handled one at a time; the theorems quantify over the resulting serialisation",
    "the last sentence of C12 (lifecycle events are published for every occurrence) is covered by the process-layer "
    "checks C04-C07 (Proc.v emits EvInitialized/EvStarted/EvStopped/EvRestarted/dead letters and the harness "
    "compares them), by C10 (duplicate id) and by C09 (dead letter); it is not restated here",
    "the event stream's own PID is never subscribed to the event stream (it would forward every event to itself)",
]

PARTS = [EC.Seq12(), EC.Conc12()]
