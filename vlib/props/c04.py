"""C04 — see properties.jsonl."""
from . import proc_common as PC
from . import actor_common as AC
from . import inbox_common as IC
from .proc_common import TRUSTED_BASE, ASSUMPTIONS

COQ_FILES = ["Proc.v", "ProcExec.v", "ProcProofs.v", "PropsProc.v", "DeliverExec.v", "ProcSchedExec.v"]
THEOREMS = ["C04_lifecycle_word", "C04_nothing_after_unregister", "C04_spawn_returns_after_started", "C04_spawn_started_when_handlers_do_not_panic", "C04_oracle_sound", "C03_start_picks_up_backlog"]
COQ_FILES = COQ_FILES + AC.COQ_FILES
THEOREMS = THEOREMS + ['C04_lifecycle_word_all_schedules']
RULE = ("scripted single-actor scenarios on the real engine: the Started handler of the first incarnation forms the first batch "
        "from {message, panicking message, Poison(self), Stop(self)} (exhaustive to length 4/5), plus panics in Initialized/Started/"
        "per incarnation, InternalError panics, handlers that send more messages, MaxRestarts 0-3, middleware chains 0-3 and external "
        "send/poison/stop phases, plus random scripts; a case is non-trivial when the model run reaches a proof-relevant branch "
        "(restart, budget exceeded, graceful/hard pill, dead letters from flush, several pills, ...); distinct = distinct scenario. "
        "(engine_stop_race) real goroutines, no schedule control: 2-4 paced senders, scripted panics with a restart delay during which "
        "the senders go on, and a Stop or Poison request from sender 0 that waits for the returned context; every incarnation is a "
        "value of its own (Producer) and counts its Stopped deliveries and anything delivered to it afterwards; oracle: one Receive "
        "call at a time, Stopped once and last for the stopped incarnation (at most once for crashed ones), the context not done "
        "before the Stopped handler returned, the id free afterwards, per-sender order without repetition")


class Part(PC.ProcPart):
    prop = 4


PARTS = [Part(), IC.DeliverSpawnRace(), IC.DeliverStopRace(), PC.ProcSched(), AC.ActorSched()]
