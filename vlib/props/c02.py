"""C02 — an actor processes one message at a time."""
from . import inbox_common as IC
from . import proc_common as PC
from . import actor_common as AC
from .inbox_common import TRUSTED_BASE, ASSUMPTIONS

COQ_FILES = IC.COQ_FILES + ["Proc.v", "ProcExec.v", "ProcSchedExec.v", "ProcProofs.v", "PropsProc.v"]
THEOREMS = ["C02_token_invariant", "C02_receive_mutex", "C02_handoff", "C0123_oracle_sound", "C02_receive_mutex_over_ring", "C02_receive_mutex_self", "C02_self_cas_fails", "C02_inbox_opened_at_most_once_and_never_after_stop", "C02_lifecycle_deliveries_before_the_inbox_opens", "C02_restart_runs_inside_invoke"]
COQ_FILES = COQ_FILES + AC.COQ_FILES
THEOREMS = THEOREMS + ['C02_at_most_one_thread_runs_the_actor', 'C02_no_two_receives_overlap']
RULE = ("configurations (senders x numbered messages, capacity 1-2, Start racing or not, optional pill) of the real "
        "actor/inbox.go run under the deterministic scheduler: all schedules by DFS with visited-state pruning for the small "
        "ones, seeded random walks for the larger; each kept execution is replayed step by step in the Coq model and every "
        "distinct terminal observation is judged by oracle_c02 (no two Invoke regions open at once); "
        "a case is non-trivial when its replay reaches a proof-relevant situation (sender CAS failing against an active worker, "
        "re-check finding messages, push between the empty pop and the idle transition, pill, failing exit CAS); some configurations "
        "run with a throughput budget of 0 or 1 so that the yield of Inbox.run is reached. Further parts: (engine_restart) restarts with "
        "senders active on real goroutines; (engine_child_busy) a parent poisoned while its child sits in a handler for 2.3 s "
        "(thorough: 0.3-5.6 s): one Receive call at a time for the child, its Stopped once and before the parent's; (engine_sched) the "
        "whole engine under the scheduler, random and PCT schedules; (actor_replay) the same executions replayed lock-step in the "
        "product model Actor.v (inbox x process)")
EXHAUSTIVE = False


class Part(IC.InboxSched):
    name = "sched"
    prop = 2


PARTS = [Part(), IC.DeliverRestart(), IC.DeliverChildBusy(), PC.ProcSched(), AC.ActorSched()]
