"""C11 — request/response: correlated, at most once, bounded by the timeout."""
from ..driver import Part
from .. import common as C

COQ_FILES = ["Response.v", "ResponseProofs.v", "ResponseExec.v", "PropsRegistry.v"]
THEOREMS = ["C11_correlated", "C11_error_only_after_deadline", "C11_unregistered_after_result",
            "C11_unregistered_by_the_return_step", "C11_late_reply_dead_letters", "C11_at_most_one_result",
            "C11_distinct_ids_needed", "C11_respond_never_blocks", "C11_respond_total",
            "C11_respond_never_blocks_refuted_before_D16", "C11_result_waits_at_most_timeout_in_logical_time", "C11_urgent_step_enabled"]
RULE = ("1-32 concurrent requester goroutines (distinct payloads) on a real engine against scripted responder actors that call "
        "Context.Respond 0/1/2/3 times - on receipt, after half the 100 ms timeout, after twice the timeout, or (logical lateness) "
        "after the requester's Result() has returned - to the same or to different responders, plus requests fanned out to up to 3 "
        "helper actors replying concurrently; per request: value or error returned by Result(), elapsed >= timeout when error, "
        "Context.Sender() at the responder = the response PID, the response PID unregistered after Result(), per reply whether "
        "Respond returned and the DeadLetterEvents a monitor saw for it.  Wall-clock enters only as bounds (a reply whose "
        "Respond returned >= 20 ms before the deadline must be returned).  A case is non-trivial when it reaches a timeout, a "
        "late reply, a swallowed further reply, a raced dead letter, ...; distinct = distinct scenario.  "
        "Two PROBABILISTIC stress detectors, judged by the same clauses on counts (every judged field is a logical fact about a "
        "completed Request/Result pair; timeouts are recorded, never judged; no elapsed-time bound enters a verdict): "
        "(reqstorm) 16 requester goroutines in parallel x 12500 (thorough 125000) uniquely tokenised requests to 8 echo responders, "
        "2 s timeout, budget tripled when exactly one collision has been seen, stops at the second response-id collision / first foreign value / first PID left registered: a returned "
        "token must be the request's own unless the two requests drew the same response id, and at most one such collision per "
        "run is tolerated (a 31-bit uniform draw gives about 1e-8 per request); (reqboundary) 6 requester/responder pairs x 700 "
        "(thorough 7000) rounds, for timeouts of 400 and 300 us: the responder busy-waits and calls Respond at an instant swept "
        "from 20 us before to 230 us after the moment Result()'s timeout is due; after EVERY Result() the Response must not "
        "be the registry entry of its PID any more, and a returned value must be that round's token")
EXHAUSTIVE = False
TRUSTED_BASE = [
    "Coq 8.16.1 kernel; vm_compute (oracle and correspondence predicates on the observations); no native_compute",
    "axioms: none (Print Assumptions below); std++ list library",
    "correspondence: harness cmd/hv family reqresp (requesters, scripted responders, monitor subscriber on a real engine, public "
    "API + Response.PID()), hook tools/hooks/actor/registry_hooks.go (VerifRegistered: is a full id registered), vlib/props/c11.py",
    "modelled not verified: a Go channel of capacity 1 (hand-off to a parked receiver, else buffer, else block); select between "
    "the channel and ctx.Done(); context.WithTimeout as a logical deadline counted from the call of Result(); rand.Intn as an "
    "oracle stream of ids (C11_correlated needs them distinct: C11_distinct_ids_needed shows cross-talk otherwise); time.Now() "
    "is monotonic in the harness",
]
ASSUMPTIONS = [
    "the stress parts reqstorm / reqboundary are probabilistic: they can miss a fault that needs a rarer interleaving than their "
    "budget reaches (measured on the seeded faults: see the module's report); they cannot fire on a correct tree except through a "
    "genuine double collision of 31-bit random ids in one run (< 1e-6)",
    "hand-written transition system Response.v of response.go / Engine.Request / Context.Respond; the theorems are invariants of "
    "all its runs; tie = the model's deterministic consequences and the property's clauses evaluated on concurrent runs of the real "
    "code (no lock-step replay: the runs are timed)",
    "C11_correlated and C11_unregistered_after_result assume the drawn response ids pairwise distinct (31-bit random in the code)",
    "extra clause (it is C09's 'sending never blocks the caller', exercised through the Response mailbox): every Respond call "
    "returns; observation `stuck` / per-reply `done`; theorem C11_respond_never_blocks for the repaired Response.Send "
    "(fixes/D16.diff, model flag nonblock = true), refuted for the blocking channel send by "
    "C11_respond_never_blocks_refuted_before_D16; a further reply that finds the slot empty after the hand-off is parked in it "
    "and never read (no dead letter) - harmless, reported in the branch histogram as further_reply_swallowed_silently",
]

DCLASS = {"now": "DNow", "half": "DHalf", "double": "DDouble", "after": "DAfter"}


def oreq_coq(rq, o):
    val = "None" if not o.get("value") else "(Some (%s, %s))" % (C.cnat(min(o["value"][0], 4999)), C.cnat(min(o["value"][1], 4999)))
    reps = C.clist(["{| or_k := %s; or_late := %s; or_done := %s; or_dead := %s; or_dead_target_ok := %s |}" % (
        C.cnat(r["k"]), C.cbool(r["late"]), C.cbool(r["done"]), C.cnat(min(r["dead"], 4999)), C.cbool(r["dead_target_ok"]))
        for r in o["replies"]])
    return ("{| q_replies := %s; q_class := %s; q_fan := %s; q_handled := %s; q_sender_ok := %s; q_value := %s; q_foreign := %s; "
            "q_err := %s; q_elapsed_ok := %s; q_overrun := %s; q_unregistered := %s; q_in_time := %s; q_obs := %s |}") % (
        C.cnat(rq["replies"]), DCLASS[rq["delay"]], C.cbool(rq.get("fan", False)), C.cbool(o["handled"]), C.cbool(o["sender_ok"]),
        val, C.cbool(o.get("foreign", False)), C.cbool(o["err"]), C.cbool(o["elapsed_ok"]), C.cbool(o["overrun"]),
        C.cbool(o["unregistered"]), C.cbool(o["in_time"]), reps)


def normalise(reqs):
    """a responder that delays (or waits for the requester) serves only that one request, so that its sleeping does not
    delay the replies to others; returns (requests with targets, number of responders)"""
    shared = 0
    out = []
    nxt = 2
    for k, rq in enumerate(reqs):
        rq = dict(rq)
        if rq["delay"] == "now" and not rq.get("own") and rq["replies"] < 3 and not rq.get("fan"):
            rq["target"] = shared
            shared = 1 - shared if rq.get("alt") else shared
        else:
            rq["target"] = nxt
            nxt += 1
        rq.pop("own", None)
        rq.pop("alt", None)
        out.append(rq)
    return out, nxt


def scenario(reqs):
    rs, n = normalise(reqs)
    return {"timeout_ms": 100, "responders": n, "requests": rs}


class ReqResp(Part):
    name = "reqresp"
    family = "reqresp"
    exec_module = "ResponseExec"
    shard = 60
    branch_names = {1: "value_returned", 2: "timeout", 3: "late_reply_dead_lettered", 4: "further_reply_swallowed_silently",
                    5: "reply_dead_lettered_in_the_return_race", 6: "respond_never_returned", 7: "timeout_although_replied",
                    8: "value_after_delayed_reply", 9: "eight_or_more_concurrent_requesters", 10: "response_id_collision"}

    def generate(self, rng, tier):
        R = lambda replies, delay, **kw: dict(replies=replies, delay=delay, **kw)
        cases = []
        # every (replies, delay) cell alone, and all cells at once
        cells = [(k, d) for k in (0, 1, 2, 3) for d in ("now", "half", "double", "after")]
        for (k, d) in cells:
            cases.append(scenario([R(k, d)]))
        cases.append(scenario([R(k, d) for (k, d) in cells]))
        # many requesters against one / two shared responders
        for n in (2, 8, 32):
            cases.append(scenario([R(1, "now") for _ in range(n)]))
            cases.append(scenario([R(1 + i % 3, "now", alt=True) for i in range(n)]))
            cases.append(scenario([R(i % 4, "now", alt=(i % 2 == 0)) for i in range(n)]))
        # one requester per responder, mixed delays
        cases.append(scenario([R(1, "now", own=True) for _ in range(16)]))
        cases.append(scenario([R(i % 4, ("now", "half", "double", "after")[(i // 4) % 4], own=True) for i in range(32)]))
        # fanned out replies
        cases.append(scenario([R(3, "now", fan=True, own=True)]))
        cases.append(scenario([R(2 + i % 2, "now", fan=True, own=True) for i in range(4)] + [R(1, "now") for _ in range(4)]))
        nrand = 20 if tier == "quick" else 400
        for _ in range(nrand):
            n = rng.choice([1, 2, 3, 5, 8, 13, 21, 32])
            reqs = []
            for _ in range(n):
                d = rng.choice(["now"] * 5 + ["half", "half", "double", "after", "after"])
                reqs.append(R(rng.choice([0, 1, 1, 1, 2, 2, 3]), d, alt=rng.random() < 0.5, own=rng.random() < 0.3,
                              fan=(d == "now" and rng.random() < 0.1)))
            for rq in reqs:
                if rq.get("fan"):
                    rq["own"] = True
                    rq["replies"] = max(rq["replies"], 1)
            cases.append(scenario(reqs))
        return [{"input": c, "class": "n=%d" % len(c["requests"])} for c in cases]

    def to_coq(self, inp, obs):
        return "{| c_reqs := %s; c_dupids := %s; c_stuck := %s; c_stress := None |}" % (
            C.clist([oreq_coq(rq, o) for rq, o in zip(inp["requests"], obs["reqs"])]),
            C.cnat(min(obs["dupids"], 4999)), C.cnat(min(obs["stuck"], 4999)))

    def shrink(self, inp):
        out = []
        rs = inp["requests"]
        for i in range(len(rs)):
            if len(rs) > 1:
                out.append(dict(inp, requests=rs[:i] + rs[i + 1:]))
            if rs[i]["replies"] > 0:
                out.append(dict(inp, requests=rs[:i] + [dict(rs[i], replies=rs[i]["replies"] - 1)] + rs[i + 1:]))
        if len(rs) > 4:       # halves first: the scenarios are timed, keep the number of re-runs small
            out = [dict(inp, requests=rs[:len(rs) // 2]), dict(inp, requests=rs[len(rs) // 2:])] + out
        return out[:24]

    def extra_coverage(self, inputs, obs):
        return dict(requests=sum(len(i["input"]["requests"]) for i in inputs),
                    stuck_respond_calls=sum(o.get("stuck", 0) for o in obs),
                    id_collisions=sum(o.get("dupids", 0) for o in obs),
                    timeouts=sum(1 for o in obs for q in o["reqs"] if q["err"]),
                    values=sum(1 for o in obs for q in o["reqs"] if q.get("value")))

    def describe_obs(self, obs):
        return {"stuck": obs.get("stuck"), "dupids": obs.get("dupids"), "note": obs.get("note"), "reqs": obs["reqs"][:6]}


def stress_coq(kind, o):
    cap = lambda x: C.cnat(min(int(x), 4999))
    return ("{| c_reqs := []; c_dupids := 0%%nat; c_stuck := 0%%nat; c_stress := Some {| s_kind := %s; s_hrequests := %s; "
            "s_values := %s; s_errors := %s; s_wrong := %s; s_wrong_unexplained := %s; s_foreign := %s; "
            "s_still_registered := %s; s_collisions := %s; s_panics := %s |} |}") % (
        C.cnat(kind), cap(o.get("requests", o.get("rounds", 0)) // 100), C.cbool(o.get("values", 0) > 0),
        C.cbool(o.get("timeouts", o.get("errors", 0)) > 0), cap(o.get("wrong", 0)),
        cap(o.get("wrong_unexplained", o.get("wrong", 0))), cap(o.get("foreign", 0)), cap(o.get("still_registered", 0)),
        cap(o.get("collisions", 0)), cap(o.get("panics", 0)))


class StressPart(Part):
    """probabilistic detectors: one harness process per case, cases one after the other (they load every core)"""
    exec_module = "ResponseExec"
    parallel = False
    confirm = False      # a genuine hit of a rare race need not repeat in a second run; the verdicts are logical facts
    kind = 0
    branch_names = {11: "storm_run", 12: "boundary_run", 13: "values_and_timeouts_both_seen", 14: "response_id_collision",
                    15: "fifty_thousand_or_more_requests"}

    def to_coq(self, inp, obs):
        return stress_coq(self.kind, obs)

    def describe_obs(self, obs):
        return obs

    def extra_coverage(self, inputs, obs):
        return dict(requests=sum(o.get("requests", o.get("rounds", 0)) for o in obs),
                    harness_ms=sum(o.get("ms", 0) for o in obs),
                    anomalies=sum(o.get("wrong", 0) + o.get("foreign", 0) + o.get("still_registered", 0) + o.get("collisions", 0)
                                  + o.get("panics", 0) for o in obs),
                    timeouts_recorded_not_judged=sum(o.get("timeouts", 0) for o in obs))


class ReqStorm(StressPart):
    name = "reqstorm"
    family = "reqstorm"
    kind = 0

    def generate(self, rng, tier):
        per = 12500 if tier == "quick" else 125000
        return [{"input": {"goroutines": 16, "per": per, "responders": 8, "timeout_ms": 2000}, "class": "storm"}]


class ReqBoundary(StressPart):
    name = "reqboundary"
    family = "reqboundary"
    kind = 1

    def generate(self, rng, tier):
        rounds = 700 if tier == "quick" else 7000
        return [{"input": {"pairs": 6, "rounds": rounds, "timeout_us": t, "from_us": -20, "to_us": 230}, "class": "boundary"}
                for t in (400, 300)]


PARTS = [ReqResp(), ReqStorm(), ReqBoundary()]


def thorough_extra(work):
    """what the distinct-ids premise of C11_correlated means on the real code: seed math/rand, find the first repeated
    response id in the stream, keep the two requests that draw it outstanding at the same time (not a verdict: the
    situation is outside the premise; the outcome is recorded in the evidence)"""
    import json, subprocess
    b, out = C.build_harness(work, "hv")
    if b is None:
        return {"error": out[-500:]}
    try:
        p = subprocess.run([b, "reqcollide"], input=json.dumps({"seed": 20260923}) + "\n", stdout=subprocess.PIPE,
                           stderr=subprocess.PIPE, text=True, timeout=300)
        o = json.loads(p.stdout.splitlines()[0])
    except Exception as e:
        return {"error": str(e)}
    return {"response_id_collision_experiment": o,
            "reading": "draws i and j of rand.Intn(MaxInt32) coincide; with both requests outstanding the second is not registered "
                       "(ActorDuplicateIdEvent), its reply is returned by the FIRST request's Result() (cross_talk) and its own "
                       "Result() times out - the behaviour of Example crosstalk_same_id_concurrent (C11_distinct_ids_needed)"}
