"""C08 — Supervision tree: a stopping parent takes all descendants down first."""
import itertools
from ..driver import Part
from . import proc_common as PC
from .. import common as C

COQ_FILES = ["Tree.v", "TreeProofs.v", "TreeConc.v", "TreeConcProofs.v", "TreeExec.v", "TreeModel.v", "TreeModelProofs.v", "TreeRace.v", "TreeRaceProofs.v", "TreeRaceExec.v", "PropsTree.v", "Proc.v", "ProcExec.v", "ProcProofs.v", "PropsProc.v"]
THEOREMS = ["C08_children_first", "C08_events_once", "C08_own_order", "C08_children_listing", "C08_parent",
            "C08_restart_keeps_children", "C08_duplicate_spawn_noop", "C08_adoption_corner",
            "C08_respawn_race_orphan_refuted", "C08_respawn_race_stale_refuted", "C08_respawn_race_check_then_act_refuted",
            "C08_respawn_race_repaired", "C08_oracle_holds_of_model", "C08_order_oracle_holds_of_model", "C08_done_oracle_holds_of_model",
            "C08_children_first_conc", "C08_signal_after_subtree_conc", "C08_no_hang", "C08_pinned_refuted",
            "C08_repaired_parent_waits"]
RULE = ("supervision trees built by scripted actors on a real engine (public API; every node spawns its children from its "
        "Started handler under fixed ids). Shapes: all unordered trees of depth <= 3 x fan-out <= 3 (35 shapes; thorough: "
        "plus random shapes up to depth 4 x fan-out 4). Scenarios per shape: Poison/Stop of the root; every node stopped on "
        "its own (Poison, Stop, Poison(self), crash with MaxRestarts 0, cycling) then awaited, its parent and the root probed "
        "for Children()/Parent(), then the root poisoned; gated scenarios that hold the window of defect D11 open without "
        "sleeping (a node C is poisoned while the Stopped handler of a node G in C's subtree blocks on a channel; an ancestor "
        "P of C is poisoned; the harness goes on when P's context is done or P's pill is seen queued at C; only then G is "
        "released), with further pills for C, G, P and the nodes between them while the gate is closed; restart scenarios "
        "(children spawned ON DEMAND from a Receive under ids given by the scenario and, independently, the scripted children - "
        "which only the first incarnation of a node spawns, so that a restart cannot re-adopt them -; a node panics with "
        "restart budget left and comes up again on the same process; it is probed for Children()/Parent(), then stopped, "
        "or made to panic again with the budget used up (MaxRestarts 1 or 2), or an ancestor is stopped); random scenarios over "
        "the same step alphabet (gates on one root-to-leaf path so that a held gate cannot starve another). Observed: one "
        "global stamp order of entering/leaving every Stopped handler and of every stop context seen done; inside every "
        "Stopped handler GetPID(self), GetPID(descendant), Children(), Parent(); Parent() at Started; per handle whether it "
        "was done on return and who of the subtree was still registered or not through Stopped when it was seen done; "
        "HANG after 8 s. A case is non-trivial when the scenario reaches a proof-relevant situation (depth >= 3, fan-out >= 3, "
        "held gate, stop for a stopping actor, ancestor stopped while a descendant is stopping, probe after a child stopped "
        "on its own, crash, hard stop, self poison, stop for a stopped actor, several handles, restart, stop of a subtree that "
        "holds a restarted actor, budget exhaustion after restarts, probe of a restarted parent, on-demand child); "
        "distinct = distinct (tree, maxr, gates, steps). Respawn race part: the real engine under the deterministic scheduler "
        "(inbox.go, registry.go and safemap.go shimmed: every lock acquisition of a children map is a scheduling point): a parent "
        "serves 'make sure the child is there' requests with SpawnChild under a fixed id while Stop/Poison calls take the child "
        "down; schedules drawn by PCT (depth 3) and by uniform random walks; at the end of each schedule: a child is registered "
        "iff it is in the parent's map (no orphan, no stale entry)")
TRUSTED_BASE = [
    "Coq 8.16.1 kernel; vm_compute (model replay and predicates on every case; the pinned-order witness); no native_compute",
    "axioms: none (Print Assumptions below)",
    "correspondence harness: /verif/harness cmd/hv family 'tree08' (scripted actors, gates, stamp counter, waiter goroutines, "
    "event-stream monitor for crash handles) and cmd/hvs family 'treerace' (tools/verifshim/vsched + ysync, shimgen copies of inbox.go, "
    "registry.go, safemap.go), hook tools/hooks/actor/tree.go (VerifChildKeys: reads a children map at the end of a schedule; VerifQueueLen: lets the harness see that a stopping "
    "ancestor waits at an already-stopping actor instead of sleeping) and tools/hooks/actor/hooks.go (VerifIdle), vlib/props/c08.py",
    "modelled not verified: an actor handles one message at a time (C02); safemap operations and registry operations are atomic "
    "steps (mutex); Children() is one atomic snapshot (its Len/ForEach split can only add a nil entry, which Poison treats as an "
    "unknown PID); Go's map iteration order is replaced by list order (the theorems hold for every order of the children: they "
    "quantify over all trees, i.e. over all orders of the kids lists); restarts, user messages and dead letters are left out of "
    "TreeConc (queues hold pills only; a restart touches no component of its state); in the children-map machine a restart is "
    "no event at all (the Context outlives the incarnation: C08_restart_keeps_children), the harness checks exactly that on the "
    "real engine; context cancellation is idempotent",
]
ASSUMPTIONS = [
    "hand-written models: Tree.v (stop recursion of process.cleanup over a rose tree; children-map machine of context.go with "
    "first-class contexts) and TreeConc.v (every cleanup cut into its atomic steps, interleaved with third-party Stop/Poison "
    "threads of lookup/lookup/push/recheck); tie = differential execution of generated scenarios on the real engine",
    "C08_children_listing / C08_parent need ids to be free when they are spawned (C08_adoption_corner shows the corner outside the "
    "premise); in the machine a stop is one atomic step: re-spawning a child under the id of a child that is between its "
    "Registry.Remove and its children.Delete is not covered",
    "C08_children_first_conc / C08_no_hang are about a fixed tree (no spawns while stopping) and about actors that do not restart",
]

# ------------------------------------------------------------------ trees
def shapes(depth, fan):
    """all unordered trees of depth <= depth and fan-out <= fan, as nested tuples in canonical (sorted) form"""
    if depth == 1:
        return [()]
    sub = shapes(depth - 1, fan)
    out = []
    for n in range(fan + 1):
        for combo in itertools.combinations_with_replacement(range(len(sub)), n):
            out.append(tuple(sub[i] for i in combo))
    return out


def number(shape, start=0):
    """shape -> ([id, [subtrees]], next id), preorder numbering"""
    me = start
    nxt = start + 1
    kids = []
    for s in shape:
        k, nxt = number(s, nxt)
        kids.append(k)
    return [me, kids], nxt


class T:
    def __init__(self, tree):
        self.tree = tree
        self.parent, self.kids, self.order = {}, {}, []
        self._walk(tree, None)

    def _walk(self, t, p):
        i, ks = t
        self.parent[i] = p
        self.kids[i] = [k[0] for k in ks]
        self.order.append(i)
        for k in ks:
            self._walk(k, i)

    def add(self, p, c):
        self.parent[c] = p
        self.kids[c] = []
        self.kids[p].append(c)
        self.order.append(c)

    def nested(self, n=None):
        """the tree as nested lists (children in spawn order)"""
        n = self.order[0] if n is None else n
        return [n, [self.nested(k) for k in self.kids[n]]]

    def closure(self, n):
        out = [n]
        for k in self.kids[n]:
            out += self.closure(k)
        return out

    def desc(self, n):
        return self.closure(n)[1:]

    def ancestors(self, n):
        out = []
        while self.parent[n] is not None:
            n = self.parent[n]
            out.append(n)
        return out

    def depth(self, n=None):
        n = self.order[0] if n is None else n
        return 1 + max([self.depth(k) for k in self.kids[n]] + [0])


HANDLE_OPS = ("poison", "stop", "self", "crash")


def simulate(inp):
    """replay of a scenario (mirror of TreeExec.mrun): None when it is ill-formed, i.e. when it would make the harness wait
    for something the property does not promise, or read something that depends on the schedule"""
    t = T(inp["tree"])
    gates = list(inp["gates"])
    if any(g not in t.parent for g in gates) or len(set(gates)) != len(gates):
        return None
    # gates lie on one root-to-leaf path
    for a in gates:
        for b in gates:
            if a != b and a not in t.closure(b) and b not in t.closure(a):
                return None
    closed = set(gates)
    maxr = inp.get("maxr", 0)
    restarts = {}
    stopping, stopped, handles, waited = set(), set(), [], set()
    blocked = lambda n: any(g in closed for g in t.closure(n))
    for st in inp["steps"]:
        op = st[0]
        if op in HANDLE_OPS:
            n = st[1]
            if n not in t.parent:
                return None
            if op in ("self", "crash") and n in stopping:
                return None
            if op == "crash" and restarts.get(n, 0) != maxr:
                return None     # a crash is a panic with the restart budget used up
            handles.append(n)
            stopping |= set(t.closure(n))
        elif op == "await":
            k = st[1]
            if not (0 <= k < len(handles)) or blocked(handles[k]):
                return None
            stopped |= set(t.closure(handles[k]))
        elif op == "waitgate":
            g = st[1]
            if g not in closed or g not in stopping or any(x in closed for x in t.desc(g)):
                return None
            waited.add(g)
        elif op == "release":
            if st[1] not in closed:
                return None
            closed.discard(st[1])
        elif op == "hold":
            k, c, m = st[1:4]      # an optional fifth element: linger that many milliseconds (harness only)
            if not (0 <= k < len(handles)) or c not in t.parent:
                return None
            # c is inside its cleanup (a gate at or below it was reached and is still closed), handle k stops an ancestor of c
            if not any(g in waited and g in closed for g in t.closure(c)) or handles[k] not in t.ancestors(c):
                return None
        elif op == "spawn":
            p, c = st[1], st[2]
            if p not in t.parent or p in stopping or c in t.parent or not (0 <= c < 4999):
                return None
            t.add(p, c)
        elif op == "restart":
            n = st[1]
            if n not in t.parent or n in stopping or restarts.get(n, 0) >= maxr:
                return None
            restarts[n] = restarts.get(n, 0) + 1
        elif op == "probe":
            n = st[1]
            if n not in t.parent or n in stopping:
                return None
            for c in t.kids[n]:
                if c in stopping and c not in stopped and not blocked(c):
                    return None
        else:
            return None
    return dict(handles=handles, final=t.nested())


def well_formed(inp):
    return simulate(inp) is not None


# ------------------------------------------------------------ Coq printing
def tree_coq(t):
    return "(Node %s %s)" % (C.cnat(t[0]), C.clist([tree_coq(k) for k in t[1]]))


def nid(n):
    return C.cnat(n if 0 <= n < 4999 else 4999)


def onat(n):
    return "None" if n == -1 else "(Some %s)" % nid(n)


def nats(l):
    return C.clist([nid(x) for x in l])


STEP_COQ = {"spawn": "SSpawn", "restart": "SRestart", "poison": "SPoison", "stop": "SStop", "self": "SSelf", "crash": "SCrash", "await": "SAwait",
            "waitgate": "SWaitGate", "release": "SRelease", "probe": "SProbe", "hold": "SHold"}
KIND = {"poison": 0, "stop": 1, "self": 2, "crash": 3}


def step_coq(s):
    args = s[1:4] if s[0] == "hold" else s[1:]
    return "%s %s" % (STEP_COQ[s[0]], " ".join(C.cnat(x) for x in args))


def obs_coq(o):
    evs = []
    for e in o["events"]:
        evs.append("%s %s" % ({"xb": "EXB", "xe": "EXE", "done": "EDone"}[e[0]], nid(e[1])))
    xs = ["{| xi_n := %s; xi_self_reg := %s; xi_desc_reg := %s; xi_kids := %s; xi_parent := %s |}" % (
        nid(x["n"]), C.cbool(x["self_reg"]), nats(x["desc_reg"]), nats(x["kids"]), onat(x["parent"])) for x in o["xinfo"]]
    st = ["(%s, %s)" % (nid(s[0]), onat(s[1])) for s in o["started"]]
    hs = ["{| oh_kind := %s; oh_target := %s; oh_at_return := %s; oh_done := %s; oh_alive := %s |}" % (
        C.cnat(KIND.get(h["kind"], 9)), nid(h["target"]), C.cbool(h["at_return"]), C.cbool(h["done"]), nats(h["alive"]))
        for h in o["handles"]]
    ps = ["{| op_n := %s; op_answered := %s; op_kids := %s; op_parent := %s |}" % (
        nid(p["n"]), C.cbool(p["answered"]), nats(p["kids"]), onat(p["parent"])) for p in o["probes"]]
    return ("{| o_events := %s; o_xinfo := %s; o_started := %s; o_handles := %s; o_probes := %s; o_hang := %s; "
            "o_gate_timeout := %s; o_rstops := %s |}") % (C.clist(evs), C.clist(xs), C.clist(st), C.clist(hs), C.clist(ps),
                                                          C.cbool(o["hang"]), C.cbool(o["gate_timeout"]),
                                                          C.cnat(min(o.get("rstops", 0), 4000)))


CRASH_OBS = {"events": [], "xinfo": [], "started": [], "handles": [], "probes": [], "hang": True, "gate_timeout": False, "rstops": 0,
             "note": "harness process died: a panic escaped the engine"}


# -------------------------------------------------------------- generators
def case(tree, gates, steps, cls, maxr=0):
    inp = {"tree": tree, "maxr": maxr, "gates": gates, "steps": [list(s) for s in steps]}
    assert well_formed(inp), inp
    return {"input": inp, "class": cls}


def sequential_cases(tree, salt):
    t = T(tree)
    root = t.order[0]
    out = [case(tree, [], [("poison", root)], "root_poison"), case(tree, [], [("stop", root)], "root_stop")]
    for j, n in enumerate(t.order[1:]):
        op = HANDLE_OPS[(j + salt) % 4]
        steps = [(op, n), ("await", 0), ("probe", t.parent[n])]
        if t.parent[n] != root:
            steps.append(("probe", root))
        # a second stop for an actor that is gone, then the rest of the tree
        steps += [(("poison", "stop")[(j + salt) % 2], n), ("poison", root)]
        out.append(case(tree, [], steps, "child_on_its_own"))
    return out


linger_left = [0]      # how many more gated scenarios of this run get a long wait (set by generate)


def gated_cases(tree, rng, limit):
    """the D11 window (and the windows of D2/D13 around it), held open by a gate"""
    t = T(tree)
    root = t.order[0]
    out = []
    triples = []
    for c in t.order[1:]:
        for g in t.closure(c):
            for p in t.ancestors(c):
                triples.append((p, c, g))
    rng.shuffle(triples)
    for (p, c, g) in triples[:limit]:
        v = rng.randrange(4)
        steps = [(rng.choice(("poison", "stop")), c), ("waitgate", g)]
        extra = 0
        if v in (1, 3):      # more pills for the stopping actor, the gated one and whoever is between them
            steps.append(("poison", c)); extra += 1
            if g != c:
                steps.append((rng.choice(("poison", "stop")), g))
                for x in t.ancestors(g):
                    if x != c and x in t.closure(c) and rng.random() < 0.5:
                        steps.append(("poison", x))
        steps.append((rng.choice(("poison", "stop")), p))
        hp = sum(1 for s in steps if s[0] in HANDLE_OPS) - 1
        if linger_left[0] > 0 and v in (0, 1):
            # the ancestor is left waiting for its stopping child for seconds, not microseconds: nothing may give up
            linger_left[0] -= 1
            steps.append(("hold", hp, c, 1 + extra, 2300))
        else:
            steps.append(("hold", hp, c, 1 + extra))
        if v in (2, 3):      # while the ancestor waits: pills for it, for the stopping actor, and for the root
            steps += [("poison", p), ("stop", c), ("poison", root)]
        steps.append(("release", g))
        if rng.random() < 0.5:
            steps += [("await", 0), ("await", hp)]
        out.append(case(tree, [g], steps, "gated_ancestor_stop"))
    # a stopping subtree held by a gate: every further stop must wait (D13-type window)
    nodes = [n for n in t.order if t.kids[n]]
    rng.shuffle(nodes)
    for p in nodes[:max(1, limit // 3)]:
        g = rng.choice(t.desc(p))
        steps = [("poison", p), ("waitgate", g), (rng.choice(("poison", "stop")), p)]
        for x in [g] + [a for a in t.ancestors(g) if a in t.closure(p)]:
            if rng.random() < 0.6:
                steps.append((rng.choice(("poison", "stop")), x))
        par = t.parent[p]
        if par is not None:
            steps.append(("probe", par))
        steps.append(("release", g))
        if par is not None and rng.random() < 0.5:
            steps += [("await", 0), ("probe", par)]
        out.append(case(tree, [g], steps, "gated_repeated_stop"))
    return out


def restart_cases(tree, rng, limit):
    """a restarted actor keeps its children: children spawned on demand (and the scripted ones, which only the first
    incarnation spawns), a restart, probes, then a stop of the actor / of an ancestor / exhaustion of the restart budget"""
    t = T(tree)
    root = t.order[0]
    nxt = max(t.order) + 1
    out = []
    nodes = list(t.order)
    rng.shuffle(nodes)
    for j, p in enumerate(nodes[:limit]):
        maxr = 1 + (j % 2)
        d1, d2, d3 = nxt, nxt + 1, nxt + 2
        steps = [("spawn", p, d1)]
        v = rng.randrange(4)
        if v >= 1:
            steps.append(("spawn", p, d2))
        if v >= 2:
            steps.append(("spawn", d1, d3))          # a grandchild on demand
        steps.append(("restart", p))
        if maxr == 2 and rng.random() < 0.5:
            steps.append(("restart", p))
        if v == 3:
            steps += [("restart", d1), ("probe", d1)]  # a restarted child stays its parent's child
        steps += [("probe", p), ("probe", d1)]
        ending = (j // 2) % 3
        used = sum(1 for s in steps if s[0] == "restart" and s[1] == p)
        if ending == 0:
            steps += [(rng.choice(("poison", "stop")), p), ("await", 0)]
            if t.parent[p] is not None:
                steps.append(("probe", t.parent[p]))
        elif ending == 1:
            # the restart budget runs out: the actor and its children are stopped (C06)
            steps += [("restart", p)] * (maxr - used) + [("crash", p), ("await", 0)]
            if t.parent[p] is not None:
                steps.append(("probe", t.parent[p]))
        else:
            steps += [(rng.choice(("poison", "stop")), root)]
        out.append(case(tree, [], steps, "restart_keeps_children", maxr=maxr))
    # the scripted children alone (no on-demand spawn): a restart must not lose them either
    for p in [n for n in nodes if t.kids[n]][:max(1, limit // 2)]:
        steps = [("restart", p), ("probe", p), (rng.choice(("poison", "stop", "crash")), p)]
        maxr = 1
        if steps[-1][0] == "crash":
            pass
        out.append(case(tree, [], steps, "restart_scripted_children", maxr=maxr))
    return out


def random_tree(rng, depth, fan, budget=24):
    cnt = [0]

    def go(d):
        me = cnt[0]
        cnt[0] += 1
        kids = []
        if d < depth:
            for _ in range(rng.randint(0, fan)):
                if cnt[0] >= budget:
                    break
                kids.append(go(d + 1))
        return [me, kids]
    return go(1)


def random_case(rng, depth, fan):
    tree = random_tree(rng, rng.randint(2, depth), rng.randint(1, fan))
    t = T(tree)
    # gates on one root-to-leaf path
    leafpath = [rng.choice(t.order)]
    leafpath += t.ancestors(leafpath[0])
    gates = rng.sample(leafpath, min(len(leafpath), rng.choice((0, 1, 1, 2))))
    steps = []
    maxr = rng.choice((0, 0, 1, 2))
    inp = {"tree": tree, "maxr": maxr, "gates": gates, "steps": steps}
    nh = 0
    nxt = max(t.order) + 1
    live = list(t.order)
    for _ in range(rng.randint(1, 9)):
        r = rng.random()
        if maxr and r < 0.12:
            cand = ("spawn", rng.choice(live), nxt)
        elif maxr and r < 0.24:
            cand = ("restart", rng.choice(live))
        elif r < 0.45:
            cand = (rng.choice(HANDLE_OPS), rng.choice(live))
        elif r < 0.6 and nh:
            cand = ("await", rng.randrange(nh))
        elif r < 0.75 and gates:
            cand = ("waitgate", rng.choice(gates))
        elif r < 0.85 and gates:
            cand = ("release", rng.choice(gates))
        else:
            cand = ("probe", rng.choice(t.order))
        steps.append(list(cand))
        if well_formed(inp):
            if cand[0] in HANDLE_OPS:
                nh += 1
            if cand[0] == "spawn":
                live.append(nxt)
                nxt += 1
        else:
            steps.pop()
    if not nh:
        steps.append(["poison", t.order[0]])
    return case(tree, gates, steps, "random", maxr=maxr)


class Tree(Part):
    name = "tree"
    family = "tree08"
    exec_module = "TreeExec"
    shard = 60
    crash_obs = CRASH_OBS
    branch_names = {1: "depth>=3", 2: "fanout>=3", 3: "gated_Stopped_held_open", 4: "stop_for_a_stopping_actor",
                    5: "ancestor_stopped_while_descendant_is_stopping", 7: "probe_after_child_stopped_on_its_own",
                    8: "crash", 9: "hard_stop", 10: "self_poison", 11: "stop_for_a_stopped_actor", 12: "depth=4",
                    13: "fanout=4", 14: "several_handles", 15: "restart", 16: "stop_of_subtree_with_restarted_actor",
                    17: "restart_budget_exhausted", 18: "probe_of_restarted_parent", 19: "child_spawned_on_demand",
                    20: "restart_of_actor_with_children"}

    def generate(self, rng, tier):
        cases = []
        linger_left[0] = 2 if tier == "quick" else 8
        shp = shapes(3, 3)
        for k, s in enumerate(shp):
            tree, _ = number(s)
            cases += sequential_cases(tree, k)
            if T(tree).depth() >= 2:
                cases += gated_cases(tree, rng, 3 if tier == "quick" else 12)
            cases += restart_cases(tree, rng, 3 if tier == "quick" else 8)
        nrand = 150 if tier == "quick" else 3000
        for _ in range(nrand):
            cases.append(random_case(rng, 3 if tier == "quick" else 4, 3 if tier == "quick" else 4))
        if tier != "quick":
            for _ in range(250):
                tree = random_tree(rng, 4, 4, budget=40)
                cases += sequential_cases(tree, rng.randrange(4))[:6]
                cases += gated_cases(tree, rng, 4)
                cases += restart_cases(tree, rng, 3)
            # the full 4 x 4 tree once
            full = number(shapes_full(4, 4))[0]
            cases.append(case(full, [], [("poison", 0)], "root_poison"))
        # every fifth scenario with actors spawned WithContext(<a context that is cancelled already>): taking the
        # tree down must not depend on the application's own context (round-4 seed C08-r4-2)
        for i, c in enumerate(cases):
            if i % 5 == 2:
                c["input"] = dict(c["input"], ctx=1)
        return cases

    def to_coq(self, inp, obs):
        # the Coq side is given the tree at the end of the scenario (with the children spawned on demand)
        sim = simulate(inp)
        final = sim["final"] if sim else inp["tree"]
        return "{| c_tree := %s; c_maxr := %s; c_gates := %s; c_steps := %s; c_obs := %s |}" % (
            tree_coq(final), C.cnat(inp.get("maxr", 0)), nats(inp["gates"]), C.clist([step_coq(s) for s in inp["steps"]]), obs_coq(obs))

    def shrink(self, inp):
        out = []
        steps = inp["steps"]
        for i, s in enumerate(steps):
            rest = steps[:i] + steps[i + 1:]
            if s[0] in HANDLE_OPS:
                h = sum(1 for x in steps[:i] if x[0] in HANDLE_OPS)
                rest2 = []
                for x in rest:
                    if x[0] in ("await", "hold"):
                        if x[1] == h:
                            continue
                        if x[1] > h:
                            x = [x[0], x[1] - 1] + list(x[2:])
                    rest2.append(x)
                rest = rest2
            out.append(dict(inp, steps=rest))
        for g in inp["gates"]:
            out.append(dict(inp, gates=[x for x in inp["gates"] if x != g],
                            steps=[s for s in steps if not (s[0] in ("waitgate", "release") and s[1] == g)
                                   and not s[0] == "hold"]))
        # prune a leaf that no step and no gate mentions
        t = T(inp["tree"])
        used = set(inp["gates"])
        for s in steps:
            if s[0] in HANDLE_OPS or s[0] in ("waitgate", "release", "probe", "restart", "spawn"):
                used.add(s[1])
            if s[0] == "hold":
                used.add(s[2])
        for n in t.order[1:]:
            if not t.kids[n] and n not in used:
                out.append(dict(inp, tree=prune(inp["tree"], n)))
        if inp.get("maxr", 0) > 0:
            out.append(dict(inp, maxr=inp["maxr"] - 1))
        return [c for c in out if well_formed(c)]


def prune(tree, n):
    return [tree[0], [prune(k, n) for k in tree[1] if k[0] != n]]


def shapes_full(depth, fan):
    return () if depth == 1 else tuple(shapes_full(depth - 1, fan) for _ in range(fan))


class Scripted(PC.ProcPart):
    """a parent's shutdown waits on the stop context of each child: that context must not become done
    before the child has handled Stopped and is unregistered, whatever the child's batch looked like
    (pills behind pills, crashes while draining): the C07 predicate on scripted single-actor scenarios"""
    name = "scripted_stop_contexts"
    prop = 7


def build(binary, work, fams=None):
    """harness build; for hvs safemap.go is shimmed as well (sync -> ysync), so that taking the lock of a children map is
    a scheduling point: the window between a child's Registry.Remove and its children.Delete can be entered"""
    if binary != "hvs":
        return C.build_harness(work, binary, fams=fams)
    import os
    try:
        C.shim_overlay(work)    # builds shimgen
    except RuntimeError as e:
        return None, str(e)
    out_f = work.path("shim", "safemap_safemap.go")
    rc, out = C.sh([work.path("shimgen"), "-in", os.path.join(C.REPO, "safemap/safemap.go"), "-out", out_f,
                    "-map", "sync=%s/verifshim/ysync" % C.MODPATH], timeout=60)
    if rc != 0:
        return None, "shimgen failed on safemap/safemap.go: " + out
    return C.build_harness(work, binary, extra_overlay={os.path.join(C.REPO, "safemap/safemap.go"): out_f}, fams=fams)


class Race(Part):
    """the child's delete from its parent's map racing with a re-spawn under the same id (D21)"""
    name = "respawn_race"
    binary = "hvs"
    family = "treerace"
    fam_files = ["treerace.go"]
    exec_module = "TreeRaceExec"
    shard = 4
    branch_names = {1: "child_there_at_the_end", 2: "no_child_at_the_end", 3: "orphan", 4: "stale_entry"}

    def generate(self, rng, tier):
        w = 700 if tier == "quick" else 6000
        cfgs = [(["poison"], [2], "pct"), (["stop"], [1, 1], "walk"), (["stop", "poison"], [2, 1], "pct"),
                (["poison", "stop", "poison"], [3], "walk")]
        return [{"input": {"stoppers": st, "ensure": en, "walks": w, "seed": rng.randrange(1 << 30), "mode": mode},
                 "class": mode} for (st, en, mode) in cfgs]

    def to_coq(self, inp, obs):
        outs = []
        for t in obs.get("terminals") or []:
            if t.get("terminal"):
                o = "(%s, %s)" % (C.cbool(t["registered"]), C.cbool(t["listed"]))
                if o not in outs:
                    outs.append(o)
        dead = obs.get("deadlocks", 0) + obs.get("stuck", 0)
        return "{| c_requests := %s; c_stoppers := %s; c_obs := %s; c_deadlocks := %s |}" % (
            C.cnat(sum(inp["ensure"])), C.cnat(len(inp["stoppers"])), C.clist(outs), C.cnat(min(dead, 4000)))

    def describe_obs(self, obs):
        bad = [dict(obs=b.get("obs"), choices=b.get("choices")) for b in (obs.get("bad") or [])[:1]]
        return dict(executions=obs.get("executions"), transitions=obs.get("transitions"), deadlocks=obs.get("deadlocks"),
                    terminals=obs.get("terminals"), first_bad_schedule=bad)

    def extra_coverage(self, inputs, obs):
        return dict(schedules_enumerated=sum(o.get("executions", 0) for o in obs),
                    transitions=sum(o.get("transitions", 0) for o in obs))


PARTS = [Tree(), Scripted(), Race()]
