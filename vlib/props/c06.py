"""C06 — see properties.jsonl."""
from . import proc_common as PC
from . import c08 as C08
from .proc_common import TRUSTED_BASE, ASSUMPTIONS

COQ_FILES = ["Proc.v", "ProcExec.v", "ProcProofs.v", "PropsProc.v", "DeliverExec.v", "ProcSchedExec.v", "Tree.v", "TreeProofs.v", "TreeExec.v", "PropsTree.v"]
THEOREMS = ["C06_restarts_bounded", "C06_exceeding_stops_cleanly", "C06_later_sends_dead_letter", "C06_oracle_sound"]
RULE = ("scripted single-actor scenarios on the real engine: the Started handler of the first incarnation forms the first batch "
        "from {message, panicking message, Poison(self), Stop(self)} (exhaustive to length 4/5), plus panics in Initialized/Started/"
        "per incarnation, InternalError panics, handlers that send more messages, MaxRestarts 0-3, middleware chains 0-3 and external "
        "send/poison/stop phases, plus random scripts; a case is non-trivial when the model run reaches a proof-relevant branch "
        "(restart, budget exceeded, graceful/hard pill, dead letters from flush, several pills, ...); distinct = distinct scenario")


class Part(PC.ProcPart):
    prop = 6


class TreeBudget(C08.Tree):
    """exceeding the budget takes the children down too: the supervision-tree scenarios in which a node
    with children (scripted and spawned on demand) restarts and then exhausts its restart budget"""
    name = "children_on_budget_exhaustion"

    def generate(self, rng, tier):
        return [c for c in super().generate(rng, tier) if c.get("class", "").startswith("restart")]


PARTS = [Part(), TreeBudget()]
