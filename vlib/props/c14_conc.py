"""C14, concurrent part — the real ringbuffer.go (mutex and atomics rewritten to
yielding shims) explored under the deterministic scheduler; every complete
history is checked linearizable w.r.t. the list queue, sampled executions are
replayed in lock-step in the Coq model RingConc.v.

Integration (c14.py):   from . import c14_conc
                        PARTS = [Seq(), c14_conc.Conc()]
                        build = c14_conc.build
                        COQ_FILES += c14_conc.COQ_FILES ; THEOREMS += c14_conc.THEOREMS"""
import json, os
from ..driver import Part
from .. import common as C

COQ_FILES = ["RingConc.v", "RingConcProofs.v", "RingConcExec.v", "PropsRingConc.v"]
THEOREMS = ["C14_linearizable", "C14_linearizable_from", "C14_prefilled_ring_ok", "C14_linearizable_complete",
            "C14_real_time_order", "C14_at_most_one_in_critical_section", "C14_free_ring_is_queue", "C14_len_never_negative",
            "C14_oracle_sound"]
TRUSTED_BASE = [
    "concurrent part: tools/shimgen (import rewrite of the current ringbuffer/ringbuffer.go: sync -> verifshim/rsync "
    "(tools/verifshim/rsync/rsync.go: Lock = scheduling point enabled while free, Unlock = release then yield), sync/atomic -> "
    "verifshim/ratomic (tools/verifshim/yatomic)), tools/verifshim/vsched (deterministic scheduler, DFS with visited-state pruning), "
    "harness cmd/hvs family ringsched, hook tools/hooks/ringbuffer/ringconc.go (snapshot for the fingerprint), vlib/props/c14_conc.py",
    "modelled not verified (concurrent part): Lock/Unlock give mutual exclusion and happens-before, AddInt64/LoadInt64 are sequentially "
    "consistent single steps; plain code between two scheduling points is atomic (true for data-race-free code: every plain access of "
    "ringbuffer.go sits inside the critical section)",
]
ASSUMPTIONS = [
    "hand-written interleaving model RingConc.v; tie = lock-step replay of sampled schedules of the real code in the model (same thread "
    "choices => same scheduling points, same len values, same results, same call/return positions) + brute-force linearizability of every "
    "complete history of the enumerated configurations",
]
RULE_CONC = ("concurrent part: configurations (capacity, sequential prefill, per-thread operation lists) of the real RingBuffer[int64] under the "
             "deterministic scheduler: all schedules by DFS with history-aware visited-state pruning for the small ones, seeded random walks "
             "for the larger; non-trivial = the replay reaches a proof-relevant situation (a thread waiting for the mutex, Len read inside "
             "another thread's critical section, growth, pop on empty, PopN of several elements overlapping a Push)")


def build(binary, work, fams=None):
    """harness build (same as common.build_harness); for hvs the mutex shim of ringbuffer.go is
    tools/verifshim/rsync/rsync.go (Unlock yields after the release) instead of the generic ysync."""
    if binary != "hvs":
        return C.build_harness(work, binary, fams=fams)
    import shutil
    modsrc = open(os.path.join(C.HARNESS, "go.mod")).read().replace("=> /repo", "=> " + C.REPO)
    modfile = work.path("go.mod")
    open(modfile, "w").write(modsrc)
    shutil.copy(os.path.join(C.REPO, "go.sum"), work.path("go.sum"))
    try:
        repl = C.shim_overlay(work)
    except RuntimeError as e:
        return None, str(e)
    vdir = os.path.join(C.REPO, "verifshim", "rsync")
    repl = {k: v for k, v in repl.items() if os.path.dirname(k) != vdir}
    repl[os.path.join(vdir, "rsync.go")] = os.path.join(C.VERIF, "tools", "verifshim", "rsync", "rsync.go")
    stubs, hooks = C.restricted_overlay(binary, fams)
    if stubs is not None:
        repl.update(stubs)
    overlay = C.make_overlay(work, repl, only_hooks=hooks)
    out_bin = work.path(binary)
    rc, out = C.sh(["go", "build", "-modfile", modfile, "-tags", "verif", "-overlay", overlay, "-o", out_bin, "./cmd/" + binary],
                   cwd=C.HARNESS, env=dict(C.GOENV), timeout=900)
    return (out_bin if rc == 0 else None), out


def op_coq(op):
    if op[0] == "push":
        return "Push %s" % C.cz(op[1])
    if op[0] == "pop":
        return "Pop"
    if op[0] == "popn":
        return "PopN %s" % C.cnat(op[1])
    return "Len"


BADRES = "RPop (Some (-999999))"     # can never equal a model / specification result of the generated programs


def res_coq(r):
    k = r[0]
    if k == "push":
        return "RPush"
    if k == "pop":
        return "RPop %s" % (C.copt(C.cz(r[2])) if r[1] else "None")
    if k == "popn":
        return "RPopN %s" % (C.copt(C.clist([C.cz(x) for x in (r[2] or [])])) if r[1] else "None")
    if k == "len":
        return BADRES if not (0 <= r[1] < 5000) else "RLen %s" % C.cnat(r[1])
    return BADRES


def label_coq(e):
    op, a, r = e["op"], e.get("a") or [], e.get("r") or []
    if op == "call":
        return "LCall (%s)" % op_coq(a)
    if op == "lock":
        return "LLock"
    if op == "unlock":
        return "LUnlock"
    if op == "add":
        return "LAdd %s %s" % (C.cz(a[0]), C.cnat(r[0]) if 0 <= r[0] < 5000 else "4999%nat")
    if op == "load":
        return "LLoad %s" % (C.cnat(r[0]) if 0 <= r[0] < 5000 else "4999%nat")
    return "LUnlock"


def spans_from_trace(trace, nthreads):
    """(call position, return position) of every operation, per thread: the call is the
    operation's "call" event, the return is just behind its last event"""
    spans = [[] for _ in range(nthreads)]
    for i, e in enumerate(trace):
        g = e["g"]
        if e["op"] == "call":
            spans[g].append([i, i + 1])
        elif spans[g]:
            spans[g][-1][1] = i + 1
    return spans


class Conc(Part):
    name = "concurrent"
    binary = "hvs"
    family = "ringsched"
    exec_module = "RingConcExec"
    shard = 150
    branch_names = {1: "lock_contended", 2: "len_read_inside_critical_section", 3: "grow", 4: "pop_empty",
                    5: "popN_several", 6: "overlapping_operations", 7: "ops_of_two_threads_interleaved_at_LP"}

    def configs(self, tier):
        P, O, N, L = (lambda x: ["push", x]), ["pop"], (lambda n: ["popn", n]), ["len"]
        q = []
        # 2 threads x <= 2 ops, capacity 1-2, exhaustive over a small alphabet
        alpha1 = [[P(1)], [O], [N(2)], [L]]
        seqs = [[P(1)], [O], [N(2)], [L], [P(1), P(2)], [P(1), O], [P(1), N(2)], [P(1), L], [O, P(1)], [L, P(1)], [N(2), L], [O, O]]
        other = [[P(7)], [O], [N(2)], [L], [P(7), P(8)], [P(7), O], [O, P(7)], [P(7), L], [N(3), P(7)], [L, L], [O, L]]
        k = 0
        for a in seqs:
            for b in other:
                # keep the pairs with at least one push and one observer; alternate capacities
                flat = a + b
                if not any(o[0] == "push" for o in flat) or all(o[0] == "push" for o in flat) and len(flat) > 3:
                    continue
                k += 1
                for cap in ((1, 2) if tier == "thorough" or len(flat) <= 3 else ((1,) if k % 2 else (2,))):
                    q.append((cap, [], [a, b], "dfs", 0))
        # prefilled rings: pops racing pushes on a full / wrapped buffer (the situations of the rehearsal list)
        q += [
            (3, [P(1), P(2)], [[N(2)], [P(3), P(4)]], "dfs", 0),
            (3, [P(1), P(2)], [[N(5), L], [P(3), P(4)]], "dfs", 0),
            (2, [P(1)], [[O], [O]], "dfs", 0),
            (2, [P(1)], [[O, L], [P(2), O]], "dfs", 0),
            (1, [P(1), P(2), O], [[N(2)], [P(3), P(4)]], "dfs", 0),
            (4, [P(1), P(2), P(3), O], [[N(3)], [P(4), P(5)]], "dfs", 0),
            (2, [], [[P(1)], [P(2), O], [L]], "dfs", 0),
            (1, [], [[P(1)], [P(2), O, O]], "dfs", 0),
            (2, [P(9)], [[P(1), N(2)], [O, L]], "dfs", 0),
            (1, [], [[P(1), P(2), P(3)], [N(2), O], [L, L]], "walk", 300),
            (3, [P(1), P(2)], [[N(2), P(5), O], [P(3), P(4), L], [O]], "walk", 300),
            (2, [], [[P(1), P(2), O, P(3)], [P(4), N(3), L], [O, P(5)]], "walk", 200),
        ]
        t = [
            (1, [], [[P(1), P(2)], [O, O], [L, N(2)]], "dfs", 0),
            (2, [], [[P(1), O], [P(2), O], [P(3), L]], "dfs", 0),
            (2, [P(9)], [[P(1), N(2)], [O, L], [P(2), O]], "dfs", 0),
            (1, [], [[P(1), P(2), O], [P(3), N(2), L]], "dfs", 0),
            (2, [], [[P(1), O, L], [O, P(2), O]], "dfs", 0),
            (3, [P(1), P(2)], [[N(2), L, O], [P(3), P(4), P(5)]], "dfs", 0),
            (1, [], [[P(1), P(2), P(3), O], [N(2), O, L, P(4)], [L, P(5), O]], "walk", 5000),
            (2, [P(1)], [[P(2), P(3), P(4), P(5)], [O, N(3), O, N(1)], [L, L, O], [P(6), O]], "walk", 5000),
            (3, [P(1), P(2)], [[N(2), P(5), O, L], [P(3), P(4), L, O], [O, P(6), N(4)]], "walk", 5000),
        ]
        return q + (t if tier == "thorough" else [])

    def generate(self, rng, tier):
        out = []
        for (cap, pre, threads, mode, mx) in self.configs(tier):
            out.append({"input": {"cap": cap, "pre": pre, "threads": threads, "mode": mode, "max_execs": mx,
                                  "keep": 12 if mode == "dfs" else 40, "seed": rng.randrange(1 << 30)},
                        "class": mode})
        return out

    def case_coq(self, inp, results, sched=None, trace=None):
        replay = sched is not None
        nthr = len(inp["threads"])
        if replay:
            spans = spans_from_trace(trace, nthr)
        obs = []
        for t in range(nthr):
            row = []
            for k, r in enumerate(results[t]):
                inv, ret = (spans[t][k] if replay and k < len(spans[t]) else (0, 1))
                row.append("(%s, %s, %s)" % (res_coq(r["res"]), C.cnat(inv), C.cnat(ret)))
            obs.append(C.clist(row))
        return ("{| c_cap := %s; c_pre := %s; c_progs := %s; c_sched := %s; c_labels := %s; c_replay := %s; c_obs := %s |}") % (
            C.cnat(inp["cap"]), C.clist([op_coq(o) for o in inp["pre"]]),
            C.clist([C.clist([op_coq(o) for o in p]) for p in inp["threads"]]),
            C.clist([C.cnat(g) for g in (sched or [])]), C.clist([label_coq(e) for e in (trace or [])]),
            C.cbool(replay), C.clist(obs))

    def to_coq(self, inp, obs):
        if "trace" in obs and "terminals" not in obs:      # a single replayed execution
            return [self.case_coq(inp, obs["obs"]["results"], obs["sched"], obs["trace"])]
        terms = []
        for smp in (obs.get("samples") or []) + (obs.get("bad") or []):
            terms.append(self.case_coq(inp, smp["obs"]["results"], smp["sched"], smp["trace"]))
        # the linearizability search in Coq is a brute-force merge search: fine for the small
        # exhaustive configurations; for the long random-walk programs only a bounded number of
        # the distinct terminal result vectors is re-judged in Coq (the harness judged all of them)
        nops = sum(len(p) for p in inp["threads"])
        cap_terms = None if nops <= 6 else (60 if nops <= 9 else 12)
        for t in (obs.get("terminals") or [])[:cap_terms]:
            terms.append(self.case_coq(inp, t["results"]))
        return terms

    def extra_coverage(self, inputs, obs):
        return dict(
            schedules_enumerated=sum(o.get("executions", 1) for o in obs),
            states=sum(o.get("states", 0) for o in obs),
            transitions=sum(o.get("transitions", 0) for o in obs),
            distinct_terminal_observations=sum(len(o.get("terminals") or []) for o in obs),
            traces_validated_against_impl=sum(len(o.get("samples") or []) for o in obs),
            exhaustive_configs=sum(1 for i, o in zip(inputs, obs) if i["input"]["mode"] == "dfs" and o.get("exhaustive")),
            non_linearizable_histories=sum(len(o.get("bad") or []) for o in obs),
            configs=[{"cap": i["input"]["cap"], "pre": i["input"]["pre"], "threads": i["input"]["threads"],
                      "mode": i["input"]["mode"], "executions": o.get("executions"), "states": o.get("states"),
                      "exhaustive": o.get("exhaustive")} for i, o in zip(inputs, obs)])

    def shrink(self, inp):
        if inp.get("mode") == "replay" or sum(len(p) for p in inp["threads"]) <= 3:
            return []
        out = []
        s = inp["threads"]
        for i in range(len(s)):
            if len(s) > 1:
                out.append(dict(inp, threads=s[:i] + s[i + 1:]))
            for j in range(len(s[i])):
                if len(s[i]) > 1:
                    out.append(dict(inp, threads=s[:i] + [s[i][:j] + s[i][j + 1:]] + s[i + 1:]))
        if inp["pre"]:
            out.append(dict(inp, pre=inp["pre"][:-1]))
        for o in out:
            o["mode"] = "dfs"
            o["max_execs"] = 60000
        return out

    def describe_obs(self, obs):
        if "terminals" not in obs:
            return obs
        d = {k: obs.get(k) for k in ("executions", "states", "transitions", "deadlocks", "stuck", "exhaustive")}
        d["terminals"] = (obs.get("terminals") or [])[:4]
        if obs.get("bad"):
            b = obs["bad"][0]
            d["failing_schedule"] = {"choices": b["choices"], "sched": b["sched"], "trace": b["trace"], "obs": b["obs"],
                                     "call_return_positions": spans_from_trace(b["trace"], len(b["obs"]["results"]))}
        elif obs.get("samples"):
            d["sample_schedule"] = {"sched": obs["samples"][0]["sched"], "obs": obs["samples"][0]["obs"]}
        return d
