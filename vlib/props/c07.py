"""C07 — see properties.jsonl."""
from . import proc_common as PC
from . import actor_common as AC
from .proc_common import TRUSTED_BASE, ASSUMPTIONS

COQ_FILES = ["Proc.v", "ProcExec.v", "ProcProofs.v", "PropsProc.v", "DeliverExec.v", "ProcSchedExec.v"]
THEOREMS = ["C07_cancel_only_after_stopped_and_unregistered", "C07_every_pill_cancelled_exactly_once", "C07_graceful_pill_drains_first", "C07_pills_invisible", "C07_oracle_sound"]
COQ_FILES = COQ_FILES + AC.COQ_FILES
THEOREMS = THEOREMS + ['C07_cancel_after_stopped_all_schedules']
RULE = ("scripted single-actor scenarios on the real engine: the Started handler of the first incarnation forms the first batch "
        "from {message, panicking message, Poison(self), Stop(self)} (exhaustive to length 4/5), plus panics in Initialized/Started/"
        "per incarnation, InternalError panics, handlers that send more messages, MaxRestarts 0-3, middleware chains 0-3 and external "
        "send/poison/stop phases, plus random scripts; a case is non-trivial when the model run reaches a proof-relevant branch "
        "(restart, budget exceeded, graceful/hard pill, dead letters from flush, several pills, ...); distinct = distinct scenario")


class Part(PC.ProcPart):
    prop = 7


PARTS = [Part(), PC.ProcSched(), AC.ActorSched()]
