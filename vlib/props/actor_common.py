"""The product model (coq/Actor.v): executions of the real engine under the deterministic
scheduler (harness family actorsched in cmd/hvs/procsched.go) replayed step by step in the model
in which process.go's behaviour (Proc.v) runs inside the interleaving of inbox.go / registry.go /
the engine's send and poison paths.  Used as an extra part by C02, C04, C07 (and usable by C01/C05)."""
from ..driver import Part
from .. import common as C
from .proc_common import lmsg_coq, rule_coq

COQ_FILES = ["Actor.v", "ActorExec.v", "ActorProofs.v", "PropsActor.v"]

STATUS = {0: "Stopped", 1: "Starting", 2: "Idle", 3: "Running"}


def payload_coq(p):
    if isinstance(p, int):
        return "(User %s)" % C.cnat(p)
    if p == "pill:true":
        return "(Pill true 0%nat)"
    if p == "pill:false":
        return "(Pill false 0%nat)"
    return "(User 4999%nat)"


def label_coq(e):
    op, a, r = e["op"], e.get("a") or [], e.get("r") or []
    if op == "lock":
        return "ALock"
    if op == "rlock":
        return "ARLock"
    if op == "push":
        return "APush %s" % payload_coq(a[0])
    if op == "cas":
        return "ACas %s %s %s" % (STATUS[a[0]], STATUS[a[1]], C.cbool(r[0]))
    if op == "load":
        return "ALoad %s" % STATUS[r[0]]
    if op == "swap":
        return "ASwap %s %s" % (STATUS[a[0]], STATUS[r[0]])
    if op == "store":
        return "AStore %s" % STATUS[a[0]]
    if op == "popn":
        return "APopN %s %s" % (C.clist([payload_coq(x) for x in (r[0] or [])]), C.cbool(r[1]))
    if op == "len":
        return "ALen %s" % C.cnat(r[0])
    if op == "recv-begin":
        return "ARecvB %s %s" % (C.cnat(a[0]), lmsg_coq(a[1]))
    if op == "recv-mid":
        return "ARecvM"
    raise ValueError(e)


def normalise(c):
    """panic_on / self_poison as script rules (the harness applies both; the model has one table)"""
    c = dict(c)
    script = [dict(r) for r in c.get("script", [])]
    on = {(r["inc"], r["on"]) for r in script}
    for n in sorted(set(c.get("panic_on", [])) | ({c["self_poison"]} if c.get("self_poison") else set())):
        do = ([["poison"]] if n == c.get("self_poison") else []) + ([["panic"]] if n in c.get("panic_on", []) else [])
        if (0, n) not in on:
            script.append({"inc": 0, "on": n, "do": do})
    c["script"], c["panic_on"], c["self_poison"] = script, [], 0
    kinds = list(c.get("poisoners", [])) + ([c["poison"]] if c.get("poison") else [])
    c["poisoners"], c["poison"] = kinds, ""
    return c


class ActorSched(Part):
    """the real engine under the deterministic scheduler, every kept execution replayed in Actor.v"""
    name = "actor_replay"
    binary = "hvs"
    family = "actorsched"
    fam_files = ["procsched.go"]
    exec_module = "ActorExec"
    shard = 40
    branch_names = {1: "restart", 2: "stopped", 3: "dead_letters", 4: "delivery_to_later_incarnation", 5: "several_stoppers",
                    6: "stranded_behind_final_flush", 7: "client_cas_starts_worker", 8: "flush_finds_envelopes",
                    10: "actor_pushes_to_itself", 11: "inbox_start_on_open_inbox", 12: "exit_cas_fails_stopped",
                    13: "several_workers"}

    def configs(self):
        P = lambda inc, on, *do: {"inc": inc, "on": on, "do": [list(d) for d in do]}
        return [
            dict(senders=[[1, 2], [3]], panic_on=[2], max_restarts=2, poison="poison"),
            dict(senders=[[1, 2, 3]], panic_on=[1, 3], max_restarts=1, poison=""),
            dict(senders=[[1], [2], [3]], panic_on=[], max_restarts=0, poison="stop"),
            dict(senders=[[1, 2], [3, 4]], panic_on=[3], max_restarts=3, poison="", self_poison=2),
            dict(senders=[[1, 2, 3, 4]], panic_on=[2], max_restarts=0, poison="poison"),
            dict(senders=[[1, 2], [3, 4], [5]], panic_on=[4], max_restarts=2, poison="stop"),
            # several stoppers racing each other and the actor's cleanup
            dict(senders=[], max_restarts=0, poisoners=["stop", "stop"], walks_factor=6, mode="pct"),
            dict(senders=[], max_restarts=0, poisoners=["poison", "stop", "poison"], walks_factor=6, mode="pct"),
            dict(senders=[[1]], max_restarts=0, poisoners=["stop", "poison"], walks_factor=4, mode="pct"),
            dict(senders=[[1, 2], [3]], panic_on=[2], max_restarts=2, poison="poison", walks_factor=2, mode="pct"),
            # scripts: the actor sends to itself, stops itself, panics in lifecycle handlers
            dict(senders=[[1, 2]], max_restarts=2, poison="", script=[P(1, "S", ["send", 10], ["sendnil", 11]), P(0, 1, ["send", 12], ["panic"])]),
            dict(senders=[[1], [2]], max_restarts=1, poison="", script=[P(1, "I", ["panic"]), P(0, 2, ["stop"])], mode="pct"),
            dict(senders=[[1, 2]], max_restarts=1, poison="poison", script=[P(1, "S", ["panic_internal"]), P(1, "X", ["send", 20]), P(2, "X", ["send", 21])]),
            dict(senders=[[1, 2, 3]], max_restarts=0, poison="", script=[P(0, 2, ["panic"])], mode="pct"),
            dict(senders=[[1], [2]], max_restarts=1, poisoners=["poison"], script=[P(0, 1, ["send", 30], ["poison"], ["panic"])], mode="pct"),
        ]

    def generate(self, rng, tier):
        # walks: schedules explored (every one is judged by the harness's own check of the final
        # observation, and the bad ones are always kept); keep: how many terminal executions are
        # replayed in the model
        walks, keep = (120, 20) if tier == "quick" else (1500, 150)
        out = []
        for c in self.configs():
            c = normalise(c)
            f = c.pop("walks_factor", 1)
            out.append({"input": dict(c, walks=walks * f, keep=keep, seed=rng.randrange(1 << 30)), "class": c.get("mode", "walk")})
        return out

    def case_coq(self, inp, o, replay=True):
        tr = o.get("atrace") or []
        if o.get("status") is None:
            status = "Stopped"
        else:
            status = STATUS[o["status"]]
        obs = ("{| ao_recvs := %s; ao_overlap := %s; ao_deadlock := %s; ao_stuck := %s; ao_terminal := %s; ao_sent := %s; "
               "ao_dead := %s; ao_pills_done := %s; ao_status := %s; ao_registered := %s; ao_stranded := %s |}") % (
            C.clist(["(%s, %s)" % (C.cnat(r["inc"]), lmsg_coq(r["msg"])) for r in o["recvs"]]),
            C.cbool(o["overlap"]), C.cbool(o["deadlock"]), C.cbool(o.get("stuck", False)), C.cbool(o["terminal"]),
            C.clist([C.cnat(n) for n in o["sent"]]), C.clist([C.cnat(n) for n in o["dead"]]),
            C.clist([C.cbool(d) for d in o.get("pills_done", [])]), status, C.cbool(o.get("registered", False)),
            C.clist([payload_coq(p) for p in (o.get("stranded") or [])]))
        return ("{| ac_maxr := %s; ac_table := %s; ac_senders := %s; ac_poisoners := %s; ac_sched := %s; ac_labels := %s; "
                "ac_replay := %s; ac_obs := %s |}") % (
            C.cnat(inp["max_restarts"]), C.clist([rule_coq(r) for r in inp["script"]]),
            C.clist([C.clist([C.cnat(m) for m in ms]) for ms in inp["senders"]]),
            C.clist([C.cbool(k == "poison") for k in inp["poisoners"]]),
            C.clist([C.cnat(e["t"]) for e in tr]), C.clist([label_coq(e) for e in tr]),
            C.cbool(replay and o["terminal"]), obs)

    def to_coq(self, inp, obs):
        terms = [self.case_coq(inp, smp["obs"]) for smp in (obs.get("samples") or [])]
        seen = {tuple(smp["choices"]) for smp in (obs.get("samples") or [])}
        for b in (obs.get("bad") or []):
            if tuple(b["choices"]) not in seen:
                terms.append(self.case_coq(inp, b["obs"]))
        return terms

    def extra_coverage(self, inputs, obs):
        return dict(schedules_enumerated=sum(o.get("executions", 1) for o in obs),
                    transitions=sum(o.get("transitions", 0) for o in obs),
                    traces_validated_against_impl=sum(len(o.get("samples") or []) for o in obs),
                    replayed_steps=sum(len(s["obs"].get("atrace") or []) for o in obs for s in (o.get("samples") or [])),
                    stuck=sum(o.get("stuck", 0) for o in obs))

    def describe_obs(self, obs):
        d = {k: obs.get(k) for k in ("executions", "transitions", "deadlocks", "stuck")}
        d["kept"] = len(obs.get("samples") or [])
        if obs.get("bad"):
            b = obs["bad"][0]
            d["failing_schedule"] = {"choices": b["choices"], "obs": {k: v for k, v in b["obs"].items() if k != "atrace"},
                                     "target_trace": [[e["t"], e["op"]] + list(e.get("a") or []) + ["=>"] + list(e.get("r") or [])
                                                      for e in (b["obs"].get("atrace") or [])]}
        elif obs.get("samples"):
            s = obs["samples"][0]
            d["first_kept"] = {"choices": len(s["choices"]), "obs": {k: v for k, v in s["obs"].items() if k != "atrace"},
                               "target_steps": len(s["obs"].get("atrace") or [])}
        return d
