"""Shared by C04, C05, C06, C07, C13: scripted actors on the real engine
(public API) against the Coq model Proc.v."""
import itertools
from ..driver import Part
from .. import common as C


def lmsg_coq(m):
    if m == "I":
        return "LInit"
    if m == "S":
        return "LStarted"
    if m == "X":
        return "LStopped"
    if isinstance(m, int):
        return "(LUser %s)" % C.cnat(m)
    return "(LUser 4999%nat)"


def act_coq(a):
    k = a[0]
    return {"send": lambda: "ASend %s" % C.cnat(a[1]), "sendnil": lambda: "ASendNil %s" % C.cnat(a[1]),
            "poison": lambda: "APoison", "stop": lambda: "AStop", "panic": lambda: "APanic",
            "panic_internal": lambda: "APanicInternal"}[k]()


def rule_coq(r):
    return "{| r_inc := %s; r_on := %s; r_do := %s |}" % (C.cnat(r["inc"]), lmsg_coq(r["on"]), C.clist([act_coq(a) for a in r["do"]]))


def op_coq(o):
    return {"send": lambda: "XSend %s" % C.cnat(o[1]), "poison": lambda: "XPoison", "stop": lambda: "XStop"}[o[0]]()


def ev_coq(e):
    if e == "initialized":
        return "MInitialized"
    if e == "started":
        return "MStarted"
    if e == "stopped":
        return "MStopped"
    if e == "maxrestarts":
        return "MMaxRestarts"
    if e == "deadpill":
        return "MDeadPill"
    if e[0] == "restarted":
        return "MRestarted %s" % C.cnat(e[1])
    if e[0] == "dead":
        return "MDeadUser %s" % C.cnat(e[1])
    raise ValueError(e)


CRASH_OBS = {"recvs": [], "events": [], "pills": [], "sends": [], "escaped": True, "hang": False, "spawn_started": False,
             "registered": False, "note": "harness process died: a panic escaped the actor"}


def obs_coq(o):
    return ("{| o_recvs := %s; o_events := %s; o_pills := %s; o_sends := %s; o_escaped := %s; o_hang := %s; "
            "o_spawn_started := %s; o_registered := %s |}") % (
        C.clist(["{| or_inc := %s; or_msg := %s; or_snd := %s; or_full := %s |}" % (
            C.cnat(r["inc"]), lmsg_coq(r["msg"]), C.cbool(r["snd"]), C.cbool(r["full"])) for r in o["recvs"]]),
        C.clist([ev_coq(e) for e in o["events"]]),
        C.clist(["{| op_done := %s; op_early := %s; op_reg_at_done := %s |}" % (
            C.cbool(p["done"]), C.cbool(p["early"]), C.cbool(p["reg_at_done"])) for p in o["pills"]]),
        C.clist([C.cnat(n) for n in o.get("sends", [])]),
        C.cbool(o["escaped"]), C.cbool(o["hang"]), C.cbool(o["spawn_started"]), C.cbool(o["registered"]))


def build_script(items, maxr, chain, lifecycle=(), ops=(), nested=None):
    """items: what the Started handler of incarnation 1 sends to itself, forming the first batch:
    'u' plain message, 'b' message whose handler panics, 'i' message whose handler panics with an
    InternalError, 'g' Poison(self), 'h' Stop(self), 's' message whose handler sends two more messages.
    lifecycle: [(inc, 'I'|'S'|'X', action)] extra rules."""
    n = 0
    do, rules = [], []
    for it in items:
        if it in "ubis":
            n += 1
            do.append(["send" if n % 2 else "sendnil", n])
            if it == "b":
                rules.append({"inc": 0, "on": n, "do": [["panic"]]})
            elif it == "i":
                rules.append({"inc": 1, "on": n, "do": [["panic_internal"]]})
            elif it == "s":
                rules.append({"inc": 0, "on": n, "do": [["send", 100 + n], ["sendnil", 200 + n]]})
        elif it == "g":
            do.append(["poison"])
        elif it == "h":
            do.append(["stop"])
    script = [{"inc": 1, "on": "S", "do": do}] + rules
    for (inc, on, act) in lifecycle:
        merged = False
        for r in script:
            if r["inc"] == inc and r["on"] == on:
                r["do"] = r["do"] + [act]
                merged = True
        if not merged:
            script.insert(0, {"inc": inc, "on": on, "do": [act]})
    return {"max_restarts": maxr, "chain": chain, "script": script, "ops": [list(o) for o in ops], "decoy": chain >= 2 and (n + maxr) % 2 == 0}


class ProcPart(Part):
    name = "scripted"
    family = "proc"
    exec_module = "ProcExec"
    prop = 0
    shard = 150
    crash_obs = CRASH_OBS
    branch_names = {1: "restart", 2: "max_restarts_exceeded", 3: "graceful_pill", 4: "hard_stop",
                    6: "panic_in_Initialized_or_Started", 8: "dead_letters_from_flush", 9: "several_pills",
                    10: "internal_error_restart", 11: "pill_for_unregistered_actor"}

    def generate(self, rng, tier):
        cases = []
        alpha = "ubgh"
        maxlen = 4 if tier == "quick" else 5
        k = 0
        for n in range(1, maxlen + 1):
            for combo in itertools.product(alpha, repeat=n):
                k += 1
                maxr = k % 3
                chain = (k // 3) % 4
                ops = [(), (("send", 900),), (("poison",),), (("stop",), ("send", 901)), (("send", 902), ("poison",), ("stop",))][k % 5]
                cases.append({"input": build_script("".join(combo), maxr, chain, ops=ops), "class": "exhaustive_first_batch"})
        # lifecycle panics, internal errors, nested sends
        for maxr in (0, 1, 2, 3):
            for lc in ([(1, "I", ["panic"])], [(1, "S", ["panic"])], [(1, "I", ["panic"]), (2, "S", ["panic"])],
                       [(1, "S", ["panic"]), (2, "S", ["panic"]), (3, "I", ["panic"])], [(2, "S", ["panic"])],
                       [(1, "S", ["panic_internal"])], [(2, "I", ["panic_internal"])],
                       [(2, "S", ["send", 500])], [(2, "S", ["poison"])], [(1, "X", ["send", 600])], [(2, "X", ["sendnil", 601])],
                       [(1, "X", ["poison"])], [(2, "X", ["stop"])], [(1, "X", ["stop"]), (2, "X", ["poison"])]):
                for items in ("ub", "bub", "ubgu", "sbu", "bb", "ibu", "ubhb", "gbu", "bgb"):
                    cases.append({"input": build_script(items, maxr, rng.randrange(4), lifecycle=lc,
                                                        ops=rng.choice([(), (("send", 900),), (("poison",), ("poison",))])),
                                  "class": "lifecycle_and_repeats"})
        # several separate crash episodes, each followed by a clean replay: external sends of
        # panicking payloads at quiescence (the budget is for the whole life, not per episode)
        for maxr in (0, 1, 2, 3):
            for nboom in (1, 2, 3, 4, 5):
                for shape in ("lone", "with_backlog"):
                    ops, rules = [], []
                    for k in range(nboom):
                        if shape == "lone":       # the panicking message is alone in its batch
                            ops += [("send", 910 + 2 * k), ("send", 911 + 2 * k)]
                        else:                     # a trigger makes the batch [boom_k, good_k]: non-empty restart buffer, clean replay
                            ops += [("send", 930 + k)]
                            rules.append({"inc": 0, "on": 930 + k, "do": [["sendnil", 910 + 2 * k], ["send", 911 + 2 * k]]})
                        rules.append({"inc": 0, "on": 910 + 2 * k, "do": [["panic"]]})
                    sc = build_script("u", maxr, rng.randrange(3), ops=ops)
                    sc["script"] += rules
                    cases.append({"input": sc, "class": "repeated_crash_episodes"})
        nrand = 300 if tier == "quick" else 6000
        for _ in range(nrand):
            items = "".join(rng.choice("uuubbgshi") for _ in range(rng.randint(1, 12)))
            lc = []
            fresh = iter(range(700, 720))       # payloads are pairwise distinct within a scenario
            for _ in range(rng.randint(0, 2)):
                lc.append((rng.randint(1, 3), rng.choice("ISSX"), rng.choice([["panic"], ["send", next(fresh)], ["poison"], ["stop"], ["panic"]])))
            lc = [l for l in lc if not (l[1] == "X" and l[2][0] in ("panic",))]
            if rng.random() < 0.2:
                lc.append((rng.randint(1, 2), "X", rng.choice([["poison"], ["stop"]])))
            ops = []
            fresh_op = iter(range(900, 920))
            for _ in range(rng.randint(0, 4)):
                ops.append(rng.choice([("send", next(fresh_op)), ("poison",), ("stop",)]))
            cases.append({"input": build_script(items, rng.randint(0, 3), rng.randrange(4), lifecycle=lc, ops=ops), "class": "random"})
        # every fifth scenario runs with the scripted actor spawned by Context.SpawnChild from an otherwise idle
        # parent instead of Engine.Spawn (same options, same script: the model is that of one process either way)
        for k, c in enumerate(cases):
            if k % 5 == 2 and not c["input"].get("decoy"):
                c["input"]["as_child"] = True
                c["class"] += "_as_child"
        return cases

    def to_coq(self, inp, obs):
        return "{| c_prop := %s; c_maxr := %s; c_chain := %s; c_table := %s; c_ops := %s; c_obs := %s |}" % (
            C.cnat(self.prop), C.cnat(inp["max_restarts"]), C.cnat(inp["chain"]),
            C.clist([rule_coq(r) for r in inp["script"]]), C.clist([op_coq(o) for o in inp["ops"]]), obs_coq(obs))

    def shrink(self, inp):
        out = []
        for i in range(len(inp["ops"])):
            out.append(dict(inp, ops=inp["ops"][:i] + inp["ops"][i + 1:]))
        for ri, r in enumerate(inp["script"]):
            for ai in range(len(r["do"])):
                nr = dict(r, do=r["do"][:ai] + r["do"][ai + 1:])
                sc = inp["script"][:ri] + ([nr] if nr["do"] else []) + inp["script"][ri + 1:]
                out.append(dict(inp, script=sc))
        if inp["chain"] > 0:
            out.append(dict(inp, chain=inp["chain"] - 1))
        return out


COQ_FILES = ["Proc.v", "ProcProofs.v", "ProcExec.v", "PropsProc.v"]
TRUSTED_BASE = [
    "Coq 8.16.1 kernel; vm_compute (model run on every scenario); no native_compute",
    "axioms: none (Print Assumptions below)",
    "correspondence: harness cmd/hv family 'proc' (scripted receiver, logging middlewares, event monitor, pill waiters on a real "
    "engine through the public API), hook tools/hooks/actor/hooks.go (VerifIdle: quiescence detection only), vlib/props/proc_common.py",
    "modelled not verified: user code as a script (function of incarnation and message); defer/recover per the Go spec; "
    "one worker at a time (C02); RestartDelay is a sleep with no other effect; stack traces, timestamps, slog are left out",
]
ASSUMPTIONS = [
    "hand-written statement-level model Proc.v of actor/process.go (+ the self-directed parts of engine.go and the run loop of inbox.go); "
    "tie = differential execution of generated scenarios: delivery stream, event stream, pill outcomes, final registration compared",
    "scenarios are single-actor and phase-separated (every external operation is issued at quiescence), which makes batch formation deterministic",
]


class ProcSched(Part):
    """the real engine (process.go + inbox.go + registry.go) under the deterministic scheduler:
    random schedules of a spawn racing with senders, a panic (restart) and a poison"""
    name = "engine_sched"
    binary = "hvs"
    family = "procsched"
    exec_module = "ProcSchedExec"
    shard = 150
    branch_names = {1: "restart", 2: "stopped", 3: "dead_letters", 4: "delivery_to_later_incarnation"}

    def generate(self, rng, tier):
        walks = 120 if tier == "quick" else 1500
        cfgs = [
            dict(senders=[[1, 2], [3]], panic_on=[2], max_restarts=2, poison="poison"),
            dict(senders=[[1, 2, 3]], panic_on=[1, 3], max_restarts=1, poison=""),
            dict(senders=[[1], [2], [3]], panic_on=[], max_restarts=0, poison="stop"),
            dict(senders=[[1, 2], [3, 4]], panic_on=[3], max_restarts=3, poison="", self_poison=2),
            dict(senders=[[1, 2, 3, 4]], panic_on=[2], max_restarts=0, poison="poison"),
            dict(senders=[[1, 2], [3, 4], [5]], panic_on=[4], max_restarts=2, poison="stop"),
            # several stoppers racing each other and the actor's cleanup
            dict(senders=[], panic_on=[], max_restarts=0, poison="", poisoners=["stop", "stop"], walks_factor=6, mode="pct"),
            dict(senders=[], panic_on=[], max_restarts=0, poison="", poisoners=["poison", "stop", "poison"], walks_factor=6, mode="pct"),
            dict(senders=[[1]], panic_on=[], max_restarts=0, poison="", poisoners=["stop", "poison"], walks_factor=4, mode="pct"),
            dict(senders=[[1, 2], [3]], panic_on=[2], max_restarts=2, poison="poison", walks_factor=2, mode="pct"),
        ]
        return [{"input": dict(c, walks=walks * c.get("walks_factor", 1), seed=rng.randrange(1 << 30)), "class": "walks"} for c in cfgs]

    def term_coq(self, inp, t):
        recvs = C.clist(["(%s, %s)" % (C.cnat(r["inc"]), lmsg_coq(r["msg"])) for r in t["recvs"]])
        return ("{| c_recvs := %s; c_overlap := %s; c_deadlock := %s; c_stuck := %s; c_terminal := %s; c_sent := %s; "
                "c_dead := %s; c_restarts_scripted := %s; c_pills_done := " + C.clist([C.cbool(d) for d in t.get("pills_done", [])]) + " |}") % (
            recvs, C.cbool(t["overlap"]), C.cbool(t["deadlock"]), C.cbool(t.get("stuck", False)), C.cbool(t["terminal"]),
            C.clist([C.cnat(n) for n in t["sent"]]), C.clist([C.cnat(n) for n in t["dead"]]), C.cnat(len(inp["panic_on"])))

    def to_coq(self, inp, obs):
        if "terminals" not in obs:
            return [self.term_coq(inp, obs["obs"])]
        return [self.term_coq(inp, t) for t in (obs.get("terminals") or [])]

    def extra_coverage(self, inputs, obs):
        return dict(schedules_enumerated=sum(o.get("executions", 1) for o in obs),
                    transitions=sum(o.get("transitions", 0) for o in obs),
                    distinct_terminal_observations=sum(len(o.get("terminals") or []) for o in obs),
                    stuck=sum(o.get("stuck", 0) for o in obs))

    def describe_obs(self, obs):
        if "terminals" not in obs:
            return obs
        d = {k: obs.get(k) for k in ("executions", "transitions", "deadlocks", "stuck")}
        d["terminals"] = (obs.get("terminals") or [])[:2]
        if obs.get("bad"):
            b = obs["bad"][0]
            d["failing_schedule"] = {"choices": b["choices"], "obs": b["obs"]}
        return d
