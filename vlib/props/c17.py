"""C17 — remote sends arrive once and in order; unreachable peers are reported
(and defect D12: the Shutdown / router race)."""
import itertools, os
from ..driver import Part
from .. import common as C

COQ_FILES = ["Wire.v", "WireProofs.v", "Remote.v", "RemoteExec.v", "RemoteProofs.v", "PropsRemote.v"]
THEOREMS = ["C17_up_exactly_once_in_order", "C17_unreachable_reported", "C17_fresh_attempt_after_unreachable",
            "C17_no_stale_entry_when_router_quiet", "C17_start_stop_idempotent", "C17_stopped_never_listens",
            "C17_no_blackhole", "C17_blackhole_pinned_refuted", "C17_blackhole_is_permanent",
            "C17_connection_loss_drops_silently", "C17_oracle_up_holds_for_every_drained_schedule",
            "C17_oracle_holds_of_model"]
RULE = ("one pool of harness processes runs (net, binary hvn) real engines with real remotes over loopback TCP, addresses private to "
        "the harness process: 'up' = k senders (goroutines, goroutines with a sender PID, actors) x n numbered messages over several "
        "recording actors on 1-2 peers nobody has talked to yet (the senders start at once, so the first messages race the set-up of "
        "the connection) plus requests across nodes, closed by per-sender fences; burst variants with thousands of messages per sender "
        "run several rounds on fresh addresses; 'down' = messages for an address nobody listens on (monitor: RemoteUnreachableEvent, "
        "DeadLetterEvents with the streamDeliver opened by a hook), then the peer is started there and more messages are sent (one "
        "episode of 3 s dial back-off in the quick tier, several side by side in the thorough tier); 'reconnect' = the peer is "
        "restarted on its address while senders keep sending bursts (what arrives, over the incarnations in turn, must be per sender "
        "without repetition and in order); 'churn' (thorough) = ten restarts under a trickle of messages, then a fresh attempt must "
        "deliver; 'stop' = every Start/Stop call sequence up to length 4 with a TCP probe of the listener after each call, and "
        "engine-level probes (another node sends a message); and (race, binary hvr) the real router actor and real stream writers with "
        "inbox.go / registry.go under the deterministic scheduler and an in-memory connection: a goroutine runs W1.Shutdown() (what the "
        "writer's goroutine does once conn.Closed() fires) against sender goroutines and all inbox workers; schedules enumerated by DFS "
        "with visited-state pruning (exhaustive for the smallest configuration in the thorough tier), sampled by seeded random walks, and "
        "one recorded schedule (the D12 witness) replayed; each distinct terminal observation must be a terminal observation of the "
        "interleaving machine of Remote.v (enumerated in Coq) and must not be black-holed. Observations of what recording actors received "
        "are projected per sender and run-length encoded by the harness. A case is non-trivial when it reaches one of the tagged "
        "situations (several senders / targets / peers, sender PIDs, replies, unreachable episode, fresh attempt, Start twice, Stop "
        "twice, Start after Stop, dead letter between Remove and the notification, message stuck in a stopped inbox, fresh writer "
        "spawned, reconnect with losses)")
EXHAUSTIVE = False
TRUSTED_BASE = [
    "Coq 8.16.1 kernel; vm_compute (model runs on the cases, enumeration of the interleaving machine, the witness schedule); no native_compute",
    "axioms: none (Print Assumptions below)",
    "correspondence harness: /verif/harness cmd/hvn family remote17 (public API + hook files tools/hooks/remote/remote17.go: opens a "
    "streamDeliver, router PID; tools/hooks/actor/{hooks,remote17}.go: idleness of an actor), cmd/hvr family remote17race "
    "(tools/shimgen import rewrites of inbox.go, registry.go and — import \"net\" -> verifshim/ynet only — stream_writer.go; "
    "tools/verifshim/vsched; the same hook files plus tools/hookx/remote/race17.go: the router's producer and a streamDeliver "
    "constructor), both built by vlib/props/c17.py with an overlay of exactly these files, and the front script hvx it writes "
    "(routes each case to its binary); the per-sender projection and run-length encoding of what was received is done by the harness",
    "modelled not verified: dRPC/TCP is a reliable FIFO channel while the connection is up (section 3.7); the inbox layer gives "
    "per-inbox FIFO, exactly once, one batch at a time (C01-C03) — the router's and the writers' inboxes are lists; payload "
    "(de)serialisation is an oracle with deser(ser m) = m (C15's hypothesis); the three dial attempts of one init see the same "
    "reachability; in the race harness the loss of the connection is played by the harness (a goroutine calling Shutdown) and "
    "the connection is an in-memory sink that parses the dRPC frames it is given",
]
ASSUMPTIONS = [
    "hand-written models (Remote.v) of remote.go's state machine, stream_router.go, the life cycle of stream_writer.go and "
    "stream_reader.go; tie = differential execution on the scenarios above (per sender and target: same sequences; same dead "
    "letters per sender; same Start/Stop answers and listener states) and, for the race, inclusion of the implementation's "
    "terminal observations in the machine's",
    "the theorems about the interleaving machine are for the repaired order of Shutdown's statements (fixes/D12.diff: Remove "
    "first); for the pinned order C17_blackhole_pinned_refuted gives the witness schedule, which the race harness replays on the real code",
    "messages in the inbox of a writer whose connection is lost are dropped silently by the code (C17_connection_loss_drops_silently); "
    "the property only promises delivery while the connection stays up and dead letters for a connection attempt that failed",
]

ORDER = {"notify-first": "Pinned", "remove-first": "Repaired", "": "Repaired"}

# the schedule (indices among the enabled goroutines, per step) found by the DFS on the pinned tree for
# senders [[2]]: Shutdown runs up to and including its notification, the router handles the event and
# message 2 (duplicate spawn), Shutdown finishes
D12_WITNESS = [0, 0, 0, 0, 0, 0, 0, 1, 1, 1, 1, 1, 1]


class _SubWork:
    """a sub-directory of the invocation's scratch directory (harness builds that run side by side must not
    share go.mod / overlay.json)"""
    def __init__(self, work, name):
        self.dir = work.path(name)
        os.makedirs(self.dir, exist_ok=True)

    def path(self, *p):
        return os.path.join(self.dir, *p)


# The two harness binaries of this check are built with an overlay that holds only the hook files they
# use, so that a change in /repo that breaks another check's hook file (e.g. a new parameter of an
# unexported constructor of package remote) does not keep this check from running its scenarios.
HOOKS_NET = [("actor", "hooks.go"), ("actor", "remote17.go"), ("remote", "remote17.go")]


def _hook_overlay(hooks):
    return {os.path.join(C.REPO, pkg, "zz_verif_" + f): os.path.join(C.VERIF, "tools", "hooks", pkg, f) for pkg, f in hooks}


def _go_build(work, binary, repl):
    modsrc = open(os.path.join(C.HARNESS, "go.mod")).read().replace("=> /repo", "=> " + C.REPO)
    modfile = work.path("go.mod")
    open(modfile, "w").write(modsrc)
    import shutil, json
    shutil.copy(os.path.join(C.REPO, "go.sum"), work.path("go.sum"))
    overlay = work.path("overlay.json")
    json.dump({"Replace": repl}, open(overlay, "w"), indent=1)
    out_bin = work.path(binary)
    rc, out = C.sh(["go", "build", "-modfile", modfile, "-tags", "verif", "-overlay", overlay, "-o", out_bin, "./cmd/" + binary],
                   cwd=C.HARNESS, env=dict(C.GOENV), timeout=900)
    return (out_bin if rc == 0 else None), out


def _build_hvn(work):
    return _go_build(work, "hvn", _hook_overlay(HOOKS_NET))


def _build_hvr(work):
    try:
        repl = dict(C.shim_overlay(work))   # the scheduler shims of inbox.go / registry.go / ringbuffer.go (builds shimgen)
        gen = work.path("shimgen")
        src = os.path.join(C.REPO, "remote", "stream_writer.go")
        out_f = work.path("shim", "remote_stream_writer.go")
        rc, out = C.sh([gen, "-in", src, "-out", out_f, "-map", "net=%s/verifshim/ynet" % C.MODPATH], timeout=60)
        if rc != 0:
            return None, "shimgen failed on stream_writer.go: " + out
        if "1 imports rewritten" not in out:
            return None, "stream_writer.go no longer imports \"net\" exactly once: " + out
    except RuntimeError as e:
        return None, str(e)
    repl.update(_hook_overlay(HOOKS_NET))
    repl[os.path.join(C.REPO, "remote", "zz_verif_race17.go")] = os.path.join(C.VERIF, "tools", "hookx", "remote", "race17.go")
    repl[os.path.join(C.REPO, "verifshim", "ynet", "ynet.go")] = os.path.join(C.VERIF, "tools", "verifshim", "ynet", "ynet.go")
    repl[src] = out_f
    return _go_build(work, "hvr", repl)


WRAPPER = r'''#!/usr/bin/env python3
# hvx: one harness front for both binaries of C17, so that the driver runs the network scenarios (hvn) and
# the scheduler runs (hvr) side by side in its pool of harness processes.  Cases with a "kind" go to hvn
# family remote17, the others to hvr family remote17race; order of the observations = order of the cases.
import json, subprocess, sys
HVN, HVR, HVR_ERR = %r, %r, %r
lines = [l for l in sys.stdin if l.strip()]
i = 0
while i < len(lines):
    race = "kind" not in json.loads(lines[i])
    j = i
    while j < len(lines) and ("kind" not in json.loads(lines[j])) == race:
        j += 1
    group = lines[i:j]
    i = j
    if race and not HVR:
        for _ in group:
            print(json.dumps({"build_failed": True, "err": HVR_ERR}))
        sys.stdout.flush()
        continue
    p = subprocess.run([HVR, "remote17race"] if race else [HVN, "remote17"], input="".join(group), stdout=subprocess.PIPE, text=True)
    sys.stdout.write(p.stdout)
    sys.stdout.flush()
    if p.returncode != 0:
        sys.exit(p.returncode)
'''


def build(binary, work):
    """builds hvn and hvr side by side and returns the front script hvx"""
    import threading, stat
    box = {}
    th = threading.Thread(target=lambda: box.setdefault("r", _build_hvr(_SubWork(work, "build-hvr"))), daemon=True)
    th.start()
    hvn, out = _build_hvn(_SubWork(work, "build-hvn"))
    th.join()
    hvr, rout = box.get("r", (None, "background build failed"))
    if hvn is None:
        return None, out
    p = work.path("hvx")
    open(p, "w").write(WRAPPER % (hvn, hvr or "", "" if hvr else "the scheduler-shimmed harness (hvr) could not be built against this tree:\n" + rout[-2500:]))
    os.chmod(p, os.stat(p).st_mode | stat.S_IXUSR | stat.S_IXGRP | stat.S_IXOTH)
    return p, out + rout


def runs_coq(runs, stride):
    """what one recording actor saw, per sender and run-length encoded, as a Coq expression of type list seen"""
    return "(expand_runs %s %s)" % (C.cnat(stride), C.clist(
        ["(%s, %s, %s, %s)" % (C.cnat(min(r[0], 4999)), C.cnat(min(r[1], 4999)), C.cnat(min(r[2], 4999)), C.cbool(r[3] == 1)) for r in runs]))


def bools(bs):
    return C.clist([C.cbool(b) for b in bs])


def robs_coq(o):
    reg = o["reg"]
    return "{| o_has := %s; o_reg := %s; o_dead := %s; o_wire := %s; o_stuck := %s; o_dups := %s |}" % (
        C.cbool(o["has"]), "None" if reg == 0 else "(Some %s)" % C.cnat(reg - 1 if reg > 0 else 99),
        C.clist([C.cnat(x) for x in o["dead"]]),
        C.clist([C.clist([C.cnat(x) for x in w]) for w in (o.get("wire") or [])]),
        C.clist([C.cnat(x) for x in (o.get("stuck") or [])]), C.cnat(o["dups"]))



def is_race(inp):
    return "kind" not in inp


class All(Part):
    """one part for both harness binaries (front script hvx): the network scenarios and the scheduler runs share
    the driver's pool of harness processes, so the wall time is that of the slowest single case (an episode of
    dial back-off) and the Coq side evaluates everything in one round"""
    name = "all"
    binary = "hvx"
    family = "c17"
    exec_module = "RemoteExec"
    shard = 6
    branch_names = {1: "several_senders", 2: "several_targets_on_a_peer", 3: "two_peers", 4: "sender_pids", 5: "replies_across_nodes",
                    6: "over_1000_messages", 7: "senders_without_pid", 10: "unreachable_episode", 11: "down_several_senders",
                    12: "fresh_attempt_delivered", 13: "several_dead_letters", 20: "start_twice", 21: "stop_twice",
                    22: "start_after_stop", 23: "stop_before_start",
                    30: "black_holed_terminal_state", 31: "every_machine_terminal_seen_on_the_implementation",
                    32: "dead_letter_while_shutting_down", 33: "message_stuck_in_stopped_inbox", 34: "fresh_writer_spawned",
                    35: "all_schedules_enumerated", 40: "reconnect_with_losses", 41: "reconnect_deliveries"}
    crash_obs = {"kind": "crash", "err": "harness process died", "runs": [], "hang": True}

    # ---------------------------------------------------------------- cases
    def race_cases(self, rng, tier):
        q = [dict(senders=[[2]], drop=True, mode="dfs", max_execs=2500),
             dict(senders=[[2]], drop=True, mode="walk", max_execs=1500),
             dict(senders=[[2, 3]], drop=True, mode="walk", max_execs=1200),
             dict(senders=[[2]], drop=True, mode="replay", choices=D12_WITNESS),
             dict(senders=[[2]], drop=False, mode="dfs", max_execs=2500)]
        t = [dict(senders=[[2]], drop=True, mode="dfs", max_execs=400000),
             dict(senders=[[2, 3]], drop=True, mode="walk", max_execs=15000),
             dict(senders=[[2], [3]], drop=True, mode="walk", max_execs=15000),
             dict(senders=[[2, 3, 4]], drop=True, mode="walk", max_execs=10000),
             dict(senders=[[2, 3]], drop=True, mode="dfs", max_execs=80000)]
        return [dict(c, seed=rng.randrange(1 << 30)) for c in (t if tier == "thorough" else []) + q]

    def generate(self, rng, tier):
        thorough = tier == "thorough"
        downs = [dict(kind="down", ntargets=2, senders=[True, False, False], m=5, n=30),
                 # the same over TLS: a failed tls.Dial must be reported like a failed net.Dial (fix 8cbc6db)
                 dict(kind="down", ntargets=1, senders=[True, False], m=4, n=12, tls=True)]
        if thorough:
            downs += [dict(kind="down", ntargets=1, senders=[False], m=1, n=1),
                      dict(kind="down", ntargets=3, senders=[True, True], m=40, n=200),
                      dict(kind="down", ntargets=1, senders=[False, True, False, True], m=100, n=100),
                      dict(kind="down", ntargets=2, senders=[True], m=0, n=10)] + \
                     [dict(kind="down", ntargets=rng.randint(1, 3), senders=[rng.random() < 0.5 for _ in range(rng.randint(1, 4))],
                           m=rng.randint(1, 60), n=rng.randint(1, 100)) for _ in range(4)]
        # senders that start at once at a peer nobody has talked to yet, with enough messages that the stream is
        # still being set up while the first ones queue at the router (each round uses fresh addresses)
        bursts = [dict(kind="up", peers=1, targets=[[1, 0]], senders=[False, False, False, False], per=1500, requests=0, rounds=3)]
        # the peer is restarted on its address while senders keep sending bursts
        reconnects = [dict(kind="reconnect", senders=[False, False], bursts=36, per=3000, gap_us=40000, restarts=1)]
        probes = [dict(kind="stop", calls=["start", "stop"], engine_probe=True),
                  dict(kind="stop", calls=["start"], engine_probe=True),
                  # several goroutines stop one running remote at the same moment: nobody blocks (fix 6a3e638)
                  dict(kind="stop", calls=["start", "stop"], engine_probe=False, racers=4, race_rounds=200 if thorough else 60)]
        churns = []
        if thorough:
            bursts += [dict(kind="up", peers=1, targets=[[1, 0]], senders=[True, False, True, False], per=4900, requests=0, rounds=2),
                       dict(kind="up", peers=1, targets=[[1, 0], [1, 1]], senders=[False, True, False], per=3000, requests=0, rounds=3),
                       dict(kind="up", peers=2, targets=[[1, 0], [2, 0]], senders=[False, False], per=4000, requests=2, rounds=3),
                       dict(kind="up", peers=1, targets=[[1, 0]], senders=[False], per=4900, requests=0, rounds=4)]
            reconnects += [dict(kind="reconnect", senders=[False, False], bursts=60, per=3000, gap_us=50000, restarts=2),
                           dict(kind="reconnect", senders=[False, False, False], bursts=40, per=2000, gap_us=30000, restarts=3),
                           dict(kind="reconnect", senders=[False], bursts=80, per=4000, gap_us=20000, restarts=2)]
            churns = [dict(kind="churn", cycles=10, gap_us=g, per=50) for g in (0, 30, 100, 300, 1000, 3000)]
            probes += [dict(kind="stop", calls=["start", "stop", "start"], engine_probe=True),
                       dict(kind="stop", calls=["start", "stop", "stop"], engine_probe=True)]
        ups = [dict(kind="up", peers=1, targets=[[1, 0], [1, 1], [1, 2]], senders=[True, False, True, False], per=600 if thorough else 300, requests=8),
               dict(kind="up", peers=2, targets=[[1, 0], [2, 0], [1, 1]], senders=[True, True, False], per=400 if thorough else 200, requests=4),
               dict(kind="up", peers=1, targets=[[1, 0]], senders=[True, True, True, True], per=1000 if thorough else 320, requests=0),
               dict(kind="up", peers=1, targets=[[1, 0]], senders=[False], per=200, requests=1),
               # two senders of the same id, one of them behind a foreign address, interleaved in the same batches
               dict(kind="up", peers=1, targets=[[1, 0]], senders=[False, True, False, True], per=400, requests=0, twins=True)]
        for _ in range(24 if thorough else 2):
            peers = rng.randint(1, 2)
            nt = rng.randint(1, 4)
            targets = [[rng.randint(1, peers), t] for t in range(nt)]
            if peers == 2 and not any(t[0] == 2 for t in targets):
                targets[0][0] = 2
            ns = rng.randint(1, 4)
            ups.append(dict(kind="up", peers=peers, targets=targets, senders=[rng.random() < 0.6 for _ in range(ns)],
                            per=rng.randint(1, 1200 if thorough else 300), requests=rng.randint(0, 6)))
        stops = []
        for n in range(1, (5 if thorough else 4) + 1):
            for combo in itertools.product(["start", "stop"], repeat=n):
                stops.append(dict(kind="stop", calls=list(combo), engine_probe=False))
        races = self.race_cases(rng, tier)
        # Order.  The driver deals the cases round robin to its harness processes (one per CPU) and the Coq side
        # evaluates blocks of `shard` consecutive cases side by side.  So: everything that takes seconds comes
        # first (one such case per process), costly evaluations (bursts, scheduler runs) are spread over the
        # blocks, and the many instant Start/Stop cases come last.
        slow = []
        pools = [downs, bursts, reconnects, races, probes, churns]
        while any(pools):
            for pl in pools:
                if pl:
                    slow.append(pl.pop(0))
        cs = slow + ups + stops
        return [{"input": c, "class": ("race-" + c["mode"]) if is_race(c) else c["kind"]} for c in cs]

    # ---------------------------------------------------------------- Coq terms
    def to_coq(self, inp, obs):
        if is_race(inp):
            return self.race_to_coq(inp, obs)
        bad = bool(obs.get("err")) or obs.get("kind") != inp["kind"]
        if inp["kind"] == "reconnect":
            return "KReconnect {| k_bursts := %s; k_per := %s; k_got := %s |}" % (
                C.cnat(inp["bursts"]), C.cnat(inp["per"]),
                # an observation that could not be made is rendered as a repeated message
                "[[(0%nat, 0%nat, 1%nat); (0%nat, 0%nat, 1%nat)]]" if bad else
                C.clist([C.clist(["(%s, %s, %s)" % tuple(C.cnat(min(v, 4999)) for v in r) for r in rs]) for rs in (obs.get("bruns") or [])]))
        if inp["kind"] == "churn":
            # what is checked is the fresh attempt at the end: one sender, one target, `per` messages
            inp = dict(kind="up", peers=1, targets=[[1, 0]], senders=[False], per=inp["per"], requests=0)
            obs = dict(obs, kind="up" if obs.get("kind") == "churn" else obs.get("kind"))
        if inp["kind"] == "up":
            runs = obs.get("runs") or []
            return ("KUp {| u_peers := %s; u_targets := %s; u_senders := %s; u_per := %s; u_batch := %s; u_got := %s; "
                    "u_requests := %s; u_replies := %s |}") % (
                C.clist([C.cnat(p) for p in range(1, inp["peers"] + 1)]),
                C.clist(["(%s, %s)" % (C.cnat(t[0]), C.cnat(t[1])) for t in inp["targets"]]),
                bools(inp["senders"]), C.cnat(inp["per"]), C.cnat(63),
                C.clist([runs_coq(g, len(inp["targets"])) for g in runs]) if not bad else "[]",
                C.cnat(inp["requests"]), C.cnat(min(obs.get("replies", 0), 4999)))
        if inp["kind"] == "down":
            return ("KDown {| d_targets := %s; d_senders := %s; d_m := %s; d_n := %s; d_unreach1 := %s; d_dead1 := %s; d_got1 := %s; "
                    "d_unreach2 := %s; d_dead2 := %s; d_got2 := %s |}") % (
                C.cnat(inp["ntargets"]), bools(inp["senders"]), C.cnat(inp["m"]), C.cnat(inp["n"]),
                C.cnat(min(obs.get("unreach1", 0), 4999) if not bad else 4999),
                C.clist(["(%s, %s, %s)" % tuple(C.cnat(min(v, 4999)) for v in x) for x in (obs.get("dead1") or [])]),
                C.cnat(min(obs.get("got1", 0), 4999)), C.cnat(min(obs.get("unreach2", 0), 4999)),
                C.cnat(min(obs.get("dead2", 0), 4999)),
                C.clist([runs_coq(g, inp["ntargets"]) for g in (obs.get("runs") or [])]))
        calls = obs.get("calls") or []
        probe = obs.get("probe") or []
        if inp.get("engine_probe") and not probe:
            bad = True
        return "KStop {| s_calls := %s; s_obs := %s; s_probe := %s |}" % (
            C.clist(["CStart" if c == "start" else "CStop" for c in inp["calls"]]),
            C.clist(["(%s, %s)" % (C.cbool(x[0]), C.cbool(x[1])) for x in calls]) if not bad else "[]",
            bools(probe))

    def race_to_coq(self, inp, obs):
        terms = list(obs.get("terminals") or [])
        order = ""
        for t in terms:
            if t.get("order"):
                order = t["order"]
                break
        bad_run = bool(obs.get("build_failed")) or obs.get("stuck", 0) > 0 or obs.get("deadlocks", 0) > 0 or not terms
        if bad_run:
            # no harness, or a stuck or deadlocked execution: rendered as an observation that no machine run has
            # (so the correspondence fails) but that the oracle has nothing against
            terms = terms + [dict(has=True, reg=-1, dead=[4999], wire=[], stuck=[], dups=0)]
        return ("KRace {| r_order := %s; r_senders := %s; r_drop := %s; r_exhaustive := %s; r_terms := %s |}") % (
            ORDER.get(order, "Repaired"),
            C.clist([C.clist([C.cnat(n) for n in ms]) for ms in inp["senders"]]), C.cbool(inp["drop"]),
            C.cbool(bool(obs.get("exhaustive")) and inp["mode"] == "dfs"),
            C.clist([robs_coq(t) for t in terms if t.get("terminal", True) or bad_run]))

    # ---------------------------------------------------------------- evidence, shrinking, printing
    def extra_coverage(self, inputs, obs):
        pairs = [(i["input"], o) for i, o in zip(inputs, obs) if is_race(i["input"]) and not o.get("build_failed")]
        return dict(
            schedules_enumerated=sum(o.get("executions", 0) for _, o in pairs),
            states=sum(o.get("states", 0) for _, o in pairs),
            transitions=sum(o.get("transitions", 0) for _, o in pairs),
            distinct_terminal_observations=sum(len(o.get("terminals") or []) for _, o in pairs),
            exhaustive_configs=sum(1 for i, o in pairs if i["mode"] == "dfs" and o.get("exhaustive")),
            configs=[{"senders": i["senders"], "drop": i["drop"], "mode": i["mode"], "executions": o.get("executions"),
                      "states": o.get("states"), "exhaustive": o.get("exhaustive"), "black_holed": len(o.get("bad") or [])}
                     for i, o in pairs],
            messages_over_tcp=sum(sum(o.get("received") or []) + sum(sum(r[2] for r in rs) for rs in (o.get("bruns") or []))
                                  for i, o in zip(inputs, obs) if not is_race(i["input"])))

    def shrink(self, inp):
        out = []
        if is_race(inp):
            return out
        if inp["kind"] == "up":
            if inp["per"] > 1:
                out.append(dict(inp, per=inp["per"] // 2))
            if len(inp["senders"]) > 1:
                out.append(dict(inp, senders=inp["senders"][:-1]))
                out.append(dict(inp, senders=inp["senders"][1:]))
            if len(inp["targets"]) > 1:
                ts = inp["targets"][:-1]
                out.append(dict(inp, targets=ts, peers=max(t[0] for t in ts)))
            if inp["requests"]:
                out.append(dict(inp, requests=0))
        elif inp["kind"] == "down":
            for k in ("m", "n"):
                if inp[k] > 1:
                    out.append(dict(inp, **{k: inp[k] // 2}))
            if len(inp["senders"]) > 1:
                out.append(dict(inp, senders=inp["senders"][:-1]))
            if inp["ntargets"] > 1:
                out.append(dict(inp, ntargets=inp["ntargets"] - 1))
        elif inp["kind"] == "reconnect":
            if len(inp["senders"]) > 1:
                out.append(dict(inp, senders=inp["senders"][:-1]))
            if inp["bursts"] > 8:
                out.append(dict(inp, bursts=inp["bursts"] // 2))
        elif inp["kind"] == "stop" and not inp.get("engine_probe"):
            cs = inp["calls"]
            for i in range(len(cs)):
                if len(cs) > 1:
                    out.append(dict(inp, calls=cs[:i] + cs[i + 1:]))
        return out

    def describe_obs(self, obs):
        if "terminals" in obs or obs.get("build_failed"):
            d = {k: obs.get(k) for k in ("executions", "states", "transitions", "exhaustive", "stuck", "deadlocks", "build_failed", "err")
                 if obs.get(k) is not None}
            d["terminals"] = obs.get("terminals")
            if obs.get("bad"):
                b = obs["bad"][0]
                d["black_holed_schedule"] = {"choices": b["choices"], "sched": b["sched"], "obs": b["obs"],
                                             "trace": [[e["g"], e["op"]] + list(e.get("a") or []) for e in b["trace"]]}
            return d
        d = dict(obs)
        for k in ("runs", "bruns"):
            if d.get(k):
                d[k] = [rs if len(rs) <= 12 else rs[:12] + ["... %d runs in all" % len(rs)] for rs in d[k]]
        if d.get("dead1") and len(d["dead1"]) > 8:
            d["dead1"] = d["dead1"][:8] + ["... %d in all" % len(obs["dead1"])]
        return d


PARTS = [All()]
