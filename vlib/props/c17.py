"""C17 — remote sends arrive once and in order; unreachable peers are reported
(and defect D12: the Shutdown / router race)."""
import itertools, os
from ..driver import Part
from .. import common as C

COQ_FILES = ["Wire.v", "WireProofs.v", "Remote.v", "RemoteExec.v", "RemoteProofs.v", "PropsRemote.v"]
THEOREMS = ["C17_up_exactly_once_in_order", "C17_unreachable_reported", "C17_fresh_attempt_after_unreachable",
            "C17_no_stale_entry_when_router_quiet", "C17_start_stop_idempotent", "C17_stopped_never_listens",
            "C17_no_blackhole", "C17_blackhole_pinned_refuted", "C17_blackhole_is_permanent",
            "C17_connection_loss_drops_silently", "C17_oracle_up_holds_for_every_drained_schedule",
            "C17_oracle_holds_of_model"]
RULE = ("(net) real engines with real remotes over loopback TCP in one process, addresses private to the harness process: "
        "'up' = k senders (goroutines, goroutines with a sender PID, actors) x n numbered messages over several recording "
        "actors on 1-2 peers plus requests across nodes, closed by per-sender fences; 'down' = messages for an address "
        "nobody listens on (monitor: RemoteUnreachableEvent, DeadLetterEvents with the streamDeliver opened by a hook), then "
        "the peer is started there and more messages are sent (one episode of 3 s dial back-off in the quick tier, several in "
        "parallel processes in the thorough tier); 'stop' = every Start/Stop call sequence up to length 4 with a TCP probe of "
        "the listener after each call, and engine-level probes (another node sends a message). (race) the real router actor and "
        "real stream writers with inbox.go / registry.go under the deterministic scheduler and an in-memory connection: a "
        "goroutine runs W1.Shutdown() (what the writer's goroutine does once conn.Closed() fires) against sender goroutines and "
        "all inbox workers; schedules enumerated by DFS with visited-state pruning (exhaustive for the smallest configuration in "
        "the thorough tier), sampled by seeded random walks, and one recorded schedule replayed; each distinct terminal "
        "observation must be a terminal observation of the interleaving machine of Remote.v (enumerated in Coq) and must not be "
        "black-holed. A case is non-trivial when it reaches one of the tagged situations (several senders / targets / peers, "
        "sender PIDs, replies, unreachable episode, fresh attempt, Start twice, Stop twice, Start after Stop, dead letter "
        "between Remove and the notification, message stuck in a stopped inbox, fresh writer spawned)")
EXHAUSTIVE = False
TRUSTED_BASE = [
    "Coq 8.16.1 kernel; vm_compute (model runs on the cases, enumeration of the interleaving machine, the witness schedule); no native_compute",
    "axioms: none (Print Assumptions below)",
    "correspondence harness: /verif/harness cmd/hv family remote17 (public API + hook file tools/hooks/remote/remote17.go: "
    "opens a streamDeliver, router PID), cmd/hvr family remote17race (tools/shimgen import rewrites of inbox.go, registry.go and "
    "— import \"net\" -> verifshim/ynet only — stream_writer.go; tools/verifshim/vsched; hook files tools/hooks/remote/remote17.go, "
    "tools/hooks/actor/remote17.go), vlib/props/c17.py",
    "modelled not verified: dRPC/TCP is a reliable FIFO channel while the connection is up (section 3.7); the inbox layer gives "
    "per-inbox FIFO, exactly once, one batch at a time (C01-C03) — the router's and the writers' inboxes are lists; payload "
    "(de)serialisation is an oracle with deser(ser m) = m (C15's hypothesis); the three dial attempts of one init see the same "
    "reachability; in the race harness the loss of the connection is played by the harness (a goroutine calling Shutdown) and "
    "the connection is an in-memory sink that parses the dRPC frames it is given",
]
ASSUMPTIONS = [
    "hand-written models (Remote.v) of remote.go's state machine, stream_router.go, the life cycle of stream_writer.go and "
    "stream_reader.go; tie = differential execution on the scenarios above (per sender and target: same sequences; same dead "
    "letters per sender; same Start/Stop answers and listener states) and, for the race, inclusion of the implementation's "
    "terminal observations in the machine's",
    "the theorems about the interleaving machine are for the repaired order of Shutdown's statements (fixes/D12.diff: Remove "
    "first); for the pinned order C17_blackhole_pinned_refuted gives the witness schedule, which the race harness replays on the real code",
    "messages in the inbox of a writer whose connection is lost are dropped silently by the code (C17_connection_loss_drops_silently); "
    "the property only promises delivery while the connection stays up and dead letters for a connection attempt that failed",
]

ORDER = {"notify-first": "Pinned", "remove-first": "Repaired", "": "Repaired"}

# the schedule (indices among the enabled goroutines, per step) found by the DFS on the pinned tree for
# senders [[2]]: Shutdown runs up to and including its notification, the router handles the event and
# message 2 (duplicate spawn), Shutdown finishes
D12_WITNESS = [0, 0, 0, 0, 0, 0, 0, 1, 1, 1, 1, 1, 1]


_BG = {}


class _SubWork:
    """a sub-directory of the invocation's scratch directory: the two harness builds that run side by side
    must not share go.mod / overlay.json"""
    def __init__(self, work, name):
        self.dir = work.path(name)
        os.makedirs(self.dir, exist_ok=True)

    def path(self, *p):
        return os.path.join(self.dir, *p)


def build(binary, work):
    """hv and hvr are built side by side: asking for the first starts the other in a thread"""
    import threading
    if not _BG:
        other = "hvr" if binary != "hvr" else "hv"
        box = {}
        th = threading.Thread(target=lambda: box.setdefault("r", _build(other, _SubWork(work, "build-" + other))), daemon=True)
        th.start()
        _BG[other] = (th, box)
        return _build(binary, _SubWork(work, "build-" + binary))
    if binary in _BG:
        th, box = _BG[binary]
        th.join()
        return box.get("r", (None, "background build failed"))
    return _build(binary, _SubWork(work, "build-" + binary))


def _build(binary, work):
    if binary != "hvr":
        return C.build_harness(work, binary)
    try:
        extra = C.shim_overlay(work)    # the scheduler shims of inbox.go / registry.go / ringbuffer.go (builds shimgen)
        gen = work.path("shimgen")
        src = os.path.join(C.REPO, "remote", "stream_writer.go")
        out_f = work.path("shim", "remote_stream_writer.go")
        rc, out = C.sh([gen, "-in", src, "-out", out_f, "-map", "net=%s/verifshim/ynet" % C.MODPATH], timeout=60)
        if rc != 0:
            return None, "shimgen failed on stream_writer.go: " + out
        if "1 imports rewritten" not in out:
            return None, "stream_writer.go no longer imports \"net\" exactly once: " + out
    except RuntimeError as e:
        return None, str(e)
    extra = dict(extra)
    extra[os.path.join(C.REPO, "verifshim", "ynet", "ynet.go")] = os.path.join(C.VERIF, "tools", "verifshim", "ynet", "ynet.go")
    extra[src] = out_f
    return C.build_harness(work, binary, extra_overlay=extra)


def seen_coq(g):
    return C.clist(["(%s, %s, %s)" % (C.cnat(min(x[0], 4999)), C.cnat(min(x[1], 4999)), C.cbool(x[2] == 1)) for x in g])


def bools(bs):
    return C.clist([C.cbool(b) for b in bs])


class Net(Part):
    name = "net"
    family = "remote17"
    exec_module = "RemoteExec"
    shard = 10
    branch_names = {1: "several_senders", 2: "several_targets_on_a_peer", 3: "two_peers", 4: "sender_pids", 5: "replies_across_nodes",
                    6: "over_1000_messages", 7: "senders_without_pid", 10: "unreachable_episode", 11: "down_several_senders",
                    12: "fresh_attempt_delivered", 13: "several_dead_letters", 20: "start_twice", 21: "stop_twice",
                    22: "start_after_stop", 23: "stop_before_start"}
    crash_obs = {"kind": "crash", "err": "harness process died", "got": [], "hang": True}

    def generate(self, rng, tier):
        cs = []
        # the slow ones first, so that they land in different harness processes
        downs = [dict(kind="down", ntargets=2, senders=[True, False, False], m=5, n=30)]
        if tier == "thorough":
            downs += [dict(kind="down", ntargets=1, senders=[False], m=1, n=1),
                      dict(kind="down", ntargets=3, senders=[True, True], m=40, n=200),
                      dict(kind="down", ntargets=1, senders=[False, True, False, True], m=100, n=100),
                      dict(kind="down", ntargets=2, senders=[True], m=0, n=10)] + \
                     [dict(kind="down", ntargets=rng.randint(1, 3), senders=[rng.random() < 0.5 for _ in range(rng.randint(1, 4))],
                           m=rng.randint(1, 60), n=rng.randint(1, 100)) for _ in range(4)]
        cs += downs
        if tier == "thorough":
            # the peer goes down and comes up again several times under a trickle of messages; then a fresh attempt must deliver
            cs += [dict(kind="churn", cycles=10, gap_us=g, per=50) for g in (0, 30, 100, 300, 1000, 3000)]
        cs += [dict(kind="stop", calls=["start", "stop"], engine_probe=True),
               dict(kind="stop", calls=["start"], engine_probe=True)]
        if tier == "thorough":
            cs += [dict(kind="stop", calls=["start", "stop", "start"], engine_probe=True),
                   dict(kind="stop", calls=["start", "stop", "stop"], engine_probe=True)]
        big = tier != "quick"     # (the Coq side spends ~3 ms per received message just reading the observation)
        ups = [dict(kind="up", peers=1, targets=[[1, 0], [1, 1], [1, 2]], senders=[True, False, True, False], per=600 if big else 300, requests=8),
               dict(kind="up", peers=2, targets=[[1, 0], [2, 0], [1, 1]], senders=[True, True, False], per=400 if big else 200, requests=4),
               dict(kind="up", peers=1, targets=[[1, 0]], senders=[True, True, True, True], per=1000 if big else 320, requests=0),
               dict(kind="up", peers=1, targets=[[1, 0]], senders=[False], per=200, requests=1)]
        nrand = 2 if tier == "quick" else 24
        for _ in range(nrand):
            peers = rng.randint(1, 2)
            nt = rng.randint(1, 4)
            targets = [[rng.randint(1, peers), t] for t in range(nt)]
            if peers == 2 and not any(t[0] == 2 for t in targets):
                targets[0][0] = 2
            ns = rng.randint(1, 4)
            ups.append(dict(kind="up", peers=peers, targets=targets, senders=[rng.random() < 0.6 for _ in range(ns)],
                            per=rng.randint(1, 300 if tier == "quick" else 1200), requests=rng.randint(0, 6)))
        stops = []
        maxlen = 4 if tier == "quick" else 5
        for n in range(1, maxlen + 1):
            for combo in itertools.product(["start", "stop"], repeat=n):
                stops.append(dict(kind="stop", calls=list(combo), engine_probe=False))
        # the big "up" cases are spread out: the Coq side evaluates blocks of `shard` consecutive cases
        k = max(1, len(stops) // max(1, len(ups)))
        while ups or stops:
            if ups:
                cs.append(ups.pop(0))
            cs += stops[:k]
            stops = stops[k:]
        return [{"input": c, "class": c["kind"]} for c in cs]

    def to_coq(self, inp, obs):
        bad = bool(obs.get("err")) or obs.get("kind") != inp["kind"]
        if inp["kind"] == "churn":
            # what is checked is the fresh attempt at the end: one sender, one target, `per` messages
            inp = dict(kind="up", peers=1, targets=[[1, 0]], senders=[False], per=inp["per"], requests=0)
            obs = dict(obs, kind="up" if obs.get("kind") == "churn" else obs.get("kind"))
        if inp["kind"] == "up":
            got = obs.get("got") or []
            return ("KUp {| u_peers := %s; u_targets := %s; u_senders := %s; u_per := %s; u_batch := %s; u_got := %s; "
                    "u_requests := %s; u_replies := %s |}") % (
                C.clist([C.cnat(p) for p in range(1, inp["peers"] + 1)]),
                C.clist(["(%s, %s)" % (C.cnat(t[0]), C.cnat(t[1])) for t in inp["targets"]]),
                bools(inp["senders"]), C.cnat(inp["per"]), C.cnat(63),
                C.clist([seen_coq(g) for g in got]) if not bad else "[]",
                C.cnat(inp["requests"]), C.cnat(min(obs.get("replies", 0), 4999)))
        if inp["kind"] == "down":
            return ("KDown {| d_targets := %s; d_senders := %s; d_m := %s; d_n := %s; d_unreach1 := %s; d_dead1 := %s; d_got1 := %s; "
                    "d_unreach2 := %s; d_dead2 := %s; d_got2 := %s |}") % (
                C.cnat(inp["ntargets"]), bools(inp["senders"]), C.cnat(inp["m"]), C.cnat(inp["n"]),
                C.cnat(min(obs.get("unreach1", 0), 4999) if not bad else 4999),
                C.clist(["(%s, %s, %s)" % tuple(C.cnat(min(v, 4999)) for v in x) for x in (obs.get("dead1") or [])]),
                C.cnat(min(obs.get("got1", 0), 4999)), C.cnat(min(obs.get("unreach2", 0), 4999)),
                C.cnat(min(obs.get("dead2", 0), 4999)), C.clist([seen_coq(g) for g in (obs.get("got") or [])]))
        calls = obs.get("calls") or []
        probe = obs.get("probe") or []
        if inp.get("engine_probe") and not probe:
            bad = True
        return "KStop {| s_calls := %s; s_obs := %s; s_probe := %s |}" % (
            C.clist(["CStart" if c == "start" else "CStop" for c in inp["calls"]]),
            C.clist(["(%s, %s)" % (C.cbool(x[0]), C.cbool(x[1])) for x in calls]) if not bad else "[]",
            bools(probe))

    def shrink(self, inp):
        out = []
        if inp["kind"] == "up":
            if inp["per"] > 1:
                out.append(dict(inp, per=inp["per"] // 2))
            if len(inp["senders"]) > 1:
                out.append(dict(inp, senders=inp["senders"][:-1]))
                out.append(dict(inp, senders=inp["senders"][1:]))
            if len(inp["targets"]) > 1:
                ts = inp["targets"][:-1]
                out.append(dict(inp, targets=ts, peers=max(t[0] for t in ts)))
            if inp["requests"]:
                out.append(dict(inp, requests=0))
        elif inp["kind"] == "down":
            for k in ("m", "n"):
                if inp[k] > 1:
                    out.append(dict(inp, **{k: inp[k] // 2}))
            if len(inp["senders"]) > 1:
                out.append(dict(inp, senders=inp["senders"][:-1]))
            if inp["ntargets"] > 1:
                out.append(dict(inp, ntargets=inp["ntargets"] - 1))
        else:
            cs = inp["calls"]
            if not inp.get("engine_probe"):
                for i in range(len(cs)):
                    if len(cs) > 1:
                        out.append(dict(inp, calls=cs[:i] + cs[i + 1:]))
        return out

    def describe_obs(self, obs):
        d = dict(obs)
        if d.get("got"):
            d["got"] = [{"received": len(g), "first": g[:4]} for g in d["got"]]
        if d.get("dead1") and len(d["dead1"]) > 8:
            d["dead1"] = d["dead1"][:8] + ["... %d in all" % len(obs["dead1"])]
        return d


def robs_coq(o):
    reg = o["reg"]
    return "{| o_has := %s; o_reg := %s; o_dead := %s; o_wire := %s; o_stuck := %s; o_dups := %s |}" % (
        C.cbool(o["has"]), "None" if reg == 0 else "(Some %s)" % C.cnat(reg - 1 if reg > 0 else 99),
        C.clist([C.cnat(x) for x in o["dead"]]),
        C.clist([C.clist([C.cnat(x) for x in w]) for w in (o.get("wire") or [])]),
        C.clist([C.cnat(x) for x in (o.get("stuck") or [])]), C.cnat(o["dups"]))


class Race(Part):
    name = "race"
    binary = "hvr"
    family = "remote17race"
    exec_module = "RemoteExec"
    shard = 1
    branch_names = {30: "black_holed_terminal_state", 31: "every_machine_terminal_seen_on_the_implementation",
                    32: "dead_letter_while_shutting_down", 33: "message_stuck_in_stopped_inbox", 34: "fresh_writer_spawned",
                    35: "all_schedules_enumerated"}

    def generate(self, rng, tier):
        q = [dict(senders=[[2]], drop=True, mode="replay", choices=D12_WITNESS),
             dict(senders=[[2]], drop=True, mode="dfs", max_execs=2500),
             dict(senders=[[2]], drop=True, mode="walk", max_execs=1500),
             dict(senders=[[2, 3]], drop=True, mode="walk", max_execs=1200),
             dict(senders=[[2]], drop=False, mode="dfs", max_execs=2500)]
        t = [dict(senders=[[2]], drop=True, mode="dfs", max_execs=400000),
             dict(senders=[[2, 3]], drop=True, mode="walk", max_execs=30000),
             dict(senders=[[2], [3]], drop=True, mode="walk", max_execs=30000),
             dict(senders=[[2, 3, 4]], drop=True, mode="walk", max_execs=20000),
             dict(senders=[[2, 3]], drop=True, mode="dfs", max_execs=80000)]
        cs = q + (t if tier == "thorough" else [])
        out = []
        for c in cs:
            c = dict(c, seed=rng.randrange(1 << 30))
            out.append({"input": c, "class": c["mode"]})
        return out

    def to_coq(self, inp, obs):
        terms = list(obs.get("terminals") or [])
        order = ""
        for t in terms:
            if t.get("order"):
                order = t["order"]
                break
        bad_run = obs.get("stuck", 0) > 0 or obs.get("deadlocks", 0) > 0 or not terms
        if bad_run:
            # a stuck or deadlocked execution is not a terminal observation of the machine: make the case fail
            terms = terms + [dict(has=True, reg=-1, dead=[4999], wire=[], stuck=[], dups=4999)]
        return ("KRace {| r_order := %s; r_senders := %s; r_drop := %s; r_exhaustive := %s; r_terms := %s |}") % (
            ORDER.get(order, "Repaired"),
            C.clist([C.clist([C.cnat(n) for n in ms]) for ms in inp["senders"]]), C.cbool(inp["drop"]),
            C.cbool(bool(obs.get("exhaustive")) and inp["mode"] == "dfs"),
            C.clist([robs_coq(t) for t in terms if t.get("terminal", True) or bad_run]))

    def extra_coverage(self, inputs, obs):
        return dict(
            schedules_enumerated=sum(o.get("executions", 0) for o in obs),
            states=sum(o.get("states", 0) for o in obs),
            transitions=sum(o.get("transitions", 0) for o in obs),
            distinct_terminal_observations=sum(len(o.get("terminals") or []) for o in obs),
            exhaustive_configs=sum(1 for i, o in zip(inputs, obs) if i["input"]["mode"] == "dfs" and o.get("exhaustive")),
            configs=[{"senders": i["input"]["senders"], "drop": i["input"]["drop"], "mode": i["input"]["mode"],
                      "executions": o.get("executions"), "states": o.get("states"), "exhaustive": o.get("exhaustive"),
                      "black_holed": len(o.get("bad") or [])} for i, o in zip(inputs, obs)])

    def shrink(self, inp):
        return []

    def describe_obs(self, obs):
        d = {k: obs.get(k) for k in ("executions", "states", "transitions", "exhaustive", "stuck", "deadlocks")}
        d["terminals"] = obs.get("terminals")
        if obs.get("bad"):
            b = obs["bad"][0]
            d["black_holed_schedule"] = {"choices": b["choices"], "sched": b["sched"], "obs": b["obs"],
                                         "trace": [[e["g"], e["op"]] + list(e.get("a") or []) for e in b["trace"]]}
        return d


PARTS = [Net(), Race()]
