"""C03 — no lost wake-up."""
from . import inbox_common as IC
from .inbox_common import TRUSTED_BASE, ASSUMPTIONS

COQ_FILES = IC.COQ_FILES
THEOREMS = ["C03_wakeup_invariant", "C03_quiescent_is_drained", "C03_measure_decreases", "C03_terminates", "C03_no_infinite_run", "C03_no_deadlock", "C03_every_run_drains", "C03_every_run_quiesces", "C03_start_picks_up_backlog", "C03_backlog_is_delivered", "C0123_oracle_sound", "C03_quiescent_is_drained_over_ring", "C03_terminates_over_ring", "C03_every_run_drains_self"]
RULE = ("configurations (senders x numbered messages, capacity 1-2, Start racing or not, optional pill) of the real "
        "actor/inbox.go run under the deterministic scheduler: all schedules by DFS with visited-state pruning for the small "
        "ones, seeded random walks for the larger; each kept execution is replayed step by step in the Coq model and every "
        "distinct terminal observation is judged by oracle_c03 (no deadlock; terminal => idle, empty queue, everything invoked); "
        "a case is non-trivial when its replay reaches a proof-relevant situation (sender CAS failing against an active worker, "
        "re-check finding messages, push between the empty pop and the idle transition, pill, failing exit CAS)")
EXHAUSTIVE = False


class Part(IC.InboxSched):
    name = "sched"
    prop = 3


PARTS = [Part(), IC.Deliver()]
