"""C01 — local delivery is exactly-once, content-faithful, order-preserving."""
from . import inbox_common as IC
from . import proc_common as PC
from .inbox_common import TRUSTED_BASE, ASSUMPTIONS

COQ_FILES = IC.COQ_FILES + ["Proc.v", "ProcExec.v", "ProcProofs.v", "PropsProc.v"]
THEOREMS = ["C01_conservation", "C01_conservation_pill_free", "C01_program_order", "C01_program_order_delivered", "C01_exactly_once_in_order", "C01_delivered_permutation", "C0123_oracle_sound", "C14_ring_refines_fifo", "C05_delivered_in_send_order_exactly_once", "C13_context_shows_sender", "C01_happens_before_order", "C01_conservation_over_ring", "C01_exactly_once_in_order_over_ring", "C01_happens_before_order_self", "C01_ring_same_runs"]
RULE = ("configurations (senders x numbered messages, capacity 1-2, Start racing or not, optional pill) of the real "
        "actor/inbox.go run under the deterministic scheduler: all schedules by DFS with visited-state pruning for the small "
        "ones, seeded random walks for the larger; each kept execution is replayed step by step in the Coq model and every "
        "distinct terminal observation is judged by oracle_c01 (delivered is a prefix of the push order, per-sender program order, nothing vanished); "
        "a case is non-trivial when its replay reaches a proof-relevant situation (sender CAS failing against an active worker, "
        "re-check finding messages, push between the empty pop and the idle transition, pill, failing exit CAS)")
EXHAUSTIVE = False


class Part(IC.InboxSched):
    name = "sched"
    prop = 1


class Scripted(PC.ProcPart):
    """exactly-once and order at the receiver across batches, pills and restarts (process.Invoke's
    bookkeeping): judged by the C05/C01 conservation predicate (delivered is a subsequence of the
    sends, no payload twice, every send delivered or dead-lettered)"""
    name = "scripted"
    prop = 5


PARTS = [Part(), IC.Deliver(), Scripted()]
