"""C19 — Cluster activations: unique, placed on a capable member, known everywhere."""
import itertools
from ..driver import Part
from .. import common as C

COQ_FILES = ["Agent.v", "AgentProofs.v", "ClusterNet.v", "ClusterNetProofs.v", "ClusterNetExec.v", "PropsClusterNet.v", "JoinSpread.v", "JoinSpreadProofs.v", "StaggerExec.v"]
THEOREMS = ["C19_activate_refuses_known_or_unhostable", "C19_activate_spawns_one_on_selected",
            "C19_views_agree_after_delivery", "C19_joiner_learns_all",
            "C19_deactivate_removes_everywhere_and_stops", "C19_leave_purges_hosted",
            "C19_spawn_registers_everywhere", "C19_quiescent_history_refines_spec", "C19_by_kind_lists_the_activation",
            "C19_oracle_holds_of_model", "C19_premises_needed",
            "C19_join_that_spreads_everyone_learns", "C19_join_that_spreads_views", "C19_stagger_oracle_holds_of_model",
            "C19_join_that_spreads_no_second_activation"]
RULE = ("histories of activate / deactivate / cluster-spawn / join / leave run on 1..4 real cluster.Cluster instances in "
        "one process, joined by an in-memory actor.Remoter (every cross-node message passes a protobuf encode/decode and "
        "the destination engine's SendLocal), do-nothing providers, membership injected by the harness as *cluster.Members "
        "to every agent. Exhaustive: 3 nodes (kinds {0},{0,1},{1}), nodes 0 and 1 joined, then every valid history of up "
        "to 3 (thorough: 4) operations over a 12-letter alphabet (activations of two ids from different nodes with "
        "different select choices, deactivations, join and leave of nodes 1 and 2). Random: up to 12 operations over 4 "
        "nodes x 3 kinds x 3 ids (one containing '/'), biased towards re-activation of a known id, a kind hosted by one "
        "member only or by none, select indices out of range, leave of a host, late joiners, a node number joining again; "
        "plus boundary classes outside the premises, where only model = implementation is compared: cluster-Spawn of a "
        "known id (enumerated and random), a kind name containing '/', snapshots in which several nodes join or several "
        "leave (a snapshot that adds and removes members at once is a race in the implementation and is not run). After each operation the "
        "harness waits for quiescence (no message inside the network and a round trip to every agent, until two passes in "
        "a row saw no traffic) and records on every member node GetActiveByID for every key of the case, GetActiveByKind "
        "and HasKind for the 4 kinds, whether its engine registry holds each key, the Activation/Deactivation events it "
        "published; plus the value returned by Activate/Spawn and the actors started/stopped during the operation. The "
        "model is evaluated under two delivery orders. A case is non-trivial when it reaches a proof-relevant branch "
        "(see branch histogram); distinct = distinct (kinds, history)")
TRUSTED_BASE = [
    "Coq 8.16.1 kernel; vm_compute (used to evaluate model and specification on the cases); no native_compute",
    "axioms: none (Print Assumptions below); std++ gmap/gset",
    "correspondence harness: /verif/harness cmd/hv family 'cluster19' (cluster.Cluster of the tree under test on engines "
    "whose Remoter is the in-memory network of clusternet.go; quiescence = in-flight counter 0 + request round trip to "
    "every agent, twice without traffic; after a Deactivate the harness waits up to 3 s for the registry entry to go), "
    "vlib/props/c19.py (generators, printing of cases as Coq terms)",
    "modelled not verified: an agent handles one message at a time (C02) and messages between two agents are not lost "
    "(C01/C17); the membership part of the agent is the C18 model (Agent.v); engine.Spawn under a taken ID starts "
    "nothing and Poison stops the local actor of that ID (C10/C07); Go map iteration order is replaced by std++'s "
    "canonical order (each notification goes to another member, lists are compared sorted); the select function is a "
    "scripted index into the offered members sorted by id; strings are lists of character codes; a request to a live "
    "agent is answered within the (20 s) request timeout",
]
ASSUMPTIONS = [
    "the theorems are about ClusterNet.v, a hand transcription of the activation part of cluster/agent.go and "
    "cluster.go on top of Agent.v; the tie is differential execution on generated histories",
    "premises (stated in the theorems, shown necessary by Examples in ClusterNetProofs.v): quiescent histories (each "
    "operation's notifications are delivered, in any order, before the next); hosts pairwise distinct; every snapshot is "
    "the join of one new node or the leave of one member and is delivered to every member; operations are issued on "
    "members; cluster-Spawn uses an id unknown to the cluster (Cluster.Spawn has no duplicate check: "
    "spawn_known_id_breaks_uniqueness); a node that leaves is gone (a node joining under the same number is a fresh "
    "one); kind names contain no '/' for the GetActiveByKind clause (slash_kind_is_misfiled)",
    "'spawns nothing / exactly one' is read on the registries and the Started log of the actors the cluster spawns",
]

NK = 3
IDS = ["1", "2", "a/b"]


def chars(s):
    return C.clist([C.cnat(ord(ch)) for ch in s])


def hostc(h):
    return C.cnat(h) if 0 <= h < 4999 else C.cnat(4999)


def pid_coq(p):
    return "(%s, %s)" % (chars(p["key"]), hostc(p["host"]))


def life_coq(l):
    return "(%s, %s)" % (hostc(l["node"]), chars(l["key"]))


def ev_coq(e):
    return "(%s %s %s)" % ("EvA" if e["t"] == "A" else "EvD", chars(e["key"]), hostc(e["host"]))


BAD_OBS = "{| oo_res := RPanic; oo_started := []; oo_stopped := []; oo_nodes := [] |}"


def obs_coq(o):
    if o.get("err") or o.get("nodes") is None:
        return BAD_OBS
    res = "RNil" if o["res"] is None else "(RPid %s %s)" % (hostc(o["res"]["host"]), chars(o["res"]["key"]))
    nodes = []
    for n in o["nodes"]:
        nodes.append("{| no_n := %s; no_byid := %s; no_bykind := %s; no_haskind := %s; no_reg := %s; no_events := %s |}" % (
            C.cnat(n["n"]),
            C.clist(["None" if h == -1 else "(Some %s)" % hostc(h) for h in n["byid"]]),
            C.clist([C.clist([pid_coq(p) for p in l]) for l in n["bykind"]]),
            C.clist([C.cbool(b) for b in n["haskind"]]),
            C.clist([C.cbool(b) for b in n["reg"]]),
            C.clist([ev_coq(e) for e in n["events"]])))
    return "{| oo_res := %s; oo_started := %s; oo_stopped := %s; oo_nodes := %s |}" % (
        res, C.clist([life_coq(l) for l in o["started"]]), C.clist([life_coq(l) for l in o["stopped"]]),
        C.clist(nodes))


def members_after(ops):
    """membership before each op and at the end (bookkeeping of join/leave/snap only)"""
    cur, out = set(), []
    for o in ops:
        out.append(set(cur))
        if o[0] == "join":
            cur = cur | {o[1]}
        elif o[0] == "leave":
            cur = cur - {o[1]}
        elif o[0] == "snap":
            cur = set(o[1])
    out.append(set(cur))
    return out


def valid(ops):
    """ops the harness accepts: issued on members; join of a non-member, leave of a member"""
    ms = members_after(ops)
    for o, m in zip(ops, ms):
        if o[0] in ("activate", "spawn", "deactivate") and o[1] not in m:
            return False
        if o[0] == "join" and o[1] in m:
            return False
        if o[0] == "leave" and o[1] not in m:
            return False
    return True


def op_coq(o, members):
    if o[0] == "activate":
        return "Activate %s %s %s %s" % (C.cnat(o[1]), C.cnat(o[2]), chars(o[3]), C.cnat(max(0, min(o[4], 4000))))
    if o[0] == "spawn":
        return "Spawn %s %s %s" % (C.cnat(o[1]), C.cnat(o[2]), chars(o[3]))
    if o[0] == "deactivate":
        return "Deactivate %s %s %s %s" % (C.cnat(o[1]), "None" if o[2] < 0 else "(Some %s)" % C.cnat(o[2]),
                                           C.cnat(o[3]), chars(o[4]))
    if o[0] == "join":
        ids = sorted(members | {o[1]})
    elif o[0] == "leave":
        ids = sorted(members - {o[1]})
    else:
        ids = sorted(set(o[1]))
    return "Snap %s" % C.clist([C.cnat(i) for i in ids])


class Net(Part):
    name = "net"
    family = "cluster19"
    exec_module = "ClusterNetExec"
    shard = 110
    branch_names = {1: "activation_on_the_activating_node", 2: "activation_on_another_node", 3: "refused_id_known",
                    4: "refused_no_member_offers_kind", 5: "select_returned_nil", 6: "deactivate_known",
                    7: "deactivate_nothing", 8: "joiner_sent_nonempty_topology", 9: "leave_purges_activations",
                    10: "leave_purges_nothing", 11: "cluster_spawn", 12: "id_activated_again",
                    13: "node_number_joins_again", 14: "outside_premises_corr_only", 15: "kind_name_with_slash",
                    16: "deactivate_with_other_address", 17: "activating_node_lacks_kind"}

    def generate(self, rng, tier):
        cases = []
        # ---- exhaustive: nodes 0,1 joined, then every valid history over the alphabet
        kinds = [[0], [0, 1], [1]]
        alpha = [["activate", 0, 0, "1", 0], ["activate", 1, 0, "1", 1], ["activate", 0, 1, "1", 0],
                 ["activate", 1, 1, "2", 1], ["activate", 2, 0, "1", 0],
                 ["deactivate", 0, -1, 0, "1"], ["deactivate", 1, -1, 1, "1"], ["deactivate", 2, -1, 1, "2"],
                 ["join", 2], ["leave", 2], ["leave", 1], ["join", 1]]
        maxlen = 3 if tier == "quick" else 4
        pre = [["join", 0], ["join", 1]]
        for n in range(1, maxlen + 1):
            for combo in itertools.product(alpha, repeat=n):
                ops = pre + [list(o) for o in combo]
                if valid(ops):
                    cases.append({"input": {"kinds": kinds, "ops": ops}, "class": "exhaustive"})
        # ---- outside the premises (model = implementation only): cluster-Spawn of an id the
        # cluster knows, from the host itself and from another node, then what follows
        for (x, y) in ((0, 0), (0, 1), (1, 0), (1, 2)):
            base = pre + [["join", 2], ["activate", 0, 0, "1", x], ["spawn", y, 0, "1"]]
            for tail in ([], [["deactivate", 2, -1, 0, "1"]], [["deactivate", 2, -1, 0, "1"], ["activate", 1, 0, "1", 0]],
                         [["leave", x], ["activate", 1, 0, "1", 0]] if x != 1 else [["leave", 1], ["activate", 0, 0, "1", 0]],
                         [["deactivate", 0, y, 0, "1"], ["activate", 2, 0, "1", 1]]):
                cases.append({"input": {"kinds": kinds, "ops": base + tail}, "class": "boundary_spawn_known"})
        # ---- late joiners after something was taken away again: activate, a join (the members have
        # built and sent their topology once), deactivate or leave of the host, then a further join
        for host in (0, 1):
            for away in ("deactivate", "leave_host"):
                for extra in ([], [["activate", 0, 1, "7", 0]]):
                    ops = pre + [["activate", 0, 0, "1", host], ["join", 2]]
                    ops += [["deactivate", 2, -1, 0, "1"]] if away == "deactivate" else [["leave", host]]
                    ops += extra + [["join", 3]]
                    if valid(ops):
                        cases.append({"input": {"kinds": [[0, 1], [0, 1], [1], [0]], "ops": ops}, "class": "late_joiner_after_removal"})
        # ---- a member joins a cluster with many activations (more than any plausible chunk or buffer size of the
        # topology message), over links that encode a message only after Send has returned, like the real remote
        # (round-4 seed C19-r4-2: topology sent in chunks that share one backing array)
        for nact in ((70,) if tier == "quick" else (70, 150)):
            # one existing member (what the joiner learns comes from that member alone), and two
            ops = [["join", 0]] + [["activate", 0, 0, str(i + 1), 0] for i in range(nact)] + [["join", 1]]
            cases.append({"input": {"kinds": [[0], [1]], "ops": ops, "lazy": True}, "class": "large_topology_late_joiner"})
            ops = pre + [["activate", i % 2, 0, str(i + 1), i % 2] for i in range(nact)] + [["join", 2]]
            cases.append({"input": {"kinds": [[0], [0], [1]], "ops": ops, "lazy": True}, "class": "large_topology_late_joiner"})
        # the other classes again over such links
        for c in list(cases[:40:4] if tier != "quick" else cases[:24:4]):
            cases.append({"input": dict(c["input"], lazy=True), "class": c["class"] + "_lazy_links"})
        # ---- random
        nrand = 260 if tier == "quick" else 6000
        for r in range(nrand):
            cls = "random"
            if r % 10 == 7:
                cls = "boundary_spawn_known"
            elif r % 10 == 8:
                cls = "boundary_slash_kind"
            elif r % 10 == 9:
                cls = "boundary_multi_change"
            cases.append({"input": self.random_case(rng, cls), "class": cls})
        return cases

    def random_case(self, rng, cls):
        nn = 4
        style = rng.random()
        if style < 0.3:      # a kind hosted by one member only, one by none
            kinds = [[] for _ in range(nn)]
            kinds[rng.randrange(nn)] = [0]
            for i in range(nn):
                if rng.random() < 0.5:
                    kinds[i] = sorted(set(kinds[i] + [1]))
        else:
            kinds = [sorted(rng.sample(range(NK), rng.randint(0, NK))) for _ in range(nn)]
        if cls == "boundary_slash_kind":
            for i in range(nn):
                if rng.random() < 0.5:
                    kinds[i] = kinds[i] + [3]
        kuniv = list(range(NK)) + ([3, 3] if cls == "boundary_slash_kind" else [])
        ops, mem, gone = [], set(), set()
        known = []          # (kind, id) activated at some point
        first = rng.sample(range(nn), rng.randint(1, 3))
        for i in first:
            ops.append(["join", i])
            mem.add(i)
        nops = rng.randint(3, 12 - len(ops))
        for _ in range(nops):
            x = rng.random()
            a = rng.choice(sorted(mem)) if mem else None
            if a is None or x < 0.12:
                out = [i for i in range(nn) if i not in mem]
                if cls == "boundary_multi_change" and rng.random() < 0.5:
                    # several joins, or several leaves, in one snapshot — never both: a snapshot
                    # that adds and removes members is a race in the implementation (the old
                    # members' topology against their purge; combined_change_* in ClusterNetProofs.v)
                    if len(out) >= 2 and (rng.random() < 0.5 or len(mem) < 3):
                        new = mem | set(rng.sample(out, rng.randint(2, len(out))))
                    elif len(mem) >= 3:
                        new = set(rng.sample(sorted(mem), rng.randint(1, len(mem) - 2)))
                    else:
                        new = mem | set(out[:1])
                    ops.append(["snap", sorted(new)])
                    gone |= mem - new
                    mem = set(new)
                elif out:
                    j = rng.choice([i for i in out if i in gone] or out) if rng.random() < 0.4 else rng.choice(out)
                    ops.append(["join", j])
                    mem.add(j)
                continue
            if x < 0.24 and len(mem) > 1:
                l = rng.choice(sorted(mem))
                ops.append(["leave", l])
                mem.discard(l)
                gone.add(l)
                continue
            if x < 0.62:
                if known and rng.random() < 0.35:
                    kind, id_ = rng.choice(known)
                else:
                    kind, id_ = rng.choice(kuniv), rng.choice(IDS)
                sel = rng.choice([0, 0, 0, 1, 1, 2, 3, 5])
                ops.append(["activate", a, kind, id_, sel])
                known.append((kind, id_))
                continue
            if x < 0.85:
                if known and rng.random() < 0.8:
                    kind, id_ = rng.choice(known)
                else:
                    kind, id_ = rng.choice(kuniv), rng.choice(IDS)
                host = -1 if rng.random() < 0.8 else rng.randrange(nn)
                ops.append(["deactivate", a, host, kind, id_])
                continue
            if cls == "boundary_spawn_known" and known and rng.random() < 0.7:
                kind, id_ = rng.choice(known)
            else:
                kind, id_ = rng.choice(kuniv), rng.choice(IDS + ["s", "t"])
            ops.append(["spawn", a, kind, id_])
            known.append((kind, id_))
        return {"kinds": kinds, "ops": ops}

    def to_coq(self, inp, obs):
        ms = members_after(inp["ops"])
        if not isinstance(obs, list) or len(obs) != len(inp["ops"]):
            obs_terms = [BAD_OBS]
        else:
            obs_terms = [obs_coq(o) for o in obs]
        return "{| c_kinds := %s; c_ops := %s; c_obs := %s |}" % (
            C.clist([C.clist([C.cnat(k) for k in ks]) for ks in inp["kinds"]]),
            C.clist([op_coq(o, m) for o, m in zip(inp["ops"], ms)]),
            C.clist(obs_terms))

    def shrink(self, inp):
        out = []
        ops = inp["ops"]
        if len(ops) > 24:        # long histories: whole blocks first
            for k in (2, 4, 8):
                w = len(ops) // k
                for b in range(k):
                    cand = ops[:b * w] + ops[(b + 1) * w:]
                    if cand and valid(cand):
                        out.append(dict(inp, ops=cand))
        for i in range(len(ops)):
            cand = ops[:i] + ops[i + 1:]
            if cand and valid(cand):
                out.append(dict(inp, ops=cand))
        for i, o in enumerate(ops):
            if o[0] == "activate" and o[4] > 0:
                out.append(dict(inp, ops=ops[:i] + [o[:4] + [o[4] - 1]] + ops[i + 1:]))
            if o[0] == "snap" and len(o[1]) > 1:
                for j in range(len(o[1])):
                    cand = ops[:i] + [["snap", o[1][:j] + o[1][j + 1:]]] + ops[i + 1:]
                    if valid(cand):
                        out.append(dict(inp, ops=cand))
        for n, ks in enumerate(inp["kinds"]):
            for j in range(len(ks)):
                kk = [list(x) for x in inp["kinds"]]
                kk[n] = ks[:j] + ks[j + 1:]
                out.append(dict(inp, kinds=kk))
        return out


class Stagger(Part):
    """a join that spreads: the existing members are told one after the other, activations in between; judged at the
    end, when everybody has been told and the network is quiet (no model run: ClusterNet.v covers quiescent histories)"""
    name = "stagger"
    family = "cluster19"
    exec_module = "StaggerExec"
    branch_names = {1: "activation_by_a_member_not_yet_told", 2: "activation_by_a_member_already_told", 3: "several_agents_told_at_once",
                    4: "activation_by_the_joiner", 5: "asked_member_refuses_a_known_id"}

    def generate(self, rng, tier):
        cases = []
        # members 0..m-1 joined; node m joins; the order in which the old members are told; an activation issued by
        # member `who` (hosted where `sel` says) after the first `cut` of them have been told
        for m in (2, 3):
            olds = list(range(m))
            for order in itertools.permutations(olds):
                for cut in range(1, m):
                    for who in olds:
                        for sel in range(m):
                            for lazy in (False, True):
                                ops = [["join", i] for i in olds]
                                ops.append(["join_to", m, list(order[:cut]) + [m]])
                                ops.append(["activate", who, 0, "1", sel])
                                for r in order[cut:]:
                                    ops.append(["join_to", m, [r]])
                                kinds = [[0] for _ in olds] + [[1]]
                                c = {"kinds": kinds, "ops": ops}
                                if lazy:
                                    c["lazy"] = True
                                cases.append({"input": c, "class": "join_spreads_m%d" % m})
        if tier == "quick":
            cases = cases[::2] if len(cases) > 120 else cases
        # the joiner itself activates - an id that is new, and one that every old member already resolves - at every
        # stage of the spreading (D26: before the repair the asked member granted a second actor under a known id)
        for m in (2, 3):
            olds = list(range(m))
            for first in ([m], [m, 0], [0, m], olds + [m]):
                for known in (False, True):
                    for sel in range(m):
                        for lazy in (False, True):
                            ops = [["join", i] for i in olds]
                            if known:
                                ops.append(["activate", 0, 0, "1", (sel + 1) % m])
                            ops.append(["join_to", m, first])
                            ops.append(["activate", m, 0, "1", sel])
                            rest = [r for r in olds if r not in first]
                            if rest:
                                ops.append(["join_to", m, rest])
                            ops.append(["activate", 0, 0, "2", 0])
                            c = {"kinds": [[0] for _ in olds] + [[1]], "ops": ops}
                            if lazy:
                                c["lazy"] = True
                            cases.append({"input": c, "class": "joiner_activates_%s_id" % ("known" if known else "new")})
        return cases

    def to_coq(self, inp, obs):
        ops = inp["ops"]
        m = sum(1 for o in ops if o[0] == "join")           # old members 0..m-1; node m joins
        ki, mops, mres = {}, [], []
        good = isinstance(obs, list) and len(obs) == len(ops) and obs and not any(o.get("err") for o in obs)
        for idx, o in enumerate(ops):
            if o[0] == "join_to":
                mops.append("Tell %s %s" % (C.clist([C.cnat(r) for r in o[2] if r < m]), "true" if m in o[2] else "false"))
                mres.append(0)
            elif o[0] == "activate":
                k = ki.setdefault((o[2], o[3]), len(ki))
                mops.append("Act %s %s %s" % (C.cnat(o[1]), C.cnat(k), C.cnat(o[4])))
                r = obs[idx].get("res") if good else None
                mres.append(r["host"] + 1 if r else 0)
        nk = len(ki)
        expect, views = [0] * nk, []
        if good:
            for o, r in zip([x for x in ops if x[0] in ("join_to", "activate")], mres):
                if o[0] == "activate" and r and not expect[ki[(o[2], o[3])]]:
                    expect[ki[(o[2], o[3])]] = r
            views = [[h + 1 for h in n["byid"]] for n in obs[-1]["nodes"]]
        return "{| c_m := %s; c_nk := %s; c_ops := %s; c_res := %s; c_expect := %s; c_views := %s |}" % (
            C.cnat(m), C.cnat(nk), C.clist(mops), C.clist([C.cnat(x) for x in mres]),
            C.clist([C.cnat(x) for x in expect]), C.clist([C.clist([C.cnat(x) for x in v]) for v in views]))

    def shrink(self, inp):
        out = []
        ops = inp["ops"]
        for i in range(len(ops)):
            if ops[i][0] == "activate" and sum(1 for o in ops if o[0] == "activate") > 1:
                out.append(dict(inp, ops=ops[:i] + ops[i + 1:]))
        if inp.get("lazy"):
            out.append({k: v for k, v in inp.items() if k != "lazy"})
        return out


PARTS = [Net(), Stagger()]
