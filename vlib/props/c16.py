"""C16 — no inbound envelope can crash a node or reach an unaddressed actor."""
import itertools
from ..driver import Part
from .. import common as C
from .c15 import cpid, cobs, TYPE_IDS

COQ_FILES = ["Wire.v", "WireExec.v", "WireProofs.v", "PropsWire.v", "PeerExec.v"]
THEOREMS = ["C16_reader_total", "C16_deliveries_addressed", "C16_first_bad_ends_stream",
            "C16_resolved_is_addressed", "C16_all_good_all_delivered", "C16_stream_ends_at_first_error"]
RULE = ("crafted envelopes handed (after a real MarshalVT/UnmarshalVT round) to the real streamReader.Receive on a "
        "real engine. Exhaustive single-message envelopes: type-name tables {[], [actor.PID], [actor.PID, "
        "verif.Unknown]} (thorough: also [verif.Unknown], [actor.PID, remote.TestMessage]) x target tables of size "
        "0-2 x sender tables of size 0-2 x (type, target, sender) indices in {-1, 0, 1, 2, 2^31-1}^3 x payload "
        "{valid, undecodable}; then every bad message kind between two good messages, two-envelope streams (bad then "
        "good, good then bad), and random streams of 1-3 envelopes with 0-6 messages (indices mostly in range, "
        "payload kinds valid / other type / empty / undecodable), a fifth of them with no target registered. A case "
        "is non-trivial when the model replay reaches a proof-relevant situation (index out of range per table, "
        "negative / ignored sender index, unknown type, undecodable payload, suppressed message or envelope); "
        "distinct = distinct stream")
TRUSTED_BASE = [
    "Coq 8.16.1 kernel; vm_compute (used to evaluate the model on the cases); no native_compute",
    "axioms: none (Print Assumptions below)",
    "correspondence harness: /verif/harness cmd/hv family 'wire16', hook file tools/hooks/remote/hooks.go (fake dRPC "
    "stream using the generated Envelope encoding, recover around Receive), vlib/props/c16.py (generators, printing "
    "of cases as Coq terms)",
    "modelled not verified: the generated envelope decoder yields an arbitrary Envelope value (no nil elements) or an "
    "error that ends the stream; payload deserialisation is an oracle (None = unknown type name or undecodable "
    "bytes); slices as lists with Go's bounds-check panics; engine.SendLocal itself does not panic",
]
ASSUMPTIONS = [
    "the theorems are about Wire.v, a hand transcription of streamReader.Receive after fixes/D9.diff (on top of "
    "fixes/D8.diff); the tie is differential execution on generated envelopes",
    "byte strings the envelope decoder rejects end the stream with an error before Receive looks at them (stream.Recv "
    "returns the error); that path contains no indexing",
]

MAXI = 2 ** 31 - 1
INDICES = [-1, 0, 1, 2, MAXI]
T1, T2, T3 = ["r", "t1"], ["r", "t2"], ["q", "t3"]
S1, S2 = ["x", "s1"], ["x", "s2"]
DATA_KINDS = {"garbage": 0, "pid": 1, "test": 2, "empty": 3}


def cdata(d):
    return "{| dk := %s; dp := %s |}" % (C.cnat(DATA_KINDS[d["k"]]), C.cz(d["n"]))


def cenv(e):
    ms = ["{| m_data := %s; m_ti := %s; m_si := %s; m_tyi := %s |}" % (
        cdata(m["data"]), C.cz(m["target"]), C.cz(m["sender"]), C.cz(m["type"])) for m in e["messages"]]
    return "{| e_tnames := %s; e_targets := %s; e_senders := %s; e_msgs := %s |}" % (
        C.clist([C.cnat(TYPE_IDS.get(t, 99)) for t in e["typeNames"]]),
        C.clist([cpid(p) for p in e["targets"]]), C.clist([cpid(p) for p in e["senders"]]), C.clist(ms))


def m(ty, tg, sd, k="pid", n=7):
    return {"type": ty, "target": tg, "sender": sd, "data": {"k": k, "n": n}}


def env(tn, tg, sd, msgs):
    return {"typeNames": tn, "targets": tg, "senders": sd, "messages": msgs}


class Envelopes(Part):
    name = "reader"
    family = "wire16"
    exec_module = "WireExec"
    shard = 1000
    branch_names = {10: "type_index_out_of_range", 11: "target_index_out_of_range",
                    12: "sender_index_out_of_range", 13: "negative_sender_index", 14: "sender_index_ignored_empty_table",
                    15: "unknown_type_name", 16: "undecodable_payload", 17: "message_after_bad_suppressed",
                    18: "envelope_after_bad_suppressed", 19: "sender_in_range"}

    def generate(self, rng, tier):
        cases = []

        def add(envs, cls, registered=True):
            inp = {"envelopes": envs}
            if not registered:
                inp["registered"] = False
            cases.append({"input": inp, "class": cls})

        ttabs = [[], ["actor.PID"], ["actor.PID", "verif.Unknown"]]
        if tier != "quick":
            ttabs += [["verif.Unknown"], ["actor.PID", "remote.TestMessage"], ["", "actor.PID"]]
        gtabs = [[], [T1], [T1, T2]]
        stabs = [[], [S1], [S1, S2]]
        for tn, tg, sd in itertools.product(ttabs, gtabs, stabs):
            for ty, ti, si in itertools.product(INDICES, repeat=3):
                for k in ("pid", "garbage"):
                    add([env(tn, tg, sd, [m(ty, ti, si, k)])], "exhaustive_single")
        # every kind of bad message between two good ones; streams of two envelopes
        tn, tg = ["actor.PID", "remote.TestMessage", "verif.Unknown"], [T1, T2]
        bads = [m(3, 0, 0), m(-1, 0, 0), m(MAXI, 0, 0), m(0, 2, 0), m(0, -1, 0), m(0, MAXI, 0), m(2, 0, 0),
                m(0, 0, 0, "garbage"), m(1, 0, 0, "garbage")]
        for sd in stabs:
            sbads = bads + ([m(0, 0, len(sd)), m(0, 0, MAXI)] if sd else [])
            for bad in sbads:
                good1, good2 = m(0, 0, -1, "pid", 1), m(1, 1, len(sd) - 1, "test", 3)
                add([env(tn, tg, sd, [good1, dict(bad), good2])], "bad_between_good")
                add([env(tn, tg, sd, [dict(bad)]), env(tn, tg, sd, [good1, good2])], "bad_then_good_envelope")
                add([env(tn, tg, sd, [good1, good2]), env(tn, tg, sd, [good1, dict(bad), good2]),
                     env(tn, tg, sd, [good2])], "good_bad_good_envelopes")
            # harmless oddities: negative / ignored sender index, other type's bytes, empty bytes
            for odd in [m(0, 0, -1), m(0, 0, -5), m(0, 0, -MAXI - 1), m(0, 1, 0, "test"), m(1, 0, 0, "pid"),
                        m(0, 0, 0, "empty"), m(1, 1, 0, "empty")] + ([] if sd else [m(0, 0, 0), m(0, 0, 2), m(0, 0, MAXI)]):
                if odd["sender"] >= 0 and sd and odd["sender"] >= len(sd):
                    continue
                add([env(tn, tg, sd, [m(0, 0, -1, "pid", 1), dict(odd), m(1, 1, -1, "test", 3)])], "odd_between_good")
        add([], "empty_stream")
        add([env([], [], [], [])], "empty_envelope")
        # random streams
        nrand = 400 if tier == "quick" else 8000
        tpool = ["actor.PID", "remote.TestMessage", "verif.Unknown", ""]
        for _ in range(nrand):
            envs = []
            for _e in range(rng.choice([1, 1, 2, 3])):
                tn = [rng.choice(tpool[:2] if rng.random() < 0.7 else tpool) for _i in range(rng.randint(0, 3))]
                tg = [rng.choice([T1, T2, T3]) for _i in range(rng.randint(0, 3))]
                sd = [rng.choice([S1, S2, ["ab", "c"], ["a", "bc"]]) for _i in range(rng.randint(0, 3))]
                msgs = []
                for _m in range(rng.randint(0, 6)):
                    def idx(n):
                        r = rng.random()
                        if r < 0.8 and n > 0:
                            return rng.randrange(n)
                        return rng.choice([-1, 0, n, n + 1, MAXI, -MAXI - 1, rng.randint(-3, 5)])
                    k = rng.choices(["pid", "test", "empty", "garbage"], weights=[6, 6, 1, 1])[0]
                    si = idx(len(sd)) if rng.random() < 0.7 else -1
                    msgs.append(m(idx(len(tn)), idx(len(tg)), si, k, rng.randint(0, 99)))
                envs.append(env(tn, tg, sd, msgs))
            add(envs, "random", registered=rng.random() >= 0.2)
        return cases

    def to_coq(self, inp, obs):
        return "Case16 %s %s" % (C.clist([cenv(e) for e in inp["envelopes"]]), cobs(obs))

    def shrink(self, inp):
        out = []
        envs = inp["envelopes"]
        extra = {k: v for k, v in inp.items() if k != "envelopes"}
        for i in range(len(envs)):
            if len(envs) > 1:
                out.append(dict(extra, envelopes=envs[:i] + envs[i + 1:]))
            ms = envs[i]["messages"]
            for j in range(len(ms)):
                if len(ms) > 1:
                    e2 = dict(envs[i], messages=ms[:j] + ms[j + 1:])
                    out.append(dict(extra, envelopes=envs[:i] + [e2] + envs[i + 1:]))
        if inp.get("registered") is False:
            out.append({"envelopes": envs})
        return out


class InternalTargets(Part):
    """a peer addresses a well-formed envelope to one of the node's own internal actors"""
    name = "internal_targets"
    family = "peer16"
    exec_module = "PeerExec"
    one_per_process = True
    TG = {"user": 0, "writer": 1, "router": 2, "events": 3, "response": 4, "streams": 5}
    OUT = {"ok": 0, "error": 1, "panic": 2}
    branch_names = {1: "stream_writer", 2: "stream_router", 3: "event_stream", 4: "response_mailbox",
                    5: "several_inbound_streams_at_once_on_a_fresh_reader"}
    crash_obs = {"outcome": "panic", "note": "the harness process died: a panic on a goroutine of the node"}

    def generate(self, rng, tier):
        cs = [{"target": t, "msg": m, "n": n} for t in self.TG for m in ("pid", "test") for n in ((1, 3) if tier == "quick" else (1, 2, 3, 9))]
        # several peers connect at the same moment to a node that has just come up: ONE stream reader serves all
        # inbound streams (round-4 seed C16-r4-1: unsynchronised per-reader cache)
        cs += [{"target": "streams", "msg": "all", "n": n, "rounds": 250 if tier == "quick" else 1500} for n in (2, 8)]
        return [{"input": c, "class": c["target"]} for c in cs]

    def to_coq(self, inp, obs):
        return "{| c_target := %s; c_count := %s; c_outcome := %s |}" % (
            C.cnat(self.TG[inp["target"]]), C.cnat(inp["n"]), C.cnat(self.OUT.get(obs["outcome"], 2)))


PARTS = [Envelopes(), InternalTargets()]


def search(rng, binaries, work):
    """failing-input search used when a proof or the correspondence broke
    without an oracle failure: the thorough generators against the oracle"""
    from .. import driver
    for part in PARTS:
        b = binaries.get(part.binary, (None, ""))[0]
        if b is None:
            continue
        inputs = part.generate(rng, "thorough")
        ev = driver.eval_part(part, b, inputs, work, "search")
        if ev["oracle"]:
            small = driver.shrink_failure(part, b, inputs[ev["oracle"][0]]["input"], work, "oracle")
            ev1 = driver.eval_part(part, b, [{"input": small}], work, "srep")
            return dict(part=part.name, input=small, observation=ev1["obs"][0],
                        what="the property's predicate is false on what the implementation did")
    return None
