"""Shared printing helpers of the cluster-layer property modules (C18, C20)."""
from .. import common as C


def member_coq(m):
    return "{| mid := %s; mhost := %s; mkinds := %s |}" % (
        C.cnat(m["id"]), C.cnat(m["host"]), C.clist([C.cnat(k) for k in m["kinds"]]))


def nats(xs):
    return C.clist([C.cnat(x) if 0 <= x < 5000 else C.cnat(4999) for x in xs])


def mem(i, kinds, host=None):
    return {"id": i, "host": i if host is None else host, "kinds": list(kinds)}
