"""Shared printing helpers of the cluster-layer property modules (C18, C20)."""
from .. import common as C


def member_coq(m):
    return "{| mid := %s; mhost := %s; mkinds := %s |}" % (
        C.cnat(m["id"]), C.cnat(m["host"]), C.clist([C.cnat(k) for k in m["kinds"]]))


def nats(xs):
    return C.clist([C.cnat(x) if 0 <= x < 5000 else C.cnat(4999) for x in xs])


def mem(i, kinds, host=None):
    return {"id": i, "host": i if host is None else host, "kinds": list(kinds)}


def agent_obs_coq(o):
    """an observation of the agent (Members() ids, join / leave event ids, HasKind over the universe) as an [obs]"""
    if o.get("err") or o.get("ids") is None:
        return "{| o_ids := [4999%nat]; o_joins := []; o_leaves := []; o_kinds := [] |}"
    return "{| o_ids := %s; o_joins := %s; o_leaves := %s; o_kinds := %s |}" % (
        nats(o["ids"]), nats(o["joins"]), nats(o["leaves"]), C.clist([C.cbool(b) for b in o["kinds"]]))
