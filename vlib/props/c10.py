"""C10 — one live actor per ID; duplicate spawns change nothing."""
import itertools
from ..driver import Part
from .. import common as C
from .. import srctie
import json

REG_TIE_THEOREMS = ["sim_step", "sim_reach", "sim_reach_model", "sim_run", "C10_src_unique_live",
                    "C10_src_getpid_iff_registered", "C10_src_one_winner", "C10_src_one_winner_at_the_end",
                    "C10_src_respawn_after_remove", "C10_src_no_thread_blocks"]
REG_TIE_DEPS = ["Registry.v", "RegistryProofs.v", "RegSrcSem.v"]

COQ_FILES = ["Registry.v", "RegistryProofs.v", "RegistryExec.v", "RegistrySound.v", "RespawnExec.v", "RespawnSound.v", "PropsRegistry.v"]
THEOREMS = ["C10_unique_live", "C10_getpid_iff_registered", "C10_one_winner", "C10_one_winner_at_the_end",
            "C10_duplicate_is_noop", "C10_duplicate_child_is_noop", "C10_respawn_after_stop",
            "C10_respawn_after_remove_concurrent", "C10_oracle_holds_of_model", "C10_nonoverlapping_runs_are_sequential", "C10_sequential_histories_are_nonoverlapping_runs", "C10_duplicate_is_noop_at_lock_level", "C10_respawn_oracle_holds_of_model"]
RULE = ("(sched) configurations of 2-5 client goroutines on the real actor/registry.go (built with `sync` rewritten to the "
        "yielding shim: every RWMutex acquisition is a scheduling point, proc.Start() of the recording Processer is one more): "
        "concurrent adds of one or several ids, stoppers (the registered actor handles Stopped, then Registry.Remove), lookups "
        "(Registry.get / GetPID); all schedules by DFS with visited-state pruning for the small ones, seeded random walks for "
        "the larger; each kept execution is replayed step by step in the Coq interleaving model and every distinct terminal "
        "observation is judged by the oracle (never two live processes of one id, one Start or one ActorDuplicateIdEvent per add, "
        "exactly one winner among the adds of an id nobody stops, final registry = the live process); "
        "(respawn) spawn/send/stop/respawn/duplicate-spawn histories on a real engine through the public API (Spawn and "
        "SpawnChild with WithID, top-level spawns under a child's path, Stop(..).Done, actors held inside a handler with "
        "messages queued behind them, shutdowns held open inside a gated Stopped handler), observed after every operation "
        "at quiescence (Producer calls, ActorDuplicateIdEvents at a monitor, Registry.GetPID and Context.GetPID, deliveries per "
        "incarnation) and compared with the sequential machine (one operation lets 2-32 real goroutines, released by a spin barrier, "
        "spawn the same id at once): exhaustive over a 7-operation alphabet up to length 3 (4 in the "
        "thorough tier), scenario classes, random histories; a case is non-trivial when the model run reaches a proof-relevant "
        "situation (losing add, respawn after Remove, lookup between insert and Start, duplicate with pending messages, "
        "SpawnChild against an incumbent that is not the caller's child, spawn inside a held shutdown, ...)")
EXHAUSTIVE = False
TRUSTED_BASE = [
    "Coq 8.16.1 kernel; vm_compute (model replay of the explored schedules and histories); no native_compute",
    "axioms: none (Print Assumptions below); std++ list library",
    "correspondence: tools/shimgen (import rewrite of the current actor/registry.go: sync -> yielding shim), "
    "tools/verifshim/vsched + ysync, harness cmd/hvs family regsched and cmd/hv family respawn, hook files "
    "tools/hooks/actor/registry_hooks.go (Registry.add/get exported, a Registry on an engine whose event stream is a "
    "recording Processer) and tools/hooks/actor/hooks.go (VerifIdle: quiescence detection), vlib/props/c10.py",
    "modelled not verified: sync.RWMutex gives mutual exclusion (each locked section of registry.go is one atomic step); "
    "Registry.Remove is called by the registered process itself after it handled Stopped (process.cleanup, Response.Result) "
    "- a third party calling the exported Remove on a live actor's PID is outside the model; every add works on a process "
    "object of its own; user code as gates and counters; strings interned to nat",
    "translation tie (coverage.parts.sched.translation_tie; information, never a verdict): tools/regtrans (syntactic map of the methods of "
    "*Registry to LMini terms, refusal outside its table, audit of the call sites of the registry in package actor), coq/RegSrcSem.v "
    "(meaning of the fragment: defer at the call boundary, RWMutex exclusion, a disciplined critical section is one step - enforced as "
    "stuckness, the reduction itself is an argument), coq/RegSrcProofs.v compiled outside the main build against the generated terms",
]
ASSUMPTIONS = [
    "hand-written models Registry.v of actor/registry.go (interleaving, one step per lock acquisition + Start + Stopped) and of the "
    "spawn/stop/lookup paths of engine.go, context.go, process.go (sequential machine); tie = lock-step replay of explored "
    "schedules and differential execution of histories at quiescence",
    "exhaustive enumeration is of small configurations only (it supports the tie; the theorems are unbounded)",
    "C10_one_winner is stated for ids that no thread stops during the run (with a stop in between two adds may both win, one "
    "after the other: Example two_winners_with_stop)",
]

# --------------------------------------------------------------------- sched
def cop_coq(o):
    return {"add": "CAdd", "stop": "CStop", "get": "CGet"}[o[0]] + " " + C.cnat(o[1])


def onat(r):
    return "None" if r < 0 else "(Some %s)" % C.cnat(r)


def lab_coq(l):
    k = l["k"]
    if k == "add":
        return "LAdd %s %s %s" % (C.cnat(l["i"]), C.cnat(max(0, l["p"])), C.cbool(l["won"]))
    if k == "start":
        return "LStart %s" % C.cnat(max(0, l["p"]))
    if k == "dup":
        return "LDup %s" % C.cnat(max(0, l["p"]))
    if k == "try":
        return "LTry %s %s" % (C.cnat(l["i"]), onat(l["r"]))
    if k == "rem":
        return "LRem %s" % C.cnat(max(0, l["p"]))
    if k == "get":
        return "LGet %s %s" % (C.cnat(l["i"]), onat(l["r"]))
    return "LGet 4999%nat (Some 4999%nat)"      # an operation the model does not have: can never match


def nats(l):
    return C.clist([C.cnat(x if x >= 0 else 4999) for x in l])


def pairs(l):
    return C.clist(["(%s, %s)" % (C.cnat(a), onat(b) if b >= -1 else "(Some 4999%nat)") for a, b in l])


def robs_coq(o):
    return ("{| o_ids := %s; o_reg := %s; o_started := %s; o_stopped := %s; o_dup := %s; o_gets := %s; "
            "o_overlap := %s; o_deadlock := %s; o_terminal := %s |}") % (
        nats(o["ids"]), pairs(o["reg"]), nats(o["started"]), nats(o["stopped"]), nats(o["dup"]), pairs(o["gets"]),
        C.cbool(o["overlap"]), C.cbool(o["deadlock"]), C.cbool(o["terminal"]))


class RegSched(Part):
    name = "sched"
    binary = "hvs"
    family = "regsched"
    exec_module = "RegistryExec"
    shard = 150
    branch_names = {1: "add_loses", 2: "add_wins_after_remove", 3: "lookup_between_insert_and_start",
                    4: "lookup_finds_nothing", 5: "stop_of_live_actor", 6: "stop_attempt_on_unstarted_entry",
                    7: "add_loses_against_unstarted_entry"}

    def configs(self, tier):
        a, s, g = (lambda i: ["add", i]), (lambda i: ["stop", i]), (lambda i: ["get", i])
        q = [  # (programs, mode, max_execs)
            ([[a(7)], [a(7)]], "dfs", 0),
            ([[a(7)], [a(7)], [a(7)]], "dfs", 0),
            ([[a(7)], [a(7)], [s(7)], [g(7)]], "dfs", 0),
            ([[a(7)], [a(7)], [a(7)], [s(7)], [g(7)]], "dfs", 0),
            ([[a(7), s(7), a(7)], [a(7)], [g(7)]], "dfs", 0),
            ([[a(7)], [a(8)], [a(7)], [g(8)], [s(8)]], "dfs", 0),
            ([[a(7), s(7)], [a(7), s(7)], [g(7), g(7)]], "dfs", 0),
            ([[a(7)], [a(7)], [s(7)], [s(7)], [a(7)]], "dfs", 0),
            ([[a(7), g(7), s(7)], [a(7), a(8)], [a(8), s(7), a(7)], [g(8), s(8), g(7)]], "walk", 400),
            ([[a(1), a(2), a(3)], [a(3), a(2), a(1)], [s(1), s(2), s(3)], [g(1), g(2), g(3)], [a(1), s(1), a(1)]], "walk", 400),
        ]
        t = [
            ([[a(7)], [a(7)], [a(7)], [a(7)], [s(7)], [g(7)]], "dfs", 0),
            ([[a(7), s(7), a(7)], [a(7), s(7)], [g(7)], [a(7)]], "dfs", 400000),
            ([[a(7), s(7)], [a(7), s(7)], [a(7), s(7)], [g(7)]], "dfs", 400000),
            ([[a(7), a(8)], [a(8), a(7)], [s(7), s(8)], [g(7), g(8)]], "dfs", 400000),
            ([[a(7), g(7), s(7)], [a(7), a(8)], [a(8), s(7), a(7)], [g(8), s(8), g(7)]], "walk", 6000),
            ([[a(i), s(i), a(i), g(i)] for i in (1, 1, 1, 2, 2)] + [[g(1), s(2), g(2), s(1)]], "walk", 6000),
        ]
        return q + (t if tier == "thorough" else [])

    def generate(self, rng, tier):
        return [{"input": {"progs": progs, "mode": mode, "max_execs": mx, "keep": 40 if mode == "dfs" else 60,
                           "seed": rng.randrange(1 << 30)}, "class": mode}
                for (progs, mode, mx) in self.configs(tier)]

    def case_coq(self, inp, o, sched=None, labels=None):
        replay = sched is not None
        return "{| c_progs := %s; c_sched := %s; c_labels := %s; c_replay := %s; c_obs := %s |}" % (
            C.clist([C.clist([cop_coq(x) for x in prog]) for prog in inp["progs"]]),
            C.clist([C.cnat(t) for t in (sched or [])]), C.clist([lab_coq(l) for l in (labels or [])]),
            C.cbool(replay), robs_coq(o))

    def to_coq(self, inp, obs):
        if "labels" in obs and "terminals" not in obs:      # a single replayed execution
            return [self.case_coq(inp, obs["obs"], obs["sched"], obs["labels"])]
        terms = []
        for smp, lab in zip(obs.get("samples") or [], obs.get("sample_labels") or []):
            terms.append(self.case_coq(inp, smp["obs"], smp["sched"], lab))
        for smp, lab in zip(obs.get("bad") or [], obs.get("bad_labels") or []):
            terms.append(self.case_coq(inp, smp["obs"], smp["sched"], lab))
        for t in obs.get("terminals") or []:
            terms.append(self.case_coq(inp, t))
        return terms

    def extra_coverage(self, inputs, obs):
        # translation tie (DESIGN.md 0.12): actor/registry.go is re-translated to LMini terms and the step-by-step
        # simulation with Registry.v (ii) plus the transferred theorems are re-proved against those terms; information only
        tie = srctie.translation_tie("regtie", "regtrans", "actor/registry.go", "RegSrc.v", "RegSrcProofs.v",
                                     REG_TIE_THEOREMS, REG_TIE_DEPS, getattr(self, "_tier", "quick"))
        n = srctie.note("C10", tie)
        if n:
            print(n, flush=True)
        C.log("translation tie (registry): %s" % json.dumps(tie)[:800])
        return dict(
            translation_tie=tie,
            schedules_enumerated=sum(o.get("executions", 1) for o in obs),
            states=sum(o.get("states", 0) for o in obs),
            transitions=sum(o.get("transitions", 0) for o in obs),
            distinct_terminal_observations=sum(len(o.get("terminals") or []) for o in obs),
            traces_validated_against_impl=sum(len(o.get("samples") or []) for o in obs),
            exhaustive_configs=sum(1 for i, o in zip(inputs, obs) if i["input"]["mode"] == "dfs" and o.get("exhaustive")),
            configs=[{"progs": i["input"]["progs"], "mode": i["input"]["mode"], "executions": o.get("executions"),
                      "states": o.get("states"), "exhaustive": o.get("exhaustive")} for i, o in zip(inputs, obs)])

    def shrink(self, inp):
        if inp.get("mode") == "replay":
            return []
        out = []
        pr = inp["progs"]
        for i in range(len(pr)):
            if len(pr) > 1:
                out.append(dict(inp, progs=pr[:i] + pr[i + 1:]))
            for j in range(len(pr[i])):
                if len(pr[i]) > 1:
                    out.append(dict(inp, progs=pr[:i] + [pr[i][:j] + pr[i][j + 1:]] + pr[i + 1:]))
        for o in out:
            o["mode"] = "dfs"
            o["max_execs"] = 60000
        return out

    def describe_obs(self, obs):
        if "terminals" not in obs:
            return obs
        d = {k: obs.get(k) for k in ("executions", "states", "transitions", "deadlocks", "stuck", "exhaustive")}
        d["terminals"] = (obs.get("terminals") or [])[:4]
        if obs.get("bad"):
            b = obs["bad"][0]
            d["failing_schedule"] = {"choices": b["choices"], "sched": b["sched"], "trace": b["trace"], "obs": b["obs"],
                                     "labels": (obs.get("bad_labels") or [None])[0]}
        elif obs.get("samples"):
            d["sample_schedule"] = {"sched": obs["samples"][0]["sched"], "obs": obs["samples"][0]["obs"]}
        return d


# ------------------------------------------------------------------- respawn
UNIVERSE = [
    {"full": "t/a", "kind": "t", "id": "a", "parent": -1, "name": ""},
    {"full": "t/b", "kind": "t", "id": "b", "parent": -1, "name": ""},
    {"full": "t/a/c/x", "kind": "t/a/c", "id": "x", "parent": 0, "name": "c"},
    {"full": "t/a/c/x/d/y", "kind": "t/a/c/x/d", "id": "y", "parent": 2, "name": "d"},
    {"full": "t/b/c/x", "kind": "t/b/c", "id": "x", "parent": 1, "name": "c"},
]
PARENT = {2: 0, 3: 2, 4: 1}


def universe_with(a, b):
    """the same five actors with other id strings for the two top-level ones (children's paths follow)"""
    return [
        {"full": "t/" + a, "kind": "t", "id": a, "parent": -1, "name": ""},
        {"full": "t/" + b, "kind": "t", "id": b, "parent": -1, "name": ""},
        {"full": "t/%s/c/x" % a, "kind": "t/%s/c" % a, "id": "x", "parent": 0, "name": "c"},
        {"full": "t/%s/c/x/d/y" % a, "kind": "t/%s/c/x/d" % a, "id": "y", "parent": 2, "name": "d"},
        {"full": "t/%s/c/x" % b, "kind": "t/%s/c" % b, "id": "x", "parent": 1, "name": "c"},
    ]


# ids that are different strings but would coincide under path cleaning, case folding or trimming: the
# registry is keyed by the exact string
ODD_UNIVERSES = [universe_with("a", "b/../a"), universe_with("tcp://h:1", "tcp:/h:1"), universe_with("a", "a/"),
                 universe_with("a", "./a"), universe_with("Ab", "ab"), universe_with("a", "a ")]


class Sim:
    """mirror of Registry.sstep, used to keep generated histories inside the modelled domain"""
    def __init__(self):
        self.procs, self.kids, self.runs, self.gate, self.bad = {}, {}, {}, None, False

    def live(self, i):
        return i in self.procs

    def busy(self, i):
        return i in self.procs and (self.procs[i]["blocked"] or self.procs[i]["stopping"])

    def spawn(self, i, parent):
        if self.live(i):
            return          # a duplicate leaves no trace (SpawnChild records its child only once it is registered: D21)
        self.runs[i] = self.runs.get(i, 0) + 1
        self.procs[i] = {"parent": parent, "queue": 0, "blocked": False, "stopping": False}
        self.kids[i] = []
        if parent is not None and i not in self.kids.setdefault(parent, []):
            self.kids[parent].append(i)

    def stop_tree(self, i):
        if i not in self.procs:
            return
        r = self.procs[i]
        if r["blocked"] or r["stopping"]:
            self.bad = True
            return
        for c in list(self.kids.get(i, [])):
            self.stop_tree(c)
        del self.procs[i]
        self.kids[i] = []
        if r["parent"] is not None and r["parent"] in self.kids:
            self.kids[r["parent"]] = [x for x in self.kids[r["parent"]] if x != i]

    def line(self, i, g):
        out = [i]
        while i != g:
            k = self.kids.get(i, [])
            if len(k) != 1 or not self.live(k[0]):
                return None
            i = k[0]
            out.append(i)
            if len(out) > 8:
                return None
        return out

    def ok(self, op):
        """would the operation stay inside the domain?"""
        k = op[0]
        if k == "spawnchild":
            return self.live(op[1]) and not self.busy(op[1])
        if k == "stop":
            return not self.busy(op[1]) and not self.subtree_blocked(op[1])
        if k == "block":
            return self.live(op[1]) and not self.busy(op[1])
        if k == "release":
            return self.live(op[1]) and self.procs[op[1]]["blocked"]
        if k == "stopbegin":
            if self.gate is not None or not self.live(op[1]):
                return False
            l = self.line(op[1], op[2])
            if l is None or any(self.busy(x) for x in l):
                return False
            return not any(self.subtree_blocked(c) for c in self.kids.get(op[2], []))
        if k == "stopend":
            return self.gate is not None and self.gate[:2] == (op[1], op[2]) and self.line(op[1], op[2]) is not None
        return True

    def subtree_blocked(self, i):
        if i not in self.procs:
            return False
        if self.procs[i]["blocked"] or self.procs[i]["stopping"]:
            return True
        return any(self.subtree_blocked(c) for c in self.kids.get(i, []))

    def subtree_blocked_excluding_line(self, i):
        return self.subtree_blocked(i)

    def apply(self, op):
        k = op[0]
        if k == "spawn" or (k == "race" and op[2] > 0):
            self.spawn(op[1], None)
        elif k == "spawnchild":
            self.spawn(op[2], op[1])
        elif k == "stop":
            self.stop_tree(op[1])
        elif k == "block":
            self.procs[op[1]]["blocked"] = True
        elif k == "release":
            self.procs[op[1]]["blocked"] = False
        elif k == "stopbegin":
            l = self.line(op[1], op[2])
            for c in list(self.kids.get(op[2], [])):
                self.stop_tree(c)
            for x in l:
                self.procs[x]["stopping"] = True
            self.gate = (op[1], op[2], l)
        elif k == "stopend":
            for x in reversed(self.gate[2]):
                r = self.procs.pop(x, None)
                self.kids[x] = []
                if r is not None and r["parent"] is not None and r["parent"] in self.kids:
                    self.kids[r["parent"]] = [y for y in self.kids[r["parent"]] if y != x]
            self.gate = None


def close_history(ops):
    """drop operations that leave the domain, attach the line to stopbegin, number the messages, and let go of
    everything that is still held at the end"""
    sim, out, m = Sim(), [], 10
    for op in ops:
        op = list(op[:3]) if op[0] == "stopbegin" else list(op)
        if op[0] == "send":
            op = ["send", op[1], m]
            m += 1
        if not sim.ok(op):
            continue
        if op[0] == "stopbegin":
            op = op + [sim.line(op[1], op[2])]
        sim.apply(op)
        out.append(op)
    if sim.gate is not None:
        op = ["stopend", sim.gate[0], sim.gate[1]]
        if sim.ok(op):
            sim.apply(op)
            out.append(op)
    for i in sorted(sim.procs):
        if i in sim.procs and sim.procs[i]["blocked"]:
            out.append(["release", i])
            sim.apply(["release", i])
    return out


def sop_coq(o):
    k = o[0]
    n = C.cnat
    return {"spawn": lambda: "OSpawn %s" % n(o[1]), "spawnchild": lambda: "OSpawnChild %s %s" % (n(o[1]), n(o[2])),
            "stop": lambda: "OStop %s" % n(o[1]), "send": lambda: "OSend %s %s" % (n(o[1]), n(o[2])),
            "block": lambda: "OBlock %s" % n(o[1]), "release": lambda: "ORelease %s" % n(o[1]),
            "get": lambda: "OGet %s" % n(o[1]), "stopbegin": lambda: "OStopBegin %s %s" % (n(o[1]), n(o[2])),
            "stopend": lambda: "OStopEnd %s %s" % (n(o[1]), n(o[2])),
            "race": lambda: "ORace %s %s" % (n(o[1]), n(o[2]))}[k]()


def sobs_coq(s):
    return ("{| so_runs := %s; so_dups := %s; so_reg := %s; so_regctx := %s; so_recv := %s; so_overlap := %s; so_hang := %s |}") % (
        C.clist([C.cnat(min(x, 4999)) for x in s["runs"]]), C.clist([C.cnat(min(x, 4999)) for x in s["dups"]]),
        C.clist([C.cbool(b) for b in s["reg"]]), C.clist([C.cbool(b) for b in s["regctx"]]),
        C.clist(["(%s, %s, %s)" % (C.cnat(a), C.cnat(b), C.cnat(c)) for a, b, c in s["recv"]]),
        C.cbool(s["overlap"]), C.cbool(s["hang"]))


SCENARIOS = [
    # duplicate at top level, respawn after stop
    [("spawn", 0), ("send", 0), ("spawn", 0), ("get", 0), ("send", 0), ("stop", 0), ("get", 0), ("send", 0), ("spawn", 0),
     ("send", 0), ("spawn", 0), ("stop", 0), ("stop", 0), ("spawn", 0)],
    # the incumbent's pending messages survive duplicates
    [("spawn", 0), ("block", 0), ("send", 0), ("send", 0), ("spawn", 0), ("send", 0), ("spawn", 0), ("get", 0),
     ("release", 0), ("send", 0), ("stop", 0), ("spawn", 0), ("send", 0)],
    [("spawn", 0), ("spawnchild", 0, 2), ("block", 2), ("send", 2), ("spawn", 2), ("send", 2), ("spawn", 2),
     ("release", 2), ("spawnchild", 0, 2), ("send", 2), ("stop", 0)],
    # children: duplicate SpawnChild, top-level spawn under the child's path (no adoption of the incumbent since D21)
    [("spawn", 0), ("spawnchild", 0, 2), ("spawnchild", 0, 2), ("spawn", 2), ("send", 2), ("stop", 2), ("spawnchild", 0, 2),
     ("send", 2), ("stop", 0), ("get", 2), ("spawn", 2), ("spawn", 0), ("spawnchild", 0, 2), ("send", 2), ("stop", 2),
     ("spawnchild", 0, 2), ("send", 2), ("stop", 0), ("get", 2)],
    [("spawn", 2), ("spawn", 0), ("spawnchild", 0, 2), ("stop", 0), ("get", 2), ("spawn", 0), ("spawnchild", 0, 2), ("stop", 0)],
    [("spawn", 0), ("spawn", 2), ("send", 2), ("spawnchild", 0, 2), ("send", 2), ("spawn", 3), ("spawnchild", 2, 3),
     ("stop", 2), ("spawnchild", 0, 2), ("spawnchild", 2, 3), ("spawn", 3), ("stop", 0), ("spawn", 3)],
    [("spawn", 0), ("spawn", 1), ("spawnchild", 0, 2), ("spawnchild", 1, 4), ("spawnchild", 2, 3), ("stop", 1),
     ("spawn", 4), ("spawn", 1), ("spawnchild", 1, 4), ("stop", 0), ("spawn", 3), ("spawn", 2), ("spawn", 0)],
    # concurrent spawns by real goroutines (no scheduler shim)
    [("race", 0, 8), ("get", 0), ("race", 0, 4), ("send", 0), ("stop", 0), ("race", 0, 16), ("race", 2, 8), ("spawnchild", 0, 2),
     ("stop", 0), ("race", 2, 3), ("race", 1, 2), ("stop", 1), ("race", 1, 32)],
    [("spawn", 0), ("block", 0), ("send", 0), ("race", 0, 8), ("send", 0), ("release", 0), ("stopbegin", 0, 0), ("race", 0, 8),
     ("stopend", 0, 0), ("race", 0, 8)],
    # shutdowns held open inside Stopped
    [("spawn", 0), ("stopbegin", 0, 0), ("get", 0), ("spawn", 0), ("send", 0), ("stopend", 0, 0), ("get", 0), ("spawn", 0),
     ("send", 0)],
    [("spawn", 0), ("spawnchild", 0, 2), ("stopbegin", 0, 2), ("get", 0), ("spawn", 0), ("spawn", 2), ("get", 2),
     ("stopend", 0, 2), ("spawn", 0), ("spawnchild", 0, 2), ("send", 2)],
    [("spawn", 0), ("spawnchild", 0, 2), ("spawnchild", 2, 3), ("stopbegin", 0, 3), ("spawn", 3), ("spawn", 2), ("spawn", 0),
     ("stopend", 0, 3), ("spawn", 3), ("spawn", 2), ("spawn", 0)],
    [("spawn", 0), ("spawnchild", 0, 2), ("spawnchild", 2, 3), ("stopbegin", 2, 2), ("get", 3), ("spawnchild", 0, 2),
     ("spawn", 2), ("spawn", 3), ("stopend", 2, 2), ("spawnchild", 0, 2), ("send", 2), ("stop", 0)],
    [("spawn", 0), ("spawnchild", 0, 2), ("spawnchild", 2, 3), ("stopbegin", 0, 0), ("spawn", 2), ("spawn", 3), ("get", 0),
     ("spawn", 0), ("stopend", 0, 0), ("spawn", 0), ("spawnchild", 0, 2), ("stop", 2), ("stop", 3)],
    [("spawn", 0), ("spawnchild", 0, 2), ("stopbegin", 2, 2), ("spawnchild", 0, 2), ("stopend", 2, 2), ("spawnchild", 0, 2),
     ("stopbegin", 0, 2), ("spawn", 2), ("spawn", 0), ("stopend", 0, 2), ("spawn", 2), ("spawn", 0), ("spawnchild", 0, 2)],
]


class Respawn(Part):
    name = "respawn"
    binary = "hv"
    family = "respawn"
    exec_module = "RespawnExec"
    shard = 120
    branch_names = {1: "duplicate_top_level", 2: "duplicate_child", 3: "respawn_after_stop", 4: "duplicate_with_pending_messages",
                    5: "duplicate_child_against_incumbent_that_is_not_its_child", 6: "duplicate_against_actor_in_held_shutdown",
                    7: "spawn_child_over_stale_children_entry", 8: "top_level_duplicate_against_child",
                    9: "lookup_of_actor_in_held_shutdown", 10: "send_to_busy_actor", 11: "spawn_of_free_id_during_held_shutdown",
                    12: "stop_with_children", 13: "stop_of_unregistered_id", 14: "shutdown_held_in_own_Stopped",
                    15: "shutdown_held_in_descendant_Stopped", 16: "concurrent_spawns_of_free_id_real_goroutines",
                    17: "concurrent_spawns_of_taken_id_real_goroutines", 99: "outside_modelled_domain"}

    def generate(self, rng, tier):
        cases = []
        for sc in SCENARIOS:
            cases.append({"input": {"universe": UNIVERSE, "ops": close_history(sc)}, "class": "scenario"})
        alpha = [("spawn", 0), ("spawn", 2), ("spawnchild", 0, 2), ("stop", 0), ("stop", 2), ("send", 0), ("send", 2)]
        maxlen = 3 if tier == "quick" else 4
        seen = set()
        for n in range(1, maxlen + 1):
            for combo in itertools.product(alpha, repeat=n):
                ops = close_history(combo)
                key = repr(ops)
                if len(ops) == n and key not in seen:
                    seen.add(key)
                    cases.append({"input": {"universe": UNIVERSE, "ops": ops}, "class": "exhaustive"})
        nrand = 150 if tier == "quick" else 4000
        kinds = ["spawn"] * 5 + ["race"] * 2 + ["spawnchild"] * 4 + ["stop"] * 3 + ["send"] * 4 + ["block", "release", "release", "get",
                                                                                  "stopbegin", "stopbegin", "stopend"]
        for _ in range(nrand):
            ops = []
            for _ in range(rng.randint(4, 18)):
                k = rng.choice(kinds)
                i = rng.choice([0, 0, 0, 1, 2, 2, 2, 3, 3, 4])
                if k == "spawnchild":
                    c = rng.choice([2, 2, 3, 3, 4])
                    ops.append((k, PARENT[c], c))
                elif k == "stopbegin":
                    g = rng.choice([0, 2, 2, 3, 1, 4])
                    anc = [g]
                    while anc[-1] in PARENT:
                        anc.append(PARENT[anc[-1]])
                    ops.append((k, rng.choice(anc), g))
                elif k == "stopend":
                    ops.append((k, -1, -1))       # resolved below
                elif k == "race":
                    ops.append((k, i, rng.choice([2, 3, 4, 8, 16])))
                else:
                    ops.append((k, i))
            # resolve stopend against the open gate
            sim, res = Sim(), []
            for op in ops:
                if op[0] == "stopend":
                    if sim.gate is None:
                        continue
                    op = ("stopend", sim.gate[0], sim.gate[1])
                op = list(op)
                if sim.ok(op):
                    sim.apply(op)
                    res.append(op)
            cases.append({"input": {"universe": UNIVERSE, "ops": close_history(res)}, "class": "random"})
        cases = [c for c in cases if c["input"]["ops"]]
        for k, c in enumerate(cases):
            if k % 3 == 1:      # a third of the histories over look-alike id strings
                c["input"]["universe"] = ODD_UNIVERSES[(k // 3) % len(ODD_UNIVERSES)]
                c["class"] += "_lookalike_ids"
        return cases

    def to_coq(self, inp, obs):
        steps = obs.get("steps") or []
        return "{| c_n := %s; c_hist := %s; c_obs := %s |}" % (
            C.cnat(len(inp["universe"])), C.clist([sop_coq(o) for o in inp["ops"]]), C.clist([sobs_coq(s) for s in steps]))

    def shrink(self, inp):
        out = []
        ops = inp["ops"]
        for i in range(len(ops)):
            cand = close_history(ops[:i] + ops[i + 1:])
            if cand and len(cand) < len(ops):
                out.append(dict(inp, ops=cand))
        return out

    def describe_obs(self, obs):
        steps = obs.get("steps") or []
        return {"steps": len(steps), "last": steps[-1] if steps else None,
                "first_problem": next((dict(s, step=k) for k, s in enumerate(steps) if s["overlap"] or s["hang"]), None)}

    def extra_coverage(self, inputs, obs):
        return dict(operations=sum(len(i["input"]["ops"]) for i in inputs),
                    hangs=sum(1 for o in obs if any(s["hang"] for s in o.get("steps") or [])))


PARTS = [RegSched(), Respawn()]
