"""Shared by C09 and C12: the event-stream layer (coq/Events.v, EventsExec.v;
harness families events12 and undeliv09 in harness/cmd/hv/events.go)."""
import itertools
from ..driver import Part
from .. import common as C

COQ_FILES = ["Events.v", "EventsProofs.v", "EventsExec.v", "PropsEvents.v"]

TRUSTED_BASE = [
    "Coq 8.16.1 kernel; vm_compute (used to evaluate model, specification and oracles on the cases); no native_compute",
    "axioms: none (Print Assumptions below); std++ list library",
    "correspondence harness: /verif/harness cmd/hv families 'events12' and 'undeliv09' (public API of the engine under "
    "test; quiescence through actor.VerifIdle / actor.VerifEventStream of tools/hooks/actor/hooks.go), "
    "vlib/props/events_common.py, c09.py, c12.py (generators, printing of cases as Coq terms)",
    "modelled not verified: the event stream actor handles one message at a time and in inbox order (C01, C02); a "
    "push on an inbox never blocks (C14); Go's iteration order over the subscriber map is replaced by insertion "
    "order (every statement is about per-subscriber projections; the order of the events one forward round feeds "
    "back is compared as a multiset); addresses and ids are interned to nat injectively; Registry.get looks at "
    "the ID only; slog output is ignored",
]


def nat(n):
    return C.cnat(n if 0 <= n < 4999 else 4999)


def nats(xs):
    return C.clist([nat(x) for x in xs])


def cpid(p):
    if p is None:
        return "(4999%nat, 4999%nat)"
    return "(%s, %s)" % (nat(p[0]), nat(p[1]))


def copid(p):
    return "None" if p is None else "(Some %s)" % cpid(p)


def cmsg(m):
    k = m.get("k")
    if k == "user":
        return "(EUser %s)" % nat(m["n"])
    if k == "stopped":
        return "(EStopped %s)" % cpid(m["p"])
    if k == "dead":
        return "(EDead %s %s %s)" % (cpid(m["t"]), cmsg(m["m"]), copid(m["s"]))
    if k == "missing":
        return "(EMissing %s %s %s)" % (cpid(m["t"]), cmsg(m["m"]), copid(m["s"]))
    return "(EUser 4999%nat)"      # anything the model does not know: equals nothing it produces


# ----------------------------------------------------------------- C12 seq
def hop_coq(h):
    if h[0] == "sub":
        return "HSub %s %s" % (nat(h[1]), nat(h[2]))
    if h[0] == "unsub":
        return "HUnsub %s %s" % (nat(h[1]), nat(h[2]))
    if h[0] == "stop":
        return "HStop %s" % nat(h[1])
    if h[0] == "respawn":
        return "HSpawn %s" % nat(h[1])
    return "HEv %s" % nat(h[1])


def concretise(sym_hist):
    """number the events; ("life", p) stops actor p if it is alive and spawns it again if it is not"""
    out, n, dead = [], 0, set()
    for h in sym_hist:
        if h[0] == "ev":
            n += 1
            out.append(["ev", n])
        elif h[0] == "life":
            if h[1] in dead:
                dead.discard(h[1])
                out.append(["respawn", h[1]])
            else:
                dead.add(h[1])
                out.append(["stop", h[1]])
        else:
            out.append(list(h))
    return out


class Seq12(Part):
    name = "seq"
    family = "events12"
    exec_module = "EventsExec"
    shard = 700
    branch_names = {1: "sub_while_subscribed_same_object", 2: "sub_while_subscribed_other_object",
                    3: "unsub_through_other_object", 4: "unsub_while_not_subscribed", 5: "event_to_two_or_more",
                    6: "event_to_nobody", 7: "resubscribe_after_unsub", 8: "event_after_resubscription",
                    9: "stop_of_a_subscribed_actor", 14: "respawned_actor_subscribes_again",
                    15: "two_or_more_events_to_a_respawned_subscriber", 16: "sub_of_a_pid_nobody_is_registered_under",
                    17: "local_and_foreign_pid_with_one_id_subscribed", 18: "unsub_of_one_of_such_a_pair",
                    19: "event_to_a_foreign_subscriber"}

    def generate(self, rng, tier):
        cases = []
        quick = tier == "quick"

        def add(cls, npids, remote, sym, look=False):
            inp = {"kind": "seq", "npids": npids, "remote": remote, "hist": concretise(sym)}
            if look:
                # the foreign twin differs in address and id, but address+id spell the same string
                inp["look"] = True
            cases.append({"input": inp, "class": cls})

        def words(alpha, maxlen, minlen=1):
            for n in range(minlen, maxlen + 1):
                for combo in itertools.product(alpha, repeat=n - 1):
                    yield list(combo) + [("ev",)]

        # exhaustive over a reduced alphabet: PID 0 through two objects; histories that end in an event
        for w in words([("sub", 0, 0), ("sub", 0, 1), ("unsub", 0, 0), ("unsub", 0, 1), ("ev",)], 5 if quick else 7):
            add("exhaustive5", 2, False, w)
        # two PID values, three objects in all
        for w in words([("sub", 0, 0), ("sub", 0, 1), ("unsub", 0, 1), ("sub", 1, 0), ("unsub", 1, 1),
                        ("unsub", 0, 0), ("ev",)], 3 if quick else 6, 2):
            add("exhaustive7", 2, False, w)
        # an actor that stops and is spawned again under its id, subscribing through two objects
        for w in words([("sub", 0, 0), ("unsub", 0, 1), ("life", 0), ("ev",)], 6 if quick else 8, 2):
            if ("life", 0) in w:
                add("lifecycle4", 1, False, w)
        if not quick:
            for w in words([("sub", 0, 0), ("sub", 1, 0), ("unsub", 0, 1), ("life", 0), ("life", 1), ("ev",)], 6, 2):
                add("lifecycle6", 2, False, w)
        # the same id on this node and behind a foreign address (engine with a remote)
        for w in words([("sub", 0, 0), ("sub", 50, 0), ("unsub", 0, 1), ("unsub", 50, 1), ("ev",)], 4 if quick else 6, 2):
            add("remote5", 1, True, w)
            add("remote5_lookalike", 1, True, w, look=True)
        if not quick:
            for w in words([("sub", 0, 0), ("sub", 50, 0), ("sub", 51, 0), ("unsub", 0, 1), ("unsub", 50, 1),
                            ("life", 0), ("ev",)], 5, 2):
                add("remote7", 2, True, w)
        # random: 3 local PID values and their foreign twins x 2 objects, stops and respawns, up to 25 steps
        for k in range(200 if quick else 6000):
            remote = k % 2 == 0
            vals = [0, 1, 2] + ([50, 51, 52] if remote else [])
            hist = []
            for _ in range(rng.randint(1, 25)):
                r = rng.random()
                if r < 0.3:
                    hist.append(("sub", rng.choice(vals), rng.randrange(2)))
                elif r < 0.5:
                    hist.append(("unsub", rng.choice(vals), rng.randrange(2)))
                elif r < 0.65:
                    hist.append(("life", rng.randrange(3)))
                else:
                    hist.append(("ev",))
            add("random", 3, remote, hist, look=remote and k % 4 == 0)
        return cases

    def to_coq(self, inp, obs):
        logs = obs.get("logs") or []
        rlogs = obs.get("rlogs") or []
        return "K12 {| h_remote := %s; h_npids := %s; h_hist := %s; h_obs := %s; h_robs := %s |}" % (
            C.cbool(bool(inp.get("remote"))), nat(inp["npids"]), C.clist([hop_coq(h) for h in inp["hist"]]),
            C.clist([nats(l) for l in logs]), C.clist([nats(l) for l in rlogs]))

    def shrink(self, inp):
        h = inp["hist"]
        out = []
        for i in range(len(h)):
            if len(h) > 1:
                c = h[:i] + h[i + 1:]
                # keep stop / respawn alternating per actor
                ok, dead = True, set()
                for x in c:
                    if x[0] == "stop":
                        ok = ok and x[1] not in dead
                        dead.add(x[1])
                    elif x[0] == "respawn":
                        ok = ok and x[1] in dead
                        dead.discard(x[1])
                if ok:
                    out.append(dict(inp, hist=c))
        return out


class Conc12(Part):
    name = "conc"
    family = "events12"
    exec_module = "EventsExec"
    shard = 40
    branch_names = {11: "late_subscriber_got_a_proper_part", 12: "leaver_got_a_proper_part", 13: "sources_interleaved",
                    21: "1_broadcaster", 22: "2_broadcasters", 23: "3_broadcasters", 24: "4_broadcasters"}

    def generate(self, rng, tier):
        cases = []
        for k in (1, 2, 3, 4):
            for rep in range(6 if tier == "quick" else 60):
                hi = 12 if rep % 2 == 0 else 60
                counts = [rng.randint(1, hi) for _ in range(k)]
                late, leave = rep % 3 != 2, rep % 3 != 1
                ls, vs = rng.randrange(k), rng.randrange(k)
                cases.append({"input": {"kind": "conc", "nsubs": rng.choice([1, 1, 2, 3]) if rep % 6 else 0,
                                        "counts": counts,
                                        "late": late, "late_src": ls, "late_after": rng.randint(0, counts[ls]),
                                        "leave": leave, "leave_src": vs, "leave_after": rng.randint(0, counts[vs])},
                              "class": "%d_broadcasters" % k})
        return cases

    def to_coq(self, inp, obs):
        logs = obs.get("logs") or []
        late = obs.get("late") if inp["late"] else None
        leave = obs.get("leave") if inp["leave"] else None
        if inp["late"] and late is None:
            late = [4999]
        if inp["leave"] and leave is None:
            leave = [4999]
        return ("K12c {| k_nsubs := %s; k_counts := %s; k_late := %s; k_leave := %s; k_late_at := (%s, %s); "
                "k_leave_at := (%s, %s); k_obs := %s |}") % (
            nat(inp["nsubs"]), nats(inp["counts"]), C.copt(None if late is None else nats(late)),
            C.copt(None if leave is None else nats(leave)),
            nat(inp["late_src"]), nat(inp["late_after"]), nat(inp["leave_src"]), nat(inp["leave_after"]),
            C.clist([nats(l) for l in logs]))

    def shrink(self, inp):
        out = []
        cs = inp["counts"]
        for i, c in enumerate(cs):
            if c > 1:
                c2 = cs[:i] + [c // 2] + cs[i + 1:]
                out.append(dict(inp, counts=c2, late_after=min(inp["late_after"], c2[inp["late_src"]]),
                                leave_after=min(inp["leave_after"], c2[inp["leave_src"]])))
        if inp["late"]:
            out.append(dict(inp, late=False))
        if inp["leave"]:
            out.append(dict(inp, leave=False))
        if inp["nsubs"] > 1:
            out.append(dict(inp, nsubs=inp["nsubs"] - 1))
        return out


# --------------------------------------------------------------------- C09
def op_coq(o):
    k = o[0]
    if k == "sub":
        return "LSub %s" % cpid(o[1])
    if k == "unsub":
        return "LUnsub %s" % cpid(o[1])
    if k == "stop":
        return "LStop %s" % nat(o[1])
    if k == "send":
        return "LSend %s (EUser %s) %s" % (copid(o[1]), nat(o[2]), copid(o[3]))
    if k == "bcast":
        return "LBcast (EUser %s)" % nat(o[1])
    raise ValueError(o)


# target classes: nil, never spawned, stopped before the scenario, foreign address, live, an actor the scenario may stop
TARGETS = {"nil": None, "never": [0, 7], "stopped": [0, 6], "foreign": [1, 7], "live": [0, 5], "sub3": [0, 3]}
SENDERS = [None, [0, 8], [0, 7], [1, 3]]
# subscriber populations besides the live monitors: each entry is the list of steps that creates it
POPULATIONS = {
    "none": [],
    "stopped_after_sub": [["sub", [0, 3]], ["stop", 3]],
    "stopped_before_sub": [["sub", [0, 6]]],
    "never_spawned": [["sub", [0, 7]]],
    "foreign": [["sub", [1, 3]]],
    "two_stopped": [["sub", [0, 3]], ["sub", [0, 4]], ["stop", 3], ["stop", 4]],
    "stopped_and_unknown": [["sub", [0, 6]], ["sub", [0, 7]]],
    "unknown_and_foreign": [["sub", [0, 7]], ["sub", [1, 7]]],
    "live_subscriber": [["sub", [0, 4]]],
    "stop_then_sub_again": [["sub", [0, 3]], ["stop", 3], ["sub", [0, 3]]],
}

CRASH09 = {"logs": [], "panicked": False, "diverged": True,
           "note": "harness process left or died: the engine did not come to rest (or a panic escaped an actor)"}


class Undeliv09(Part):
    name = "undeliv"
    family = "undeliv09"
    exec_module = "EventsExec"
    shard = 500
    crash_obs = CRASH09
    branch_names = {31: "dead_letter", 32: "remote_missing", 33: "nil_target", 34: "delivery_to_live_target",
                    35: "forward_to_stopped_subscriber_came_back", 36: "forward_to_foreign_subscriber_came_back",
                    37: "two_or_more_came_back_from_one_event", 38: "send_with_sender",
                    39: "subscriber_dropped_and_subscribed_again", 40: "no_monitor", 41: "stop_of_a_subscribed_actor"}

    def generate(self, rng, tier):
        cases = []
        n = 0
        # four (six) target classes x senders x populations of 0-3 live and 0-2 stopped subscribers
        for nmon in (0, 1, 2, 3):
            for pname, pop in POPULATIONS.items():
                for tname, tgt in TARGETS.items():
                    for snd in SENDERS:
                        if tier == "quick" and nmon in (0, 3) and snd not in (None, [0, 8]):
                            continue
                        n += 1
                        ops = list(pop) + [["send", tgt, n % 4000 + 1, snd]]
                        # a second and third send: events after the unreachable subscribers were dropped
                        if n % 3 == 0:
                            ops.append(["send", [0, 7], (n + 1) % 4000 + 1, None])
                        if n % 5 == 0:
                            ops.append(["bcast", (n + 2) % 4000 + 1])
                        cases.append({"input": {"nmon": nmon, "ops": ops}, "class": "%s/%s" % (pname, tname)})
        # random scenarios
        subs_pool = [[0, 3], [0, 4], [0, 6], [0, 7], [1, 3], [1, 7]]
        for _ in range(250 if tier == "quick" else 6000):
            ops, stopped, k = [], set(), 0
            for _ in range(rng.randint(1, 10)):
                r = rng.random()
                k += 1
                if r < 0.25:
                    ops.append(["sub", rng.choice(subs_pool)])
                elif r < 0.33:
                    ops.append(["unsub", rng.choice(subs_pool)])
                elif r < 0.45 and len(stopped) < 2:
                    i = rng.choice([x for x in (3, 4) if x not in stopped])
                    stopped.add(i)
                    ops.append(["stop", i])
                elif r < 0.55:
                    ops.append(["bcast", rng.randint(1, 4000)])
                else:
                    tgt = rng.choice(list(TARGETS.values()) + [[0, 4], [1, 3]])
                    ops.append(["send", tgt, rng.randint(1, 4000), rng.choice(SENDERS)])
            cases.append({"input": {"nmon": rng.randint(0, 3), "ops": ops}, "class": "random"})
        return cases

    def to_coq(self, inp, obs):
        logs = obs.get("logs") or []
        cl = C.clist(["(%s, %s)" % (nat(l[0]), C.clist(["(%s, %s)" % (cmsg(x[0]), copid(x[1])) for x in l[1]]))
                      for l in logs])
        return "K09 {| u_nmon := %s; u_ops := %s; u_logs := %s; u_panicked := %s; u_diverged := %s |}" % (
            nat(inp["nmon"]), C.clist([op_coq(o) for o in inp["ops"]]), cl,
            C.cbool(bool(obs.get("panicked"))), C.cbool(bool(obs.get("diverged"))))

    def shrink(self, inp):
        ops = inp["ops"]
        out = [dict(inp, ops=ops[:i] + ops[i + 1:]) for i in range(len(ops)) if len(ops) > 1]
        if inp["nmon"] > 0:
            out.append(dict(inp, nmon=inp["nmon"] - 1))
        return out
