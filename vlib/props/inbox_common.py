"""Shared by C01, C02, C03: exhaustive / random exploration of schedules of the
real actor/inbox.go under the deterministic scheduler, replayed in the Coq
model Inbox.v and judged by the property's oracle projection."""
import json
from ..driver import Part
from .. import common as C

from .. import srcfacts
from .. import srctie

INBOX_TIE_THEOREMS = ["sim_step", "sim_reach", "C02_src_receive_mutex", "C01_src_conservation",
                      "C01_C03_src_quiescent_is_drained", "C03_src_terminates", "C03_src_no_infinite_run", "C03_src_no_deadlock"]
INBOX_TIE_DEPS = ["Inbox.v", "InboxExec.v", "InboxProofs.v", "InboxSrcSem.v"]

_FACTS = srcfacts.inbox_facts()
_NAMES = {"stopped": "Stopped", "starting": "Starting", "idle": "Idle", "running": "Running"}
# the numbering of the inbox states and the PopN batch bound are read from actor/inbox.go, so a
# renumbering or another batch size moves the model's parameters with the code
ST = {0: "Stopped", 1: "Starting", 2: "Idle", 3: "Running"}
if _FACTS.get("states") and set(_FACTS["states"]) == set(_NAMES):
    ST = {v: _NAMES[k] for k, v in _FACTS["states"].items()}
BOUND = _FACTS.get("messageBatchSize") or 4096
if not 1 <= BOUND < 5000:
    BOUND = 4096


def label_coq(e):
    op, a, r = e["op"], e.get("a") or [], e.get("r") or []
    if op == "push":
        return "LPush %s" % C.cnat(a[0])
    if op == "cas":
        return "LCas %s %s %s" % (ST[a[0]], ST[a[1]], C.cbool(r[0]))
    if op == "load":
        return "LLoad %s" % ST[r[0]]
    if op == "swap":
        return "LSwap %s %s" % (ST[a[0]], ST[r[0]])
    if op == "store":
        return "LStore %s" % ST[a[0]]
    if op == "popn":
        return "LPopN %s %s" % (C.clist([C.cnat(x) for x in r[0]]), C.cbool(r[1]))
    if op == "len":
        return "LLen %s" % C.cnat(r[0])
    if op == "invoke-begin":
        return "LInvB %s" % C.clist([C.cnat(x) for x in a[0]])
    if op == "invoke-end":
        return "LInvE"
    return "LNone"


def obs_coq(o):
    return ("{| o_status := %s; o_qlen := %s; o_delivered := %s; o_dropped := %s; o_pushed := %s; "
            "o_overlap := %s; o_deadlock := %s; o_terminal := %s |}") % (
        ST.get(o["status"], "Stopped"), C.cnat(max(0, o["qlen"])),
        C.clist([C.cnat(x) for x in o["delivered"]]), C.clist([C.cnat(x) for x in o["dropped"]]),
        C.clist([C.cnat(x) for x in o["pushed"]]), C.cbool(o["overlap"]), C.cbool(o["deadlock"]), C.cbool(o["terminal"]))


def clients_coq(inp):
    cl = ["SPush %s" % C.clist([C.cnat(m) for m in ms]) for ms in inp["senders"]]
    if inp["starter"]:
        cl.append("TCas")
    return C.clist(cl)


class InboxSched(Part):
    name = "sched"
    binary = "hvs"
    family = "inboxsched"
    exec_module = "InboxExec"
    shard = 120
    prop = 0
    branch_names = {1: "sender_cas_fails_worker_active", 2: "recheck_finds_messages", 4: "pill_stops_inbox",
                    5: "batch_bound_splits_backlog", 6: "exit_cas_fails_stopped", 7: "push_after_empty_pop_before_idle"}

    def configs(self, tier):
        q = [  # (senders, starter, cap, mode, max_execs)
            ([[1]], True, 1, "dfs", 0), ([[1]], False, 1, "dfs", 0),
            ([[1, 2]], True, 1, "dfs", 0), ([[1, 2]], False, 2, "dfs", 0),
            ([[1], [2]], True, 1, "dfs", 0), ([[1], [2]], False, 1, "dfs", 0), ([[1], [2]], True, 2, "dfs", 0),
            ([[1000]], True, 1, "dfs", 0), ([[1, 1000]], False, 1, "dfs", 0), ([[1], [1000]], False, 1, "dfs", 0),
            ([[1, 2, 3], [4, 5]], True, 1, "walk", 300), ([[1, 2], [3, 4], [5, 6]], False, 1, "walk", 300),
            ([[1, 2, 3, 4, 5, 6]], True, 2, "walk", 150), ([[1, 2], [3, 1000], [4]], True, 1, "walk", 200),
            # a throughput budget of 0 / 1: the worker reaches the yield of run() after its first / second batch
            ([[1, 2]], False, 1, "dfs", 0, 0), ([[1], [2]], False, 1, "dfs", 0, 0), ([[1, 2, 3]], False, 1, "dfs", 0, 1),
            ([[1, 2, 3], [4, 5]], False, 1, "walk", 300, 0), ([[1, 2, 3, 4, 5, 6]], True, 1, "walk", 200, 1),
        ]
        t = [
            ([[1, 2], [3]], True, 2, "dfs", 0), ([[1, 2], [3]], False, 1, "dfs", 0),
            ([[1], [2], [3]], True, 1, "dfs", 0), ([[1], [2], [3]], False, 1, "dfs", 0),
            ([[1, 1000], [2]], True, 1, "dfs", 0), ([[1, 2], [3, 4]], False, 1, "dfs", 400000),
            ([[1, 2, 3], [4, 5, 6], [7, 8]], True, 1, "walk", 4000), ([[1, 2, 3, 4, 5, 6, 7, 8]], True, 1, "walk", 2000),
            ([[1, 2], [3, 4], [5, 6], [7, 8]], False, 1, "walk", 4000), ([[1, 2, 1000], [3, 4], [5]], True, 1, "walk", 3000),
            ([[1, 2], [3]], True, 1, "dfs", 0, 0), ([[1, 2, 3], [4, 5, 6], [7, 8]], True, 1, "walk", 4000, 0),
            ([[1, 2, 3, 4, 5, 6, 7, 8]], False, 1, "walk", 2000, 1),
        ]
        return q + (t if tier == "thorough" else [])

    def generate(self, rng, tier):
        self._tier = tier
        out = []
        for k, cfg in enumerate(self.configs(tier)):
            (senders, starter, cap, mode, mx), tp = cfg[:5], (cfg[5] if len(cfg) > 5 else None)
            inp = {"cap": cap, "senders": senders, "starter": starter, "mode": mode,
                   "max_execs": mx, "keep": 40 if mode == "dfs" else 60,
                   "idle": [k for k, v in ST.items() if v == "Idle"][0],
                   "seed": rng.randrange(1 << 30)}
            if tp is not None:
                inp["throughput"] = tp
            out.append({"input": inp, "class": mode if tp is None else mode + "_small_throughput"})
        return out

    def case_coq(self, inp, o, sched=None, trace=None):
        replay = sched is not None
        # the batch bound of the model is the argument the code actually passes to PopN (the
        # theorems hold for every bound >= 1); fall back to the constant read from the source
        bound = BOUND
        ns = {e["a"][0] for e in (trace or []) if e["op"] == "popn" and e.get("a")}
        if len(ns) == 1 and 1 <= list(ns)[0] < 5000:
            bound = list(ns)[0]
        return ("{| c_prop := %s; c_bound := %s; c_started := %s; c_clients := %s; c_sched := %s; c_labels := %s; "
                "c_replay := %s; c_obs := %s |}") % (
            C.cnat(self.prop), C.cnat(bound), C.cbool(not inp["starter"]), clients_coq(inp),
            C.clist([C.cnat(g) for g in (sched or [])]), C.clist([label_coq(e) for e in (trace or [])]),
            C.cbool(replay), obs_coq(o))

    def to_coq(self, inp, obs):
        if "trace" in obs and "terminals" not in obs:      # a single replayed execution
            return [self.case_coq(inp, obs["obs"], obs["sched"], obs["trace"])]
        terms = []
        for smp in (obs.get("samples") or []) + (obs.get("bad") or []):
            terms.append(self.case_coq(inp, smp["obs"], smp["sched"], smp["trace"]))
        for t in obs.get("terminals") or []:
            terms.append(self.case_coq(inp, t))
        return terms

    def extra_coverage(self, inputs, obs):
        # translation tie (DESIGN.md 0.10): actor/inbox.go is re-translated to CMini terms and the step-by-step
        # simulation with Inbox.v plus the transferred theorems are re-proved against those terms; information only
        tie = srctie.translation_tie("inboxtie", "inboxtrans", "actor/inbox.go", "InboxSrc.v", "InboxSrcProofs.v",
                                     INBOX_TIE_THEOREMS, INBOX_TIE_DEPS, getattr(self, "_tier", "quick"))
        n = srctie.note("C%02d" % self.prop if self.prop else "C01-C03", tie)
        if n:
            print(n, flush=True)
        C.log("translation tie (inbox): %s" % json.dumps(tie)[:800])
        return dict(
            translation_tie=tie,
            schedules_enumerated=sum(o.get("executions", 1) for o in obs),
            states=sum(o.get("states", 0) for o in obs),
            transitions=sum(o.get("transitions", 0) for o in obs),
            distinct_terminal_observations=sum(len(o.get("terminals") or []) for o in obs),
            traces_validated_against_impl=sum(len(o.get("samples") or []) for o in obs),
            exhaustive_configs=sum(1 for i, o in zip(inputs, obs) if i["input"]["mode"] == "dfs" and o.get("exhaustive")),
            source_facts=_FACTS,
            configs=[{"senders": i["input"]["senders"], "starter": i["input"]["starter"], "cap": i["input"]["cap"],
                      "mode": i["input"]["mode"], "executions": o.get("executions"), "states": o.get("states"),
                      "exhaustive": o.get("exhaustive")} for i, o in zip(inputs, obs)])

    def shrink(self, inp):
        if inp.get("mode") == "replay":
            return []
        out = []
        s = inp["senders"]
        for i in range(len(s)):
            if len(s) > 1:
                out.append(dict(inp, senders=s[:i] + s[i + 1:]))
            if len(s[i]) > 1:
                out.append(dict(inp, senders=s[:i] + [s[i][:-1]] + s[i + 1:]))
        for o in out:
            o["mode"] = "dfs"
            o["max_execs"] = 60000
        return out

    def describe_obs(self, obs):
        if "terminals" not in obs:
            return obs
        d = {k: obs.get(k) for k in ("executions", "states", "transitions", "deadlocks", "stuck", "exhaustive")}
        d["terminals"] = (obs.get("terminals") or [])[:4]
        if obs.get("bad"):
            b = obs["bad"][0]
            d["failing_schedule"] = {"choices": b["choices"], "sched": b["sched"], "trace": b["trace"], "obs": b["obs"]}
        elif obs.get("samples"):
            d["sample_schedule"] = {"sched": obs["samples"][0]["sched"], "obs": obs["samples"][0]["obs"]}
        return d


COQ_FILES = ["Ring.v", "RingProofs.v", "Inbox.v", "InboxProofs.v", "InboxExec.v", "PropsInbox.v", "PropsRing.v", "DeliverExec.v", "InboxRing.v", "InboxRingProofs.v", "InboxSelf.v", "InboxSelfProofs.v", "PropsInboxRing.v"]
TRUSTED_BASE = [
    "Coq 8.16.1 kernel; vm_compute (model replay of the explored schedules); no native_compute",
    "axioms: none (Print Assumptions below)",
    "correspondence: tools/shimgen (go/ast import rewrite of the current actor/inbox.go: sync/atomic -> yielding shim, "
    "ringbuffer -> yielding wrapper, `go f()` -> vsched.Go), tools/verifshim/vsched (deterministic scheduler, DFS with "
    "visited-state pruning), harness cmd/hvs family inboxsched, hook file tools/hooks/actor/hooks.go (reads procStatus and ring length), "
    "vlib/props/inbox_common.py",
    "modelled not verified: sync/atomic operations are sequentially consistent single steps, `go` has no effect besides "
    "creating the goroutine (Go memory model); the ring is atomic at this level (its own refinement is C14); "
    "scheduler fairness is not assumed (termination is proved for every scheduler)",
]
ASSUMPTIONS = [
    "hand-written model Inbox.v of actor/inbox.go; tie = lock-step replay of every sampled schedule of the real code in the model "
    "(same thread choices => same operations, same results, same final state) + the property predicate on every terminal observation",
    "exhaustive enumeration is of small configurations only (it supports the tie; the theorems are unbounded)",
]


class Deliver(Part):
    """real engine, real goroutines: N senders x M numbered messages into one actor
    (inbox size 1, so the ring grows and wraps), and self-sending chains of single-message batches"""
    name = "engine"
    binary = "hv"
    family = "deliver"
    exec_module = "DeliverExec"
    parallel = False        # the runs are timing-sensitive enough: one at a time
    branch_names = {1: "several_senders", 2: "crosses_batch_bound_4096", 3: "over_300_consecutive_batches",
                    4: "restarts_with_senders_active", 5: "sends_while_Started_is_running", 6: "children_listed_while_they_stop",
                    7: "stop_request_racing_restarts_and_senders"}
    # (branch 6 is also reached by the child-busy runs: they have no senders either)
    restart_only = False
    spawnrace_only = False
    childrenrace_only = False
    stoprace_only = False
    childbusy_only = False

    def generate(self, rng, tier):
        if self.childbusy_only:
            holds = [2300] if tier == "quick" else [300, 2300, 5600]
            return [{"input": dict(mode="childbusy", senders=0, per_sender=0, handler_micros=h * 1000), "class": "childbusy"} for h in holds]
        if self.stoprace_only:
            cs = []
            for k in range(4 if tier == "quick" else 24):
                fixed = k < 4
                nsend = 3 if fixed else rng.randint(2, 4)
                per = 150 if fixed else rng.randint(80, 250)
                p1 = 10 + 5 * k if fixed else rng.randint(3, 40)
                cs.append(dict(mode="stoprace", senders=nsend, per_sender=per, inbox_size=1 + k % 3,
                               panic_at=[[1, p1]] + ([[2, p1 + 30]] if k % 2 else []),
                               restart_delay_ms=[10, 25, 40][k % 3], handler_micros=[150, 400][k % 2], pace_micros=[300, 150][k // 2 % 2],
                               stop_at=(p1 + 40 + 15 * (k % 4)) if fixed else rng.randint(p1 + 5, per), poison=k % 2 == 1))
            return [{"input": c, "class": "stoprace"} for c in cs]
        cs = [dict(mode="chain", total=350), dict(mode="chain", total=1000),
              dict(mode="multi", senders=1, per_sender=500, inbox_size=1),
              dict(mode="multi", senders=4, per_sender=400, inbox_size=1),
              dict(mode="multi", senders=8, per_sender=200, inbox_size=3),
              dict(mode="multi", senders=2, per_sender=2500, inbox_size=1),
              dict(mode="multi", senders=3, per_sender=300, inbox_size=2, via_actor=True)]
        restart = [dict(mode="multi", senders=3, per_sender=150, inbox_size=1, panic_at=[[0, 20], [1, 90]],
                        restart_delay_ms=25, handler_micros=150, pace_micros=300),
                   dict(mode="multi", senders=2, per_sender=250, inbox_size=2, panic_at=[[1, 10]],
                        restart_delay_ms=40, handler_micros=100, pace_micros=250)]
        if self.childrenrace_only:
            cs = [dict(mode="childrenrace", senders=0, per_sender=n, total=r) for n, r in ((8, 150), (40, 60))]
            if tier == "thorough":
                cs += [dict(mode="childrenrace", senders=0, per_sender=rng.randint(2, 60), total=300) for _ in range(6)]
            return [{"input": c, "class": "childrenrace"} for c in cs]
        if self.spawnrace_only:
            cs = [dict(mode="spawnrace", senders=1, per_sender=n, inbox_size=sz) for n, sz in ((1, 1), (7, 1), (50, 2), (300, 1))]
            if tier == "thorough":
                cs += [dict(mode="spawnrace", senders=1, per_sender=rng.randint(1, 2000), inbox_size=rng.randint(1, 4)) for _ in range(10)]
            return [{"input": c, "class": "spawnrace"} for c in cs]
        if self.restart_only:
            cs = restart
            if tier == "thorough":
                cs = cs + [dict(mode="multi", senders=rng.randint(2, 4), per_sender=200, inbox_size=rng.randint(1, 3),
                                panic_at=[[0, rng.randint(5, 60)], [1, rng.randint(61, 150)]], restart_delay_ms=rng.choice([10, 30, 60]),
                                handler_micros=rng.choice([50, 200]), pace_micros=rng.choice([100, 400])) for _ in range(6)]
            return [{"input": c, "class": "restart"} for c in cs]
        cs += restart
        if tier == "thorough":
            cs += [dict(mode="multi", senders=8, per_sender=3000, inbox_size=1),
                   dict(mode="multi", senders=4, per_sender=3000, inbox_size=5, via_actor=True),
                   dict(mode="chain", total=4500)] + \
                  [dict(mode="multi", senders=rng.randint(1, 8), per_sender=rng.randint(50, 1500), inbox_size=rng.randint(1, 9))
                   for _ in range(12)]
        return [{"input": c, "class": c["mode"]} for c in cs]

    def to_coq(self, inp, obs):
        senders = inp.get("senders", 1)
        per = inp.get("per_sender", inp.get("total", 0))
        if inp["mode"] == "childrenrace":
            per = 0
        head = "{| c_senders := %s; c_per_sender := %s; c_got := %s; c_hang := %s; c_overlap := %s; c_restarts := %s; " % (
            C.cnat(senders), C.cnat(per),
            C.clist(["{| g_from := %s; g_seq := %s; g_sender_ok := %s |}" % (C.cnat(g[0]), C.cnat(min(g[1], 4999)), C.cbool(g[2] == 1))
                     for g in obs["got"]]), C.cbool(obs["hang"]), C.cbool(obs.get("overlap", False)),
            C.cnat(len(inp.get("panic_at", []))))
        return (head + "c_spawnrace := " + C.cbool(inp["mode"] == "spawnrace") + "; c_stoprace := " + C.cbool(inp["mode"] == "stoprace") +
                "; c_spawn_early := " +
                C.cbool(obs.get("spawn_early", False)) + "; c_anomalies := " + C.cnat(min(obs.get("anomalies", 0), 4999)) + " |}")

    def describe_obs(self, obs):
        return {"received": len(obs["got"]), "hang": obs["hang"], "overlap": obs.get("overlap"), "anomalies": obs.get("anomalies", 0), "first": obs["got"][:6]}


class DeliverChildrenRace(Deliver):
    """Context.Children() listed by a parent while its children are being stopped by someone else"""
    name = "engine_children_race"
    childrenrace_only = True
    parallel = True
    confirm = False


class DeliverSpawnRace(Deliver):
    """sends racing the Started handler of a freshly registered actor"""
    name = "engine_spawn_race"
    spawnrace_only = True
    parallel = True


class DeliverChildBusy(Deliver):
    """a parent poisoned while its child is inside a handler for seconds: the child's Stopped must wait for the handler"""
    name = "engine_child_busy"
    childbusy_only = True
    parallel = True


class DeliverStopRace(Deliver):
    """a stop or poison request racing restarts (senders active during the restart delay) and busy handlers"""
    name = "engine_stop_race"
    stoprace_only = True
    parallel = False


class DeliverRestart(Deliver):
    """only the restart scenarios (senders stay active during the restart delay)"""
    name = "engine_restart"
    restart_only = True
