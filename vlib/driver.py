"""Verdict protocol (DESIGN.md 3.4) and evidence writing."""
import importlib, json, os, random, sys, time, traceback
from . import common as C

ALLOWED_AXIOMS = ()   # none: every property theorem must be closed under the global context


class Part:
    """one correspondence family of a property"""
    name = "part"
    binary = "hv"          # harness binary (hv: plain build, hvs: scheduler-shimmed build)
    family = ""            # harness sub-command
    exec_module = ""       # Coq module with [case], [report]
    branch_names = {}
    shard = 250
    harness_args = ()
    parallel = True

    def generate(self, rng, tier):
        raise NotImplementedError

    def to_coq(self, inp, obs):
        raise NotImplementedError

    def shrink(self, inp):
        return []

    def describe(self, inp):
        return inp

    def describe_obs(self, obs):
        return obs


def modelled_sources(pid):
    """the source files the property is anchored in, with their hash now and whether it is the
    hash recorded when the model was last validated against them (information, not a verdict:
    the behavioural tie is the correspondence run)"""
    import hashlib
    out = {}
    try:
        props = [json.loads(l) for l in open(os.path.join(C.VERIF, "properties.jsonl"))]
        files = [p for p in props if p["id"] == pid][0]["anchors"]["files"]
        rec = {}
        rp = os.path.join(C.VERIF, "modelled_sources.json")
        if os.path.exists(rp):
            rec = json.load(open(rp))
        for f in files:
            fp = os.path.join(C.REPO, f)
            if os.path.exists(fp):
                h = hashlib.sha256(open(fp, "rb").read()).hexdigest()[:16]
                out[f] = {"sha256_16": h, "same_as_when_model_was_validated": rec.get(f) == h}
    except Exception as e:
        out["error"] = str(e)
    return out


def load_known():
    p = os.path.join(C.VERIF, "known_findings.json")
    if not os.path.exists(p):
        return {"findings": [], "fixed": []}
    return json.load(open(p))


def eval_part(part, binary, inputs, work, tag):
    """run inputs through implementation and model; returns dict.  One input
    may expand to several Coq cases (to_coq returning a list); failures are
    reported per input."""
    if not inputs:
        return dict(obs=[], corr=[], oracle=[], known=[], branches=[], terms=0)
    if getattr(part, "one_per_process", False):
        # every case in a harness process of its own: a panic on a background goroutine of the
        # code under test is then attributed to the case that caused it
        from concurrent.futures import ThreadPoolExecutor
        with ThreadPoolExecutor(max_workers=max(1, C.NCPU // 2)) as ex:
            obs = list(ex.map(lambda i: C.run_harness(binary, part.family, [i["input"]], args=part.harness_args,
                                                       crash_obs=getattr(part, "crash_obs", None))[0], inputs))
    else:
        runner = C.run_harness_parallel if part.parallel else C.run_harness
        obs = runner(binary, part.family, [i["input"] for i in inputs], args=part.harness_args,
                     crash_obs=getattr(part, "crash_obs", None))
    terms, owner = [], []
    for idx, (i, o) in enumerate(zip(inputs, obs)):
        ts = part.to_coq(i["input"], o)
        if isinstance(ts, str):
            ts = [ts]
        for t in ts:
            terms.append(t)
            owner.append(idx)
    reports, shard = C.run_cases_in_coq(part.exec_module, terms, work, tag, shard=part.shard)
    corr, oracle, known = [], [], []
    branches = [[] for _ in inputs]
    for k, rep in enumerate(reports):
        base = k * shard
        if len(rep) == 3:
            cf, of, br = rep
            kn = []
        else:
            cf, of, kn, br = rep
        for i in cf:
            if owner[base + i] not in corr:
                corr.append(owner[base + i])
        for i in of:
            if owner[base + i] not in oracle:
                oracle.append(owner[base + i])
        for (i, cls) in kn:
            if (owner[base + i], cls) not in known:
                known.append((owner[base + i], cls))
        for i, b in enumerate(br):
            o = owner[base + i]
            for x in b:
                if x not in branches[o]:
                    branches[o].append(x)
    return dict(obs=obs, corr=corr, oracle=oracle, known=known, branches=branches, terms=len(terms))


def shrink_failure(part, binary, inp, work, kind, rounds=12):
    """greedy one-step reduction while the same kind of failure persists"""
    cur = inp
    t_end = time.time() + float(os.environ.get("VERIF_SHRINK_BUDGET_S", "150"))
    for r in range(rounds):
        if time.time() > t_end:
            C.log("shrink: time budget used up after %d rounds" % r)
            break
        cands = part.shrink(cur)
        if not cands:
            break
        # large inputs are expensive to evaluate: fewer candidates per round
        cands = cands[:200 if len(json.dumps(cur)) < 2000 else 24]
        try:
            ev = eval_part(part, binary, [{"input": c} for c in cands], work, "shr%d" % r)
        except Exception as e:
            C.log("shrink aborted:", e)
            break
        bad = ev[kind]
        if not bad:
            break
        cur = cands[bad[0]]
    return cur


def write_replay(pid, seed, n, payload):
    os.makedirs(C.REPLAYS, exist_ok=True)
    # runs against a scratch tree (VERIF_REPO) may be concurrent: their replay files must not collide
    p = os.path.join(C.REPLAYS, "%s-%d-%d%s.json" % (pid, seed, n, "-p%d" % os.getpid() if C._ALT else ""))
    json.dump(payload, open(p, "w"), indent=1, default=str)
    return p


def run_property(pid, tier, seed):
    t0 = time.time()
    mod = importlib.import_module("vlib.props." + pid.lower())
    work = C.Work(pid)
    violations = []      # (replay_path, no_failing_input_found)
    known_lines = []
    try:
        rng = random.Random(seed * 1000003 + int(pid[1:]))
        # ---- 1. proof obligations
        for attempt in (1, 2):
            # checked twice before it counts as broken: a coqc killed by a timeout on an
            # overloaded machine is not a broken proof
            ok_build, buildlog = C.coq_build()
            forbidden = C.scan_forbidden()
            cone = list(mod.COQ_FILES) + ["Properties.v"]
            total, done, per = C.count_obligations(cone)
            assumptions = C.print_assumptions(mod.THEOREMS, work)
            bad_thms = {t: a for t, a in assumptions.items()
                        if not a.startswith("Closed under the global context")}
            proof_ok = (total == done) and not bad_thms and not forbidden
            if proof_ok or forbidden:
                break
            C.log("proof obligations not discharged at attempt %d" % attempt)
        proof_note = ""
        if not proof_ok:
            proof_note = "proof obligations not discharged: " + json.dumps(
                {"files": {v: d for v, d in per.items() if not d["compiled"]},
                 "theorems": bad_thms, "forbidden": forbidden})
            C.log(proof_note)
            C.log(buildlog[-3000:])
        # ---- 2/3. correspondence and oracle on the implementation
        known = load_known()
        listed = {(f["property"], f["part"], f["class"]): f for f in known.get("findings", [])}
        binaries = {}
        cov = dict(evaluations=0, distinct_nontrivial=0, samples=[], branch_histogram={},
                   parts={}, known_findings_seen=[])
        seen_nontrivial = set()
        corr_broken = []
        nrep = 0
        for part in mod.PARTS:
            if part.binary not in binaries:
                # only the families this property's parts use (and the hook files they need) are built
                fams = set()
                for q in mod.PARTS:
                    if q.binary == part.binary:
                        ff = getattr(q, "fam_files", None) or ([C.FAMILY_FILE[q.family]] if q.family in C.FAMILY_FILE else None)
                        if not ff:
                            fams = None
                            break
                        fams.update(ff)
                if hasattr(mod, "build"):
                    try:
                        b, out = mod.build(part.binary, work, fams=sorted(fams) if fams else None)
                    except TypeError:
                        b, out = mod.build(part.binary, work)
                else:
                    b, out = C.build_harness(work, part.binary, fams=sorted(fams) if fams else None)
                binaries[part.binary] = (b, out)
            binary, bout = binaries[part.binary]
            if binary is None:
                corr_broken.append((part, None, "harness could not be built against the current tree:\n" + bout[-3000:]))
                continue
            inputs = part.generate(rng, tier)
            ev = None
            for attempt in (1, 2):
                # an infrastructure failure (harness timeout under load, a killed coqc) is retried
                # once; one that persists is reported as a broken correspondence
                try:
                    ev = eval_part(part, binary, inputs, work, part.name if attempt == 1 else part.name + "_retry")
                    break
                except Exception as e:
                    C.log("correspondence run failed (attempt %d): %s" % (attempt, e))
                    cov.setdefault("retried_runs", []).append({"part": part.name, "error": str(e)[:300]})
                    err = e
            if ev is None:
                corr_broken.append((part, None, "correspondence run failed: %s" % err))
                continue
            # a failure must reproduce: the failing cases are run once more in a fresh harness
            # process and only what fails again (same kind) is kept; a replay that does not
            # replay demonstrates nothing, and timeouts under machine load must not raise alarms
            suspects = sorted(set(ev["oracle"]) | set(ev["corr"]))
            if suspects and getattr(part, "confirm", True):
                first_obs = {i: ev["obs"][i] for i in suspects}
                try:
                    ev2 = eval_part(part, binary, [inputs[i] for i in suspects], work, part.name + "_confirm")
                    again_o = {suspects[j] for j in ev2["oracle"]}
                    again_c = {suspects[j] for j in ev2["corr"]}
                except Exception as e:
                    C.log("confirmation run failed:", e)
                    again_o, again_c = set(ev["oracle"]), set(ev["corr"])
                dropped = [i for i in suspects if (i in ev["oracle"] and i not in again_o) or (i in ev["corr"] and i not in again_c)]
                if dropped:
                    cov.setdefault("unreproduced_failures", []).extend(
                        {"part": part.name, "input": part.describe(inputs[i]["input"]),
                         "first_observation": part.describe_obs(first_obs[i])} for i in dropped[:5])
                    C.log("unreproduced failures (dropped): %d in part %s" % (len(dropped), part.name))
                ev["oracle"] = [i for i in ev["oracle"] if i in again_o]
                ev["corr"] = [i for i in ev["corr"] if i in again_c]
            cov["evaluations"] += len(inputs)
            hist = {}
            for i, br in enumerate(ev["branches"]):
                if br:
                    key = (part.name, json.dumps(inputs[i]["input"], sort_keys=True))
                    seen_nontrivial.add(key)
                for b in br:
                    nm = part.branch_names.get(b, str(b))
                    hist[nm] = hist.get(nm, 0) + 1
            cov["branch_histogram"][part.name] = hist
            classes = {}
            for i in inputs:
                classes[i.get("class", "-")] = classes.get(i.get("class", "-"), 0) + 1
            cov["parts"][part.name] = dict(cases=len(inputs), coq_cases=ev["terms"], classes=classes,
                                           corr_failures=len(ev["corr"]), oracle_failures=len(ev["oracle"]))
            if hasattr(part, "extra_coverage"):
                extra = part.extra_coverage(inputs, ev["obs"])
                cov["parts"][part.name].update(extra)
                for k in ("states", "transitions", "schedules_enumerated", "traces_validated_against_impl"):
                    if k in extra:
                        cov[k] = cov.get(k, 0) + extra[k]
            for i in (0, len(inputs) // 2, len(inputs) - 1):
                if inputs:
                    cov["samples"].append({"part": part.name, "input": part.describe(inputs[i]["input"]),
                                           "observation": part.describe_obs(ev["obs"][i])})
            # known findings: oracle fails inside a listed class and the faithful model agrees
            known_idx = set()
            for (i, cls) in ev["known"]:
                f = listed.get((pid, part.name, cls))
                if f is not None and i not in ev["corr"]:
                    known_idx.add(i)
                    if f["id"] not in cov["known_findings_seen"]:
                        cov["known_findings_seen"].append(f["id"])
                        known_lines.append("KNOWN-FINDING: property=%s %s" % (pid, f["what"]))
            real = [i for i in ev["oracle"] if i not in known_idx]
            for i in real[:3]:
                small = shrink_failure(part, binary, inputs[i]["input"], work, "oracle")
                ev1 = eval_part(part, binary, [{"input": small}], work, "rep")
                nrep += 1
                path = write_replay(pid, seed, nrep, dict(
                    property=pid, part=part.name, kind="oracle",
                    what="the property's predicate is false on what the implementation did",
                    input=small, observation=part.describe_obs(ev1["obs"][0]), original_input=inputs[i]["input"],
                    first_observation=part.describe_obs(ev["obs"][i]),
                    model_agrees=(not ev1["corr"])))
                violations.append((path, False))
            if not real and ev["corr"]:
                i = ev["corr"][0]
                small = shrink_failure(part, binary, inputs[i]["input"], work, "corr")
                ev1 = eval_part(part, binary, [{"input": small}], work, "rep")
                corr_broken.append((part, dict(input=small, observation=ev1["obs"][0]),
                                    "model and implementation differ (%d of %d cases)" % (len(ev["corr"]), len(inputs))))
        cov["distinct_nontrivial"] = len(seen_nontrivial)
        # ---- 4. broken proof or correspondence with no oracle failure: search, then report
        if not violations and (corr_broken or not proof_ok):
            found = None
            if hasattr(mod, "search"):
                try:
                    found = mod.search(rng, binaries, work)
                except Exception as e:
                    C.log("search failed:", e)
            nrep += 1
            if found:
                path = write_replay(pid, seed, nrep, dict(property=pid, kind="oracle-by-search", **found))
                violations.append((path, False))
            else:
                path = write_replay(pid, seed, nrep, dict(
                    property=pid, kind="no-failing-input-found",
                    proof=proof_note or "all obligations discharged",
                    correspondence=[dict(part=p.name, detail=d, first_difference=w) for (p, w, d) in corr_broken],
                    what="the property is no longer shown to hold: " +
                         ("the theorems %s (or their dependency cone) no longer check" % list(bad_thms or per)
                          if not proof_ok else "the correspondence between model and implementation broke")))
                violations.append((path, True))
        # ---- 5. evidence
        wall = time.time() - t0
        cov.update(dict(
            obligations=total, discharged=done,
            checker_cmd="make -C /verif/coq (coq_makefile, full .vo build, coqc 8.16.1); Print Assumptions per property theorem"
                        + ("; coqchk -silent -o in the thorough tier" if tier == "thorough" else ""),
            trusted_base=mod.TRUSTED_BASE + ["Print Assumptions: " + "; ".join("%s: %s" % (t, a.replace("\n", " ")) for t, a in assumptions.items())],
            rule=mod.RULE, exhaustive=getattr(mod, "EXHAUSTIVE", False),
            vm_compute_cross_checked=cov["evaluations"], proof_files=per,
            theorems=list(mod.THEOREMS)))
        cov["modelled_sources"] = modelled_sources(pid)
        if tier == "thorough":
            chk = C.coqchk_cached(["Properties"])
            cov["coqchk"] = chk
            if not chk["ok"] and not violations:
                nrep += 1
                path = write_replay(pid, seed, nrep, dict(property=pid, kind="no-failing-input-found",
                                    what="coqchk rejects the compiled development", detail=chk))
                violations.append((path, True))
            if hasattr(mod, "thorough_extra"):
                cov["thorough_extra"] = mod.thorough_extra(work)
        ev_obj = dict(property_id=pid, tier=tier, seed=seed, level="proof", coverage=cov,
                      assumptions=mod.ASSUMPTIONS, wall_s=round(wall, 2), violations=len(violations))
        os.makedirs(C.EVIDENCE, exist_ok=True)
        json.dump(ev_obj, open(os.path.join(C.EVIDENCE, pid + ".json"), "w"), indent=1, default=str)
    finally:
        work.close()
    for l in known_lines:
        print(l)
    for (path, nofail) in violations:
        print("VIOLATION property=%s replay=%s%s" % (pid, path, " no-failing-input-found" if nofail else ""))
        try:        # a short reason on stdout, so that a log of the run says what broke
            r = json.load(open(path))
            if nofail:
                why = [r.get("proof", "")[:300]] if r.get("proof", "").startswith("proof obligations") else []
                why += ["%s: %s" % (c.get("part"), str(c.get("detail"))[:400].replace("\n", " | ")) for c in r.get("correspondence", [])]
                print("REASON: " + " ;; ".join(why)[:1500])
            else:
                print("REASON: part=%s input=%s" % (r.get("part"), json.dumps(r.get("input"))[:600]))
        except Exception:
            pass
    if violations:
        return 1
    print("OK property=%s tier=%s cases=%d obligations=%d/%d wall=%.1fs" % (
        pid, tier, cov["evaluations"], done, total, time.time() - t0))
    return 0
