"""./check replay <path>: re-run exactly the input stored in a replay file."""
import importlib, json
from . import common as C, driver


def replay(path):
    r = json.load(open(path))
    pid = r["property"]
    mod = importlib.import_module("vlib.props." + pid.lower())
    if "input" not in r:
        print("replay %s carries no input (%s): %s" % (path, r.get("kind"), r.get("what")))
        print(json.dumps(r.get("correspondence"), indent=1)[:4000])
        return 1
    part = [p for p in mod.PARTS if p.name == r["part"]][0]
    work = C.Work("replay")
    try:
        C.coq_build()
        fams = [C.FAMILY_FILE[part.family]] if part.family in C.FAMILY_FILE else None
        if hasattr(mod, "build"):
            try:
                b, out = mod.build(part.binary, work, fams=fams)
            except TypeError:
                b, out = mod.build(part.binary, work)
        else:
            b, out = C.build_harness(work, part.binary, fams=fams)
        if b is None:
            print(out)
            return 1
        ev = driver.eval_part(part, b, [{"input": r["input"]}], work, "replay")
        print("input:      ", json.dumps(r["input"]))
        print("observation:", json.dumps(ev["obs"][0]))
        print("oracle:     ", "FAILS" if ev["oracle"] else "holds")
        print("model:      ", "differs from implementation" if ev["corr"] else "agrees with implementation")
        return 1 if (ev["oracle"] or ev["corr"]) else 0
    finally:
        work.close()
