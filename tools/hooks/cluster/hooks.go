//go:build verif

// Verification hook for the cluster package (overlaid at build time as
// cluster/zz_verif_hooks.go; nothing here is committed to the repository and
// nothing existing is changed).
//
// It lets the correspondence harness of C20 run the real SelfManaged
// receiver with mDNS discovery switched off, with a stub in the agent's
// place, and tells the harness when the provider has handled a message.
package cluster

import (
	"context"
	"fmt"
	"sort"

	"github.com/anthdm/hollywood/actor"
)

// VerifProviderEvent is reported each time the provider's Receive returns
// (or panics).
type VerifProviderEvent struct {
	Msg      string      // Go type of the message handled
	Panicked bool        // Receive panicked on it (the panic is re-raised)
	Members  [][2]string // (ID, Host) of SelfManaged.members afterwards, sorted
}

// verifSelfManaged forwards every message to SelfManaged.Receive except
// Started and Stopped, which it handles as SelfManaged does minus
// initAutoDiscovery/startAutoDiscovery (and, on Stopped, minus the shutdown
// of the announcer those would have created).
type verifSelfManaged struct {
	*SelfManaged
	onMsg func(VerifProviderEvent)
}

func (v *verifSelfManaged) snapshot() [][2]string {
	out := make([][2]string, 0, v.members.Len())
	for _, m := range v.members.members {
		out = append(out, [2]string{m.ID, m.Host})
	}
	sort.Slice(out, func(i, j int) bool {
		if out[i][0] != out[j][0] {
			return out[i][0] < out[j][0]
		}
		return out[i][1] < out[j][1]
	})
	return out
}

func (v *verifSelfManaged) Receive(c *actor.Context) {
	s := v.SelfManaged
	typ := fmt.Sprintf("%T", c.Message())
	defer func() {
		r := recover()
		if v.onMsg != nil {
			v.onMsg(VerifProviderEvent{Msg: typ, Panicked: r != nil, Members: v.snapshot()})
		}
		if r != nil {
			panic(r)
		}
	}()
	switch c.Message().(type) {
	case actor.Started:
		// SelfManaged.Receive(Started) ...
		s.ctx, s.cancel = context.WithCancel(context.Background())
		s.pid = c.PID()
		s.members.Add(s.cluster.Member())
		s.sendMembersToAgent()
		s.memberPinger = c.SendRepeat(c.PID(), memberPing{}, memberPingInterval)
		// ... and SelfManaged.start without the two discovery calls
		s.eventSubPID = c.SpawnChildFunc(s.handleEventStream, "event")
		s.cluster.engine.Subscribe(s.eventSubPID)
		for _, member := range s.config.bootstrapMembers {
			memberPID := actor.NewPID(member.ListenAddr, "provider/"+member.ID)
			s.cluster.engine.SendWithSender(memberPID, &Handshake{
				Member: s.cluster.Member(),
			}, c.PID())
		}
	case actor.Stopped:
		s.memberPinger.Stop()
		s.cluster.engine.Unsubscribe(s.eventSubPID)
		s.cancel()
	default:
		s.Receive(c)
	}
}

// VerifStartProvider does what Cluster.Start does for the provider only: the
// given PID stands in for the agent, the self-managed provider runs with
// discovery disabled and reports to onMsg.
func VerifStartProvider(c *Cluster, agent *actor.PID, config SelfManagedConfig, onMsg func(VerifProviderEvent)) *actor.PID {
	c.agentPID = agent
	producer := func() actor.Receiver {
		return &verifSelfManaged{
			SelfManaged: &SelfManaged{
				config:       config,
				cluster:      c,
				members:      NewMemberSet(),
				membersAlive: NewMemberSet(),
			},
			onMsg: onMsg,
		}
	}
	c.providerPID = c.engine.Spawn(producer, "provider", actor.WithID(c.config.id))
	c.isStarted = true
	return c.providerPID
}

// VerifSelfManagedProvider is NewSelfManagedProvider with discovery disabled:
// a Producer to hand to Config.WithProvider, so that Cluster.Start spawns the
// real agent and this provider together.  onMsg as in VerifStartProvider.
func VerifSelfManagedProvider(config SelfManagedConfig, onMsg func(VerifProviderEvent)) Producer {
	return func(c *Cluster) actor.Producer {
		return func() actor.Receiver {
			return &verifSelfManaged{
				SelfManaged: &SelfManaged{
					config:       config,
					cluster:      c,
					members:      NewMemberSet(),
					membersAlive: NewMemberSet(),
				},
				onMsg: onMsg,
			}
		}
	}
}
