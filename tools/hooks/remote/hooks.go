//go:build verif

// Verification hooks for package remote (add-only; overlaid at build time as
// remote/zz_verif_hooks.go, never committed).  They run the unexported
// streamWriter and streamReader against a fake dRPC stream that uses the real
// generated encoding of Envelope, and report panics of the code under test as
// values instead of letting them kill the harness.
package remote

import (
	"context"
	"errors"
	"net"
	"sync"
	"time"

	"github.com/anthdm/hollywood/actor"
	"storj.io/drpc"
)

// VerifDeliver is one message handed to the stream writer (a streamDeliver).
type VerifDeliver struct {
	Target *actor.PID
	Sender *actor.PID
	Msg    any
}

// verifStream is a DRPCRemote_ReceiveStream whose Send marshals the envelope
// with the generated dRPC encoding and keeps the bytes, and whose Recv
// unmarshals the queued byte strings in order and then reports that the
// stream was cancelled (a clean end for streamReader.Receive).
type verifStream struct {
	sent [][]byte
	in   [][]byte
}

func (s *verifStream) Context() context.Context { return context.Background() }
func (s *verifStream) CloseSend() error         { return nil }
func (s *verifStream) Close() error             { return nil }

func (s *verifStream) MsgSend(msg drpc.Message, enc drpc.Encoding) error {
	b, err := enc.Marshal(msg)
	if err != nil {
		return err
	}
	s.sent = append(s.sent, b)
	return nil
}

func (s *verifStream) MsgRecv(msg drpc.Message, enc drpc.Encoding) error {
	if len(s.in) == 0 {
		return context.Canceled
	}
	b := s.in[0]
	s.in = s.in[1:]
	return enc.Unmarshal(b, msg)
}

func (s *verifStream) Send(m *Envelope) error {
	return s.MsgSend(m, drpcEncoding_File_remote_proto{})
}

func (s *verifStream) Recv() (*Envelope, error) {
	m := new(Envelope)
	if err := s.MsgRecv(m, drpcEncoding_File_remote_proto{}); err != nil {
		return nil, err
	}
	return m, nil
}

// verifConn stands in for the TCP connection whose deadline Invoke refreshes.
type verifConn struct{ net.Conn }

func (verifConn) SetDeadline(time.Time) error { return nil }
func (verifConn) Close() error                { return nil }

// VerifWriterInvoke runs streamWriter.Invoke once on the batch and returns the
// marshalled envelopes it sent.  panicked is the recovered panic value, if
// any (in a running node nothing recovers it: the process dies).
func VerifWriterInvoke(e *actor.Engine, batch []VerifDeliver) (wire [][]byte, panicked any) {
	st := &verifStream{}
	w := newStreamWriter(e, actor.NewPID(e.Address(), "verif-router"), "verif:0", nil, 0).(*streamWriter)
	w.stream = st
	w.rawconn = verifConn{}
	msgs := make([]actor.Envelope, len(batch))
	for i, d := range batch {
		msgs[i] = actor.Envelope{Msg: &streamDeliver{target: d.Target, sender: d.Sender, msg: d.Msg}}
	}
	defer func() {
		if v := recover(); v != nil {
			wire, panicked = st.sent, v
		}
	}()
	w.Invoke(msgs)
	return st.sent, nil
}

// VerifReaderReceive runs streamReader.Receive of a reader attached to engine
// e on a stream that yields the given marshalled envelopes.  It returns the
// error Receive returned (nil: the stream ended cleanly) and the recovered
// panic value, if any (in a running node the dRPC server goroutine has no
// recover: the process dies).
func VerifReaderReceive(e *actor.Engine, wire [][]byte) (err error, panicked any) {
	st := &verifStream{in: append([][]byte(nil), wire...)}
	r := newStreamReader(&Remote{engine: e})
	defer func() {
		if v := recover(); v != nil {
			err, panicked = errors.New("panic"), v
		}
	}()
	return r.Receive(st), nil
}

// VerifReaderReceiveConcurrent lets ONE stream reader - Remote.Start registers a
// single streamReader with the dRPC mux, and the server runs Receive on one
// goroutine per inbound stream - serve len(wires) inbound streams at the same
// moment (released together).  A Go panic on one of them is reported as a value;
// a runtime fatal error (concurrent map access) kills the harness process, which
// the driver records as the node dying.
func VerifReaderReceiveConcurrent(e *actor.Engine, wires [][][]byte) (errs []error, panicked any) {
	r := newStreamReader(&Remote{engine: e})
	errs = make([]error, len(wires))
	var wg sync.WaitGroup
	var mu sync.Mutex
	start := make(chan struct{})
	for i := range wires {
		wg.Add(1)
		go func(i int) {
			defer wg.Done()
			defer func() {
				if v := recover(); v != nil {
					mu.Lock()
					panicked = v
					mu.Unlock()
				}
			}()
			st := &verifStream{in: append([][]byte(nil), wires[i]...)}
			<-start
			errs[i] = r.Receive(st)
		}(i)
	}
	close(start)
	wg.Wait()
	return
}
