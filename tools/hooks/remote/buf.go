//go:build verif

package remote

import "github.com/anthdm/hollywood/actor"

// VerifWriterInvokeBuf is VerifWriterInvoke for a writer configured with the
// given reader buffer size (Config.WithBufferSize), 0 = default.
func VerifWriterInvokeBuf(e *actor.Engine, batch []VerifDeliver, buffSize int) (wire [][]byte, panicked any) {
	st := &verifStream{}
	w := newStreamWriter(e, actor.NewPID(e.Address(), "verif-router"), "verif:0", nil, buffSize).(*streamWriter)
	w.stream = st
	w.rawconn = verifConn{}
	msgs := make([]actor.Envelope, len(batch))
	for i, d := range batch {
		msgs[i] = actor.Envelope{Msg: &streamDeliver{target: d.Target, sender: d.Sender, msg: d.Msg}}
	}
	defer func() {
		if v := recover(); v != nil {
			wire, panicked = st.sent, v
		}
	}()
	w.Invoke(msgs)
	return st.sent, nil
}

type verifWriterProc struct{ *streamWriter }

// Start opens the writer's inbox without dialling.
func (v verifWriterProc) Start() { v.inbox.Start(v.streamWriter) }

// VerifSpawnIdleWriter registers a stream writer (fake stream, no dialling) on
// the engine, as the router does for an address it sends to, and returns its PID.
func VerifSpawnIdleWriter(e *actor.Engine, address string) *actor.PID {
	w := newStreamWriter(e, actor.NewPID(e.Address(), "verif-router"), address, nil, 0).(*streamWriter)
	w.stream = &verifStream{}
	w.rawconn = verifConn{}
	return e.SpawnProc(verifWriterProc{w})
}
