//go:build verif

// Hooks of the C17 harness (add-only, overlaid at build time as
// remote/zz_verif_remote17.go, never committed): read access to the router's
// table, to a stream writer's inbox and to the contents of a streamDeliver,
// and the two constructors a stand-in Remoter needs to do what Remote.Start /
// Remote.Send do without opening a listener.
package remote

import (
	"github.com/anthdm/hollywood/actor"
)

// VerifNewRouter is the producer Remote.Start spawns as "router".
func VerifNewRouter(e *actor.Engine) actor.Producer { return newStreamRouter(e, nil, 0) }

// VerifDeliverMsg is the message Remote.Send hands to the router.
func VerifDeliverMsg(target, sender *actor.PID, msg any) any {
	return &streamDeliver{target: target, sender: sender, msg: msg}
}

// VerifDeliverOf opens a streamDeliver (the Message of the DeadLetterEvent
// published for a message that found no stream writer).
func VerifDeliverOf(m any) (d VerifDeliver, ok bool) {
	sd, ok := m.(*streamDeliver)
	if !ok || sd == nil {
		return d, false
	}
	return VerifDeliver{Target: sd.target, Sender: sd.sender, Msg: sd.msg}, true
}

// VerifRouterPID is the PID of the router actor of a started Remote.
func VerifRouterPID(r *Remote) *actor.PID { return r.streamRouterPID }

// VerifRouterHas reports whether the router's streams table has an entry for
// the address (rcv is the router's Receiver).
func VerifRouterHas(rcv actor.Receiver, addr string) (has bool, isRouter bool) {
	sr, ok := rcv.(*streamRouter)
	if !ok {
		return false, false
	}
	_, has = sr.streams[addr]
	return has, true
}

// VerifWriterInbox returns the inbox of a stream writer (nil if p is not one).
func VerifWriterInbox(p actor.Processer) *actor.Inbox {
	w, ok := p.(*streamWriter)
	if !ok {
		return nil
	}
	in, _ := w.inbox.(*actor.Inbox)
	return in
}

// VerifWriterPID is the PID a stream writer for the address registers under.
func VerifWriterPID(e *actor.Engine, addr string) *actor.PID {
	return actor.NewPID(e.Address(), "stream"+"/"+addr)
}
