//go:build verif

// Hooks of the C17 harness (add-only, overlaid at build time as
// remote/zz_verif_remote17.go, never committed): read access to the router's
// table, to a stream writer's inbox and to the contents of a streamDeliver.
// (The two constructors the race harness needs are in tools/hookx/remote/race17.go,
// overlaid in the hvr build only: they call unexported constructors, and a
// change of those must not keep the plain harness from being built.)
package remote

import (
	"github.com/anthdm/hollywood/actor"
)

// VerifDeliver17 is the contents of a streamDeliver.
type VerifDeliver17 struct {
	Target *actor.PID
	Sender *actor.PID
	Msg    any
}

// VerifDeliverOf opens a streamDeliver (the Message of the DeadLetterEvent
// published for a message that found no stream writer).
func VerifDeliverOf(m any) (d VerifDeliver17, ok bool) {
	sd, ok := m.(*streamDeliver)
	if !ok || sd == nil {
		return d, false
	}
	return VerifDeliver17{Target: sd.target, Sender: sd.sender, Msg: sd.msg}, true
}

// VerifRouterPID is the PID of the router actor of a started Remote.
func VerifRouterPID(r *Remote) *actor.PID { return r.streamRouterPID }

// VerifRouterHas reports whether the router's streams table has an entry for
// the address (rcv is the router's Receiver).
func VerifRouterHas(rcv actor.Receiver, addr string) (has bool, isRouter bool) {
	sr, ok := rcv.(*streamRouter)
	if !ok {
		return false, false
	}
	_, has = sr.streams[addr]
	return has, true
}

// VerifWriterInbox returns the inbox of a stream writer (nil if p is not one).
func VerifWriterInbox(p actor.Processer) *actor.Inbox {
	w, ok := p.(*streamWriter)
	if !ok {
		return nil
	}
	in, _ := w.inbox.(*actor.Inbox)
	return in
}

// VerifWriterPID is the PID a stream writer for the address registers under.
func VerifWriterPID(e *actor.Engine, addr string) *actor.PID {
	return actor.NewPID(e.Address(), "stream"+"/"+addr)
}
