//go:build verif

package actor

// Hooks of the C17 harness (add-only, overlaid at build time).

// VerifProc returns the Processer registered under pid, nil if none.
func VerifProc(e *Engine, pid *PID) Processer { return e.Registry.get(pid) }

// VerifReceiver returns the current Receiver of the actor registered under
// pid (nil when pid is not a regular actor).
func VerifReceiver(e *Engine, pid *PID) Receiver {
	p, ok := e.Registry.get(pid).(*process)
	if !ok {
		return nil
	}
	return p.context.receiver
}

// VerifInbox returns the inbox of a regular actor process (nil otherwise).
func VerifInbox(p Processer) *Inbox {
	pr, ok := p.(*process)
	if !ok {
		return nil
	}
	in, _ := pr.inbox.(*Inbox)
	return in
}
