//go:build verif

package actor

// Hook for the C08 harness (family tree08); build tag verif, overlaid at build
// time, adds code only.

// VerifQueueLen returns the number of envelopes queued in the inbox of the
// process registered under pid, or -1 when there is no such process.  The
// harness uses it to see that a stopping ancestor has reached the point where
// it waits for an actor that is already shutting down (its pill sits in that
// actor's queue), instead of sleeping.
func VerifQueueLen(e *Engine, pid *PID) int64 {
	proc := e.Registry.get(pid)
	if proc == nil {
		return -1
	}
	p, ok := proc.(*process)
	if !ok {
		return -1
	}
	in, ok := p.inbox.(*Inbox)
	if !ok {
		return -1
	}
	return in.rb.Len()
}

// VerifChildKeys returns the keys of the children map of the process
// registered under pid (nil when there is no such process), sorted by the
// caller.  Read directly, without a message to the actor, so that it can be
// used when the deterministic scheduler has run a scenario to its end.
func VerifChildKeys(e *Engine, pid *PID) []string {
	proc := e.Registry.get(pid)
	if proc == nil {
		return nil
	}
	p, ok := proc.(*process)
	if !ok {
		return nil
	}
	keys := []string{}
	p.context.children.ForEach(func(k string, _ *PID) { keys = append(keys, k) })
	return keys
}
