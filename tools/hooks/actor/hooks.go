//go:build verif

package actor

import "sync/atomic"

// Hooks for the verification harness (build tag verif; overlaid at build
// time, never part of the repository).  They only add code.

// VerifStatus returns the inbox's scheduling status (0 stopped, 1 starting,
// 2 idle, 3 running).
func (in *Inbox) VerifStatus() int32 { return atomic.LoadInt32(&in.procStatus) }

// VerifLen returns the number of queued envelopes.
func (in *Inbox) VerifLen() int64 { return in.rb.Len() }

// VerifIdle reports whether the actor registered under pid is at rest: not
// registered any more, or its inbox idle with an empty ring (a worker that is
// running, restarting or sleeping keeps the status at running).
func VerifIdle(e *Engine, pid *PID) bool {
	proc := e.Registry.get(pid)
	if proc == nil {
		return true
	}
	p, ok := proc.(*process)
	if !ok {
		return true
	}
	in, ok := p.inbox.(*Inbox)
	if !ok {
		return true
	}
	return atomic.LoadInt32(&in.procStatus) == idle && in.rb.Len() == 0
}

// VerifEventStream returns the PID of the engine's event stream actor.
func VerifEventStream(e *Engine) *PID { return e.eventStream }
