//go:build verif

package actor

import "sync/atomic"

// Hooks for the verification harness (build tag verif; overlaid at build
// time, never part of the repository).  They only add code.

// VerifStatus returns the inbox's scheduling status (0 stopped, 1 starting,
// 2 idle, 3 running).
func (in *Inbox) VerifStatus() int32 { return atomic.LoadInt32(&in.procStatus) }

// VerifLen returns the number of queued envelopes.
func (in *Inbox) VerifLen() int64 { return in.rb.Len() }
