//go:build verif

package actor

// Hooks for the C10/C11 harness families (build tag verif; overlaid at build
// time, never part of the repository).  They only add code.

// VerifNewRegistry builds a Registry on an engine that runs no actors of its
// own.  es, if not nil, is registered under its PID and becomes the engine's
// event stream, so that Engine.BroadcastEvent reaches es.Send through the real
// send path (send -> SendLocal -> Registry.get -> Processer.Send).
func VerifNewRegistry(es Processer) *Registry {
	e := &Engine{address: LocalLookupAddr}
	e.Registry = newRegistry(e)
	if es != nil {
		e.Registry.lookup[es.PID().ID] = es
		e.eventStream = es.PID()
	}
	return e.Registry
}

// VerifAdd is Registry.add (what SpawnProc calls).
func (r *Registry) VerifAdd(p Processer) { r.add(p) }

// VerifGet is Registry.get (the lookup of SendLocal and sendPoisonPill).
func (r *Registry) VerifGet(pid *PID) Processer { return r.get(pid) }

// VerifPeek reads the entry without taking the lock: for use under the
// deterministic scheduler only, where exactly one goroutine runs at a time.
func (r *Registry) VerifPeek(id string) Processer { return r.lookup[id] }

// VerifRegistered reports whether some Processer is registered under the
// full id (kind/id) on the engine.
func VerifRegistered(e *Engine, id string) bool { return e.Registry.getByID(id) != nil }
