//go:build verif

package actor

// VerifNewInbox is NewInbox with a throughput budget of the caller's choice (the
// stock value needs more than 300 consecutive batches to reach the yield in run).
func VerifNewInbox(size, throughput int) *Inbox {
	in := NewInbox(size)
	in.scheduler = NewScheduler(throughput)
	return in
}

