//go:build verif

package actor

// Hooks for the actorsched family of the scheduler-shimmed harness (product
// model Actor.v); build tag verif, overlaid at build time, adds code only.

// VerifInboxObjs returns the objects the scheduler shims see when the inbox
// of the process registered under pid is operated on: the address of its
// scheduling status word and its ring.  It reads the registry's map without
// taking the lock (taking it would be a scheduling point): only for use on
// the goroutine the cooperative scheduler is running.  nil, nil when there
// is no such process.
func VerifInboxObjs(e *Engine, pid *PID) (status *int32, ring any) {
	proc, ok := e.Registry.lookup[pid.ID]
	if !ok {
		return nil, nil
	}
	p, ok := proc.(*process)
	if !ok {
		return nil, nil
	}
	in, ok := p.inbox.(*Inbox)
	if !ok {
		return nil, nil
	}
	return &in.procStatus, in.rb
}

// VerifPill reports whether msg is a poison pill, and whether it is a
// graceful one.
func VerifPill(msg any) (isPill, graceful bool) {
	p, ok := msg.(poisonPill)
	return ok, ok && p.graceful
}

// VerifTargetRegistered reports whether pid is in the registry, without taking the
// registry's lock (see VerifInboxObjs).
func VerifTargetRegistered(e *Engine, pid *PID) bool {
	_, ok := e.Registry.lookup[pid.ID]
	return ok
}
