//go:build verif

package ringbuffer

// VerifSnapshot copies the representation of the ring (plain reads; the
// caller is the scheduler controller, no client goroutine runs meanwhile).
func (rb *RingBuffer[T]) VerifSnapshot() (items []T, head, tail, mod, length int64) {
	c := rb.content
	items = append([]T(nil), c.items...)
	return items, c.head, c.tail, c.mod, rb.len
}
