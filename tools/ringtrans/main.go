// ringtrans prints a Coq file (RingSrc.v) holding one GoMini term (coq/GoMini.v) per
// function of ringbuffer/ringbuffer.go: New, Push, Pop, PopN, Len.
//
// It is a purely syntactic, one-to-one mapping of the Go AST to GoMini constructors.  It
// does not simplify, reorder, inline or resolve anything; what a construct means is said
// by GoMini.v.  Whatever is not in the table below is REFUSED (exit code 3, the message
// names the construct and its position): a refusal makes the translation tie of C14
// "unavailable", it never yields a wrong model.
//
//	Go                                      GoMini
//	123, true/false, nil, x                 EInt, EBool, ENil, EVar
//	e.f   e[i]   (e)                        EField, EIndex, e
//	e1 op e2  (+ - * % == != < <= > >=)     EBin
//	-e   int64(e)                           ENeg, EConv
//	atomic.LoadInt64(&e)                    EAtomicLoad e
//	make([]T, e)  make([]int64, e)          EMake TElem e, EMake TInt e
//	&name[T]{f: e, ...}                     ENew "name" [(f, e); ...]
//	x := e    var x T / var x int64         SDefine, SVarZero
//	x = e   e.f = e'   e[i] = e'            SAssign (LVar | LField | LIndex)
//	atomic.AddInt64(&l, e)  as a statement  SAtomicAdd l e
//	recv.mu.Lock() / recv.mu.Unlock()       SLock / SUnlock
//	if c { } [else { } | else if ...]       SIf
//	for i := e0; i < e; i++ { }             SFor i e0 e body
//	return e, ...                           SReturn
//
// Checks beyond the syntax (each is something GoMini's semantics relies on):
//   - struct fields have one of the types int64, []T, *buffer[T], sync.Mutex; receivers
//     are pointers; parameters are T or int64; results are unnamed (pointers and slices
//     are references in GoMini, integers are int64)
//   - no declaration re-uses the name of a variable of an enclosing scope, of a parameter,
//     of a predeclared identifier or of an imported package (GoMini has one flat
//     environment per function body)
//   - every identifier used as a variable is declared
//   - "atomic" is sync/atomic; integer literals are decimal; ringbuffer.go is the only non-test file of its package
//
// usage: ringtrans [-repo DIR] [-o FILE]     (DIR defaults to $VERIF_REPO, then /repo)
package main

import (
	"crypto/sha256"
	"flag"
	"fmt"
	"go/ast"
	"go/parser"
	"go/token"
	"os"
	"path/filepath"
	"strings"
)

var wanted = []struct{ goName, coqName string }{
	{"New", "new_src"}, {"Push", "push_src"}, {"Pop", "pop_src"}, {"PopN", "popN_src"}, {"Len", "len_src"},
}

var reserved = map[string]bool{ // predeclared identifiers of Go: never a variable name here
	"true": true, "false": true, "nil": true, "iota": true, "make": true, "new": true, "len": true, "cap": true,
	"append": true, "copy": true, "clear": true, "delete": true, "min": true, "max": true, "panic": true,
	"recover": true, "print": true, "println": true, "close": true, "complex": true, "real": true, "imag": true,
	"int": true, "int8": true, "int16": true, "int32": true, "int64": true, "uint": true, "uint8": true,
	"uint16": true, "uint32": true, "uint64": true, "uintptr": true, "bool": true, "string": true, "byte": true,
	"rune": true, "float32": true, "float64": true, "any": true, "error": true, "_": true,
}

type translator struct {
	fset    *token.FileSet
	imports map[string]string // local package name -> import path
	tparam  string            // name of the type parameter of the function being translated
	recv    string            // receiver variable ("" for a plain function)
	scopes  []map[string]bool
}

type refusal struct{ msg string }

func (t *translator) refuse(n ast.Node, format string, a ...any) {
	panic(refusal{fmt.Sprintf("%s: %s", t.fset.Position(n.Pos()), fmt.Sprintf(format, a...))})
}

// ---- scopes
func (t *translator) push() { t.scopes = append(t.scopes, map[string]bool{}) }
func (t *translator) pop()  { t.scopes = t.scopes[:len(t.scopes)-1] }
func (t *translator) declared(x string) bool {
	for _, s := range t.scopes {
		if s[x] {
			return true
		}
	}
	return false
}
func (t *translator) declare(id *ast.Ident) string {
	x := id.Name
	if reserved[x] || t.imports[x] != "" {
		t.refuse(id, "declaration of %q, a predeclared identifier or package name", x)
	}
	if t.declared(x) {
		t.refuse(id, "declaration of %q shadows or repeats a variable that is in scope", x)
	}
	t.scopes[len(t.scopes)-1][x] = true
	return x
}

// ---- types
func (t *translator) typeString(e ast.Expr) string {
	switch e := e.(type) {
	case *ast.Ident:
		return e.Name
	case *ast.StarExpr:
		return "*" + t.typeString(e.X)
	case *ast.ArrayType:
		if e.Len == nil {
			return "[]" + t.typeString(e.Elt)
		}
	case *ast.IndexExpr:
		return t.typeString(e.X) + "[" + t.typeString(e.Index) + "]"
	case *ast.SelectorExpr:
		if p, ok := e.X.(*ast.Ident); ok {
			return t.imports[p.Name] + "." + e.Sel.Name
		}
	}
	t.refuse(e, "type expression %T", e)
	return ""
}

// the element type of make([]X, n) / var x X
func (t *translator) elemTy(e ast.Expr) string {
	switch s := t.typeString(e); s {
	case t.tparam:
		return "TElem"
	case "int64":
		return "TInt"
	default:
		t.refuse(e, "element type %s (only the type parameter and int64)", s)
		return ""
	}
}

// ---- expressions
func q(s string) string { return `"` + s + `"` }

var binops = map[token.Token]string{token.ADD: "Add", token.SUB: "Sub", token.MUL: "Mul", token.REM: "Rem",
	token.EQL: "Eq", token.NEQ: "Ne", token.LSS: "Lt", token.LEQ: "Le", token.GTR: "Gt", token.GEQ: "Ge"}

// pkg.Name(...) with pkg an imported package: returns its import path and Name
func (t *translator) pkgCall(c *ast.CallExpr) (string, string) {
	if s, ok := c.Fun.(*ast.SelectorExpr); ok {
		if p, ok := s.X.(*ast.Ident); ok && !t.declared(p.Name) && t.imports[p.Name] != "" {
			return t.imports[p.Name], s.Sel.Name
		}
	}
	return "", ""
}

// &e as the first argument of an atomic operation
func (t *translator) addrOf(e ast.Expr) ast.Expr {
	if u, ok := e.(*ast.UnaryExpr); ok && u.Op == token.AND {
		return u.X
	}
	t.refuse(e, "argument of an atomic operation that is not of the form &x")
	return nil
}

func (t *translator) expr(e ast.Expr) string {
	switch e := e.(type) {
	case *ast.BasicLit:
		// decimal only: 010 is octal in Go and ten in Coq
		if e.Kind == token.INT && strings.Trim(e.Value, "0123456789") == "" && (e.Value == "0" || e.Value[0] != '0') {
			return "(EInt " + e.Value + "%Z)"
		}
		t.refuse(e, "literal %s", e.Value)
	case *ast.Ident:
		switch {
		case t.declared(e.Name):
			return "(EVar " + q(e.Name) + ")"
		case e.Name == "true" || e.Name == "false":
			return "(EBool " + e.Name + ")"
		case e.Name == "nil":
			return "ENil"
		}
		t.refuse(e, "identifier %q that is not a local variable", e.Name)
	case *ast.ParenExpr:
		return t.expr(e.X)
	case *ast.SelectorExpr:
		return "(EField " + t.expr(e.X) + " " + q(e.Sel.Name) + ")"
	case *ast.IndexExpr:
		return "(EIndex " + t.expr(e.X) + " " + t.expr(e.Index) + ")"
	case *ast.BinaryExpr:
		if op, ok := binops[e.Op]; ok {
			return "(EBin " + op + " " + t.expr(e.X) + " " + t.expr(e.Y) + ")"
		}
		t.refuse(e, "binary operator %s", e.Op)
	case *ast.UnaryExpr:
		switch e.Op {
		case token.SUB:
			return "(ENeg " + t.expr(e.X) + ")"
		case token.AND:
			if lit, ok := e.X.(*ast.CompositeLit); ok {
				return t.newStruct(lit)
			}
		}
		t.refuse(e, "unary operator %s here", e.Op)
	case *ast.CallExpr:
		if e.Ellipsis.IsValid() {
			t.refuse(e, "call with ...")
		}
		if path, name := t.pkgCall(e); path != "" {
			if path == "sync/atomic" && name == "LoadInt64" && len(e.Args) == 1 {
				return "(EAtomicLoad " + t.expr(t.addrOf(e.Args[0])) + ")"
			}
			t.refuse(e, "call of %s.%s in an expression", path, name)
		}
		if f, ok := e.Fun.(*ast.Ident); ok && !t.declared(f.Name) {
			switch {
			case f.Name == "int64" && len(e.Args) == 1:
				return "(EConv " + t.expr(e.Args[0]) + ")"
			case f.Name == "make" && len(e.Args) == 2:
				if a, ok := e.Args[0].(*ast.ArrayType); ok && a.Len == nil {
					return "(EMake " + t.elemTy(a.Elt) + " " + t.expr(e.Args[1]) + ")"
				}
				t.refuse(e, "make of something that is not a slice")
			}
			t.refuse(e, "call of %s with %d arguments", f.Name, len(e.Args))
		}
		t.refuse(e, "call of a function or method")
	default:
		t.refuse(e, "expression %T", e)
	}
	return ""
}

// &name[T]{f: e, ...}
func (t *translator) newStruct(lit *ast.CompositeLit) string {
	ty := lit.Type
	if ix, ok := ty.(*ast.IndexExpr); ok {
		if p, ok := ix.Index.(*ast.Ident); !ok || p.Name != t.tparam {
			t.refuse(ty, "instantiation with something else than the type parameter")
		}
		ty = ix.X
	}
	name, ok := ty.(*ast.Ident)
	if !ok {
		t.refuse(lit, "composite literal of type %T", lit.Type)
	}
	var fs []string
	for _, el := range lit.Elts {
		kv, ok := el.(*ast.KeyValueExpr)
		if !ok {
			t.refuse(el, "struct literal element without field name")
		}
		k, ok := kv.Key.(*ast.Ident)
		if !ok {
			t.refuse(kv.Key, "struct literal key %T", kv.Key)
		}
		fs = append(fs, "("+q(k.Name)+", "+t.expr(kv.Value)+")")
	}
	return "(ENew " + q(name.Name) + " [" + strings.Join(fs, "; ") + "])"
}

func (t *translator) lval(e ast.Expr) string {
	switch e := e.(type) {
	case *ast.ParenExpr:
		return t.lval(e.X)
	case *ast.Ident:
		if t.declared(e.Name) {
			return "(LVar " + q(e.Name) + ")"
		}
		t.refuse(e, "assignment to %q, not a local variable", e.Name)
	case *ast.SelectorExpr:
		return "(LField " + t.expr(e.X) + " " + q(e.Sel.Name) + ")"
	case *ast.IndexExpr:
		return "(LIndex " + t.expr(e.X) + " " + t.expr(e.Index) + ")"
	}
	t.refuse(e, "assignment target %T", e)
	return ""
}

// ---- statements
func (t *translator) blockOf(b *ast.BlockStmt, ind string) string {
	t.push()
	defer t.pop()
	if len(b.List) == 0 {
		return "(block [])"
	}
	var ss []string
	for _, s := range b.List {
		ss = append(ss, ind+"  "+t.stmt(s, ind+"  "))
	}
	return "(block [\n" + strings.Join(ss, ";\n") + "\n" + ind + "])"
}

func (t *translator) stmt(s ast.Stmt, ind string) string {
	switch s := s.(type) {
	case *ast.BlockStmt:
		return t.blockOf(s, ind)
	case *ast.ExprStmt:
		c, ok := s.X.(*ast.CallExpr)
		if !ok {
			t.refuse(s, "expression statement %T", s.X)
		}
		if path, name := t.pkgCall(c); path != "" {
			if path == "sync/atomic" && name == "AddInt64" && len(c.Args) == 2 {
				return "SAtomicAdd " + t.lval(t.addrOf(c.Args[0])) + " " + t.expr(c.Args[1])
			}
			t.refuse(s, "call of %s.%s as a statement", path, name)
		}
		// recv.mu.Lock() / recv.mu.Unlock()
		if m, ok := c.Fun.(*ast.SelectorExpr); ok && len(c.Args) == 0 {
			if f, ok := m.X.(*ast.SelectorExpr); ok && f.Sel.Name == "mu" {
				if r, ok := f.X.(*ast.Ident); ok && t.recv != "" && r.Name == t.recv {
					switch m.Sel.Name {
					case "Lock":
						return "SLock"
					case "Unlock":
						return "SUnlock"
					}
				}
			}
		}
		t.refuse(s, "call statement (only mu.Lock, mu.Unlock of the receiver and atomic.AddInt64)")
	case *ast.AssignStmt:
		if len(s.Lhs) != 1 || len(s.Rhs) != 1 {
			t.refuse(s, "assignment with several operands")
		}
		switch s.Tok {
		case token.DEFINE:
			id, ok := s.Lhs[0].(*ast.Ident)
			if !ok {
				t.refuse(s, ":= to %T", s.Lhs[0])
			}
			rhs := t.expr(s.Rhs[0]) // before the declaration: x := x+1 refers to the outer x
			return "SDefine " + q(t.declare(id)) + " " + rhs
		case token.ASSIGN:
			return "SAssign " + t.lval(s.Lhs[0]) + " " + t.expr(s.Rhs[0])
		}
		t.refuse(s, "assignment operator %s", s.Tok)
	case *ast.DeclStmt:
		g, ok := s.Decl.(*ast.GenDecl)
		if !ok || g.Tok != token.VAR || len(g.Specs) != 1 {
			t.refuse(s, "declaration statement other than a single var")
		}
		v := g.Specs[0].(*ast.ValueSpec)
		if len(v.Names) != 1 || len(v.Values) != 0 || v.Type == nil {
			t.refuse(s, "var declaration that is not `var x T`")
		}
		ty := t.elemTy(v.Type)
		return "SVarZero " + q(t.declare(v.Names[0])) + " " + ty
	case *ast.IfStmt:
		if s.Init != nil {
			t.refuse(s, "if with an init statement")
		}
		c := t.expr(s.Cond)
		thn := t.blockOf(s.Body, ind)
		els := "SSkip"
		switch e := s.Else.(type) {
		case nil:
		case *ast.BlockStmt:
			els = t.blockOf(e, ind)
		case *ast.IfStmt:
			els = "(" + t.stmt(e, ind) + ")"
		default:
			t.refuse(s, "else branch %T", e)
		}
		return "SIf " + c + "\n" + ind + "  " + thn + "\n" + ind + "  " + els
	case *ast.ForStmt:
		// for i := e0; i < e; i++ { body }
		init, ok := s.Init.(*ast.AssignStmt)
		if !ok || init.Tok != token.DEFINE || len(init.Lhs) != 1 || len(init.Rhs) != 1 {
			t.refuse(s, "for loop whose init is not `i := e`")
		}
		iv, ok := init.Lhs[0].(*ast.Ident)
		if !ok {
			t.refuse(s, "for loop whose init is not `i := e`")
		}
		e0 := t.expr(init.Rhs[0])
		t.push() // the scope of the loop variable
		defer t.pop()
		i := t.declare(iv)
		cond, ok := s.Cond.(*ast.BinaryExpr)
		if !ok || cond.Op != token.LSS {
			t.refuse(s, "for loop whose condition is not `i < e`")
		}
		if x, ok := cond.X.(*ast.Ident); !ok || x.Name != i {
			t.refuse(s, "for loop whose condition is not `i < e`")
		}
		post, ok := s.Post.(*ast.IncDecStmt)
		if !ok || post.Tok != token.INC {
			t.refuse(s, "for loop whose post statement is not `i++`")
		}
		if x, ok := post.X.(*ast.Ident); !ok || x.Name != i {
			t.refuse(s, "for loop whose post statement is not `i++`")
		}
		bound := t.expr(cond.Y)
		return "SFor " + q(i) + " " + e0 + " " + bound + "\n" + ind + "  " + t.blockOf(s.Body, ind)
	case *ast.ReturnStmt:
		var es []string
		for _, r := range s.Results {
			es = append(es, t.expr(r))
		}
		return "SReturn [" + strings.Join(es, "; ") + "]"
	}
	t.refuse(s, "statement %T", s)
	return ""
}

// ---- declarations
func (t *translator) checkStruct(name string, st *ast.StructType, tparam string) string {
	t.tparam = tparam
	var fs []string
	for _, f := range st.Fields.List {
		if len(f.Names) == 0 || f.Tag != nil {
			t.refuse(f, "embedded or tagged field in struct %s", name)
		}
		ty := t.typeString(f.Type)
		switch ty {
		case "int64", "[]" + tparam, "*buffer[" + tparam + "]", "sync.Mutex":
		default:
			t.refuse(f, "field of type %s in struct %s", ty, name)
		}
		for _, n := range f.Names {
			fs = append(fs, n.Name+" "+ty)
		}
	}
	return name + "{" + strings.Join(fs, "; ") + "}"
}

func typeParam(l *ast.FieldList) string {
	if l == nil || len(l.List) != 1 || len(l.List[0].Names) != 1 {
		return ""
	}
	if c, ok := l.List[0].Type.(*ast.Ident); !ok || c.Name != "any" {
		return ""
	}
	return l.List[0].Names[0].Name
}

func (t *translator) function(fd *ast.FuncDecl, coqName string) string {
	t.scopes, t.recv, t.tparam = nil, "", ""
	t.push()
	var params []string
	if fd.Recv != nil { // (rb *RingBuffer[T])
		r := fd.Recv.List[0]
		st, ok := r.Type.(*ast.StarExpr)
		if !ok || len(r.Names) != 1 {
			t.refuse(fd, "receiver that is not a named pointer")
		}
		ix, ok := st.X.(*ast.IndexExpr)
		if !ok {
			t.refuse(fd, "receiver type without type parameter")
		}
		if p, ok := ix.Index.(*ast.Ident); ok {
			t.tparam = p.Name
		}
		t.recv = t.declare(r.Names[0])
		params = append(params, q(t.recv))
	} else {
		t.tparam = typeParam(fd.Type.TypeParams)
	}
	if t.tparam == "" || reserved[t.tparam] {
		t.refuse(fd, "function without exactly one type parameter `T any`")
	}
	for _, p := range fd.Type.Params.List {
		if ty := t.typeString(p.Type); ty != "int64" && ty != t.tparam {
			t.refuse(p, "parameter of type %s", ty)
		}
		if len(p.Names) == 0 {
			t.refuse(p, "unnamed parameter")
		}
		for _, n := range p.Names {
			params = append(params, q(t.declare(n)))
		}
	}
	if fd.Type.Results != nil {
		for _, r := range fd.Type.Results.List {
			if len(r.Names) != 0 {
				t.refuse(r, "named result")
			}
			t.typeString(r.Type)
		}
	}
	if fd.Body == nil {
		t.refuse(fd, "function without body")
	}
	body := t.blockOf(fd.Body, "  ")
	return fmt.Sprintf("Definition %s : method :=\n  {| m_name := %s; m_params := [%s]; m_body :=\n  %s |}.\n",
		coqName, q(fd.Name.Name), strings.Join(params, "; "), body)
}

func main() {
	repo := os.Getenv("VERIF_REPO")
	if repo == "" {
		repo = "/repo"
	}
	flag.StringVar(&repo, "repo", repo, "checkout of github.com/anthdm/hollywood")
	out := flag.String("o", "", "output file (default: standard output)")
	flag.Parse()
	path := filepath.Join(repo, "ringbuffer", "ringbuffer.go")
	src, err := os.ReadFile(path)
	if err != nil {
		fmt.Fprintln(os.Stderr, "ringtrans:", err)
		os.Exit(2)
	}
	t := &translator{fset: token.NewFileSet(), imports: map[string]string{}}
	// the package must be this one file: a second file could declare methods or variables that are not seen here
	if names, err := filepath.Glob(filepath.Join(repo, "ringbuffer", "*.go")); err == nil {
		for _, n := range names {
			if b := filepath.Base(n); b != "ringbuffer.go" && !strings.HasSuffix(b, "_test.go") {
				fmt.Fprintln(os.Stderr, "ringtrans: refuse: second source file in package ringbuffer:", b)
				os.Exit(3)
			}
		}
	}
	file, err := parser.ParseFile(t.fset, path, src, parser.SkipObjectResolution)
	if err != nil {
		fmt.Fprintln(os.Stderr, "ringtrans: parse error:", err)
		os.Exit(2)
	}
	defer func() {
		if r := recover(); r != nil {
			if rf, ok := r.(refusal); ok {
				fmt.Fprintln(os.Stderr, "ringtrans: refuse:", rf.msg)
				os.Exit(3)
			}
			panic(r)
		}
	}()
	for _, im := range file.Imports {
		p := strings.Trim(im.Path.Value, `"`)
		name := filepath.Base(p)
		if im.Name != nil {
			name = im.Name.Name
		}
		if name == "." || name == "_" {
			t.refuse(im, "dot or blank import")
		}
		t.imports[name] = p
	}
	var b strings.Builder
	fmt.Fprintf(&b, "(* GENERATED by tools/ringtrans from ringbuffer/ringbuffer.go (sha256 %x).\n", sha256.Sum256(src))
	fmt.Fprintf(&b, "   Do not edit and do not commit: it is written afresh by every run of the C14 check. *)\n")
	fmt.Fprintf(&b, "From stdpp Require Import list.\nFrom Coq Require Import ZArith String.\nFrom HV Require Import GoMini.\nOpen Scope string_scope.\n\n")
	funcs := map[string]*ast.FuncDecl{}
	var others []string
	for _, d := range file.Decls {
		switch d := d.(type) {
		case *ast.FuncDecl:
			if funcs[d.Name.Name] != nil {
				t.refuse(d, "second declaration of %s", d.Name.Name)
			}
			funcs[d.Name.Name] = d
		case *ast.GenDecl:
			switch d.Tok {
			case token.IMPORT:
			case token.TYPE:
				for _, sp := range d.Specs {
					ts := sp.(*ast.TypeSpec)
					st, ok := ts.Type.(*ast.StructType)
					tp := typeParam(ts.TypeParams)
					if !ok || tp == "" || ts.Assign.IsValid() {
						t.refuse(ts, "type declaration that is not a struct with one type parameter `T any`")
					}
					fmt.Fprintf(&b, "(* type %s *)\n", t.checkStruct(ts.Name.Name, st, tp))
				}
			default:
				t.refuse(d, "package-level %s declaration", d.Tok)
			}
		}
	}
	b.WriteString("\n")
	for _, w := range wanted {
		fd := funcs[w.goName]
		if fd == nil {
			t.refuse(file, "function %s not found", w.goName)
		}
		if (fd.Recv == nil) != (w.goName == "New") {
			t.refuse(fd, "%s: unexpected receiver", w.goName)
		}
		b.WriteString(t.function(fd, w.coqName))
		b.WriteString("\n")
		delete(funcs, w.goName)
	}
	for n := range funcs {
		others = append(others, n)
	}
	if len(others) > 0 {
		// they cannot be called by the five (every call is refused), so they cannot change what the five do
		fmt.Fprintf(&b, "(* %d other function(s) in the file, not translated and not callable from the above *)\n", len(others))
	}
	if *out == "" {
		fmt.Print(b.String())
	} else if err := os.WriteFile(*out, []byte(b.String()), 0o644); err != nil {
		fmt.Fprintln(os.Stderr, "ringtrans:", err)
		os.Exit(2)
	}
}
