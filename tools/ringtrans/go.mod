module ringtrans

go 1.22
