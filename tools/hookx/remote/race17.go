//go:build verif

// Hooks of the C17 race harness (cmd/hvr) only: the two constructors a stand-in
// Remoter needs to do what Remote.Start / Remote.Send do without opening a
// listener.  Overlaid as remote/zz_verif_race17.go by vlib/props/c17.py in the
// hvr build; add-only, never committed.
package remote

import (
	"github.com/anthdm/hollywood/actor"
)

// VerifNewRouter is the producer Remote.Start spawns as "router".
func VerifNewRouter(e *actor.Engine) actor.Producer { return newStreamRouter(e, nil, 0) }

// VerifDeliverMsg is the message Remote.Send hands to the router.
func VerifDeliverMsg(target, sender *actor.PID, msg any) any {
	return &streamDeliver{target: target, sender: sender, msg: msg}
}
