#!/usr/bin/env python3
"""rewrites the round-4 table of DESIGN.md 0.11 and seeded/caught_by.json from the sweep results under .work/
(later files override earlier ones: the re-sweeps that ran one seed of a property at a time)"""
import json, re, os
V = os.path.dirname(os.path.dirname(os.path.abspath(__file__)))
sw = {}
for f in ("r4sweep.json", "r4b.json", "r4c-A.json", "r4c-B.json", "r5.json"):
    p = os.path.join(V, ".work", f)
    if os.path.exists(p):
        sw.update(json.load(open(p)))
cb = json.load(open(os.path.join(V, "seeded/caught_by.json")))
added = {'C16-r4-1': "missed -> part internal_targets, kind `streams`: 2 / 8 inbound streams at once on a fresh single stream reader, 250 rounds, one message of every linked protobuf type",
         'C19-r4-2': "missed -> links of the in-memory Remoter encode after Send has returned (as the real remote does), class `large_topology_late_joiner` (70+ activations, then a join)"}
added.update(json.load(open(os.path.join(V, ".work", "added.json"))) if os.path.exists(os.path.join(V, ".work", "added.json")) else {})
rows = []
for sid in sorted(sw):
    if not re.search(r"-r[45]-", sid):
        continue
    d = os.path.join(V, "seeded", sid)
    if not os.path.exists(d + "/notes.md"):
        continue
    title = open(d + "/notes.md").read().split("\n", 1)[0]
    title = re.sub(r"^#\s*(C\d\d\s*/?\s*)?([Cc]hange \d\s*-\s*)?", "", title).strip()
    prop = sid[:3]
    r = sw[sid]["checks"][prop]
    reason = [l for l in r["lines"] if l.startswith("REASON")]
    m = re.search(r"part=(\w+)", reason[0]) if reason else None
    part = m.group(1) if m else "?"
    nofail = any("no-failing-input-found" in l for l in r["lines"][:1])
    caught = r["rc"] == 1
    rows.append((sid, title, (prop + " (`" + part + "`)" + (" no-failing-input-found" if nofail else "")) if caught else "**missed**",
                 added.get(sid, "first run")))
    cb[sid] = [(prop + " (part " + part + ")") if caught else "-"] + ([added[sid]] if sid in added else [])
    meta = json.load(open(d + "/meta.json"))
    meta["caught_by"] = cb[sid]
    json.dump(meta, open(d + "/meta.json", "w"), indent=1)
json.dump(cb, open(os.path.join(V, "seeded/caught_by.json"), "w"), indent=1)
tab = "| Seed | Change | Caught by (part that yields the concrete replay) | First run / after |\n|---|---|---|---|\n"
for r in rows:
    tab += "| %s | %s | %s | %s |\n" % r
s = open(os.path.join(V, "DESIGN.md")).read()
a = s.index("| Seed | Change | Caught by (part that yields the concrete replay)")
b = s.index("\n\n", a)
s = s[:a] + tab.rstrip("\n") + s[b:]
open(os.path.join(V, "DESIGN.md"), "w").write(s)
print(len(rows), "rows")
