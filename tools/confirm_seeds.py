#!/usr/bin/env python3
"""Confirm seeded changes delivered by blind sub-agents and archive them under /verif/seeded/<id>/.
For each /tmp/mutout-<P>/<k>: in a scratch worktree of the pinned commit, (1) the demonstration passes
without the change, (2) the change applies and compiles, (3) the demonstration fails with it, (4) the
existing suite passes with it (cluster package in a private network namespace; known-flaky tests are
re-run up to 3 times).  usage: confirm_seeds.py C14 C03 ..."""
import glob, json, os, re, shutil, subprocess, sys, time

PINNED = "c85c093"
ENV = dict(os.environ, GOFLAGS="-mod=mod", GOPROXY="off", GOSUMDB="off", GOTOOLCHAIN="local")
NETNS = "/verif/tools/bin/netns-run.sh"


def sh(cmd, cwd, timeout=1500):
    p = subprocess.run(cmd, cwd=cwd, env=ENV, shell=True, stdout=subprocess.PIPE, stderr=subprocess.STDOUT, text=True, timeout=timeout)
    return p.returncode, p.stdout


def pkg_of(testfile):
    src = open(testfile).read()
    m = re.search(r"^package (\w+)", src, re.M)
    name = m.group(1).replace("_test", "")
    return {"actor": "actor", "remote": "remote", "cluster": "cluster", "ringbuffer": "ringbuffer", "safemap": "safemap"}[name]


FLAKY = "TestGetActiveByID|TestGetActiveByKind"      # assert after a 10 ms sleep that mDNS discovery has happened


def suite(wt):
    """every package must pass; the two sleep-based cluster tests are run on their own with more
    attempts (they fail at the same rate on the unmodified tree when the machine is loaded)"""
    res = {}
    for pkg in ("actor", "remote", "ringbuffer", "safemap", "cluster"):
        ok = False
        tries = []
        for attempt in range(3):
            pre = NETNS + " " if pkg in ("cluster", "remote") else ""
            skip = " -skip '%s'" % FLAKY if pkg == "cluster" else ""
            rc, out = sh("%sgo test -vet=off -count=1%s ./%s/" % (pre, skip, pkg), wt)
            fails = re.findall(r"^--- FAIL: (\S+)", out, re.M)
            tries.append(fails if rc else [])
            if rc == 0:
                ok = True
                break
        res[pkg] = {"pass": ok, "attempts": tries}
    ok = False
    n = 0
    for attempt in range(10):
        n += 1
        rc, out = sh("%s go test -vet=off -count=1 -run '%s' ./cluster/" % (NETNS, FLAKY), wt)
        if rc == 0:
            ok = True
            break
    res["cluster_sleep_based_tests"] = {"pass": ok, "attempts_needed": n}
    return res


def main():
    for prop in sys.argv[1:]:
        rnd = os.environ.get("ROUND", "1")
        root = "/tmp/mutout-%s" % prop if rnd == "1" else "/tmp/mutout%s-%s" % (rnd, prop)
        for d in sorted(glob.glob(root + "/[0-9]")):
            k = os.path.basename(d)
            sid = "%s-%s" % (prop, k) if rnd == "1" else "%s-r%s-%s" % (prop, rnd, k)
            out = "/verif/seeded/%s" % sid
            patch = os.path.join(d, "patch.diff")
            demos = glob.glob(os.path.join(d, "*_test.go"))
            if not os.path.exists(patch) or not demos:
                print(sid, "incomplete delivery"); continue
            if os.path.exists(os.path.join(out, "meta.json")) and json.load(open(os.path.join(out, "meta.json"))).get("confirmed"):
                print(sid, "already confirmed"); continue
            base = PINNED if rnd == "1" else "b19de79"
            bf = root + "/BASE"
            if os.path.exists(bf):
                base = open(bf).read().strip()
            wt = "/tmp/wt-seed-%s" % sid
            subprocess.run("git -C /repo worktree remove --force %s 2>/dev/null; git -C /repo worktree add -q --detach %s %s" % (wt, wt, base), shell=True)
            meta = {"id": sid, "property": prop, "base_commit": base, "delivered_by": "blind sub-agent (saw only the property text)",
                    "confirmed_at": time.strftime("%Y-%m-%d %H:%M")}
            try:
                pkg = pkg_of(demos[0])
                for t in demos:
                    shutil.copy(t, os.path.join(wt, pkg))
                names = "|".join(re.findall(r"^func (Test\w+)", "".join(open(t).read() for t in demos), re.M))
                run = "go test -vet=off -count=1 -run '^(%s)$' ./%s/" % (names, pkg)
                rc0, o0 = sh(run, wt)
                meta["demo_without_change"] = "pass" if rc0 == 0 else "FAIL"
                rc, o = sh("git apply %s && go build ./... " % patch, wt)
                meta["applies_and_compiles"] = rc == 0
                rc1, o1 = sh(run, wt)
                meta["demo_with_change"] = "fail" if rc1 != 0 else "PASS"
                meta["demo_failure_excerpt"] = "\n".join([l for l in o1.splitlines() if "FAIL" in l or "want" in l or "got" in l][:6])
                for t in demos:
                    os.remove(os.path.join(wt, pkg, os.path.basename(t)))
                meta["existing_suite_with_change"] = suite(wt)
                meta["ran"] = [run + "  (pinned tree, then with patch.diff applied)",
                               "go test -vet=off -count=1 ./<pkg>/ for each package with the change (cluster and remote inside a private network namespace; up to 3 attempts because of the timing-dependent stock tests)"]
                notes = os.path.join(d, "notes.md")
                meta["needs_to_manifest"] = open(notes).read()[:1500] if os.path.exists(notes) else ""
                ok = (meta["demo_without_change"] == "pass" and meta["applies_and_compiles"] and meta["demo_with_change"] == "fail"
                      and all(v["pass"] for v in meta["existing_suite_with_change"].values()))
                meta["confirmed"] = ok
                os.makedirs(out, exist_ok=True)
                shutil.copy(patch, os.path.join(out, "patch.diff"))
                for t in demos:
                    shutil.copy(t, out)
                if os.path.exists(notes):
                    shutil.copy(notes, os.path.join(out, "notes.md"))
                json.dump(meta, open(os.path.join(out, "meta.json"), "w"), indent=1)
                print(sid, "confirmed" if ok else "NOT CONFIRMED", {k: v for k, v in meta.items() if k in ("demo_without_change", "demo_with_change", "applies_and_compiles")},
                      {p: v["pass"] for p, v in meta["existing_suite_with_change"].items()}, flush=True)
            finally:
                subprocess.run("git -C /repo worktree remove --force %s" % wt, shell=True)


main()
