// inboxtrans prints a Coq file (InboxSrc.v) holding one CMini term (coq/InboxSrcSem.v) per
// method of *Inbox in actor/inbox.go: Send, schedule, process, run, Start, Stop (and any other
// method of *Inbox these call).
//
// It is a purely syntactic, one-to-one mapping of the Go AST to CMini constructors.  It does
// not simplify, reorder, inline or resolve anything beyond the names of constants; what a
// construct means is said by InboxSrcSem.v.  Whatever is not in the table below is REFUSED
// (exit code 3, the message names the construct and its position): a refusal makes the
// translation tie of C01-C03 "unavailable", it never yields a wrong model.
//
//	Go (recv = the receiver variable)                         CMini
//	recv.rb.Push(p)          p the only parameter             Push
//	v, ok := recv.rb.PopN(K) K an integer constant            PopN K        (as statement or as the init of an if)
//	recv.proc.Invoke(v)      v the first result of PopN       Invoke
//	recv.m()                 m a method of *Inbox             Call "m"
//	recv.scheduler.Schedule(recv.m)                           Spawn "m"     (checked: Schedule(fn) is `go fn()`)
//	recv.proc = p            p the only parameter             SetProc
//	atomic.SwapInt32(&recv.procStatus, S)   as a statement    Swap S
//	atomic.StoreInt32(&recv.procStatus, S)                    Store S
//	runtime.Gosched()                                         Gosched
//	x := e   x = e   x, y := e1, e2   (int locals)            LocSet x e  [; LocSet y e2]  (right-hand sides may not mention the left-hand ones)
//	x++                                                       LocInc x
//	if c { } [else { }]      for c { }                        If c _ _      For c _
//	return   return nil                                       Return
//	conditions:
//	atomic.CompareAndSwapInt32(&recv.procStatus, A, B)        CCas A B
//	atomic.LoadInt32(&recv.procStatus) != S   / == S          CLoadNe S  / CLoadEq S
//	recv.rb.Len() > 0                                         CLenGt0
//	c1 && c2                                                  CAnd c1 c2
//	ok       len(v) > 0      (results of the last PopN)       COk        CBatchNonEmpty
//	e1 > e2  (>= < <= == !=) over int locals                  CLoc Gt e1 e2 ...
//	local expressions: 123, x, recv.scheduler.Throughput()    LConst, LVar, LThroughput
//	S, A, B: the constants stopped, starting, idle, running   Stopped, Starting, Idle, Running
//
// Checks beyond the syntax (each is something the semantics relies on):
//   - the four status constants are declared in one const block as distinct int32 values;
//   - procStatus is the only field accessed through sync/atomic, and it is never accessed otherwise;
//   - NewInbox initialises procStatus with `stopped` and scheduler with NewScheduler(...);
//     NewScheduler returns goscheduler(...); goscheduler.Schedule(fn) is exactly `go fn()`;
//   - no other non-test file of package actor declares a method of Inbox; the rest of the package drives an inbox
//     only as <recv>.inbox.Send(..) anywhere, <recv>.inbox.Start(<recv>) from a method named Start, and
//     <recv>.inbox.Stop() from a method named cleanup (the environment of InboxSrcSem.v);
//   - no break / continue / goto / defer / labelled statement / select / switch / range / closure.
//
// usage: inboxtrans [-repo DIR] [-o FILE]     (DIR defaults to $VERIF_REPO, then /repo)
package main

import (
	"crypto/sha256"
	"flag"
	"fmt"
	"go/ast"
	"go/parser"
	"go/token"
	"os"
	"path/filepath"
	"sort"
	"strconv"
	"strings"
)

type refusal struct{ msg string }

type translator struct {
	fset    *token.FileSet
	imports map[string]string
	consts  map[string]int64  // integer constants of the file
	status  map[string]string // Go constant -> Coq constructor
	methods map[string]*ast.FuncDecl
	// per method
	recv   string
	param  string
	locals map[string]bool
	batchV string
	okV    string
	called map[string]bool
}

func (t *translator) refuse(n ast.Node, format string, a ...any) {
	panic(refusal{fmt.Sprintf("%s: %s", t.fset.Position(n.Pos()), fmt.Sprintf(format, a...))})
}

var statusNames = map[string]string{"stopped": "Stopped", "starting": "Starting", "idle": "Idle", "running": "Running"}

func (t *translator) src(n ast.Node) string {
	var sb strings.Builder
	p := t.fset.Position(n.Pos())
	e := t.fset.Position(n.End())
	data, err := os.ReadFile(p.Filename)
	if err != nil || e.Offset > len(data) {
		return "?"
	}
	sb.Write(data[p.Offset:e.Offset])
	s := sb.String()
	if len(s) > 60 {
		s = s[:60] + "..."
	}
	return strings.ReplaceAll(s, "\n", " ")
}

// ---- recognisers

func sel(e ast.Expr) (x ast.Expr, name string, ok bool) {
	s, ok := e.(*ast.SelectorExpr)
	if !ok {
		return nil, "", false
	}
	return s.X, s.Sel.Name, true
}

func ident(e ast.Expr) string {
	if id, ok := e.(*ast.Ident); ok {
		return id.Name
	}
	return ""
}

// recv.f
func (t *translator) recvField(e ast.Expr) string {
	x, name, ok := sel(e)
	if ok && ident(x) == t.recv {
		return name
	}
	return ""
}

// recv.f.m(args) -> f, m, args
func (t *translator) fieldCall(e ast.Expr) (string, string, []ast.Expr, bool) {
	c, ok := e.(*ast.CallExpr)
	if !ok {
		return "", "", nil, false
	}
	x, m, ok := sel(c.Fun)
	if !ok {
		return "", "", nil, false
	}
	f := t.recvField(x)
	if f == "" {
		return "", "", nil, false
	}
	return f, m, c.Args, true
}

// atomic.F(&recv.procStatus, args...) -> F, args
func (t *translator) atomicCall(e ast.Expr) (string, []ast.Expr, bool) {
	c, ok := e.(*ast.CallExpr)
	if !ok {
		return "", nil, false
	}
	x, f, ok := sel(c.Fun)
	if !ok || ident(x) == "" || t.imports[ident(x)] != "sync/atomic" {
		return "", nil, false
	}
	if len(c.Args) == 0 {
		t.refuse(c, "atomic.%s without arguments", f)
	}
	u, ok := c.Args[0].(*ast.UnaryExpr)
	if !ok || u.Op != token.AND || t.recvField(u.X) != "procStatus" {
		t.refuse(c, "atomic operation on something other than &%s.procStatus: %s", t.recv, t.src(c))
	}
	return f, c.Args[1:], true
}

func (t *translator) statusOf(e ast.Expr) string {
	n := ident(e)
	if s, ok := t.status[n]; ok && n != "" {
		return s
	}
	t.refuse(e, "not one of the status constants stopped/starting/idle/running: %s", t.src(e))
	return ""
}

func (t *translator) intConst(e ast.Expr) (int64, bool) {
	switch v := e.(type) {
	case *ast.BasicLit:
		if v.Kind == token.INT {
			n, err := strconv.ParseInt(v.Value, 10, 64)
			if err == nil {
				return n, true
			}
		}
	case *ast.Ident:
		n, ok := t.consts[v.Name]
		return n, ok
	case *ast.ParenExpr:
		return t.intConst(v.X)
	case *ast.BinaryExpr:
		a, ok1 := t.intConst(v.X)
		b, ok2 := t.intConst(v.Y)
		if ok1 && ok2 {
			switch v.Op {
			case token.MUL:
				return a * b, true
			case token.ADD:
				return a + b, true
			case token.SUB:
				return a - b, true
			}
		}
	}
	return 0, false
}

// ---- local expressions
func (t *translator) lexp(e ast.Expr) string {
	switch v := e.(type) {
	case *ast.BasicLit:
		if n, ok := t.intConst(v); ok {
			return fmt.Sprintf("(LConst %d)", n)
		}
	case *ast.Ident:
		if t.locals[v.Name] {
			return fmt.Sprintf("(LVar %q)", v.Name)
		}
		if n, ok := t.consts[v.Name]; ok {
			return fmt.Sprintf("(LConst %d)", n)
		}
	case *ast.ParenExpr:
		return t.lexp(v.X)
	case *ast.CallExpr:
		if f, m, args, ok := t.fieldCall(v); ok && f == "scheduler" && m == "Throughput" && len(args) == 0 {
			return "LThroughput"
		}
	}
	t.refuse(e, "expression outside the fragment (int literal, int local, %s.scheduler.Throughput()): %s", t.recv, t.src(e))
	return ""
}

func mentions(e ast.Expr, names map[string]bool) bool {
	found := false
	ast.Inspect(e, func(n ast.Node) bool {
		if id, ok := n.(*ast.Ident); ok && names[id.Name] {
			found = true
		}
		return true
	})
	return found
}

// ---- conditions
func (t *translator) cond(e ast.Expr) string {
	switch v := e.(type) {
	case *ast.ParenExpr:
		return t.cond(v.X)
	case *ast.Ident:
		if v.Name == t.okV && t.okV != "" {
			return "COk"
		}
	case *ast.CallExpr:
		if f, args, ok := t.atomicCall(v); ok {
			if f == "CompareAndSwapInt32" && len(args) == 2 {
				return fmt.Sprintf("(CCas %s %s)", t.statusOf(args[0]), t.statusOf(args[1]))
			}
			t.refuse(v, "atomic.%s as a condition", f)
		}
	case *ast.BinaryExpr:
		if v.Op == token.LAND {
			return fmt.Sprintf("(CAnd %s %s)", t.cond(v.X), t.cond(v.Y))
		}
		// atomic.LoadInt32(&recv.procStatus) ==/!= S
		if c, ok := v.X.(*ast.CallExpr); ok {
			if f, args, ok := t.atomicCall(c); ok {
				if f == "LoadInt32" && len(args) == 0 && (v.Op == token.NEQ || v.Op == token.EQL) {
					if v.Op == token.NEQ {
						return fmt.Sprintf("(CLoadNe %s)", t.statusOf(v.Y))
					}
					return fmt.Sprintf("(CLoadEq %s)", t.statusOf(v.Y))
				}
				t.refuse(v, "comparison of atomic.%s outside the fragment: %s", f, t.src(v))
			}
			// recv.rb.Len() > 0
			if f, m, args, ok := t.fieldCall(c); ok && f == "rb" && m == "Len" && len(args) == 0 {
				if n, isc := t.intConst(v.Y); v.Op == token.GTR && isc && n == 0 {
					return "CLenGt0"
				}
				t.refuse(v, "only `%s.rb.Len() > 0` is in the fragment: %s", t.recv, t.src(v))
			}
			// len(msgs) > 0
			if ident(c.Fun) == "len" && len(c.Args) == 1 && ident(c.Args[0]) == t.batchV && t.batchV != "" {
				if n, isc := t.intConst(v.Y); v.Op == token.GTR && isc && n == 0 {
					return "CBatchNonEmpty"
				}
				t.refuse(v, "only `len(%s) > 0` is in the fragment: %s", t.batchV, t.src(v))
			}
		}
		ops := map[token.Token]string{token.GTR: "Gt", token.GEQ: "Ge", token.LSS: "Lt", token.LEQ: "Le", token.EQL: "EqC", token.NEQ: "NeC"}
		if o, ok := ops[v.Op]; ok {
			return fmt.Sprintf("(CLoc %s %s %s)", o, t.lexp(v.X), t.lexp(v.Y))
		}
	}
	t.refuse(e, "condition outside the fragment: %s", t.src(e))
	return ""
}

// ---- statements
func seq(parts []string) string {
	if len(parts) == 0 {
		return "Skip"
	}
	if len(parts) == 1 {
		return parts[0]
	}
	return fmt.Sprintf("(Seq %s %s)", parts[0], seq(parts[1:]))
}

func (t *translator) block(b *ast.BlockStmt) string {
	var parts []string
	for _, s := range b.List {
		parts = append(parts, t.stmt(s))
	}
	return seq(parts)
}

// v, ok := recv.rb.PopN(K)
func (t *translator) popN(s ast.Stmt) (string, bool) {
	a, ok := s.(*ast.AssignStmt)
	if !ok || len(a.Rhs) != 1 {
		return "", false
	}
	f, m, args, ok := t.fieldCall(a.Rhs[0])
	if !ok || f != "rb" || m != "PopN" {
		return "", false
	}
	if a.Tok != token.DEFINE || len(a.Lhs) != 2 || len(args) != 1 || ident(a.Lhs[0]) == "" || ident(a.Lhs[1]) == "" ||
		ident(a.Lhs[0]) == "_" || ident(a.Lhs[1]) == "_" {
		t.refuse(s, "PopN must have the form `v, ok := %s.rb.PopN(K)`: %s", t.recv, t.src(s))
	}
	k, isc := t.intConst(args[0])
	if !isc {
		t.refuse(args[0], "the argument of PopN is not an integer constant: %s", t.src(args[0]))
	}
	if t.batchV != "" || t.locals[ident(a.Lhs[0])] || t.locals[ident(a.Lhs[1])] {
		t.refuse(s, "a second PopN in one method, or its results shadow a local")
	}
	t.batchV, t.okV = ident(a.Lhs[0]), ident(a.Lhs[1])
	return fmt.Sprintf("(PopN %d)", k), true
}

func (t *translator) stmt(s ast.Stmt) string {
	switch v := s.(type) {
	case *ast.ExprStmt:
		c, ok := v.X.(*ast.CallExpr)
		if !ok {
			break
		}
		if f, args, ok := t.atomicCall(c); ok {
			switch {
			case f == "SwapInt32" && len(args) == 1:
				return fmt.Sprintf("(Swap %s)", t.statusOf(args[0]))
			case f == "StoreInt32" && len(args) == 1:
				return fmt.Sprintf("(Store %s)", t.statusOf(args[0]))
			}
			t.refuse(v, "atomic.%s as a statement is outside the fragment (its result would be dropped)", f)
		}
		if f, m, args, ok := t.fieldCall(c); ok {
			switch {
			case f == "rb" && m == "Push" && len(args) == 1 && ident(args[0]) == t.param && t.param != "":
				return "Push"
			case f == "proc" && m == "Invoke" && len(args) == 1 && ident(args[0]) == t.batchV && t.batchV != "":
				return "Invoke"
			case f == "scheduler" && m == "Schedule" && len(args) == 1:
				if name := t.recvField(args[0]); name != "" && t.methods[name] != nil {
					t.called[name] = true
					return fmt.Sprintf("(Spawn %q)", name)
				}
			}
			t.refuse(v, "call outside the fragment: %s", t.src(v))
		}
		if x, m, ok := sel(c.Fun); ok {
			if ident(x) == t.recv && len(c.Args) == 0 && t.methods[m] != nil {
				t.called[m] = true
				return fmt.Sprintf("(Call %q)", m)
			}
			if ident(x) != "" && t.imports[ident(x)] == "runtime" && m == "Gosched" && len(c.Args) == 0 {
				return "Gosched"
			}
		}
		t.refuse(v, "call outside the fragment: %s", t.src(v))
	case *ast.AssignStmt:
		if p, ok := t.popN(v); ok {
			return p
		}
		// recv.proc = p
		if v.Tok == token.ASSIGN && len(v.Lhs) == 1 && len(v.Rhs) == 1 && t.recvField(v.Lhs[0]) == "proc" &&
			ident(v.Rhs[0]) == t.param && t.param != "" {
			return "SetProc"
		}
		if (v.Tok == token.DEFINE || v.Tok == token.ASSIGN) && len(v.Lhs) == len(v.Rhs) {
			lhs := map[string]bool{}
			for _, l := range v.Lhs {
				n := ident(l)
				if n == "" || n == "_" || n == t.recv || n == t.param {
					t.refuse(v, "assignment outside the fragment: %s", t.src(v))
				}
				if v.Tok == token.ASSIGN && !t.locals[n] {
					t.refuse(v, "assignment to something that is not an int local: %s", t.src(v))
				}
				lhs[n] = true
			}
			var parts []string
			for i, l := range v.Lhs {
				if len(v.Lhs) > 1 && mentions(v.Rhs[i], lhs) {
					t.refuse(v, "parallel assignment whose right-hand side mentions a left-hand variable: %s", t.src(v))
				}
				parts = append(parts, fmt.Sprintf("(LocSet %q %s)", ident(l), t.lexp(v.Rhs[i])))
			}
			for n := range lhs {
				t.locals[n] = true
			}
			return seq(parts)
		}
	case *ast.IncDecStmt:
		if v.Tok == token.INC && t.locals[ident(v.X)] {
			return fmt.Sprintf("(LocInc %q)", ident(v.X))
		}
	case *ast.IfStmt:
		var pre []string
		if v.Init != nil {
			p, ok := t.popN(v.Init)
			if !ok {
				t.refuse(v.Init, "if-initialiser outside the fragment (only `v, ok := %s.rb.PopN(K)`): %s", t.recv, t.src(v.Init))
			}
			pre = append(pre, p)
		}
		c := t.cond(v.Cond)
		th := t.block(v.Body)
		el := "Skip"
		switch e := v.Else.(type) {
		case nil:
		case *ast.BlockStmt:
			el = t.block(e)
		case *ast.IfStmt:
			el = t.stmt(e)
		default:
			t.refuse(v.Else, "else branch outside the fragment")
		}
		return seq(append(pre, fmt.Sprintf("(If %s %s %s)", c, th, el)))
	case *ast.ForStmt:
		if v.Init != nil || v.Post != nil || v.Cond == nil {
			t.refuse(v, "only `for cond { }` is in the fragment")
		}
		return fmt.Sprintf("(For %s %s)", t.cond(v.Cond), t.block(v.Body))
	case *ast.ReturnStmt:
		if len(v.Results) == 0 || (len(v.Results) == 1 && ident(v.Results[0]) == "nil") {
			return "Return"
		}
	case *ast.BlockStmt:
		return t.block(v)
	case *ast.EmptyStmt:
		return "Skip"
	}
	t.refuse(s, "statement outside the fragment: %s", t.src(s))
	return ""
}

func (t *translator) method(fd *ast.FuncDecl) string {
	t.recv, t.param, t.batchV, t.okV = "", "", "", ""
	t.locals = map[string]bool{}
	if fd.Recv == nil || len(fd.Recv.List) != 1 || len(fd.Recv.List[0].Names) != 1 {
		t.refuse(fd, "method without a named receiver")
	}
	t.recv = fd.Recv.List[0].Names[0].Name
	np := 0
	for _, f := range fd.Type.Params.List {
		for _, n := range f.Names {
			t.param = n.Name
			np++
		}
		if len(f.Names) == 0 {
			np++
		}
	}
	if np > 1 {
		t.refuse(fd, "method %s has more than one parameter", fd.Name.Name)
	}
	if fd.Type.Results != nil {
		for _, f := range fd.Type.Results.List {
			if len(f.Names) > 0 {
				t.refuse(fd, "named results")
			}
		}
	}
	if fd.Body == nil {
		t.refuse(fd, "method without a body")
	}
	// nothing but the constructs of the table anywhere in the body
	ast.Inspect(fd.Body, func(n ast.Node) bool {
		switch n.(type) {
		case *ast.BranchStmt, *ast.DeferStmt, *ast.GoStmt, *ast.LabeledStmt, *ast.SelectStmt, *ast.SwitchStmt,
			*ast.TypeSwitchStmt, *ast.RangeStmt, *ast.FuncLit, *ast.SendStmt:
			t.refuse(n, "construct outside the fragment: %s", t.src(n))
		}
		return true
	})
	return t.block(fd.Body)
}

// ---- file-level checks
func (t *translator) checkFile(f *ast.File, dir string) {
	// status constants: one const block, int32, iota, four distinct values
	vals := map[string]int64{}
	for _, d := range f.Decls {
		gd, ok := d.(*ast.GenDecl)
		if !ok || gd.Tok != token.CONST {
			continue
		}
		hasIota := false
		for i, sp := range gd.Specs {
			vs := sp.(*ast.ValueSpec)
			for j, n := range vs.Names {
				if len(vs.Values) > j {
					if ident(vs.Values[j]) == "iota" {
						hasIota = true
						if _, isStatus := statusNames[n.Name]; isStatus {
							if ident(vs.Type) != "int32" {
								t.refuse(vs, "status constants must be int32")
							}
						}
						vals[n.Name] = int64(i)
						t.consts[n.Name] = int64(i)
					} else if v, ok := t.intConst(vs.Values[j]); ok {
						t.consts[n.Name] = v
						vals[n.Name] = v
					}
				} else if hasIota && len(vs.Values) == 0 {
					vals[n.Name] = int64(i)
					t.consts[n.Name] = int64(i)
				}
			}
		}
	}
	seen := map[int64]string{}
	for g, c := range statusNames {
		v, ok := vals[g]
		if !ok {
			t.refuse(f, "status constant %s is not declared as an integer constant", g)
		}
		if o, dup := seen[v]; dup {
			t.refuse(f, "status constants %s and %s have the same value", o, g)
		}
		seen[v] = g
		t.status[g] = c
		delete(t.consts, g)
	}
	// goscheduler.Schedule(fn) { go fn() }, NewScheduler returns goscheduler(..), NewInbox
	okSched, okNewSched, okNewInbox := false, false, false
	for _, d := range f.Decls {
		fd, ok := d.(*ast.FuncDecl)
		if !ok || fd.Body == nil {
			continue
		}
		switch {
		case fd.Recv != nil && fd.Name.Name == "Schedule" && recvType(fd) == "goscheduler":
			if len(fd.Body.List) == 1 && len(fd.Type.Params.List) == 1 && len(fd.Type.Params.List[0].Names) == 1 {
				if g, ok := fd.Body.List[0].(*ast.GoStmt); ok && len(g.Call.Args) == 0 &&
					ident(g.Call.Fun) == fd.Type.Params.List[0].Names[0].Name {
					okSched = true
				}
			}
			if !okSched {
				t.refuse(fd, "goscheduler.Schedule is not `go fn()`")
			}
		case fd.Recv == nil && fd.Name.Name == "NewScheduler":
			if len(fd.Body.List) == 1 {
				if r, ok := fd.Body.List[0].(*ast.ReturnStmt); ok && len(r.Results) == 1 {
					if c, ok := r.Results[0].(*ast.CallExpr); ok && ident(c.Fun) == "goscheduler" {
						okNewSched = true
					}
				}
			}
			if !okNewSched {
				t.refuse(fd, "NewScheduler does not return goscheduler(...)")
			}
		case fd.Recv == nil && fd.Name.Name == "NewInbox":
			ast.Inspect(fd.Body, func(n ast.Node) bool {
				cl, ok := n.(*ast.CompositeLit)
				if !ok || ident(cl.Type) != "Inbox" {
					return true
				}
				st, sc := false, false
				for _, e := range cl.Elts {
					kv, ok := e.(*ast.KeyValueExpr)
					if !ok {
						continue
					}
					switch ident(kv.Key) {
					case "procStatus":
						st = ident(kv.Value) == "stopped"
					case "scheduler":
						if c, ok := kv.Value.(*ast.CallExpr); ok && ident(c.Fun) == "NewScheduler" {
							sc = true
						}
					}
				}
				okNewInbox = st && sc
				return true
			})
			if !okNewInbox {
				t.refuse(fd, "NewInbox does not build &Inbox{... scheduler: NewScheduler(...), procStatus: stopped}")
			}
		}
	}
	if !okSched || !okNewSched || !okNewInbox {
		t.refuse(f, "goscheduler.Schedule / NewScheduler / NewInbox not found in inbox.go")
	}
	// no method of Inbox in another file of the package
	others, _ := filepath.Glob(filepath.Join(dir, "*.go"))
	for _, o := range others {
		if strings.HasSuffix(o, "_test.go") || filepath.Base(o) == "inbox.go" {
			continue
		}
		of, err := parser.ParseFile(token.NewFileSet(), o, nil, 0)
		if err != nil {
			continue
		}
		if hasBuildTag(o) {
			continue
		}
		for _, d := range of.Decls {
			if fd, ok := d.(*ast.FuncDecl); ok && fd.Recv != nil && recvType(fd) == "Inbox" {
				t.refuse(f, "method %s of Inbox is declared in %s", fd.Name.Name, filepath.Base(o))
			}
		}
		auditInboxCalls(t, f, of, filepath.Base(o))
	}
}

// auditInboxCalls checks how the rest of package actor drives an inbox (<x>.inbox.M(...)) against
// the environment InboxSrcSem.v fixes: Start is called by the process on itself from its own Start
// method (process.Start: once per incarnation; a call made while the inbox runs is a no-op of the
// CAS and is what the product model Actor.v covers), Stop only from the process's cleanup (the
// inbox is closed once, for good, when the actor ends - never "while it is down for a restart"),
// Send from anywhere.
func auditInboxCalls(t *translator, f *ast.File, g *ast.File, fname string) {
	for _, d := range g.Decls {
		fd, ok := d.(*ast.FuncDecl)
		if !ok || fd.Body == nil {
			continue
		}
		recv := ""
		if fd.Recv != nil && len(fd.Recv.List) == 1 && len(fd.Recv.List[0].Names) == 1 {
			recv = fd.Recv.List[0].Names[0].Name
		}
		ast.Inspect(fd.Body, func(x ast.Node) bool {
			c, ok := x.(*ast.CallExpr)
			if !ok {
				return true
			}
			sel, ok := c.Fun.(*ast.SelectorExpr)
			if !ok {
				return true
			}
			inner, ok := sel.X.(*ast.SelectorExpr)
			if !ok || inner.Sel.Name != "inbox" {
				return true
			}
			switch sel.Sel.Name {
			case "Send":
			case "Start":
				if fd.Name.Name != "Start" || recv == "" || len(c.Args) != 1 || ident(c.Args[0]) != recv || ident(inner.X) != recv {
					t.refuse(f, "%s:%s starts an inbox other than from the owning process's Start method", fname, fd.Name.Name)
				}
			case "Stop":
				if fd.Name.Name != "cleanup" || recv == "" || ident(inner.X) != recv {
					t.refuse(f, "%s:%s stops an inbox outside the owning process's cleanup (the environment of the model closes an inbox once, when the actor ends)", fname, fd.Name.Name)
				}
			default:
				t.refuse(f, "%s:%s calls inbox.%s, which the environment of the model does not know", fname, fd.Name.Name, sel.Sel.Name)
			}
			return true
		})
	}
}

func hasBuildTag(path string) bool {
	data, err := os.ReadFile(path)
	if err != nil {
		return false
	}
	head := string(data)
	if i := strings.Index(head, "package "); i >= 0 {
		head = head[:i]
	}
	return strings.Contains(head, "//go:build") && strings.Contains(head, "verif")
}

func recvType(fd *ast.FuncDecl) string {
	if fd.Recv == nil || len(fd.Recv.List) != 1 {
		return ""
	}
	e := fd.Recv.List[0].Type
	if s, ok := e.(*ast.StarExpr); ok {
		e = s.X
	}
	return ident(e)
}

// procStatus is touched only through sync/atomic (checked syntactically: every selector
// recv.procStatus inside a method of Inbox is the operand of & in an atomic call; the
// composite literal of NewInbox is the only other mention)
func (t *translator) checkStatusAccess(f *ast.File) {
	for _, d := range f.Decls {
		fd, ok := d.(*ast.FuncDecl)
		if !ok || fd.Body == nil {
			continue
		}
		allowed := map[ast.Node]bool{}
		ast.Inspect(fd.Body, func(n ast.Node) bool {
			if c, ok := n.(*ast.CallExpr); ok {
				if x, _, ok := sel(c.Fun); ok && t.imports[ident(x)] == "sync/atomic" && len(c.Args) > 0 {
					if u, ok := c.Args[0].(*ast.UnaryExpr); ok && u.Op == token.AND {
						allowed[u.X] = true
					}
				}
			}
			return true
		})
		ast.Inspect(fd.Body, func(n ast.Node) bool {
			if s, ok := n.(*ast.SelectorExpr); ok && s.Sel.Name == "procStatus" && !allowed[s] {
				t.refuse(s, "procStatus accessed outside sync/atomic in %s", fd.Name.Name)
			}
			return true
		})
	}
}

func main() {
	repo := flag.String("repo", "", "repository root")
	out := flag.String("o", "", "output file (default stdout)")
	flag.Parse()
	if *repo == "" {
		*repo = os.Getenv("VERIF_REPO")
	}
	if *repo == "" {
		*repo = "/repo"
	}
	path := filepath.Join(*repo, "actor", "inbox.go")
	defer func() {
		if r := recover(); r != nil {
			if rf, ok := r.(refusal); ok {
				fmt.Fprintln(os.Stderr, "inboxtrans: REFUSED:", rf.msg)
				os.Exit(3)
			}
			panic(r)
		}
	}()
	data, err := os.ReadFile(path)
	if err != nil {
		fmt.Fprintln(os.Stderr, "inboxtrans:", err)
		os.Exit(2)
	}
	t := &translator{fset: token.NewFileSet(), imports: map[string]string{}, consts: map[string]int64{},
		status: map[string]string{}, methods: map[string]*ast.FuncDecl{}, called: map[string]bool{}}
	f, err := parser.ParseFile(t.fset, path, data, 0)
	if err != nil {
		fmt.Fprintln(os.Stderr, "inboxtrans:", err)
		os.Exit(2)
	}
	for _, im := range f.Imports {
		p, _ := strconv.Unquote(im.Path.Value)
		name := filepath.Base(p)
		if im.Name != nil {
			name = im.Name.Name
		}
		t.imports[name] = p
	}
	t.checkFile(f, filepath.Dir(path))
	t.checkStatusAccess(f)
	for _, d := range f.Decls {
		if fd, ok := d.(*ast.FuncDecl); ok && recvType(fd) == "Inbox" {
			if _, ptr := fd.Recv.List[0].Type.(*ast.StarExpr); !ptr {
				t.refuse(fd, "method %s has a value receiver", fd.Name.Name)
			}
			t.methods[fd.Name.Name] = fd
		}
	}
	required := []string{"Send", "schedule", "process", "run", "Start", "Stop"}
	for _, m := range required {
		if t.methods[m] == nil {
			t.refuse(f, "method %s of *Inbox not found", m)
		}
		t.called[m] = true
	}
	terms := map[string]string{}
	for changed := true; changed; {
		changed = false
		var names []string
		for m := range t.called {
			names = append(names, m)
		}
		sort.Strings(names)
		for _, m := range names {
			if _, done := terms[m]; !done {
				terms[m] = t.method(t.methods[m])
				changed = true
			}
		}
	}
	var names []string
	for m := range terms {
		names = append(names, m)
	}
	sort.Strings(names)
	var sb strings.Builder
	fmt.Fprintf(&sb, "(* generated by tools/inboxtrans from actor/inbox.go (sha256 %x); do not edit *)\n", sha256.Sum256(data))
	sb.WriteString("From Coq Require Import List ZArith String.\nImport ListNotations.\nFrom HV Require Import Inbox InboxSrcSem.\nLocal Open Scope string_scope.\n\n")
	for _, m := range names {
		fmt.Fprintf(&sb, "Definition %s_src : stmt :=\n  %s.\n\n", "m_"+m, terms[m])
	}
	sb.WriteString("Definition src_methods : methods :=\n  [")
	for i, m := range names {
		if i > 0 {
			sb.WriteString(";\n   ")
		}
		fmt.Fprintf(&sb, "(%q, %s_src)", m, "m_"+m)
	}
	sb.WriteString("].\n\n(* NewInbox: procStatus: stopped *)\nDefinition initial_status : status := Stopped.\n")
	if *out == "" {
		fmt.Print(sb.String())
		return
	}
	if err := os.WriteFile(*out, []byte(sb.String()), 0o644); err != nil {
		fmt.Fprintln(os.Stderr, "inboxtrans:", err)
		os.Exit(2)
	}
}
