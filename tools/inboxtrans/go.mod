module inboxtrans

go 1.22
