#!/bin/sh
# usage: tools/ringsrc.sh [repo-dir]
# developer aid for the translation tie of C14: translate <repo>/ringbuffer/ringbuffer.go (default $VERIF_REPO, /repo)
# into GoMini terms and compile coq/RingSrcProofs.v against them, in a scratch directory under .work/ (kept, so that
# one can step through the proof: coqtop/coqide -Q coq HV -Q .work/ringsrc-dev HVSrc).  The check itself does the
# same in vlib/props/c14.py on every run; nothing here is needed by it.
set -eu
V=$(cd "$(dirname "$0")/.." && pwd)
R=${1:-${VERIF_REPO:-/repo}}
D="$V/.work/ringsrc-dev"
export GOFLAGS=-mod=mod GOPROXY=off GOSUMDB=off GOTOOLCHAIN=local
mkdir -p "$D"
(cd "$V/tools/ringtrans" && go build -o "$D/ringtrans" .)
"$D/ringtrans" -repo "$R" -o "$D/RingSrc.v"
cp "$V/coq/RingSrcProofs.v" "$D/"
cd "$D"
timeout 600 coqc -Q "$V/coq" HV -Q . HVSrc RingSrc.v
timeout 1800 coqc -Q "$V/coq" HV -Q . HVSrc RingSrcProofs.v
echo "ok: $D"
