#!/usr/bin/env python3
"""builds every harness family on its own with exactly the hook files FAMILY_HOOKS lists for it"""
import sys, os
sys.path.insert(0, os.path.dirname(os.path.dirname(os.path.abspath(__file__))))
from vlib import common as C
bad = 0
for (binary, f) in sorted(C.FAMILY_HOOKS):
    w = C.Work("fh")
    try:
        stubs, hooks = C.restricted_overlay(binary, [f])
        extra = dict(stubs)
        if binary == "hvs":
            extra.update(C.shim_overlay(w))
        import json, shutil
        open(w.path("go.mod"), "w").write(open(os.path.join(C.HARNESS, "go.mod")).read().replace("=> /repo", "=> " + C.REPO))
        shutil.copy(os.path.join(C.REPO, "go.sum"), w.path("go.sum"))
        ov = C.make_overlay(w, extra, only_hooks=hooks)
        rc, out = C.sh(["go", "build", "-modfile", w.path("go.mod"), "-tags", "verif", "-overlay", ov, "-o", w.path("x"), "./cmd/" + binary],
                       cwd=C.HARNESS, env=dict(C.GOENV), timeout=900)
        print(binary, f, "ok" if rc == 0 else "FAILS:\n" + out[-600:])
        bad += rc != 0
    finally:
        w.close()
sys.exit(1 if bad else 0)
