#!/usr/bin/env python3
"""prints the ids of the checks whose anchored files (properties.jsonl) intersect the files a patch touches"""
import json, re, sys, os
V = os.path.dirname(os.path.dirname(os.path.abspath(__file__)))
touched = set(re.findall(r"^\+\+\+ b/(\S+)", open(sys.argv[1]).read(), re.M))
ids = []
for l in open(os.path.join(V, "properties.jsonl")):
    p = json.loads(l)
    if touched & set(p["anchors"]["files"]):
        ids.append(p["id"])
print(" ".join(ids))
