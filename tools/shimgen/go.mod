module shimgen

go 1.22
