// shimgen copies a Go source file, rewriting chosen import paths (keeping the
// local name, so the body is untouched) and turning every `go f(x)` statement
// into `vsched.Go(func() { f(x) })`.  Nothing else changes: the instrumented
// file is the current source up to scheduling points.
//
//	shimgen -in file.go -out shim.go -map sync/atomic=MOD/verifshim/yatomic,sync=MOD/verifshim/ysync -vsched MOD/verifshim/vsched
package main

import (
	"flag"
	"fmt"
	"go/ast"
	"go/format"
	"go/parser"
	"go/token"
	"os"
	"path"
	"strconv"
	"strings"
)

func main() {
	in := flag.String("in", "", "input file")
	out := flag.String("out", "", "output file")
	maps := flag.String("map", "", "comma separated old=new import paths")
	vs := flag.String("vsched", "", "import path of vsched (enables go-statement rewriting)")
	flag.Parse()
	fset := token.NewFileSet()
	f, err := parser.ParseFile(fset, *in, nil, parser.ParseComments)
	if err != nil {
		fmt.Fprintln(os.Stderr, err)
		os.Exit(1)
	}
	repl := map[string]string{}
	for _, kv := range strings.Split(*maps, ",") {
		if kv == "" {
			continue
		}
		p := strings.SplitN(kv, "=", 2)
		repl[p[0]] = p[1]
	}
	nrew := 0
	for _, im := range f.Imports {
		old, _ := strconv.Unquote(im.Path.Value)
		if nw, ok := repl[old]; ok {
			if im.Name == nil {
				im.Name = ast.NewIdent(path.Base(old))
			}
			im.Path.Value = strconv.Quote(nw)
			nrew++
		}
	}
	ngo := 0
	if *vs != "" {
		ast.Inspect(f, func(n ast.Node) bool {
			var lists []*[]ast.Stmt
			switch b := n.(type) {
			case *ast.BlockStmt:
				lists = append(lists, &b.List)
			case *ast.CaseClause:
				lists = append(lists, &b.Body)
			case *ast.CommClause:
				lists = append(lists, &b.Body)
			}
			for _, l := range lists {
				for i, st := range *l {
					if g, ok := st.(*ast.GoStmt); ok {
						call := &ast.CallExpr{
							Fun: &ast.SelectorExpr{X: ast.NewIdent("vsched"), Sel: ast.NewIdent("Go")},
							Args: []ast.Expr{&ast.FuncLit{
								Type: &ast.FuncType{Params: &ast.FieldList{}},
								Body: &ast.BlockStmt{List: []ast.Stmt{&ast.ExprStmt{X: g.Call}}},
							}},
						}
						(*l)[i] = &ast.ExprStmt{X: call}
						ngo++
					}
				}
			}
			return true
		})
		if ngo > 0 {
			spec := &ast.ImportSpec{Name: ast.NewIdent("vsched"), Path: &ast.BasicLit{Kind: token.STRING, Value: strconv.Quote(*vs)}}
			for _, d := range f.Decls {
				if gd, ok := d.(*ast.GenDecl); ok && gd.Tok == token.IMPORT {
					gd.Specs = append(gd.Specs, spec)
					if !gd.Lparen.IsValid() {
						gd.Lparen = gd.Pos()
						gd.Rparen = gd.End()
					}
					break
				}
			}
		}
	}
	var sb strings.Builder
	if err := format.Node(&sb, fset, f); err != nil {
		fmt.Fprintln(os.Stderr, err)
		os.Exit(1)
	}
	if err := os.WriteFile(*out, []byte(sb.String()), 0o644); err != nil {
		fmt.Fprintln(os.Stderr, err)
		os.Exit(1)
	}
	fmt.Printf("shimgen: %s: %d imports rewritten, %d go statements\n", *in, nrew, ngo)
}
