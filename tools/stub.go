package main
