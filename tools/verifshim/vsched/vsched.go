// Package vsched is a deterministic cooperative scheduler for the goroutines
// of the code under verification.  It exists only in the build overlay of the
// verification harness.  Every shimmed shared-memory operation calls Op before
// it takes effect; exactly one managed goroutine runs between two such points,
// and the controller decides which.
package vsched

import (
	"encoding/json"
	"fmt"
	"hash/fnv"
	"reflect"
	"sort"
	"time"
)

// Event is one executed operation of one goroutine.
type Event struct {
	G    int    `json:"g"`
	Op   string `json:"op"`
	Args []any  `json:"a,omitempty"`
	Res  []any  `json:"r,omitempty"`
	// Obj identifies the object the operation acts on (OpOn): objects are
	// numbered 1, 2, ... in the order in which they are first touched; 0 = none.
	Obj int `json:"o,omitempty"`
}

type pending struct {
	op    string
	args  []any
	guard func() bool
}

type gor struct {
	id     int
	resume chan bool
	pend   *pending
	fresh  bool
	done   bool
	hist   uint64
	nops   int
}

// Sched is one execution under control.
type Sched struct {
	gs      []*gor
	cur     *gor
	yielded chan struct{}
	Trace   []Event
	stuck   bool
	// Describe turns an operation argument (e.g. an Envelope) into something
	// printable and comparable.
	Describe func(any) any
	objs     map[uintptr]int
}

// Active is the execution in progress, nil when code runs unmanaged.
var Active *Sched

type abortT struct{}

// Managed reports whether the caller runs on a managed goroutine.
func Managed() bool { return Active != nil && Active.cur != nil }

// Go starts f as a managed goroutine when an execution is active.
func Go(f func()) {
	s := Active
	if s == nil {
		go f()
		return
	}
	g := &gor{id: len(s.gs), resume: make(chan bool), fresh: true}
	s.gs = append(s.gs, g)
	go func() {
		defer func() {
			if v := recover(); v != nil {
				if _, ok := v.(abortT); !ok {
					panic(v)
				}
			}
			g.done = true
			s.yielded <- struct{}{}
		}()
		if !<-g.resume {
			panic(abortT{})
		}
		f()
	}()
}

// Op is called before a shared-memory operation takes effect.  guard, if not
// nil, must be true for the operation to proceed (a mutex being free).
func Op(op string, guard func() bool, args ...any) {
	s := Active
	if s == nil || s.cur == nil {
		return
	}
	g := s.cur
	if g.fresh {
		g.fresh = false
		if guard == nil || guard() {
			s.begin(g, op, args)
			return
		}
	}
	g.pend = &pending{op: op, args: args, guard: guard}
	s.yielded <- struct{}{}
	if !<-g.resume {
		panic(abortT{})
	}
	g.pend = nil
	s.begin(g, op, args)
}

// OpOn is Op for an operation on the object obj (a pointer): the event also
// records which object it was.  The object id is not part of the goroutine's
// history hash, so fingerprints are the same as with Op.
func OpOn(obj any, op string, guard func() bool, args ...any) {
	s := Active
	if s == nil || s.cur == nil {
		return
	}
	Op(op, guard, args...)
	if n := len(s.Trace); n > 0 {
		s.Trace[n-1].Obj = s.objID(obj, true)
	}
}

func (s *Sched) objID(obj any, create bool) int {
	v := reflect.ValueOf(obj)
	if !v.IsValid() || v.Kind() != reflect.Pointer || v.IsNil() {
		return 0
	}
	p := v.Pointer()
	if id, ok := s.objs[p]; ok {
		return id
	}
	if !create {
		return 0
	}
	if s.objs == nil {
		s.objs = map[uintptr]int{}
	}
	s.objs[p] = len(s.objs) + 1
	return s.objs[p]
}

// ObjID returns the id under which operations on obj were recorded, 0 if none was.
func (s *Sched) ObjID(obj any) int { return s.objID(obj, false) }

func (s *Sched) describe(v any) any {
	if l, ok := v.([]any); ok {
		d := make([]any, len(l))
		for i, a := range l {
			d[i] = s.describe(a)
		}
		return d
	}
	if s.Describe != nil {
		return s.Describe(v)
	}
	return v
}

func (s *Sched) begin(g *gor, op string, args []any) {
	{
		d := make([]any, len(args))
		for i, a := range args {
			d[i] = s.describe(a)
		}
		args = d
	}
	s.Trace = append(s.Trace, Event{G: g.id, Op: op, Args: args})
	g.nops++
	g.hist = mix(g.hist, op, args)
}

// Res records the results of the operation announced by the last Op of the
// running goroutine.
func Res(res ...any) {
	s := Active
	if s == nil || s.cur == nil || len(s.Trace) == 0 {
		return
	}
	{
		d := make([]any, len(res))
		for i, a := range res {
			d[i] = s.describe(a)
		}
		res = d
	}
	e := &s.Trace[len(s.Trace)-1]
	e.Res = res
	s.cur.hist = mix(s.cur.hist, "=", res)
}

func mix(h uint64, op string, v []any) uint64 {
	f := fnv.New64a()
	b, _ := json.Marshal(v)
	fmt.Fprintf(f, "%d|%s|%s", h, op, b)
	return f.Sum64()
}

func (s *Sched) enabled() []*gor {
	var en []*gor
	for _, g := range s.gs {
		if g.done {
			continue
		}
		if g.fresh || g.pend == nil || g.pend.guard == nil || g.pend.guard() {
			en = append(en, g)
		}
	}
	return en
}

func (s *Sched) unfinished() int {
	n := 0
	for _, g := range s.gs {
		if !g.done {
			n++
		}
	}
	return n
}

// stepG lets g run until it parks or finishes.
func (s *Sched) stepG(g *gor) {
	s.cur = g
	g.resume <- true
	select {
	case <-s.yielded:
	case <-time.After(20 * time.Second):
		s.stuck = true
	}
	s.cur = nil
}

func (s *Sched) abortAll() {
	if s.stuck {
		return // a goroutine is blocked outside our control; leak it
	}
	for _, g := range s.gs {
		if !g.done {
			s.cur = g
			g.resume <- false
			<-s.yielded
			s.cur = nil
		}
	}
}

// LocalStates is the multiset of the unfinished goroutines' local states
// (observation history and pending operation), for fingerprints.
func (s *Sched) LocalStates() []string {
	var out []string
	for _, g := range s.gs {
		if g.done {
			continue
		}
		p := "-"
		if g.pend != nil {
			b, _ := json.Marshal(g.pend.args)
			p = g.pend.op + string(b)
		} else if g.fresh {
			p = "fresh"
		}
		out = append(out, fmt.Sprintf("%x:%s", g.hist, p))
	}
	sort.Strings(out)
	return out
}

// Scenario is one configuration to execute: Setup creates the objects and the
// client goroutines (with Go); Fingerprint summarises the shared state;
// Observe is called at the end of an execution.
type Scenario struct {
	Setup       func(s *Sched)
	Fingerprint func(s *Sched) string
	Observe     func(s *Sched, terminal, deadlock bool) any
	Describe    func(any) any
}

// Outcome of one execution.
type Outcome struct {
	Choices  []int   `json:"choices"` // index among enabled goroutines at each step
	Widths   []int   `json:"-"`
	Sched    []int   `json:"sched"` // goroutine id per executed operation
	Trace    []Event `json:"trace"`
	Terminal bool    `json:"terminal"`
	Deadlock bool    `json:"deadlock"`
	Pruned   bool    `json:"pruned"`
	Stuck    bool    `json:"stuck"`
	Obs      any     `json:"obs"`
}

// RunOnce executes the scenario; choose(step, n) picks among n enabled
// goroutines; visited, if not nil, is consulted after every step beyond
// `prefix` steps and the execution is cut when it returns true.
func RunOnce(mk func() Scenario, choose func(step, n int) int, prefix int, visited func(fp string) bool, maxSteps int) Outcome {
	sc := mk()
	s := &Sched{yielded: make(chan struct{}), Describe: sc.Describe}
	Active = s
	defer func() { Active = nil }()
	sc.Setup(s)
	var out Outcome
	step := 0
	for {
		en := s.enabled()
		if len(en) == 0 {
			if s.unfinished() == 0 {
				out.Terminal = true
			} else {
				out.Deadlock = true
			}
			break
		}
		if step >= maxSteps {
			out.Pruned = true
			break
		}
		c := choose(step, len(en))
		if chooseIDs != nil {
			ids := make([]int, len(en))
			for i, g := range en {
				ids[i] = g.id
			}
			c = chooseIDs(step, ids)
		}
		if c < 0 || c >= len(en) {
			c = 0
		}
		out.Choices = append(out.Choices, c)
		out.Widths = append(out.Widths, len(en))
		before := len(s.Trace)
		s.stepG(en[c])
		if s.stuck {
			out.Stuck = true
			break
		}
		for _, e := range s.Trace[before:] {
			out.Sched = append(out.Sched, e.G)
		}
		step++
		if visited != nil && step >= prefix && sc.Fingerprint != nil {
			if visited(sc.Fingerprint(s)) {
				out.Pruned = true
				break
			}
		}
	}
	out.Trace = s.Trace
	if sc.Observe != nil {
		out.Obs = sc.Observe(s, out.Terminal, out.Deadlock)
	}
	s.abortAll()
	return out
}

// Result of an exploration.
type Result struct {
	Executions int       `json:"executions"`
	States     int       `json:"states"`
	Steps      int       `json:"transitions"`
	Terminals  []any     `json:"terminals"` // distinct terminal observations
	Deadlocks  int       `json:"deadlocks"`
	Stuck      int       `json:"stuck"`
	Exhaustive bool      `json:"exhaustive"`
	Samples    []Outcome `json:"samples"` // complete executions kept for replay in the model
	Bad        []Outcome `json:"bad"`     // executions whose observation failed `bad`
}

// Explore enumerates all schedules depth-first with re-execution and
// visited-state pruning, up to maxExecs executions.
func Explore(mk func() Scenario, maxExecs, maxSteps, keep int, bad func(obs any) bool) Result {
	var res Result
	visited := map[string]bool{}
	seenTerm := map[string]bool{}
	var stack, widths []int
	res.Exhaustive = true
	for {
		if res.Executions >= maxExecs {
			res.Exhaustive = false
			break
		}
		prefix := len(stack)
		out := RunOnce(mk, func(step, n int) int {
			if step < len(stack) {
				return stack[step]
			}
			return 0
		}, prefix, func(fp string) bool {
			if visited[fp] {
				return true
			}
			visited[fp] = true
			return false
		}, maxSteps)
		res.Executions++
		res.Steps += len(out.Choices) - prefix + 1
		if out.Stuck {
			res.Stuck++
		}
		if out.Deadlock {
			res.Deadlocks++
		}
		if out.Terminal || out.Deadlock || out.Stuck {
			b, _ := json.Marshal(out.Obs)
			if !seenTerm[string(b)] {
				seenTerm[string(b)] = true
				res.Terminals = append(res.Terminals, out.Obs)
			}
			if len(res.Samples) < keep && out.Terminal {
				res.Samples = append(res.Samples, out)
			}
			if bad != nil && bad(out.Obs) && len(res.Bad) < 3 {
				res.Bad = append(res.Bad, out)
			}
		}
		if out.Pruned && len(out.Choices) >= maxSteps {
			res.Exhaustive = false
		}
		// backtrack
		stack, widths = out.Choices, out.Widths
		for len(stack) > 0 && stack[len(stack)-1]+1 >= widths[len(stack)-1] {
			stack = stack[:len(stack)-1]
		}
		if len(stack) == 0 {
			break
		}
		stack[len(stack)-1]++
		stack = append([]int(nil), stack...)
	}
	res.States = len(visited)
	return res
}

// Walks runs n random schedules drawn from the given generator.
func Walks(mk func() Scenario, n int, rnd func(n int) int, maxSteps, keep int, bad func(obs any) bool) Result {
	var res Result
	seenTerm := map[string]bool{}
	for i := 0; i < n; i++ {
		out := RunOnce(mk, func(step, k int) int { return rnd(k) }, 0, nil, maxSteps)
		res.Executions++
		res.Steps += len(out.Choices)
		if out.Stuck {
			res.Stuck++
		}
		if out.Deadlock {
			res.Deadlocks++
		}
		b, _ := json.Marshal(out.Obs)
		if !seenTerm[string(b)] {
			seenTerm[string(b)] = true
			res.Terminals = append(res.Terminals, out.Obs)
		}
		if len(res.Samples) < keep && out.Terminal {
			res.Samples = append(res.Samples, out)
		}
		if bad != nil && bad(out.Obs) && len(res.Bad) < 3 {
			res.Bad = append(res.Bad, out)
		}
	}
	return res
}

// chooseIDs, when set, overrides the chooser of RunOnce with one that sees the ids of the
// enabled goroutines (used by WalksPCT).
var chooseIDs func(step int, ids []int) int

// WalksPCT runs n schedules drawn by probabilistic concurrency testing (Burckhardt et al.): every
// goroutine gets a random priority when it is first seen, the enabled goroutine of highest
// priority runs, and at depth-1 random steps the running goroutine's priority drops below all
// others.  A bug that needs d ordering constraints is hit with probability >= 1/(n k^(d-1)).
func WalksPCT(mk func() Scenario, n int, rnd func(n int) int, depth, maxSteps, keep int, bad func(obs any) bool) Result {
	var res Result
	seenTerm := map[string]bool{}
	estimate := 200
	for i := 0; i < n; i++ {
		prio := map[int]int{}
		low := 0
		change := map[int]bool{}
		for j := 0; j < depth-1; j++ {
			change[rnd(estimate)] = true
		}
		chooseIDs = func(step int, ids []int) int {
			best, bi := -1<<30, 0
			for i, id := range ids {
				if _, ok := prio[id]; !ok {
					prio[id] = 1000 + rnd(1000000)
				}
				if prio[id] > best {
					best, bi = prio[id], i
				}
			}
			if change[step] {
				low--
				prio[ids[bi]] = low
			}
			return bi
		}
		out := RunOnce(mk, func(step, k int) int { return 0 }, 0, nil, maxSteps)
		chooseIDs = nil
		if len(out.Choices) > estimate/2 {
			estimate = 2 * len(out.Choices)
		}
		res.Executions++
		res.Steps += len(out.Choices)
		if out.Stuck {
			res.Stuck++
		}
		if out.Deadlock {
			res.Deadlocks++
		}
		b, _ := json.Marshal(out.Obs)
		if !seenTerm[string(b)] {
			seenTerm[string(b)] = true
			res.Terminals = append(res.Terminals, out.Obs)
		}
		if len(res.Samples) < keep && out.Terminal {
			res.Samples = append(res.Samples, out)
		}
		if bad != nil && bad(out.Obs) && len(res.Bad) < 3 {
			res.Bad = append(res.Bad, out)
		}
	}
	return res
}

// Replay runs exactly the given choices.
func Replay(mk func() Scenario, choices []int, maxSteps int) Outcome {
	return RunOnce(mk, func(step, n int) int {
		if step < len(choices) {
			return choices[step]
		}
		return 0
	}, 0, nil, maxSteps)
}
