// Package rsync is the mutex shim of the ring-buffer linearizability check
// (C14, concurrent part).  It mirrors sync.Mutex like ysync, with one more
// scheduling point: Unlock releases the mutex and THEN yields, so whatever
// plain code the caller runs after the release (nothing but `return` in the
// pinned ringbuffer.go) is a step of its own that other goroutines can get in
// front of.  Without it code moved behind an Unlock would still execute
// atomically with the last scheduling point inside the critical section.
// Everything else of package sync is passed through.
package rsync

import (
	"sync"

	"github.com/anthdm/hollywood/verifshim/vsched"
)

var Enabled bool

func on() bool { return Enabled && vsched.Managed() }

type Mutex struct {
	real sync.Mutex
	held bool
}

func (m *Mutex) Lock() {
	if !on() {
		m.real.Lock()
		return
	}
	vsched.Op("lock", func() bool { return !m.held })
	m.held = true
	vsched.Res()
}

func (m *Mutex) Unlock() {
	if !on() {
		m.real.Unlock()
		return
	}
	m.held = false
	vsched.Op("unlock", nil)
	vsched.Res()
}

type RWMutex struct {
	real    sync.RWMutex
	writer  bool
	readers int
}

func (m *RWMutex) Lock() {
	if !on() {
		m.real.Lock()
		return
	}
	vsched.Op("lock", func() bool { return !m.writer && m.readers == 0 })
	m.writer = true
	vsched.Res()
}

func (m *RWMutex) Unlock() {
	if !on() {
		m.real.Unlock()
		return
	}
	m.writer = false
	vsched.Op("unlock", nil)
	vsched.Res()
}

func (m *RWMutex) RLock() {
	if !on() {
		m.real.RLock()
		return
	}
	vsched.Op("rlock", func() bool { return !m.writer })
	m.readers++
	vsched.Res()
}

func (m *RWMutex) RUnlock() {
	if !on() {
		m.real.RUnlock()
		return
	}
	m.readers--
	vsched.Op("runlock", nil)
	vsched.Res()
}

type (
	WaitGroup = sync.WaitGroup
	Once      = sync.Once
	Map       = sync.Map
	Pool      = sync.Pool
	Cond      = sync.Cond
	Locker    = sync.Locker
)
