// Package ysync mirrors sync.Mutex / sync.RWMutex; acquiring a lock is a
// scheduling point of vsched (enabled only while the lock is free) when
// Enabled.  Everything else of package sync is passed through.
package ysync

import (
	"sync"

	"github.com/anthdm/hollywood/verifshim/vsched"
)

var Enabled bool

func on() bool { return Enabled && vsched.Managed() }

type Mutex struct {
	real sync.Mutex
	held bool
}

func (m *Mutex) Lock() {
	if !on() {
		m.real.Lock()
		return
	}
	vsched.OpOn(m, "lock", func() bool { return !m.held })
	m.held = true
	vsched.Res()
}

func (m *Mutex) Unlock() {
	if !on() {
		m.real.Unlock()
		return
	}
	m.held = false
}

type RWMutex struct {
	real    sync.RWMutex
	writer  bool
	readers int
}

func (m *RWMutex) Lock() {
	if !on() {
		m.real.Lock()
		return
	}
	vsched.OpOn(m, "lock", func() bool { return !m.writer && m.readers == 0 })
	m.writer = true
	vsched.Res()
}

func (m *RWMutex) Unlock() {
	if !on() {
		m.real.Unlock()
		return
	}
	m.writer = false
}

func (m *RWMutex) RLock() {
	if !on() {
		m.real.RLock()
		return
	}
	vsched.OpOn(m, "rlock", func() bool { return !m.writer })
	m.readers++
	vsched.Res()
}

func (m *RWMutex) RUnlock() {
	if !on() {
		m.real.RUnlock()
		return
	}
	m.readers--
}

type (
	WaitGroup = sync.WaitGroup
	Once      = sync.Once
	Map       = sync.Map
	Pool      = sync.Pool
	Cond      = sync.Cond
	Locker    = sync.Locker
)
