// Package yring wraps ringbuffer.RingBuffer so that each ring operation of
// the inbox is one scheduling point of vsched (the ring itself then runs
// atomically: its own refinement is checked separately).
package yring

import (
	"github.com/anthdm/hollywood/ringbuffer"
	"github.com/anthdm/hollywood/verifshim/vsched"
)

var Enabled bool

func on() bool { return Enabled && vsched.Managed() }

type RingBuffer[T any] struct {
	rb *ringbuffer.RingBuffer[T]
}

func New[T any](size int64) *RingBuffer[T] {
	return &RingBuffer[T]{rb: ringbuffer.New[T](size)}
}

func (r *RingBuffer[T]) Push(item T) {
	if on() {
		vsched.OpOn(r, "push", nil, item)
	}
	r.rb.Push(item)
	if on() {
		vsched.Res()
	}
}

func (r *RingBuffer[T]) Len() int64 {
	if on() {
		vsched.OpOn(r, "len", nil)
	}
	n := r.rb.Len()
	if on() {
		vsched.Res(n)
	}
	return n
}

func (r *RingBuffer[T]) Pop() (T, bool) {
	if on() {
		vsched.OpOn(r, "pop", nil)
	}
	x, ok := r.rb.Pop()
	if on() {
		vsched.Res(x, ok)
	}
	return x, ok
}

func (r *RingBuffer[T]) PopN(n int64) ([]T, bool) {
	if on() {
		vsched.OpOn(r, "popn", nil, n)
	}
	xs, ok := r.rb.PopN(n)
	if on() {
		d := make([]any, len(xs))
		for i := range xs {
			d[i] = xs[i]
		}
		vsched.Res(d, ok)
	}
	return xs, ok
}
