// Package yatomic mirrors the functions of sync/atomic used by the code under
// verification; each operation is a scheduling point of vsched when Enabled.
package yatomic

import (
	"sync/atomic"

	"github.com/anthdm/hollywood/verifshim/vsched"
)

// Enabled switches the yields of this instance of the package on.
var Enabled bool

func on() bool { return Enabled && vsched.Managed() }

func CompareAndSwapInt32(addr *int32, old, new int32) bool {
	if on() {
		vsched.OpOn(addr, "cas", nil, old, new)
	}
	ok := atomic.CompareAndSwapInt32(addr, old, new)
	if on() {
		vsched.Res(ok)
	}
	return ok
}

func LoadInt32(addr *int32) int32 {
	if on() {
		vsched.OpOn(addr, "load", nil)
	}
	v := atomic.LoadInt32(addr)
	if on() {
		vsched.Res(v)
	}
	return v
}

func SwapInt32(addr *int32, new int32) int32 {
	if on() {
		vsched.OpOn(addr, "swap", nil, new)
	}
	v := atomic.SwapInt32(addr, new)
	if on() {
		vsched.Res(v)
	}
	return v
}

func StoreInt32(addr *int32, v int32) {
	if on() {
		vsched.OpOn(addr, "store", nil, v)
	}
	atomic.StoreInt32(addr, v)
	if on() {
		vsched.Res()
	}
}

func AddInt32(addr *int32, d int32) int32 {
	if on() {
		vsched.OpOn(addr, "add", nil, d)
	}
	v := atomic.AddInt32(addr, d)
	if on() {
		vsched.Res(v)
	}
	return v
}

func AddInt64(addr *int64, d int64) int64 {
	if on() {
		vsched.OpOn(addr, "add", nil, d)
	}
	v := atomic.AddInt64(addr, d)
	if on() {
		vsched.Res(v)
	}
	return v
}

func LoadInt64(addr *int64) int64 {
	if on() {
		vsched.OpOn(addr, "load", nil)
	}
	v := atomic.LoadInt64(addr)
	if on() {
		vsched.Res(v)
	}
	return v
}

func StoreInt64(addr *int64, v int64) {
	if on() {
		vsched.OpOn(addr, "store", nil, v)
	}
	atomic.StoreInt64(addr, v)
	if on() {
		vsched.Res()
	}
}

func CompareAndSwapInt64(addr *int64, old, new int64) bool {
	if on() {
		vsched.OpOn(addr, "cas", nil, old, new)
	}
	ok := atomic.CompareAndSwapInt64(addr, old, new)
	if on() {
		vsched.Res(ok)
	}
	return ok
}

// the typed atomics are passed through unchanged
type (
	Uint32 = atomic.Uint32
	Int32  = atomic.Int32
	Int64  = atomic.Int64
	Uint64 = atomic.Uint64
	Bool   = atomic.Bool
	Value  = atomic.Value
)
