// Package ynet stands in for package net in the scheduler-shimmed copy of
// remote/stream_writer.go (the only identifiers that file uses are net.Conn
// and net.Dial).  Dial goes through Dialer when one is installed, so that the
// life cycle of a stream writer can be driven without a network; otherwise it
// is net.Dial.  It exists only in the build overlay of the verification
// harness.
package ynet

import "net"

type Conn = net.Conn

// Dialer, when not nil, replaces net.Dial for the stream writer.
var Dialer func(network, address string) (net.Conn, error)

func Dial(network, address string) (net.Conn, error) {
	if d := Dialer; d != nil {
		return d(network, address)
	}
	return net.Dial(network, address)
}
