// regtrans prints a Coq file (RegSrc.v) holding one LMini term (coq/RegSrcSem.v) per method
// of *Registry in actor/registry.go: add, insert, get, getByID, Remove (and any other method
// of *Registry these call).
//
// It is a purely syntactic, one-to-one mapping of the Go AST to LMini constructors.  It does
// not simplify, reorder, inline or resolve anything; what a construct means is said by
// RegSrcSem.v.  Whatever is not in the table below is REFUSED (exit code 3, the message names
// the construct and its position): a refusal makes the translation tie of C10 "unavailable",
// it never yields a wrong model.
//
//	Go (recv = the receiver; proc / pid / id = the method's parameter)     LMini
//	recv.mu.Lock()   recv.mu.RLock()                                      Lock LkW      Lock LkR
//	recv.mu.Unlock() recv.mu.RUnlock()                                    Unlock LkW    Unlock LkR
//	defer recv.mu.Unlock()   defer recv.mu.RUnlock()                      DeferUnlock LkW / LkR
//	v, ok := recv.lookup[KEY]      (v an identifier or _)                 MapGet2       (as statement or as the init of an if)
//	recv.lookup[KEY] = proc                                               MapSet
//	delete(recv.lookup, KEY)                                              MapDelete
//	x := proc.PID().ID                                                    KeyDef        (x becomes a KEY)
//	return   return true|false   return nil                               RetVoid  RetBool b  RetNil
//	return v           v the first result of the last map read            RetFound
//	return recv.lookup[KEY]                                               RetMapGet
//	proc.Start()                                                          CallStart
//	recv.engine.BroadcastEvent(ActorDuplicateIdEvent{PID: proc.PID()})    Broadcast
//	recv.m(a)          as a statement, m a method of *Registry            CallV "m"
//	if c { } [else { }]                                                   If c _ _
//	conditions:  ok  (second result of the last map read)                 COk
//	             pid == nil                                               CPidNil
//	             recv.m(proc)    m a method of *Registry returning bool   CCallB "m"
//	KEY:  pid.ID | proc.PID().ID | a local defined by x := proc.PID().ID | the string parameter
//
// Checks beyond the syntax (each is something the semantics relies on):
//   - Registry has the fields mu sync.RWMutex and lookup map[string]Processer; newRegistry makes
//     the map empty (make(map[string]Processer[, n]));
//   - every method has a pointer receiver and at most one parameter, of type Processer, *PID or
//     string; a call recv.m(a) passes the caller's own parameter (or, for a string parameter, any
//     string expression over the caller's parameters: the environment of RegSrcSem fixes the id);
//   - lookup and mu are mentioned only in the forms above; no other non-test file of package
//     actor declares a method of Registry or mentions `<something with Registry>.lookup` / `.mu`
//     (type information is not used: this check is by the spelling of the selector chain);
//   - no loop, goto, label, select, switch, closure, go statement;
//   - the rest of package actor uses the registry as the environment of RegSrcSem.v assumes: it calls only
//     add / insert / get / getByID / GetPID / Remove on <x>.Registry; Remove only as <recv>.…Registry.Remove(<recv>.pid)
//     (an entry is deleted by the object it names: process.cleanup, Response.Result); insert only in a function that
//     also calls Start() on the inserted value.
//
// usage: regtrans [-repo DIR] [-o FILE]     (DIR defaults to $VERIF_REPO, then /repo)
package main

import (
	"bytes"
	"crypto/sha256"
	"flag"
	"fmt"
	"go/ast"
	"go/parser"
	"go/printer"
	"go/token"
	"os"
	"path/filepath"
	"sort"
	"strconv"
	"strings"
)

type refusal struct{ msg string }

type method struct {
	fd      *ast.FuncDecl
	ptype   string // "", "Processer", "*PID", "string"
	pname   string
	resBool bool
	resProc bool
}

type translator struct {
	fset    *token.FileSet
	imports map[string]string
	methods map[string]*method
	called  map[string]bool
	// per method
	recv   string
	cur    *method
	keys   map[string]bool // locals holding proc.PID().ID
	okVar  string
	valVar string
	sites  []string // audited call sites in the other files of the package
}

func (t *translator) refuse(n ast.Node, format string, a ...any) {
	panic(refusal{fmt.Sprintf("%s: %s", t.fset.Position(n.Pos()), fmt.Sprintf(format, a...))})
}

func (t *translator) src(n ast.Node) string {
	var b bytes.Buffer
	printer.Fprint(&b, t.fset, n)
	s := b.String()
	if len(s) > 80 {
		s = s[:80] + "..."
	}
	return s
}

func ident(e ast.Expr) string {
	if id, ok := e.(*ast.Ident); ok {
		return id.Name
	}
	return ""
}

func typeString(e ast.Expr) string {
	switch e := e.(type) {
	case *ast.Ident:
		return e.Name
	case *ast.StarExpr:
		return "*" + typeString(e.X)
	case *ast.SelectorExpr:
		return typeString(e.X) + "." + e.Sel.Name
	case *ast.MapType:
		return "map[" + typeString(e.Key) + "]" + typeString(e.Value)
	}
	return "?"
}

// recv.f
func (t *translator) recvField(e ast.Expr) string {
	if s, ok := e.(*ast.SelectorExpr); ok && ident(s.X) == t.recv && t.recv != "" {
		return s.Sel.Name
	}
	return ""
}

// proc.PID()
func (t *translator) isProcPID(e ast.Expr) bool {
	c, ok := e.(*ast.CallExpr)
	if !ok || len(c.Args) != 0 {
		return false
	}
	s, ok := c.Fun.(*ast.SelectorExpr)
	return ok && s.Sel.Name == "PID" && t.cur.ptype == "Processer" && ident(s.X) == t.cur.pname
}

// proc.PID().ID
func (t *translator) isProcID(e ast.Expr) bool {
	s, ok := e.(*ast.SelectorExpr)
	return ok && s.Sel.Name == "ID" && t.isProcPID(s.X)
}

func (t *translator) key(e ast.Expr) {
	if t.isProcID(e) {
		return
	}
	if s, ok := e.(*ast.SelectorExpr); ok && s.Sel.Name == "ID" && t.cur.ptype == "*PID" && ident(s.X) == t.cur.pname {
		return
	}
	if x := ident(e); x != "" && (t.keys[x] || (t.cur.ptype == "string" && x == t.cur.pname)) {
		return
	}
	t.refuse(e, "map key %q is not pid.ID, proc.PID().ID, a local holding it, or the string parameter", t.src(e))
}

// recv.lookup[KEY]
func (t *translator) isLookupIndex(e ast.Expr) bool {
	ix, ok := e.(*ast.IndexExpr)
	if !ok || t.recvField(ix.X) != "lookup" {
		return false
	}
	t.key(ix.Index)
	return true
}

// recv.mu.M()
func (t *translator) muCall(e ast.Expr) string {
	c, ok := e.(*ast.CallExpr)
	if !ok || len(c.Args) != 0 {
		return ""
	}
	s, ok := c.Fun.(*ast.SelectorExpr)
	if !ok || t.recvField(s.X) != "mu" {
		return ""
	}
	return s.Sel.Name
}

// recv.m(a)
func (t *translator) methodCall(e ast.Expr) (string, bool) {
	c, ok := e.(*ast.CallExpr)
	if !ok {
		return "", false
	}
	s, ok := c.Fun.(*ast.SelectorExpr)
	if !ok || ident(s.X) != t.recv {
		return "", false
	}
	m := t.methods[s.Sel.Name]
	if m == nil {
		t.refuse(e, "call of %s, which is not a method of *Registry in registry.go", s.Sel.Name)
	}
	switch m.ptype {
	case "":
		if len(c.Args) != 0 {
			t.refuse(e, "arguments")
		}
	case "string":
		if len(c.Args) != 1 {
			t.refuse(e, "arguments")
		}
		ast.Inspect(c.Args[0], func(n ast.Node) bool {
			if _, bad := n.(*ast.CallExpr); bad {
				t.refuse(n, "call inside a string argument")
			}
			return true
		})
	default:
		if len(c.Args) != 1 || ident(c.Args[0]) != t.cur.pname || t.cur.ptype != m.ptype {
			t.refuse(e, "%s must be passed the caller's own parameter of type %s", s.Sel.Name, m.ptype)
		}
	}
	t.called[s.Sel.Name] = true
	return s.Sel.Name, true
}

func seq(parts []string) string {
	if len(parts) == 0 {
		return "Skip"
	}
	if len(parts) == 1 {
		return parts[0]
	}
	return "(Seq " + parts[0] + " " + seq(parts[1:]) + ")"
}

func (t *translator) block(b *ast.BlockStmt) string {
	var parts []string
	for _, s := range b.List {
		parts = append(parts, t.stmt(s))
	}
	return seq(parts)
}

func lk(name string) string {
	if strings.HasPrefix(name, "R") {
		return "LkR"
	}
	return "LkW"
}

// v, ok := recv.lookup[KEY]
func (t *translator) mapGet2(s ast.Stmt) bool {
	a, ok := s.(*ast.AssignStmt)
	if !ok || a.Tok != token.DEFINE || len(a.Lhs) != 2 || len(a.Rhs) != 1 || !t.isLookupIndex(a.Rhs[0]) {
		return false
	}
	v, k := ident(a.Lhs[0]), ident(a.Lhs[1])
	if v == "" || k == "" || k == "_" {
		t.refuse(s, "left-hand side of a two-result map read")
	}
	if v == t.recv || v == t.cur.pname || k == t.recv || k == t.cur.pname || t.keys[v] || t.keys[k] || v == k {
		t.refuse(s, "two-result map read re-declares a name in use")
	}
	t.valVar, t.okVar = v, k
	return true
}

func (t *translator) cond(e ast.Expr) string {
	if x := ident(e); x != "" && x == t.okVar {
		return "COk"
	}
	if b, ok := e.(*ast.BinaryExpr); ok && b.Op == token.EQL && t.cur.ptype == "*PID" &&
		ident(b.X) == t.cur.pname && ident(b.Y) == "nil" {
		return "CPidNil"
	}
	if m, ok := t.methodCall(e); ok {
		if !t.methods[m].resBool {
			t.refuse(e, "%s does not return bool", m)
		}
		return fmt.Sprintf("(CCallB %q)", m)
	}
	t.refuse(e, "condition %q", t.src(e))
	return ""
}

func (t *translator) stmt(s ast.Stmt) string {
	switch s := s.(type) {
	case *ast.ExprStmt:
		switch t.muCall(s.X) {
		case "Lock", "RLock":
			return "(Lock " + lk(t.muCall(s.X)) + ")"
		case "Unlock", "RUnlock":
			return "(Unlock " + lk(t.muCall(s.X)) + ")"
		}
		c, ok := s.X.(*ast.CallExpr)
		if !ok {
			t.refuse(s, "expression statement %q", t.src(s))
		}
		// delete(recv.lookup, KEY)
		if ident(c.Fun) == "delete" && len(c.Args) == 2 && t.recvField(c.Args[0]) == "lookup" {
			t.key(c.Args[1])
			return "MapDelete"
		}
		if f, ok := c.Fun.(*ast.SelectorExpr); ok {
			// proc.Start()
			if f.Sel.Name == "Start" && len(c.Args) == 0 && t.cur.ptype == "Processer" && ident(f.X) == t.cur.pname {
				return "CallStart"
			}
			// recv.engine.BroadcastEvent(ActorDuplicateIdEvent{PID: proc.PID()})
			if f.Sel.Name == "BroadcastEvent" && t.recvField(f.X) == "engine" && len(c.Args) == 1 {
				if cl, ok := c.Args[0].(*ast.CompositeLit); ok && ident(cl.Type) == "ActorDuplicateIdEvent" && len(cl.Elts) == 1 {
					if kv, ok := cl.Elts[0].(*ast.KeyValueExpr); ok && ident(kv.Key) == "PID" && t.isProcPID(kv.Value) {
						return "Broadcast"
					}
				}
				t.refuse(s, "BroadcastEvent of something other than ActorDuplicateIdEvent{PID: proc.PID()}")
			}
		}
		if m, ok := t.methodCall(s.X); ok {
			return fmt.Sprintf("(CallV %q)", m)
		}
		t.refuse(s, "call %q", t.src(s))
	case *ast.DeferStmt:
		switch t.muCall(s.Call) {
		case "Unlock", "RUnlock":
			return "(DeferUnlock " + lk(t.muCall(s.Call)) + ")"
		}
		t.refuse(s, "defer of %q", t.src(s.Call))
	case *ast.AssignStmt:
		if t.mapGet2(s) {
			return "MapGet2"
		}
		if len(s.Lhs) == 1 && len(s.Rhs) == 1 {
			// recv.lookup[KEY] = proc
			if s.Tok == token.ASSIGN && t.isLookupIndex(s.Lhs[0]) {
				if t.cur.ptype == "Processer" && ident(s.Rhs[0]) == t.cur.pname {
					return "MapSet"
				}
				t.refuse(s, "the value stored in lookup is not the Processer parameter")
			}
			// x := proc.PID().ID
			if s.Tok == token.DEFINE && t.isProcID(s.Rhs[0]) {
				x := ident(s.Lhs[0])
				if x == "" || x == "_" || x == t.recv || x == t.cur.pname || x == t.okVar || x == t.valVar || t.keys[x] {
					t.refuse(s, "declaration of %q", x)
				}
				t.keys[x] = true
				return "KeyDef"
			}
		}
		t.refuse(s, "assignment %q", t.src(s))
	case *ast.IfStmt:
		pre := ""
		if s.Init != nil {
			if !t.mapGet2(s.Init) {
				t.refuse(s.Init, "if-initialiser %q", t.src(s.Init))
			}
			pre = "MapGet2"
		}
		c := t.cond(s.Cond)
		th := t.block(s.Body)
		el := "Skip"
		switch e := s.Else.(type) {
		case nil:
		case *ast.BlockStmt:
			el = t.block(e)
		case *ast.IfStmt:
			el = t.stmt(e)
		default:
			t.refuse(s, "else branch")
		}
		r := fmt.Sprintf("(If %s %s %s)", c, th, el)
		if pre != "" {
			return "(Seq " + pre + " " + r + ")"
		}
		return r
	case *ast.ReturnStmt:
		switch len(s.Results) {
		case 0:
			if t.cur.resBool || t.cur.resProc {
				t.refuse(s, "bare return in a method with a result")
			}
			return "RetVoid"
		case 1:
			e := s.Results[0]
			switch x := ident(e); {
			case t.cur.resBool && (x == "true" || x == "false"):
				return "(RetBool " + x + ")"
			case t.cur.resProc && x == "nil":
				return "RetNil"
			case t.cur.resProc && x != "" && x == t.valVar && x != "_":
				return "RetFound"
			case t.cur.resProc && t.isLookupIndex(e):
				return "RetMapGet"
			}
		}
		t.refuse(s, "return %q", t.src(s))
	case *ast.BlockStmt:
		return t.block(s)
	case *ast.EmptyStmt:
		return "Skip"
	}
	t.refuse(s, "statement %T", s)
	return ""
}

func (t *translator) translate(name string) string {
	m := t.methods[name]
	t.cur, t.keys, t.okVar, t.valVar = m, map[string]bool{}, "", ""
	t.recv = m.fd.Recv.List[0].Names[0].Name
	body := t.block(m.fd.Body)
	// a method without result ends with an implicit return
	if !m.resBool && !m.resProc {
		return body
	}
	return body
}

func recvType(fd *ast.FuncDecl) string {
	if fd.Recv == nil || len(fd.Recv.List) != 1 {
		return ""
	}
	e := fd.Recv.List[0].Type
	if s, ok := e.(*ast.StarExpr); ok {
		e = s.X
	}
	return ident(e)
}

func hasBuildTag(path string) bool {
	data, err := os.ReadFile(path)
	if err != nil {
		return false
	}
	for _, l := range strings.Split(string(data), "\n") {
		l = strings.TrimSpace(l)
		if strings.HasPrefix(l, "//go:build") || strings.HasPrefix(l, "// +build") {
			return true
		}
		if strings.HasPrefix(l, "package ") {
			break
		}
	}
	return false
}

func (t *translator) checkFile(f *ast.File, dir string) {
	// the struct
	found := false
	for _, d := range f.Decls {
		gd, ok := d.(*ast.GenDecl)
		if !ok || gd.Tok != token.TYPE {
			continue
		}
		for _, sp := range gd.Specs {
			ts := sp.(*ast.TypeSpec)
			if ts.Name.Name != "Registry" {
				continue
			}
			st, ok := ts.Type.(*ast.StructType)
			if !ok {
				t.refuse(ts, "Registry is not a struct")
			}
			fields := map[string]string{}
			for _, fl := range st.Fields.List {
				if len(fl.Names) == 0 {
					t.refuse(fl, "embedded field in Registry")
				}
				for _, n := range fl.Names {
					fields[n.Name] = typeString(fl.Type)
				}
			}
			if fields["mu"] != "sync.RWMutex" || t.imports["sync"] != "sync" {
				t.refuse(ts, "Registry.mu is not a sync.RWMutex")
			}
			if fields["lookup"] != "map[string]Processer" {
				t.refuse(ts, "Registry.lookup is not a map[string]Processer")
			}
			found = true
		}
	}
	if !found {
		t.refuse(f, "type Registry not found")
	}
	// newRegistry: lookup: make(map[string]Processer[, n])
	okNew := false
	for _, d := range f.Decls {
		fd, ok := d.(*ast.FuncDecl)
		if !ok || fd.Recv != nil || fd.Name.Name != "newRegistry" {
			continue
		}
		ast.Inspect(fd.Body, func(n ast.Node) bool {
			kv, ok := n.(*ast.KeyValueExpr)
			if !ok || ident(kv.Key) != "lookup" {
				return true
			}
			c, ok := kv.Value.(*ast.CallExpr)
			if ok && ident(c.Fun) == "make" && len(c.Args) >= 1 && typeString(c.Args[0]) == "map[string]Processer" {
				okNew = true
			}
			return true
		})
		// nothing else in newRegistry touches the map
		n := 0
		ast.Inspect(fd.Body, func(x ast.Node) bool {
			if id, ok := x.(*ast.Ident); ok && id.Name == "lookup" {
				n++
			}
			return true
		})
		if n != 1 {
			okNew = false
		}
	}
	if !okNew {
		t.refuse(f, "newRegistry does not initialise lookup with an empty make(map[string]Processer ...)")
	}
	// every mention of lookup / mu in registry.go is inside a method of *Registry (the translation
	// refuses any form it does not know) or in newRegistry / the struct declaration
	for _, d := range f.Decls {
		fd, ok := d.(*ast.FuncDecl)
		if !ok || recvType(fd) == "Registry" || (fd.Recv == nil && fd.Name.Name == "newRegistry") {
			continue
		}
		ast.Inspect(fd, func(x ast.Node) bool {
			if s, ok := x.(*ast.SelectorExpr); ok && (s.Sel.Name == "lookup" || s.Sel.Name == "mu") {
				t.refuse(s, "%s mentions .%s outside the methods of *Registry", fd.Name.Name, s.Sel.Name)
			}
			return true
		})
	}
	// the other files of the package
	entries, err := os.ReadDir(dir)
	if err != nil {
		t.refuse(f, "cannot list %s", dir)
	}
	for _, en := range entries {
		n := en.Name()
		if en.IsDir() || !strings.HasSuffix(n, ".go") || strings.HasSuffix(n, "_test.go") || n == "registry.go" {
			continue
		}
		p := filepath.Join(dir, n)
		if hasBuildTag(p) {
			continue // hook files of the harness are add-only and guarded
		}
		g, err := parser.ParseFile(t.fset, p, nil, 0)
		if err != nil {
			t.refuse(f, "cannot parse %s", n)
		}
		for _, d := range g.Decls {
			if fd, ok := d.(*ast.FuncDecl); ok && recvType(fd) == "Registry" {
				t.refuse(fd, "%s declares a method of Registry", n)
			}
		}
		t.auditCalls(g, n)
		ast.Inspect(g, func(x ast.Node) bool {
			switch x := x.(type) {
			case *ast.SelectorExpr:
				if x.Sel.Name == "lookup" || x.Sel.Name == "mu" {
					if strings.Contains(strings.ToLower(t.src(x.X)), "registry") {
						t.refuse(x, "%s reaches into the registry: %s", n, t.src(x))
					}
				}
			case *ast.CompositeLit:
				if ident(x.Type) == "Registry" {
					t.refuse(x, "%s builds a Registry literal", n)
				}
			}
			return true
		})
	}
}

// auditCalls checks the uses of the registry by the rest of package actor against what the
// environment of RegSrcSem.v assumes: only add / insert / get / getByID / GetPID / Remove are
// called; Remove is called by an object on its OWN pid (recv.pid: process.cleanup,
// Response.Result), i.e. an entry is deleted only by the process it names; insert is followed
// in the same function by <the same value>.Start() (insert + Start = add).
func (t *translator) auditCalls(g *ast.File, fname string) {
	for _, d := range g.Decls {
		fd, ok := d.(*ast.FuncDecl)
		if !ok || fd.Body == nil {
			continue
		}
		recv := ""
		if fd.Recv != nil && len(fd.Recv.List) == 1 && len(fd.Recv.List[0].Names) == 1 {
			recv = fd.Recv.List[0].Names[0].Name
		}
		ast.Inspect(fd.Body, func(x ast.Node) bool {
			c, ok := x.(*ast.CallExpr)
			if !ok {
				return true
			}
			sel, ok := c.Fun.(*ast.SelectorExpr)
			if !ok {
				return true
			}
			inner, ok := sel.X.(*ast.SelectorExpr)
			if !ok || inner.Sel.Name != "Registry" {
				return true
			}
			where := fmt.Sprintf("%s:%s", fname, fd.Name.Name)
			switch sel.Sel.Name {
			case "add", "get", "getByID", "GetPID":
			case "Remove":
				a, ok := c.Args[0].(*ast.SelectorExpr)
				if len(c.Args) != 1 || !ok || a.Sel.Name != "pid" || recv == "" || ident(a.X) != recv {
					t.refuse(c, "%s removes a registry entry that is not its own (%s): the environment of the model lets only the stopped process remove its entry", where, t.src(c))
				}
			case "insert":
				arg := ""
				if len(c.Args) == 1 {
					arg = ident(c.Args[0])
				}
				started := false
				ast.Inspect(fd.Body, func(y ast.Node) bool {
					if cc, ok := y.(*ast.CallExpr); ok && len(cc.Args) == 0 {
						if ss, ok := cc.Fun.(*ast.SelectorExpr); ok && ss.Sel.Name == "Start" && arg != "" && ident(ss.X) == arg {
							started = true
						}
					}
					return true
				})
				if !started {
					t.refuse(c, "%s calls insert without starting the inserted process", where)
				}
			default:
				t.refuse(c, "%s calls Registry.%s, which the environment of the model does not know", where, sel.Sel.Name)
			}
			t.sites = append(t.sites, where+" "+sel.Sel.Name)
			return true
		})
	}
}

func forbid(t *translator, fd *ast.FuncDecl) {
	ast.Inspect(fd.Body, func(n ast.Node) bool {
		switch n.(type) {
		case *ast.ForStmt, *ast.RangeStmt, *ast.GoStmt, *ast.SelectStmt, *ast.SwitchStmt, *ast.TypeSwitchStmt,
			*ast.FuncLit, *ast.LabeledStmt, *ast.BranchStmt:
			t.refuse(n, "%T in method %s", n, fd.Name.Name)
		}
		return true
	})
}

func main() {
	repo := flag.String("repo", "", "repository root")
	out := flag.String("o", "", "output file (default stdout)")
	flag.Parse()
	if *repo == "" {
		*repo = os.Getenv("VERIF_REPO")
	}
	if *repo == "" {
		*repo = "/repo"
	}
	path := filepath.Join(*repo, "actor", "registry.go")
	defer func() {
		if r := recover(); r != nil {
			if rf, ok := r.(refusal); ok {
				fmt.Fprintln(os.Stderr, "regtrans: REFUSED:", rf.msg)
				os.Exit(3)
			}
			panic(r)
		}
	}()
	data, err := os.ReadFile(path)
	if err != nil {
		fmt.Fprintln(os.Stderr, "regtrans:", err)
		os.Exit(2)
	}
	t := &translator{fset: token.NewFileSet(), imports: map[string]string{}, methods: map[string]*method{}, called: map[string]bool{}}
	f, err := parser.ParseFile(t.fset, path, data, 0)
	if err != nil {
		fmt.Fprintln(os.Stderr, "regtrans:", err)
		os.Exit(2)
	}
	for _, im := range f.Imports {
		p, _ := strconv.Unquote(im.Path.Value)
		name := filepath.Base(p)
		if im.Name != nil {
			name = im.Name.Name
		}
		t.imports[name] = p
	}
	t.checkFile(f, filepath.Dir(path))
	for _, d := range f.Decls {
		fd, ok := d.(*ast.FuncDecl)
		if !ok || recvType(fd) != "Registry" {
			continue
		}
		if _, ptr := fd.Recv.List[0].Type.(*ast.StarExpr); !ptr || len(fd.Recv.List[0].Names) != 1 {
			t.refuse(fd, "method %s needs a named pointer receiver", fd.Name.Name)
		}
		m := &method{fd: fd}
		np := 0
		for _, p := range fd.Type.Params.List {
			np += len(p.Names)
			if len(p.Names) == 0 {
				np++
			}
		}
		if fd.Name.Name == "GetPID" {
			continue // GetPID(kind, id) = getByID(kind + sep + id) followed by proc.PID(): not a registry operation of its own
		}
		if np > 1 {
			t.refuse(fd, "method %s has more than one parameter", fd.Name.Name)
		}
		if np == 1 {
			p := fd.Type.Params.List[0]
			if len(p.Names) != 1 {
				t.refuse(fd, "unnamed parameter")
			}
			m.pname, m.ptype = p.Names[0].Name, typeString(p.Type)
			if m.ptype != "Processer" && m.ptype != "*PID" && m.ptype != "string" {
				t.refuse(p, "parameter type %s", m.ptype)
			}
			if m.pname == fd.Recv.List[0].Names[0].Name || m.pname == "_" {
				t.refuse(p, "parameter name")
			}
		}
		if fd.Type.Results != nil {
			if len(fd.Type.Results.List) != 1 || len(fd.Type.Results.List[0].Names) != 0 {
				t.refuse(fd, "results of %s", fd.Name.Name)
			}
			switch typeString(fd.Type.Results.List[0].Type) {
			case "bool":
				m.resBool = true
			case "Processer":
				m.resProc = true
			default:
				t.refuse(fd, "result type of %s", fd.Name.Name)
			}
		}
		forbid(t, fd)
		t.methods[fd.Name.Name] = m
	}
	for _, m := range []string{"add", "get", "getByID", "Remove"} {
		if t.methods[m] == nil {
			t.refuse(f, "method %s of *Registry not found", m)
		}
		t.called[m] = true
	}
	want := map[string]string{"add": "Processer", "get": "*PID", "getByID": "string", "Remove": "*PID"}
	for m, ty := range want {
		if t.methods[m].ptype != ty {
			t.refuse(t.methods[m].fd, "%s takes %q, expected %s", m, t.methods[m].ptype, ty)
		}
	}
	// GetPID must be getByID + PID(): it may not touch the map or the mutex itself
	for _, d := range f.Decls {
		if fd, ok := d.(*ast.FuncDecl); ok && recvType(fd) == "Registry" && fd.Name.Name == "GetPID" {
			ast.Inspect(fd.Body, func(x ast.Node) bool {
				if s, ok := x.(*ast.SelectorExpr); ok && (s.Sel.Name == "lookup" || s.Sel.Name == "mu") {
					t.refuse(s, "GetPID touches .%s itself", s.Sel.Name)
				}
				return true
			})
		}
	}
	terms := map[string]string{}
	for changed := true; changed; {
		changed = false
		var names []string
		for m := range t.called {
			names = append(names, m)
		}
		sort.Strings(names)
		for _, m := range names {
			if _, done := terms[m]; !done {
				terms[m] = t.translate(m)
				changed = true
			}
		}
	}
	var names []string
	for m := range terms {
		names = append(names, m)
	}
	sort.Strings(names)
	var sb strings.Builder
	fmt.Fprintf(&sb, "(* generated by tools/regtrans from actor/registry.go (sha256 %x); do not edit *)\n", sha256.Sum256(data))
	sb.WriteString("From stdpp Require Import list.\nFrom Coq Require Import String.\nFrom HV Require Import Registry RegSrcSem.\nLocal Open Scope string_scope.\n\n")
	for _, m := range names {
		fmt.Fprintf(&sb, "Definition m_%s_src : stmt :=\n  %s.\n\n", m, terms[m])
	}
	sb.WriteString("Definition src_methods : methods :=\n  [")
	for i, m := range names {
		if i > 0 {
			sb.WriteString(";\n   ")
		}
		fmt.Fprintf(&sb, "(%q, m_%s_src)", m, m)
	}
	sb.WriteString("].\n\n(* uses of the registry by the rest of package actor, audited against the environment of RegSrcSem.v:\n")
	sort.Strings(t.sites)
	for _, c := range t.sites {
		sb.WriteString("   " + c + "\n")
	}
	sb.WriteString("*)\n")
	if *out == "" {
		fmt.Print(sb.String())
		return
	}
	if err := os.WriteFile(*out, []byte(sb.String()), 0o644); err != nil {
		fmt.Fprintln(os.Stderr, "regtrans:", err)
		os.Exit(2)
	}
}
