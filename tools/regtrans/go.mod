module regtrans

go 1.22
