#!/bin/sh
# usage: tools/try_seeds.sh <Cxx> [extra checks...]  — runs the owning check (and extras) on each /tmp/mutout-Cxx/k/patch.diff
P=$1; shift
for k in 1 2 3; do
  f=/tmp/mutout-$P/$k/patch.diff
  [ -f /tmp/ported/$P-$k.diff ] && f=/tmp/ported/$P-$k.diff
  echo "#### $P mut $k ($f)"
  /verif/tools/try_patch.sh $f $P "$@" 2>&1 | grep -E "^==|VIOLATION|OK |PATCH" | awk '{print}' | sed 's/replay=.*replays-alt\///' | sort -u | head -8
done
